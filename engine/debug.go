package main

import (
	"go/ast"
	"fmt"
	"os"
	"strings"

	"golang.org/x/tools/go/ssa"
)

func init() {
	register("DBG", func(c *Ctx) {
		spec := os.Getenv("DBG_FN") // pkgrel:Recv:Name
		parts := strings.Split(spec, ":")
		if len(parts) != 3 {
			return
		}
		for _, fn := range c.P.FuncsNamed(parts[0], parts[1], parts[2]) {
			for _, f := range withAnons(fn) {
				f.WriteTo(os.Stdout)
				if os.Getenv("DBG_FACTS") != "" {
					for _, b := range f.Blocks {
						fmt.Printf("  block %d facts: %v\n", b.Index, factStrings(factsAtBlock(b)))
					}
				}
				for _, s := range sitesOf(f) {
					var v ssa.Value
					if vv, ok := s.Instr.(ssa.Value); ok {
						v = vv
					}
					_ = v
					fmt.Printf("  call %s @%s\n", s.CalleeName(), c.P.Pos(s.Pos()))
				}
			}
		}
		c.ok("dbg", "x", "", "")
		c.ok("dbg", "y", "", "")
	})
}

func init() {
	register("CNT", func(c *Ctx) {
		n, syn, anon, inst := 0, 0, 0, 0
		for f := range c.P.AllFuncs {
			n++
			if f.Synthetic != "" {
				syn++
			}
			if f.Parent() != nil {
				anon++
			}
			if f.Origin() != nil {
				inst++
			}
		}
		fmt.Println("module bodies", n, "synthetic", syn, "anon", anon, "inst", inst)
		c.ok("dbg", "x", "", "")
		c.ok("dbg", "y", "", "")
	})
}

func init() {
	register("CNT2", func(c *Ctx) {
		decl, lit := 0, 0
		for _, pk := range c.P.Pkgs {
			for _, f := range pk.Syntax {
				ast.Inspect(f, func(n ast.Node) bool {
					switch x := n.(type) {
					case *ast.FuncDecl:
						if x.Body != nil {
							decl++
						}
					case *ast.FuncLit:
						lit++
					}
					return true
				})
			}
		}
		fmt.Println("ast decls", decl, "lits", lit)
		c.ok("dbg", "x", "", "")
		c.ok("dbg", "y", "", "")
	})
}

func init() {
	register("WARM", func(c *Ctx) {
		c.P.CallGraph()
		c.ok("warm", "load", "", "")
		c.ok("warm", "callgraph", "", "")
	})
}
