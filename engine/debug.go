package main

import (
	"fmt"
	"go/ast"
	"go/types"
	"golang.org/x/tools/go/ssa"
	"os"
	"sort"
	"strings"
)

func init() {
	register("DBG", func(c *Ctx) {
		spec := os.Getenv("DBG_FN") // pkgrel:Recv:Name
		parts := strings.Split(spec, ":")
		if len(parts) != 3 {
			return
		}
		for _, fn := range c.P.FuncsNamed(parts[0], parts[1], parts[2]) {
			for _, f := range withAnons(fn) {
				f.WriteTo(os.Stdout)
				if os.Getenv("DBG_FACTS") != "" {
					for _, b := range f.Blocks {
						fmt.Printf("  block %d facts: %v\n", b.Index, factStrings(factsAtBlock(b)))
					}
				}
				for _, s := range sitesOf(f) {
					var v ssa.Value
					if vv, ok := s.Instr.(ssa.Value); ok {
						v = vv
					}
					_ = v
					fmt.Printf("  call %s @%s\n", s.CalleeName(), c.P.Pos(s.Pos()))
				}
			}
		}
		c.ok("dbg", "x", "", "")
		c.ok("dbg", "y", "", "")
	})
}

func init() {
	register("CNT", func(c *Ctx) {
		n, syn, anon, inst := 0, 0, 0, 0
		for f := range c.P.AllFuncs {
			n++
			if f.Synthetic != "" {
				syn++
			}
			if f.Parent() != nil {
				anon++
			}
			if f.Origin() != nil {
				inst++
			}
		}
		fmt.Println("module bodies", n, "synthetic", syn, "anon", anon, "inst", inst)
		c.ok("dbg", "x", "", "")
		c.ok("dbg", "y", "", "")
	})
}

func init() {
	register("CNT2", func(c *Ctx) {
		decl, lit := 0, 0
		for _, pk := range c.P.Pkgs {
			for _, f := range pk.Syntax {
				ast.Inspect(f, func(n ast.Node) bool {
					switch x := n.(type) {
					case *ast.FuncDecl:
						if x.Body != nil {
							decl++
						}
					case *ast.FuncLit:
						lit++
					}
					return true
				})
			}
		}
		fmt.Println("ast decls", decl, "lits", lit)
		c.ok("dbg", "x", "", "")
		c.ok("dbg", "y", "", "")
	})
}

func init() {
	register("WARM", func(c *Ctx) {
		c.P.CallGraph()
		c.ok("warm", "load", "", "")
		c.ok("warm", "callgraph", "", "")
	})
}

func init() {
	register("EFF", func(c *Ctx) {
		p := c.P
		ci := p.caps()
		r := p.newResolver()
		nilCfg := true
		for _, root := range p.helperClosures(ci, "blockchain") {
			if root.Closure == nil {
				continue
			}
			effs := p.effectsFrom(r, ci, root.Closure, atomicCut(c, nilCfg))
			fmt.Println("==", qname(root.Closure), len(effs), "effects; resolver steps", r.steps)
			agg := map[string][]string{}
			for _, e := range effs {
				k := e.Op + " " + strings.Join(e.Buckets, ",")
				agg[k] = append(agg[k], qname(e.Fn)+"@"+p.Pos(e.Pos))
			}
			var ks []string
			for k := range agg {
				ks = append(ks, k)
			}
			sort.Strings(ks)
			for _, k := range ks {
				v := agg[k]
				if len(v) > 3 {
					v = append(v[:3], fmt.Sprintf("…+%d", len(agg[k])-3))
				}
				fmt.Println("   ", k, "   ", v)
			}
		}
		c.ok("dbg", "x", "", "")
		c.ok("dbg", "y", "", "")
	})
}

func init() {
	register("ATTR", func(c *Ctx) {
		p := c.P
		ci := p.caps()
		r := p.newResolver()
		as := p.allAttributions(r, ci)
		agg := map[string][]string{}
		for _, a := range as {
			if a.Op == "Get" || a.Op == "Has" || a.Op == "Iterate" {
				continue
			}
			k := a.Bucket + " " + a.Op
			agg[k] = append(agg[k], qname(a.Fn))
		}
		var ks []string
		for k := range agg {
			ks = append(ks, k)
		}
		sort.Strings(ks)
		for _, k := range ks {
			v := agg[k]
			sort.Strings(v)
			v = uniq(v)
			fmt.Println(k, "   ", v)
		}
		fmt.Println("steps", r.steps)
		c.ok("dbg", "x", "", "")
		c.ok("dbg", "y", "", "")
	})
}

func init() {
	register("RET", func(c *Ctx) {
		parts := strings.Split(os.Getenv("DBG_FN"), ":")
		for _, fn := range c.P.FuncsNamed(parts[0], parts[1], parts[2]) {
			fmt.Println(qname(fn), "=>", retTerm(fn))
		}
		c.ok("dbg", "x", "", "")
		c.ok("dbg", "y", "", "")
	})
}

func init() {
	register("USUB", func(c *Ctx) {
		pk := os.Getenv("DBG_PKGS")
		c.usubRule("usub", func(fn *ssa.Function) bool {
			for _, p := range strings.Split(pk, ",") {
				if pkgRelOf(fn) == p {
					return true
				}
			}
			return false
		}, nil)
	})
}

func init() {
	register("DNF", func(c *Ctx) {
		parts := strings.Split(os.Getenv("DBG_FN"), ":")
		for _, fn := range c.P.FuncsNamed(parts[0], parts[1], parts[2]) {
			if fn.Origin() != nil {
				continue
			}
			for _, s := range sitesOf(fn) {
				d := c.P.mustHoldAt(s.Instr)
				fmt.Println("SITE", s.CalleeName(), c.P.Pos(s.Pos()))
				for _, cj := range d {
					fmt.Println("     ∨", strings.Join(cj.list(), "  ∧  "))
				}
			}
			for _, ret := range returnsOf(fn) {
				fmt.Println("RETURN", c.P.Pos(posOf(ret.Ret, fn)))
				for _, cj := range c.P.mustHoldAt(ret.Ret) {
					fmt.Println("     ∨", strings.Join(cj.list(), "  ∧  "))
				}
				if len(ret.Results) == 1 && ret.Results[0].Type().String() == "bool" {
					fmt.Println("RETURNS-TRUE-WHEN")
					for _, cj := range c.P.boolDNF(ret.Results[0], true) {
						fmt.Println("     ∨", strings.Join(cj.list(), "  ∧  "))
					}
				}
			}
		}
		c.ok("dbg", "x", "", "")
		c.ok("dbg", "y", "", "")
	})
}

func init() {
	register("REACH", func(c *Ctx) {
		parts := strings.Split(os.Getenv("DBG_FN"), ":")
		for _, fn := range c.P.FuncsNamed(parts[0], parts[1], parts[2]) {
			fmt.Println("FN", qname(fn), "origin?", fn.Origin() != nil, "edges", len(c.P.outEdges(fn)))
			for _, e := range c.P.outEdges(fn) {
				fmt.Println("   →", qname(e.Callee.Func), e.Callee.Func.Blocks != nil)
			}
		}
		c.ok("dbg", "x", "", "")
		c.ok("dbg", "y", "", "")
	})
}

func init() {
	register("REACH2", func(c *Ctx) {
		pw := tmFunc(c.P, "ProcessWAL")
		reach := c.P.Reachable([]*ssa.Function{pw}, func(caller, callee *ssa.Function) bool {
			cut := !strings.HasPrefix(pkgRelOf(callee), "consensus/")
			fmt.Println("  cut?", qname(callee), pkgRelOf(callee), cut)
			return cut
		})
		for _, f := range reach.Funcs() {
			fmt.Println(qname(f))
		}
		c.ok("dbg", "x", "", "")
		c.ok("dbg", "y", "", "")
	})
}

func init() {
	register("FLOW", func(c *Ctx) {
		parts := strings.Split(os.Getenv("DBG_FN"), ":")
		for _, fn := range c.P.FuncsNamed(parts[0], parts[1], parts[2]) {
			for pi, par := range fn.Params {
				u := newFlowUnit(c.P, fn)
				u.seedFieldLoads(par)
				u.seedParam(par, "$"+par.Name())
				u.run()
				sl := u.sinkLabels(isHashSink, nil)
				rl := u.resultLabels()
				var rs []string
				for k := range rl {
					rs = append(rs, k)
				}
				sort.Strings(rs)
				fmt.Printf("%s param#%d %s\n   sink: %v\n   result: %v\n", qname(fn), pi, par.Name(), sortedKeys(sl), rs)
			}
		}
		c.ok("dbg", "x", "", "")
		c.ok("dbg", "y", "", "")
	})
}

func init() {
	register("ARMS", func(c *Ctx) {
		parts := strings.Split(os.Getenv("DBG_FN"), ":")
		for _, fn := range c.P.FuncsNamed(parts[0], parts[1], parts[2]) {
			par := fn.Params[0]
			for _, arm := range []string{"", "Version.Is(0)", "Version.Is(1)", "Version.Is(2)", "Version.Is(3)"} {
				u := newFlowUnit(c.P, fn)
				u.seedFieldLoads(par)
				u.run()
				sl := u.sinkLabels(isHashSink, func(in ssa.Instruction) bool {
					if arm == "" {
						return true
					}
					for _, f := range factStrings(factsAt(in)) {
						if strings.Contains(f, arm) && !strings.HasPrefix(f, "!") {
							return true
						}
					}
					return false
				})
				fmt.Printf("%s arm[%s]: %v\n", qname(fn), arm, sortedKeys(sl))
			}
		}
		c.ok("dbg", "x", "", "")
		c.ok("dbg", "y", "", "")
	})
}

func init() {
	register("FLOWALL", func(c *Ctx) {
		for _, spec := range strings.Split(os.Getenv("DBG_FNS"), ",") {
			parts := strings.Split(spec, ":")
			for _, fn := range c.P.FuncsNamed(parts[0], parts[1], parts[2]) {
				if fn.Origin() != nil {
					continue
				}
				for pi, par := range fn.Params {
					u := newFlowUnit(c.P, fn)
					u.seedFieldLoads(par)
					u.seedParam(par, "$"+par.Name())
					u.run()
					sl := u.sinkLabels(isHashSink, nil)
					rl := u.resultLabels()
					var rs []string
					for k := range rl {
						rs = append(rs, k)
					}
					sort.Strings(rs)
					fmt.Printf("%s #%d %s\n   sink: %v\n   result: %v\n", qname(fn), pi, par.Name(), sortedKeys(sl), rs)
				}
			}
		}
		c.ok("dbg", "x", "", "")
		c.ok("dbg", "y", "", "")
	})
}

func init() {
	register("BUCKETS", func(c *Ctx) {
		sc := c.P.pkg("db").Types.Scope()
		bt := c.P.lookupType("db", "Bucket")
		var out []string
		for _, nm := range sc.Names() {
			if k, ok := sc.Lookup(nm).(*types.Const); ok && types.Identical(k.Type(), bt) {
				out = append(out, nm+"="+k.Val().String())
			}
		}
		fmt.Println("BUCKETS " + strings.Join(out, " "))
		c.ok("dbg", "x", "", "")
		c.ok("dbg", "y", "", "")
	})
}

func init() {
	register("DNFRET", func(c *Ctx) {
		parts := strings.Split(os.Getenv("DBG_FN"), ":")
		for _, fn := range c.P.FuncsNamed(parts[0], parts[1], parts[2]) {
			for _, ret := range returnsOf(fn) {
				if len(ret.Results) == 1 && ret.Results[0].Type().String() == "bool" {
					for _, want := range []bool{true, false} {
						b := &bform{p: c.P, visited: map[ssa.Value]bool{}}
						d := dnfAnd(b.pathCond(ret.Ret.Block(), nil, fn, 0), b.dnf(ret.Results[0], want, 0))
						fmt.Println("RETURNS", want, "WHEN @", c.P.Pos(posOf(ret.Ret, fn)))
						for _, cj := range simplifyDNF(d) {
							fmt.Println("     ∨", strings.Join(cj.list(), "  ∧  "))
						}
					}
				}
			}
		}
		c.ok("dbg", "x", "", "")
		c.ok("dbg", "y", "", "")
	})
}

func init() {
	register("EARLYRET", func(c *Ctx) {
		for _, fn := range c.P.sortedFuncs() {
			pr := pkgRelOf(fn)
			if !(pr == "core/deprecatedstate" || pr == "core/state" || pr == "blockchain/statebackend" || pr == "pruner" || pr == "core") || fn.Origin() != nil {
				continue
			}
			for _, ret := range returnsOf(fn) {
				if len(ret.Results) == 0 || !isNilConst(ret.Results[len(ret.Results)-1]) || ret.Results[len(ret.Results)-1].Type().String() != "error" {
					continue
				}
				if inSameLoop(ret.Ret.Block(), ret.Ret.Block()) || loopBodyExit(ret.Ret.Block()) {
					fmt.Println("EARLY", qname(fn), c.P.Pos(posOf(ret.Ret, fn)))
				}
			}
		}
		c.ok("dbg", "x", "", "")
		c.ok("dbg", "y", "", "")
	})
}

// loopBodyExit: block is dominated by a loop body block (reachable only from inside a cycle) although it leaves the loop
func loopBodyExit(b *ssa.BasicBlock) bool {
	for d := b.Idom(); d != nil; d = d.Idom() {
		if inSameLoop(d, d) {
			// d is in a loop; b is dominated by d but not in the loop itself → b is an exit taken from inside the loop body,
			// unless d is the loop header whose normal exit leads to b
			// normal exit: b reachable from header's "done" successor: treat header specially
			isHeader := false
			for _, p := range d.Preds {
				if d.Dominates(p) {
					isHeader = true
				}
			}
			if isHeader {
				// exit edge directly from the header is the normal loop end
				for _, s := range d.Succs {
					if (s == b || s.Dominates(b)) && !inSameLoop(s, d) {
						return false
					}
				}
			}
			return true
		}
	}
	return false
}

func init() {
	register("MUSTRET", func(c *Ctx) {
		parts := strings.Split(os.Getenv("DBG_FN"), ":")
		for _, fn := range c.P.FuncsNamed(parts[0], parts[1], parts[2]) {
			for _, ret := range returnsOf(fn) {
				fmt.Println("RETURN @", c.P.Pos(posOf(ret.Ret, fn)))
				for _, cj := range c.P.mustHoldAt(ret.Ret) {
					fmt.Println("     ∨", strings.Join(cj.list(), "  ∧  "))
				}
			}
		}
		c.ok("dbg", "x", "", "")
		c.ok("dbg", "y", "", "")
	})
}

func init() {
	register("MUSTSITE", func(c *Ctx) {
		parts := strings.Split(os.Getenv("DBG_FN"), ":")
		for _, fn := range c.P.FuncsNamed(parts[0], parts[1], parts[2]) {
			for _, g := range withAnons(fn) {
				for _, s := range sitesOf(g) {
					if !strings.Contains(s.CalleeName(), os.Getenv("DBG_SITE")) {
						continue
					}
					fmt.Println("SITE", s.CalleeName(), "@", c.P.Pos(s.Pos()))
					for _, cj := range c.P.mustHoldAt(s.Instr) {
						fmt.Println("     ∨", strings.Join(cj.list(), "  ∧  "))
					}
				}
			}
		}
		c.ok("dbg", "x", "", "")
		c.ok("dbg", "y", "", "")
	})
}

func init() {
	register("DEEPSITE", func(c *Ctx) {
		parts := strings.Split(os.Getenv("DBG_FN"), ":")
		for _, fn := range c.P.FuncsNamed(parts[0], parts[1], parts[2]) {
			for _, ds := range c.P.deepSites(fn, nameMatcher(os.Getenv("DBG_SITE")), 3) {
				fmt.Println("DEEP", ds.Site.CalleeName(), "@", c.P.Pos(ds.Site.Pos()), "chain", len(ds.Chain))
				for _, cj := range c.P.mustHoldDeep(ds) {
					fmt.Println("     ∨", strings.Join(cj.list(), "  ∧  "))
				}
			}
		}
		c.ok("dbg", "x", "", "")
		c.ok("dbg", "y", "", "")
	})
}

func init() {
	register("MEMO", func(c *Ctx) {
		n := memoKeyRule(c, "memo-key", func(string) bool { return true })
		fmt.Println("memo sites:", n)
		c.ok("dbg", "x", "", "")
	})
}

func init() {
	register("CONCAP", func(c *Ctx) {
		n := concurrentCaptureRule(c, "concurrent-capture", func(string) bool { return true })
		fmt.Println("captured cells inspected:", n)
		c.ok("dbg", "x", "", "")
	})
}
