package main

import (
	"fmt"
	"regexp"
	"sort"
	"strings"

	"golang.org/x/tools/go/ssa"
)

var reCanonDrop = regexp.MustCompile(`[&{}*]|local:`)

// canonFormula: canonical form of a hash formula term: address-of / deref / spill markers dropped, leaves reduced to their
// last path component in lower case.
func canonFormula(t string) string {
	t = reCanonDrop.ReplaceAllString(t, "")
	// leaves: sequences of identifiers and dots
	re := regexp.MustCompile(`[A-Za-z_][A-Za-z0-9_.]*`)
	return re.ReplaceAllStringFunc(t, func(s string) string {
		if strings.HasPrefix(s, "crypto.") {
			return s
		}
		if i := strings.LastIndex(s, "."); i >= 0 {
			s = s[i+1:]
		}
		return strings.ToLower(s)
	})
}

// familySymbols: hash-family symbols referenced by fn (trie constructors / crypto.HashFn values), not hashing calls.
func familySymbols(fn *ssa.Function) map[string]bool {
	out := map[string]bool{}
	for _, f := range withAnons(fn) {
		allInstrs(f, func(in ssa.Instruction) {
			for _, op := range in.Operands(nil) {
				if *op == nil {
					continue
				}
				g, ok := (*op).(*ssa.Function)
				if !ok {
					continue
				}
				// skip when g is the callee of a direct hashing call crypto.Pedersen(a, b)
				if ci, isCall := in.(ssa.CallInstruction); isCall && ci.Common().Value == ssa.Value(g) && pkgRelOf(g) == "core/crypto" {
					continue
				}
				n := g.Name()
				switch {
				case pkgRelOf(g) == "core/crypto" && n == "Pedersen", strings.HasSuffix(n, "Pedersen") && strings.Contains(pkgRelOf(g), "trie"):
					out["Pedersen:"+qname(g)] = true
				case pkgRelOf(g) == "core/crypto" && n == "Poseidon", strings.HasSuffix(n, "Poseidon") && strings.Contains(pkgRelOf(g), "trie"):
					out["Poseidon:"+qname(g)] = true
				}
			}
		})
	}
	return out
}

func init() {
	register("C01", func(c *Ctx) {
		c01EveryNodeSetKept(c)
		// (concurrent-capture) function literals that run concurrently do not share a written local (engine/concap.go)
		concurrentCaptureRule(c, "concurrent-capture", func(pk string) bool {
			return strings.HasPrefix(pk, "core/trie") || pk == "core/state" || pk == "core/deprecatedstate" || pk == "core/crypto"
		})
		c.needFixture("concurrent-capture")
		p := c.P
		c.Explain = "Structural conditions of the state commitment decided from SSA terms, CFG and field-store ownership: (formula) contract commitment = Pedersen(Pedersen(Pedersen(classHash, storageRoot), nonce), 0), class leaf = Poseidon(\"CONTRACT_CLASS_LEAF_V0\", casmHash), state commitment = 0 | contractRoot (classRoot = 0 ∧ version < 0.14.0) | Poseidon(\"STARKNET_STATE_V0\", contractRoot, classRoot), identical in both state backends; " +
			"(hash-family) every trie role (contract, contract storage → Pedersen; class → Poseidon; temp-trie slots) is constructed with its family in both backends; (root-auth) Update/Revert compare the root before mutating and before persisting, and Finalise takes old/new root from Commitment() around Update; (trie2-dirty) every node built or copied by trie2 insert/delete carries fresh dirty flags; " +
			"(dirty-set) the legacy trie's dirty-node set only grows until Hash() has recomputed, and rootKey changes only through setRootKey; (commit-nodes) the node set returned by trie2 Commit() is propagated on every path (deleted nodes are flushed); (resolve-before-merge) in trie2 whenever a child is found to be an unresolved hash node it is resolved before the function returns a restructured node — an unresolved sibling cannot be merged into one edge, the resulting shape hashes to a different root; (commit-before-commitment) a contract's leaf commitment is computed only after its storage trie was committed in the same unit of work (the storage root kept in the record is not authoritative). Not decided: that either trie computes the Merkle-Patricia root of its key/value set; order/restart independence."
		c01Formula(c)
		c01HashFamily(c)
		// root-auth (Update half) + Finalise roots
		for _, be := range []string{"core/state", "core/deprecatedstate"} {
			if f := p.Func(be, "State", "Update"); f != nil {
				checkRootAuth(c, "root-auth", f, "OldRoot", "NewRoot")
			} else {
				c.und("root-auth", be+".State.Update", "", "anchor not found")
			}
			if f := p.Func(be, "State", "Revert"); f != nil {
				checkRootAuth(c, "root-auth", f, "NewRoot", "OldRoot")
			}
		}
		if f := p.Func("blockchain/statebackend", "", "updateStateRoots"); f != nil {
			var comm []Site
			var upd *Site
			ss := sitesOf(f)
			for i := range ss {
				if ss[i].Method != nil && ss[i].Method.Name() == "Commitment" {
					comm = append(comm, ss[i])
				}
				if ss[i].Method != nil && ss[i].Method.Name() == "Update" {
					upd = &ss[i]
				}
			}
			ok := len(comm) == 2 && upd != nil && dominatesInstr(comm[0].Instr, upd.Instr) && dominatesInstr(upd.Instr, comm[1].Instr)
			oldOK, newOK := false, false
			allInstrs(f, func(in ssa.Instruction) {
				if st, isSt := in.(*ssa.Store); isSt {
					at := term(st.Addr)
					if strings.HasSuffix(at, "stateUpdate.OldRoot") && ok && dominatesInstr(in, upd.Instr) && strings.Contains(termF(st.Val), "Commitment(") {
						oldOK = true
					}
					if (strings.HasSuffix(at, "GlobalStateRoot") || strings.HasSuffix(at, "stateUpdate.NewRoot")) && ok && dominatesInstr(upd.Instr, in) {
						newOK = true
					}
				}
			})
			c.check(ok && oldOK && newOK, "root-auth", "statebackend.updateStateRoots", p.Pos(fnPos(f)), "OldRoot = Commitment() before Update, NewRoot/GlobalStateRoot = Commitment() after it", "the sequencer path no longer takes the old root before and the new root after applying the update")
		} else {
			c.und("root-auth", "statebackend.updateStateRoots", "", "anchor not found")
		}
		c.floor("root-auth", 5)
		c01Trie2Dirty(c)
		c01DirtySet(c)
		c01CommitNodes(c)
		c01ResolveBeforeMerge(c)
		c01CommitBeforeCommitment(c)
		c01TracerFullPath(c)
		c01FreshLeafValue(c)
	})
}

func c01Formula(c *Ctx) {
	p := c.P
	const wantContract = "crypto.pedersen(crypto.pedersen(crypto.pedersen(classhash, storageroot), nonce), zero)"
	for _, fr := range []fref{{"core/state", "stateContract", "commitment"}, {"core/deprecatedstate", "", "calculateContractCommitment"}} {
		f := p.Func(fr.pkg, fr.recv, fr.name)
		if f == nil {
			c.und("formula", fr.pkg+"."+fr.name, "", "anchor not found")
			continue
		}
		got := strings.ToLower(canonFormula(retTermNamed(f)))
		c.check(got == wantContract, "formula", "contract commitment: "+qname(f), p.Pos(fnPos(f)), "Pedersen(Pedersen(Pedersen(classHash, storageRoot), nonce), 0)", "contract commitment formula is "+got+", expected "+wantContract)
	}
	// class leaf
	nleaf := 0
	for _, fr := range []fref{{"core/state", "State", "updateClassTrie"}, {"core/state", "State", "Revert"}, {"core/deprecatedstate", "State", "updateDeclaredClassesTrie"}, {"core/deprecatedstate", "State", "revertMigratedCasmClasses"}} {
		f := p.Func(fr.pkg, fr.recv, fr.name)
		if f == nil {
			c.und("formula", "class leaf: "+fr.name, "", "anchor not found")
			continue
		}
		for _, s := range sitesOf(f) {
			if s.CalleeName() != "core/crypto.Poseidon" {
				continue
			}
			nleaf++
			a0 := term(s.Args()[0])
			ok := strings.HasSuffix(a0, ".leafVersion0") || strings.HasSuffix(a0, ".leafVersion")
			c.check(ok, "formula", fmt.Sprintf("class leaf in %s#%d", qname(f), nleaf), p.Pos(s.Pos()), "Poseidon(CONTRACT_CLASS_LEAF_V0, casm hash)", "class-trie leaf is Poseidon("+a0+", …): first operand must be the CONTRACT_CLASS_LEAF_V0 constant")
		}
	}
	if nleaf < 5 {
		c.und("formula", "class leaf sites", "", fmt.Sprintf("only %d class-leaf computations found, expected ≥5", nleaf))
	}
	// constants
	for _, k := range []struct{ pkg, name, val string }{
		{"core/state", "leafVersion0", "CONTRACT_CLASS_LEAF_V0"}, {"core/state", "stateVersion0", "STARKNET_STATE_V0"},
		{"core/deprecatedstate", "leafVersion", "CONTRACT_CLASS_LEAF_V0"}, {"core/deprecatedstate", "stateVersion", "STARKNET_STATE_V0"},
	} {
		g := p.global(k.pkg, k.name)
		ok := false
		if g != nil {
			if init := p.SSA.Package(p.pkg(k.pkg).Types).Func("init"); init != nil {
				allInstrs(init, func(in ssa.Instruction) {
					if st, isSt := in.(*ssa.Store); isSt && st.Addr == ssa.Value(g) && strings.Contains(term(st.Val), k.val) {
						ok = true
					}
				})
			}
		}
		c.check(ok, "formula", k.pkg+"."+k.name+" = "+k.val, "", "domain-separation constant", "constant "+k.pkg+"."+k.name+" is no longer built from \""+k.val+"\"")
	}
	// state commitment: both backends
	for _, fr := range []fref{{"core/state", "", "stateCommitment"}, {"core/deprecatedstate", "State", "Commitment"}} {
		f := p.Func(fr.pkg, fr.recv, fr.name)
		if f == nil {
			c.und("formula", "state commitment: "+fr.name, "", "anchor not found")
			continue
		}
		name := "state commitment: " + qname(f)
		var pos *Site
		for _, s := range sitesOf(f) {
			if s.CalleeName() == "core/crypto.PoseidonElems" {
				ss := s
				pos = &ss
			}
		}
		if pos == nil {
			c.viol("formula", name, p.Pos(fnPos(f)), "state commitment no longer uses PoseidonElems(version, contractRoot, classRoot)")
			continue
		}
		args := strings.ToLower(canonFormula(term(pos.Args()[0])))
		okArgs := args == "[stateversion0, contractroot, classroot]" || args == "[stateversion, storageroot, classesroot]"
		c.check(okArgs, "formula", name+": Poseidon operands", p.Pos(pos.Pos()), "Poseidon(STARKNET_STATE_V0, contractRoot, classRoot)", "state commitment operands are "+args)
		// the Poseidon form is reached only when not (classRoot=0 ∧ ver<0.14.0) and not both zero; the contract-root shortcut only under classRoot.IsZero ∧ LessThan(Ver0_14_0)
		for _, ret := range returnsOf(f) {
			rt := strings.ToLower(canonFormula(term(ret.Results[0])))
			d := p.mustHoldAt(ret.Ret)
			if len(ret.Results) > 1 && !isNilConst(ret.Results[1]) {
				continue
			}
			switch {
			case rt == "contractroot" || rt == "storageroot":
				ok1, m1 := everyDisjunctHas(d, []string{"IsZero()"})
				ok2, m2 := everyDisjunctHas(d, []string{"LessThan(", "Ver0_14_0"})
				c.check(ok1 && ok2, "formula", name+": contract-root shortcut", p.Pos(posOf(ret.Ret, f)), "only when the class root is zero and the version is < 0.14.0", "the contract-root shortcut is taken without classRoot.IsZero() ∧ version < 0.14.0: "+m1+m2)
			case rt == "zero" || rt == "felt{}" || strings.Contains(rt, "felt:0") || rt == "0":
				ok1, m1 := everyDisjunctHas(d, []string{"lassRoot", "IsZero()"}, []string{"lassesRoot", "IsZero()"})
				ok2, m2 := everyDisjunctHas(d, []string{"ontractRoot", "IsZero()"}, []string{"torageRoot", "IsZero()"})
				c.check(ok1 && ok2, "formula", name+": zero commitment", p.Pos(posOf(ret.Ret, f)), "zero only when both roots are zero", "zero commitment returned without both roots being zero: "+m1+m2)
			}
		}
		// version constant
		okv := false
		for _, s := range sitesOf(f) {
			if strings.HasSuffix(s.CalleeName(), "LessThan") && strings.Contains(term(s.Args()[len(s.Args())-1]), "Ver0_14_0") {
				okv = true
			}
		}
		c.check(okv, "formula", name+": threshold 0.14.0", p.Pos(fnPos(f)), "LessThan(Ver0_14_0)", "the 0.14.0 threshold of the state commitment changed")
	}
	c.floor("formula", 18)
}

// retTermNamed: like retTerm but with parameter names (for role matching).
func retTermNamed(f *ssa.Function) string {
	var ts []string
	for _, ret := range returnsOf(f) {
		if len(ret.Results) > 0 {
			ts = append(ts, termF(ret.Results[0]))
		}
	}
	sort.Strings(ts)
	return strings.Join(uniq(ts), " | ")
}

func c01HashFamily(c *Ctx) {
	p := c.P
	for _, row := range []struct {
		f      fref
		family string
		role   string
	}{
		{fref{"core/state", "StateDB", "ClassTrie"}, "Poseidon", "class trie (new state)"},
		{fref{"core/state", "StateDB", "ContractTrie"}, "Pedersen", "contract trie (new state)"},
		{fref{"core/state", "StateDB", "ContractStorageTrie"}, "Pedersen", "contract storage trie (new state)"},
		{fref{"core/deprecatedstate", "State", "storage"}, "Pedersen", "contract trie (legacy)"},
		{fref{"core/deprecatedstate", "State", "classesTrie"}, "Poseidon", "class trie (legacy)"},
		{fref{"core/deprecatedstate", "", "storage"}, "Pedersen", "contract storage trie (legacy)"},
		{fref{"core/trie2", "", "NewEmptyPedersen"}, "Pedersen", "empty trie"},
		{fref{"core/trie2", "", "NewEmptyPoseidon"}, "Poseidon", "empty trie"},
		{fref{"core/trie2", "", "RunOnTempTriePedersen"}, "Pedersen", "temp trie"},
		{fref{"core/trie2", "", "RunOnTempTriePoseidon"}, "Poseidon", "temp trie"},
		{fref{"core/trie", "", "NewTriePedersen"}, "Pedersen", "legacy trie ctor"},
		{fref{"core/trie", "", "NewTriePoseidon"}, "Poseidon", "legacy trie ctor"},
		{fref{"core/trie", "", "NewTrieReaderPedersen"}, "Pedersen", "legacy trie reader ctor"},
		{fref{"core/trie", "", "NewTrieReaderPoseidon"}, "Poseidon", "legacy trie reader ctor"},
		{fref{"core/trie", "", "RunOnTempTriePedersen"}, "Pedersen", "legacy temp trie"},
		{fref{"core/trie", "", "RunOnTempTriePoseidon"}, "Poseidon", "legacy temp trie"},
	} {
		f := p.Func(row.f.pkg, row.f.recv, row.f.name)
		name := row.f.name
		if row.f.recv != "" {
			name = row.f.recv + "." + name
		}
		if f == nil {
			c.und("hash-family", row.f.pkg+"."+name, "", "anchor not found")
			continue
		}
		syms := familySymbols(f)
		if len(syms) == 0 {
			// the family may be named by a same-package helper the constructor calls (a per-role "shape"/config function)
			for _, cs := range sitesOf(f) {
				if cs.Callee != nil && pkgRelOf(cs.Callee) == pkgRelOf(f) && len(cs.Callee.Blocks) > 0 && cs.Callee != f {
					for k := range familySymbols(cs.Callee) {
						syms[k] = true
					}
				}
			}
		}
		var other []string
		has := false
		for s := range syms {
			if strings.HasPrefix(s, row.family+":") {
				has = true
			} else {
				other = append(other, s)
			}
		}
		c.check(has && len(other) == 0, "hash-family", row.f.pkg+"."+name+" → "+row.family, p.Pos(fnPos(f)), row.role+" uses "+row.family, fmt.Sprintf("%s must be built with %s but references %v", row.role, row.family, keysOf(syms)))
	}
	// temp-trie backend slots
	for _, gname := range []string{"TrieBackend", "DeprecatedTrieBackend"} {
		g := p.global("core", gname)
		if g == nil {
			c.und("hash-family", "core."+gname, "", "anchor not found")
			continue
		}
		init := p.SSA.Package(p.pkg("core").Types).Func("init")
		n := 0
		allInstrs(init, func(in ssa.Instruction) {
			st, ok := in.(*ssa.Store)
			if !ok {
				return
			}
			fa, ok := st.Addr.(*ssa.FieldAddr)
			if !ok {
				return
			}
			// the composite literal is built in a local and then copied into the global
			lit, isAlloc := baseOfAddr(fa).(*ssa.Alloc)
			if !isAlloc {
				return
			}
			toGlobal := false
			if refs := lit.Referrers(); refs != nil {
				for _, r := range *refs {
					if ld, isLd := r.(*ssa.UnOp); isLd {
						if rr := ld.Referrers(); rr != nil {
							for _, u := range *rr {
								if gs, isSt := u.(*ssa.Store); isSt && gs.Addr == ssa.Value(g) {
									toGlobal = true
								}
							}
						}
					}
				}
			}
			if !toGlobal {
				return
			}
			slot := fieldName(fa.X.Type(), fa.Field)
			if !strings.HasPrefix(slot, "RunOnTempTrie") {
				return
			}
			fam := strings.TrimPrefix(slot, "RunOnTempTrie")
			for _, lit := range funcValues(st.Val, 0) {
				n++
				syms := familySymbols(lit)
				ok := false
				bad := false
				for s := range syms {
					if strings.HasPrefix(s, fam+":") {
						ok = true
					} else {
						bad = true
					}
				}
				c.check(ok && !bad, "hash-family", "core."+gname+"."+slot, p.Pos(fnPos(lit)), "slot delegates to the "+fam+" temp trie", fmt.Sprintf("temp-trie slot %s of core.%s delegates to %v", slot, gname, keysOf(syms)))
			}
		})
		if n < 2 {
			c.und("hash-family", "core."+gname+" slots", "", fmt.Sprintf("only %d slots found", n))
		}
	}
	c.floor("hash-family", 18)
}

func keysOf(m map[string]bool) []string {
	var o []string
	for k := range m {
		o = append(o, k)
	}
	sort.Strings(o)
	return o
}

func c01Trie2Dirty(c *Ctx) {
	p := c.P
	n := 0
	for _, fn := range p.sortedFuncs() {
		if pkgRelOf(fn) != "core/trie2" || fn.Origin() != nil {
			continue
		}
		file := p.File(fnPos(fn))
		if !strings.HasSuffix(file, "/trie.go") && !isFixtureFile(file) {
			continue
		}
		nm := rootOf(fn).Name()
		if nm != "insert" && nm != "delete" && !strings.Contains(nm, "zzVerifFixture") {
			continue
		}
		flagged := func(base ssa.Value) bool {
			ok := false
			if refs := base.Referrers(); refs != nil {
				for _, r := range *refs {
					fa, isFA := r.(*ssa.FieldAddr)
					if !isFA || fieldName(fa.X.Type(), fa.Field) != "Flags" {
						continue
					}
					if rr := fa.Referrers(); rr != nil {
						for _, u := range *rr {
							if st, isSt := u.(*ssa.Store); isSt && st.Addr == ssa.Value(fa) && strings.Contains(term(st.Val), "NewNodeFlag()") {
								ok = true
							}
						}
					}
				}
			}
			return ok
		}
		allInstrs(fn, func(in ssa.Instruction) {
			switch x := in.(type) {
			case *ssa.Alloc:
				if isNamed(x.Type(), "core/trie2/trienode", "EdgeNode") || isNamed(x.Type(), "core/trie2/trienode", "BinaryNode") {
					n++
					c.check(flagged(x), "trie2-dirty", fmt.Sprintf("%s: new %s @%s", nm, typeShort(x.Type()), p.Pos(posOf(in, fn))), p.Pos(posOf(in, fn)), "constructed with Flags: NewNodeFlag()", "a structurally new inner node is built without fresh dirty flags: its stale cached hash would be reused")
				}
			case *ssa.Call:
				if f := x.Call.StaticCallee(); f != nil && f.Name() == "Copy" && pkgRelOf(f) == "core/trie2/trienode" {
					n++
					c.check(flagged(x), "trie2-dirty", fmt.Sprintf("%s: copy @%s", nm, p.Pos(posOf(in, fn))), p.Pos(posOf(in, fn)), "copied node gets Flags = NewNodeFlag() before it is modified", "a copied node is modified without resetting its flags: the cached hash of the original would be reused")
				}
			}
		})
	}
	c.floor("trie2-dirty", 10)
	c.needFixture("trie2-dirty")
}

func c01DirtySet(c *Ctx) {
	p := c.P
	n := 0
	for _, fn := range p.sortedFuncs() {
		if pkgRelOf(fn) != "core/trie" {
			continue
		}
		allInstrs(fn, func(in ssa.Instruction) {
			st, ok := in.(*ssa.Store)
			if !ok {
				return
			}
			fa, ok := st.Addr.(*ssa.FieldAddr)
			if !ok || !isNamed(fa.X.Type(), "core/trie", "Trie") {
				return
			}
			if _, fresh := fa.X.(*ssa.Alloc); fresh {
				return
			}
			switch fieldName(fa.X.Type(), fa.Field) {
			case "dirtyNodes":
				n++
				vt := term(st.Val)
				construct := "Trie.dirtyNodes ← " + qname(fn)
				if strings.HasPrefix(vt, "append(") && strings.Contains(vt, ".dirtyNodes") {
					c.ok("dirty-set", construct+" (append)", p.Pos(posOf(in, fn)), "the dirty set grows")
					return
				}
				// a reset: only in Hash, after updateValueIfDirty succeeded
				okr := false
				if fn.Name() == "Hash" {
					for _, s := range findSites(fn, "updateValueIfDirty") {
						if dominatesInstr(s.Instr, in) && hasFact(factStrings(factsAt(in)), "!(", "updateValueIfDirty(", "!= nil") {
							okr = true
						}
					}
				}
				c.check(okr, "dirty-set", construct+" (reset)", p.Pos(posOf(in, fn)), "reset only after the hashes were recomputed from the root", "the legacy trie's dirty-node set is cleared/replaced outside Hash()'s successful recomputation: stale cached inner hashes would be kept")
			case "rootKey":
				n++
				c.check(fn.Name() == "setRootKey", "dirty-set", "Trie.rootKey ← "+qname(fn), p.Pos(posOf(in, fn)), "only via setRootKey (marks the root key dirty)", "rootKey is assigned without setRootKey: the new root key would not be persisted")
			}
		})
	}
	if n < 5 {
		c.und("dirty-set", "core/trie.Trie", "", fmt.Sprintf("only %d stores to dirtyNodes/rootKey found", n))
	}
}

// c01CommitNodes: the node set returned by (*trie2.Trie).Commit must be used on every path to a normal return.
func c01CommitNodes(c *Ctx) {
	p := c.P
	cm := p.Func("core/trie2", "Trie", "Commit")
	if cm == nil {
		c.und("commit-nodes", "trie2.Trie.Commit", "", "anchor not found")
		return
	}
	n := 0
	for _, s := range p.callersOf(cm) {
		if !strings.HasPrefix(pkgRelOf(s.Fn), "core/state") && !p.InFixture(s.Pos()) {
			continue
		}
		call, ok := s.Instr.(*ssa.Call)
		if !ok {
			continue
		}
		n++
		var nodes ssa.Value
		if refs := call.Referrers(); refs != nil {
			for _, r := range *refs {
				if ex, ok := r.(*ssa.Extract); ok && ex.Index == 1 {
					nodes = ex
				}
			}
		}
		construct := qname(s.Fn) + " ← trie2.Commit()"
		if nodes == nil {
			c.viol("commit-nodes", construct, p.Pos(s.Pos()), "the node set returned by Commit() is discarded: modified/deleted trie nodes would never reach the database")
			continue
		}
		useBlocks := map[*ssa.BasicBlock]bool{}
		var mark func(v ssa.Value, d int)
		mark = func(v ssa.Value, d int) {
			if d > 3 {
				return
			}
			if refs := v.Referrers(); refs != nil {
				for _, r := range *refs {
					if _, isDbg := r.(*ssa.DebugRef); isDbg {
						continue
					}
					useBlocks[r.Block()] = true
					if phi, isPhi := r.(*ssa.Phi); isPhi {
						mark(phi, d+1)
					}
				}
			}
		}
		mark(nodes, 0)
		// any normal return (nil error / no error result) reachable from the call without passing a use block?
		bad := ""
		seen := map[*ssa.BasicBlock]bool{}
		q := []*ssa.BasicBlock{call.Block()}
		first := true
		for len(q) > 0 {
			b := q[0]
			q = q[1:]
			if seen[b] {
				continue
			}
			seen[b] = true
			if useBlocks[b] && !(first && b == call.Block() && !usedAfter(call, nodes, b)) {
				first = false
				continue
			}
			first = false
			if ret, ok := b.Instrs[len(b.Instrs)-1].(*ssa.Return); ok {
				last := ssa.Value(nil)
				if len(ret.Results) > 0 {
					last = unspill(ret.Results[len(ret.Results)-1], b)
				}
				if last == nil || last.Type().String() != "error" || isNilConst(last) {
					bad = p.Pos(posOf(ret, s.Fn))
				}
			}
			q = append(q, b.Succs...)
		}
		c.check(bad == "", "commit-nodes", construct, p.Pos(s.Pos()), "the committed node set is returned/merged on every successful path", "a successful return at "+bad+" drops the node set returned by Commit(): deleted or modified nodes are not flushed, later roots are computed over stale nodes")
	}
	if n < 3 {
		c.und("commit-nodes", "callers of trie2.Commit", "", fmt.Sprintf("only %d call sites in core/state", n))
	}
}

// usedAfter: within block b, is `v` referenced after instruction `after`?
func usedAfter(after ssa.Instruction, v ssa.Value, b *ssa.BasicBlock) bool {
	idx := instrIndex(after)
	for i, in := range b.Instrs {
		if i <= idx {
			continue
		}
		if in == v.(ssa.Instruction) {
			continue
		}
		for _, op := range in.Operands(nil) {
			if *op == v {
				return true
			}
		}
	}
	return false
}

// c01ResolveBeforeMerge: every commaok type test for *trienode.HashNode in trie2's mutating walkers leads, on its true
// branch, through resolveNode before any return.
func c01ResolveBeforeMerge(c *Ctx) {
	p := c.P
	n := 0
	for _, fn := range p.sortedFuncs() {
		if pkgRelOf(fn) != "core/trie2" || fn.Origin() != nil || strings.HasSuffix(p.Pos(fnPos(fn)), "_test.go") {
			continue
		}
		if fn.Signature.Recv() == nil || recvName(fn.Signature.Recv().Type()) != "Trie" {
			continue
		}
		if fn.Name() != "delete" && fn.Name() != "insert" && !strings.HasPrefix(fn.Name(), "zzVerifFixtureC01Resolve") {
			continue
		}
		allInstrs(fn, func(in ssa.Instruction) {
			ta, ok := in.(*ssa.TypeAssert)
			if !ok || !ta.CommaOk {
				return
			}
			nt := namedOf(ta.AssertedType)
			if nt == nil || nt.Obj().Name() != "HashNode" {
				return
			}
			// the branch on ok
			for _, r := range *ta.Referrers() {
				ex, isEx := r.(*ssa.Extract)
				if !isEx || ex.Index != 1 {
					continue
				}
				for _, r2 := range *ex.Referrers() {
					iff, isIf := r2.(*ssa.If)
					if !isIf {
						continue
					}
					n++
					trueSucc := iff.Block().Succs[0]
					okp := false
					for _, s := range sitesOf(fn) {
						if s.Callee != nil && s.Callee.Name() == "resolveNode" && (trueSucc == s.Block() || trueSucc.Dominates(s.Block())) {
							if everyPathPassesFromBlock(trueSucc, s.Block()) {
								okp = true
							}
						}
					}
					c.check(okp, "resolve-before-merge", qname(fn)+": child is a HashNode", p.Pos(posOf(in, fn)), "resolved on every path before the function returns", "a child known to be an unresolved hash node can reach a return without resolveNode: the node above it is restructured around an opaque hash (an edge that should be merged stays a separate node and the root differs from the root of the same key/value set)")
				}
			}
		})
	}
	if n < 1 {
		c.und("resolve-before-merge", "trie2.Trie.delete", "", "no HashNode type test found in the mutating walkers")
	}
	c.needFixture("resolve-before-merge")
}

// c01CommitBeforeCommitment: in core/state, every call of (*stateObject).commitment is dominated by (*stateObject).commit
// on the same object within the same function/closure.
func c01CommitBeforeCommitment(c *Ctx) {
	p := c.P
	n := 0
	for _, fn := range p.sortedFuncs() {
		if pkgRelOf(fn) != "core/state" || fn.Origin() != nil || strings.HasSuffix(p.Pos(fnPos(fn)), "_test.go") {
			continue
		}
		ss := sitesOf(fn)
		for _, s := range ss {
			if s.Callee == nil || s.Callee.Name() != "commitment" || s.Callee.Signature.Recv() == nil || recvName(s.Callee.Signature.Recv().Type()) != "stateObject" {
				continue
			}
			if rootOf(fn).Name() != "commit" && !strings.HasPrefix(rootOf(fn).Name(), "zzVerifFixture") && !p.calledOnlyFrom(fn, "commit", 0) {
				continue // read-only uses (e.g. proofs) work on committed objects
			}
			n++
			okd := false
			for _, t := range ss {
				if t.Callee != nil && t.Callee.Name() == "commit" && t.Callee.Signature.Recv() != nil && recvName(t.Callee.Signature.Recv().Type()) == "stateObject" &&
					sameVal(t.Args()[0], s.Args()[0]) && dominatesInstr(t.Instr, s.Instr) {
					okd = true
				}
			}
			c.check(okd, "commit-before-commitment", qname(fn)+" → stateObject.commitment", p.Pos(s.Pos()), "the object's storage trie was committed first in the same unit of work", "a contract leaf commitment is taken without committing the object's storage trie first: the storage root in the record may be stale (records written by the head-state migration carry a zero root) and the state root is wrong")
		}
	}
	if n < 1 {
		c.und("commit-before-commitment", "core/state.State.commit", "", "no stateObject.commitment call found in commit")
	}
	// … and committing an object re-derives its storage root from the storage trie on every successful path: no success
	// return of (*stateObject).commit precedes the trie's Commit() and the store of its root into the record — the root kept
	// in the record is not authoritative (zero in records written by the head-state migration; seeded change C01-J returns
	// early when it is zero and the block has no storage writes)
	if f := p.Func("core/state", "stateObject", "commit"); f != nil {
		var commits, stores []ssa.Instruction
		for _, ds := range p.deepSites(f, func(x Site) bool {
			return x.Callee != nil && x.Callee.Name() == "Commit" && strings.Contains(qname(x.Callee), "trie2")
		}, 1) {
			commits = append(commits, ds.outer())
		}
		for _, di := range p.deepInstrs(f, 1) {
			if st, ok := di.In.(*ssa.Store); ok && strings.HasSuffix(term(st.Addr), ".StorageRoot") && strings.Contains(termF(st.Val), "Commit()") {
				if len(di.Chain) > 0 {
					stores = append(stores, di.Chain[0].Instr) // in a helper (`commitStorageTrie(tr)`): judged at its call
				} else {
					stores = append(stores, di.In)
				}
			}
		}
		k := 0
		bad := ""
		for _, ret := range returnsOf(f) {
			if len(ret.Results) == 0 || !isNilConst(ret.Results[len(ret.Results)-1]) {
				continue
			}
			k++
			okc, oks := false, false
			for _, ci := range commits {
				if dominatesInstr(ci, ret.Ret) {
					okc = true
				}
			}
			for _, si := range stores {
				if dominatesInstr(si, ret.Ret) {
					oks = true
				}
			}
			if !okc || !oks {
				bad = p.Pos(posOf(ret.Ret, f))
			}
		}
		c.check(bad == "" && k > 0, "commit-before-commitment", "(*stateObject).commit: root re-derived on every success path", p.Pos(fnPos(f)), "every successful return follows tr.Commit() and the store of its root into the contract record", "the successful return at "+bad+" is reached without committing the storage trie and storing its root: the leaf commitment is then computed from the root kept in the record, which is not authoritative")
	} else {
		c.und("commit-before-commitment", "core/state.stateObject.commit", "", "anchor not found")
	}
	// the storage root kept in the contract record steers nothing: no branch of a stateObject method (or of a function literal
	// inside one) is conditioned on contract.StorageRoot. The records written by the head-state migration carry a zero root for
	// contracts that do have storage; seeded changes C01-D, C01-J and C01-K each take a short cut when the recorded root is zero
	// (skip the commit, trust the root, open the trie as empty) and drop that storage from the contract leaf.
	nObj := 0
	for _, fn := range p.sortedFuncs() {
		if pkgRelOf(fn) != "core/state" || fn.Origin() != nil || strings.HasSuffix(p.Pos(fnPos(fn)), "_test.go") {
			continue
		}
		root := rootOf(fn)
		if root.Signature.Recv() == nil || !strings.HasSuffix(root.Signature.Recv().Type().String(), "stateObject") {
			continue
		}
		nObj++
		allInstrsOne(fn, func(in ssa.Instruction) {
			iff, ok := in.(*ssa.If)
			if !ok {
				return
			}
			for v := range backSlice(iff.Cond) {
				if fa, isFA := v.(*ssa.FieldAddr); isFA && fieldName(fa.X.Type(), fa.Field) == "StorageRoot" {
					c.viol("commit-before-commitment", qname(root)+": branch on the recorded storage root", p.Pos(posOf(in, fn)), "a branch of "+qname(root)+" depends on contract.StorageRoot, which is not authoritative (records written by the head-state migration carry a zero root for contracts that have storage): the short cut taken for a zero root drops the contract's existing storage from its leaf commitment")
				}
			}
		})
	}
	if nObj < 5 {
		c.und("commit-before-commitment", "core/state.stateObject methods", "", fmt.Sprintf("only %d methods found", nObj))
	} else {
		c.ok("commit-before-commitment", "stateObject: no branch on the recorded storage root", "", fmt.Sprintf("%d methods and literals of stateObject inspected", nObj))
	}
}

// c01TracerFullPath: the node tracer records node *paths*. Inside the recursive walkers the path of the node at hand is
// `prefix` (possibly extended); the remaining `key` alone is not a path. Every onInsert/onDelete argument is therefore
// derived from the walker's prefix parameter. (With the remaining key — empty at a leaf — the deleted leaf is never removed
// from disk and the flat head reader keeps serving it: F18.)
func c01TracerFullPath(c *Ctx) {
	p := c.P
	n := 0
	for _, fn := range p.sortedFuncs() {
		if pkgRelOf(fn) != "core/trie2" || fn.Origin() != nil || fn.Signature.Recv() == nil || recvName(fn.Signature.Recv().Type()) != "Trie" || strings.HasSuffix(p.Pos(fnPos(fn)), "_test.go") {
			continue
		}
		var prefix *ssa.Parameter
		for _, par := range fn.Params {
			if baseParamName(par) == "prefix" {
				prefix = par
			}
		}
		for _, s := range sitesOf(fn) {
			if s.Callee == nil || (s.Callee.Name() != "onInsert" && s.Callee.Name() != "onDelete") {
				continue
			}
			n++
			arg := s.Args()[len(s.Args())-1]
			ok := prefix != nil && (arg == ssa.Value(prefix) || strings.Contains(termF(arg), "prefix"))
			c.check(ok, "tracer-full-path", fmt.Sprintf("%s → %s #%d", qname(fn), s.Callee.Name(), n), p.Pos(s.Pos()), "the recorded path is derived from the walker's prefix", "the node tracer is given "+shortTerm(arg)+", which is not derived from the walker's prefix (the remaining key is not a node path): the node is never removed from / written to the database under its real path")
		}
	}
	if n < 6 {
		c.und("tracer-full-path", "trie2 walkers", "", fmt.Sprintf("only %d tracer calls found", n))
	}
}

// c01FreshLeafValue: trie2.(*Trie).Update keeps the value pointer it is given as the leaf. A caller that updates several
// keys in a loop must therefore hand over a value that lives per iteration; a single variable hoisted out of the loop makes
// all leaves inserted by the loop share the last value written (the legacy trie copies on Put, so only the new backend breaks).
func c01FreshLeafValue(c *Ctx) {
	p := c.P
	n := 0
	for _, fn := range p.sortedFuncs() {
		pr := pkgRelOf(fn)
		if !(pr == "core/state" || pr == "core" || pr == "blockchain/statebackend" || strings.HasPrefix(pr, "core/trie2")) || fn.Origin() != nil || strings.HasSuffix(p.Pos(fnPos(fn)), "_test.go") {
			continue
		}
		for _, s := range sitesOf(fn) {
			if s.Callee == nil || s.Callee.Name() != "Update" || s.Callee.Signature.Recv() == nil || recvName(s.Callee.Signature.Recv().Type()) != "Trie" || pkgRelOf(s.Callee) != "core/trie2" {
				continue
			}
			if !inSameLoop(s.Block(), s.Block()) {
				continue
			}
			n++
			val := s.Args()[len(s.Args())-1]
			ok := true
			if al, isAl := baseOfAddr(val).(*ssa.Alloc); isAl {
				ok = inSameLoop(al.Block(), s.Block())
			}
			c.check(ok, "fresh-leaf-value", qname(fn)+" → trie2.Update in loop", p.Pos(s.Pos()), "the value handed to the trie lives per iteration", "the loop hands trie2.Update the address of a variable declared outside the loop; the trie keeps that pointer as the leaf, so all leaves inserted by the loop end up with the last value written and the root is wrong")
		}
	}
	if n < 2 {
		c.und("fresh-leaf-value", "trie2.Update callers", "", fmt.Sprintf("only %d looped Update calls found", n))
	}
}

// c01EveryNodeSetKept: (commit-nodes, every-set clause) what a commit produced reaches the database set by set: in package
// trienode the methods of MergeNodeSet that walk the per-owner child sets (Flatten, Merge, MergeSet …) take every set over —
// the map update / append inside the loop is guarded by nothing but loop control and error checks. Seeded change C01-N skips
// sets with `updates == 0` in Flatten: the deletion-only set of a storage trie that lost all its keys is dropped, the stale
// nodes (root included) stay on disk, and the next write to that contract commits to the resurrected slots.
func c01EveryNodeSetKept(c *Ctx) {
	p := c.P
	n := 0
	for _, fn := range p.sortedFuncs() {
		if pkgRelOf(fn) != "core/trie2/trienode" || fn.Origin() != nil || fn.Signature.Recv() == nil || !strings.Contains(fn.Signature.Recv().Type().String(), "MergeNodeSet") || strings.HasSuffix(p.Pos(fnPos(fn)), "_test.go") {
			continue
		}
		allInstrsOne(fn, func(in ssa.Instruction) {
			mu, ok := in.(*ssa.MapUpdate)
			if !ok || !inSameLoop(in.Block(), in.Block()) {
				return
			}
			// only the walks over the child sets
			overSets := false
			for _, b := range fn.Blocks {
				for _, i2 := range b.Instrs {
					if r, ok := i2.(*ssa.Range); ok && strings.HasSuffix(term(r.X), ".ChildSets") {
						overSets = true
					}
				}
			}
			if !overSets {
				return
			}
			n++
			var bad []string
			for _, cj := range p.mustHoldAt(mu) {
				for _, a := range cj.list() {
					if strings.HasSuffix(a, " == nil)") || strings.HasSuffix(a, " != nil)") || strings.Contains(a, "jump$") || (strings.HasPrefix(strings.TrimPrefix(a, "!"), "next(") && strings.HasSuffix(a, "#0")) {
						continue
					}
					bad = append(bad, a)
				}
			}
			bad = uniq(bad)
			c.check(len(bad) == 0, "commit-nodes", qname(fn)+": every child set", p.Pos(posOf(in, fn)), "each per-owner node set is taken over unconditionally", "a per-owner node set is taken over only under "+clip(strings.Join(bad, "; "), 160)+": a set that carries nothing but deletions is dropped and the deleted nodes stay on disk")
		})
	}
	if n == 0 {
		c.und("commit-nodes", "trienode.MergeNodeSet", "", "no walk over the child sets found")
	}
}
