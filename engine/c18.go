package main

import (
	"fmt"
	"go/ast"
	"go/constant"
	"go/token"
	"go/types"
	"sort"
	"strings"

	"golang.org/x/tools/go/ssa"
)

// recorded history (values on disk today). New names may be appended; existing names must keep their value / position.
var bucketHistory = map[string]int64{}

var cborRegistryHistory = []string{
	"core.DeclareTransaction", "core.DeployTransaction", "core.InvokeTransaction", "core.L1HandlerTransaction", "core.DeployAccountTransaction",
	"core.DeprecatedCairoClass", "core.SierraClass", "trienode.DeletedNode", "trienode.LeafNode", "trienode.NonLeafNode",
	"pathdb.JournalNodeSet", "pathdb.DiffJournal", "pathdb.DiskJournal", "pathdb.DBJournal",
	"starknet.WALProposal", "starknet.WALPrevote", "starknet.WALPrecommit", "starknet.WALTimeout",
}

var migrationOrderHistory = []string{"blocktransactions.Migrator", "historyprunner.New", "headstate.Migrator", "statedifflength.Migrator"}

func init() {
	for i, n := range strings.Fields(bucketHistoryText) {
		_ = i
		kv := strings.SplitN(n, "=", 2)
		var v int64
		fmt.Sscan(kv[1], &v)
		bucketHistory[kv[0]] = v
	}
	register("C18", func(c *Ctx) {
		p := c.P
		c18ResumeAboveFloor(c)
		c.Explain = "Bookkeeping contract of the migration runner and persisted identifiers, decided on SSA/CFG and constant evaluation: (applied-bit) a migration's applied bit is set only in runMigration, after Migrate returned, on the branch where the returned intermediate state is nil, and the metadata write and the intermediate-state delete share one batch that is written once; (nil-state-contract) no Migrate implementation returns (nil state, context error) — the runner would record it as completed; " +
			"(validation-first) NewRunner hands out a runner only after opt-out and downgrade validation passed; (target-recorded) the full target version is persisted once, before the first migration runs; (persisted-ids) the byte value of every db.Bucket constant, the CBOR registration order and the migration index order extend the recorded history as a prefix (semantic values, evaluated by go/types — renumbering with explicit constants is fine, reordering is not). " +
			"Not decided: that converted data equals the original; resumability of each pipeline at each interruption point."
		rm := p.Func("migration", "MigrationRunner", "runMigration")
		if rm == nil {
			c.und("applied-bit", "MigrationRunner.runMigration", "", "anchor not found")
		} else {
			c.saw(qname(rm))
			// the Migrate call, in runMigration or in a helper of it (`executeMigration`: refactoring C18-R9)
			var mgd *deepSite
			for _, ds := range p.deepSites(rm, func(x Site) bool {
				return (x.Method != nil && x.Method.Name() == "Migrate") || (x.Callee != nil && x.Callee.Name() == "Migrate")
			}, 2) {
				ds := ds
				mgd = &ds
			}
			var mgCall *ssa.Call
			if mgd != nil {
				mgCall, _ = mgd.Site.Instr.(*ssa.Call)
			}
			fromMigrate := func(v ssa.Value, idx int) bool {
				return mgCall != nil && p.flowsFromCallResult(v, mgCall, idx, 0)
			}
			// nilFact: the instruction is reached only under `v == nil` (want=true) / `v != nil` (want=false) for some v that is
			// Migrate's result #idx (possibly handed through helper results and parameters)
			nilFact := func(in ssa.Instruction, idx int, wantNil bool) bool {
				for _, fct := range factsAt(in) {
					b, ok := fct.Cond.(*ssa.BinOp)
					if !ok || (b.Op != token.EQL && b.Op != token.NEQ) {
						continue
					}
					var v ssa.Value
					switch {
					case isNilConst(b.X):
						v = b.Y
					case isNilConst(b.Y):
						v = b.X
					default:
						continue
					}
					isNil := (b.Op == token.EQL) == fct.Pos
					if isNil == wantNil && fromMigrate(v, idx) {
						return true
					}
				}
				return false
			}
			// all calls of SchemaVersion.Set on CurrentVersion anywhere
			n := 0
			for _, fn := range p.sortedFuncs() {
				if !strings.HasPrefix(pkgRelOf(fn), "migration") && pkgRelOf(fn) != "node" {
					continue
				}
				for _, s := range sitesOf(fn) {
					if s.Callee == nil || s.Callee.Name() != "Set" || s.Callee.Signature.Recv() == nil || !isNamed(s.Callee.Signature.Recv().Type(), "migration", "SchemaVersion") {
						continue
					}
					if !strings.HasSuffix(term(s.Args()[0]), "metadata.CurrentVersion") {
						continue
					}
					n++
					// in runMigration itself, or in a helper of it (conditions are then taken along the call chain)
					var dsite *deepSite
					if mgd != nil {
						for _, ds := range p.deepSites(rm, func(x Site) bool { return x.Instr == s.Instr }, 2) {
							ds := ds
							dsite = &ds
						}
					}
					if dsite == nil || (fn != rm && !p.calledOnlyFrom(fn, "runMigration", 0)) {
						c.viol("applied-bit", "CurrentVersion.Set ← "+qname(fn), p.Pos(s.Pos()), "the applied bit of a migration is set outside runMigration")
						continue
					}
					d := p.mustHoldDeep(*dsite)
					ok1, m1 := everyDisjunctHas(d, []string{"^!", "Migrate(", "#0 != nil"}, []string{"Migrate(", "#0 == nil"})
					ok2, m2 := everyDisjunctHas(d, []string{"^!", "Migrate(", "#1 != nil"}, []string{"errors.Is(", "Migrate(", "ctx.Err()"})
					after := mgd.outer() == dsite.outer() || dominatesInstr(mgd.outer(), dsite.outer())
					if !ok1 {
						// Migrate's state result may reach the test through a helper's results and another helper's parameter
						ok1 = nilFact(s.Instr, 0, true)
					}
					if !ok2 && mgd.Site.Instr.Parent() != rm && len(mgd.Chain) == 1 {
						// Migrate runs in a helper: (i) every return of the helper that reports no error holds the condition on
						// Migrate's error, (ii) runMigration reaches the bit only after that helper returned a nil error
						g0 := mgd.Site.Instr.Parent()
						okI, k := true, 0
						for _, ret := range returnsOf(g0) {
							if len(ret.Results) == 0 || !isNilConst(ret.Results[len(ret.Results)-1]) {
								continue
							}
							k++
							if o, _ := everyDisjunctHas(p.mustHoldAt(ret.Ret), []string{"^!", "Migrate(", "#1 != nil"}, []string{"errors.Is(", "Migrate(", "ctx.Err()"}); !o {
								okI = false
							}
						}
						okII := false
						if hc, isCall := mgd.Chain[0].Instr.(*ssa.Call); isCall {
							for _, fct := range factsAt(dsite.outer()) {
								b, isB := fct.Cond.(*ssa.BinOp)
								if !isB {
									continue
								}
								var v ssa.Value
								switch {
								case isNilConst(b.X):
									v = b.Y
								case isNilConst(b.Y):
									v = b.X
								default:
									continue
								}
								if ex, isEx := v.(*ssa.Extract); isEx && ex.Tuple == ssa.Value(hc) && ex.Index == hc.Call.Signature().Results().Len()-1 && (b.Op == token.EQL) == fct.Pos {
									okII = true
								}
							}
						}
						ok2 = okI && k > 0 && okII
					}
					c.check(ok1 && after, "applied-bit", "runMigration: bit set only when Migrate returned a nil state", p.Pos(s.Pos()), "intermediateState == nil branch", "the applied bit can be set although Migrate returned a non-nil (even if empty) resume state: "+m1)
					c.check(ok2, "applied-bit", "runMigration: Migrate's error is handled before the bit", p.Pos(s.Pos()), "error is nil or the context's", "the applied bit can be set after Migrate failed: "+m2)
				}
			}
			if n == 0 {
				c.und("applied-bit", "CurrentVersion.Set", "", "no call found")
			}
			// one batch
			first := func(m func(Site) bool) *Site {
				if ds := p.deepSites(rm, m, 2); len(ds) > 0 {
					return &ds[0].Site
				}
				return nil
			}
			wm, di := first(nameMatcher("WriteSchemaMetadata")), first(nameMatcher("DeleteIntermediateState"))
			var wr *Site
			if wm != nil {
				for _, s := range sitesOf(wm.Instr.Parent()) {
					if s.Method != nil && s.Method.Name() == "Write" {
						ss := s
						wr = &ss
					}
				}
			}
			if wm != nil && di != nil && wm.Instr.Parent() != di.Instr.Parent() {
				di = nil // the two writes must be made by one function on one batch value
			}
			okb := wm != nil && di != nil && wr != nil && stripIface(wm.Args()[0]) == stripIface(di.Args()[0]) && stripIface(wm.Args()[0]) == stripIface(wr.Recv) &&
				dominatesInstr(wm.Instr, wr.Instr) && dominatesInstr(di.Instr, wr.Instr)
			c.check(okb, "applied-bit", "runMigration: metadata + state deletion in one batch", p.Pos(fnPos(rm)), "same batch value, written once after both", "the applied bit and the deletion of the resume state are no longer committed in one batch")
			// intermediate state is persisted before returning when non-nil
			ws := first(nameMatcher("WriteIntermediateState"))
			if ws != nil {
				ok, miss := everyDisjunctHas(p.mustHoldAt(ws.Instr), []string{"Migrate(", "#0 != nil"})
				if !ok {
					ok = nilFact(ws.Instr, 0, false)
				}
				c.check(ok, "applied-bit", "runMigration: resume state persisted when non-nil", p.Pos(ws.Pos()), "written on the non-nil branch", "resume state persistence is not on the non-nil branch: "+miss)
			} else {
				c.viol("applied-bit", "runMigration: resume state persisted", p.Pos(fnPos(rm)), "the resume state is never persisted")
			}
		}
		// nil-state-contract
		nm := 0
		for _, fn := range p.sortedFuncs() {
			if !strings.HasPrefix(pkgRelOf(fn), "migration") || fn.Name() != "Migrate" || fn.Signature.Recv() == nil || fn.Signature.Results().Len() != 2 {
				continue
			}
			nm++
			bad := ""
			for _, ret := range returnsOf(fn) {
				if !isNilConst(ret.Results[0]) || isNilConst(ret.Results[1]) {
					continue
				}
				et := termF(ret.Results[1])
				if strings.Contains(et, "ctx.Err()") || strings.Contains(et, "context.Cause(") || strings.Contains(et, "context.Canceled") || strings.Contains(et, "context.DeadlineExceeded") {
					bad = p.Pos(posOf(ret.Ret, fn)) + " returns (nil, " + shortTerm(ret.Results[1]) + ")"
				}
			}
			c.check(bad == "", "nil-state-contract", qname(fn), p.Pos(fnPos(fn)), "never returns a nil state together with a context error", "Migrate "+bad+": the runner treats a nil state with a context error as a completed migration and sets its applied bit")
		}
		c.floor("nil-state-contract", 9)
		c18ClearAfterDone(c)
		c18ErrorFirst(c)
		c18DeleteAfterIngest(c)
		c18CommitEveryBatch(c)
		// validation-first
		if f := p.Func("migration", "", "NewRunner"); f != nil {
			k := 0
			for _, ret := range returnsOf(f) {
				if isNilConst(ret.Results[0]) {
					continue
				}
				k++
				d := p.mustHoldAt(ret.Ret)
				for _, v := range []string{"validateNoOptOut(", "validateNoVersionDowngrade("} {
					ok, miss := everyDisjunctHas(d, []string{"^!", v, "!= nil"})
					c.check(ok, "validation-first", "NewRunner requires "+v+")", p.Pos(posOf(ret.Ret, f)), "runner only after validation passed", "a runner is returned without "+v+"…) having passed: "+miss)
				}
			}
			if k == 0 {
				c.und("validation-first", "NewRunner", p.Pos(fnPos(f)), "success return not found")
			}
		} else {
			c.und("validation-first", "migration.NewRunner", "", "anchor not found")
		}
		// target-recorded
		if f := p.Func("migration", "MigrationRunner", "Run"); f != nil {
			var st ssa.Instruction
			allInstrs(f, func(in ssa.Instruction) {
				if s, ok := in.(*ssa.Store); ok && strings.HasSuffix(term(s.Addr), "metadata.LastTargetVersion") && strings.HasSuffix(term(s.Val), "mr.targetVersion") {
					st = in
				}
			})
			wm, rn := findSite(f, "WriteSchemaMetadata"), findSite(f, "runMigration")
			ok := st != nil && wm != nil && rn != nil && wm.Fn == f && dominatesInstr(st, wm.Instr) && !blocksFrom(wm.Block(), nil)[wm.Block()]
			if ok {
				// the migrations run either directly in Run or in the body of a range-over-func closure created in Run
				var anchor ssa.Instruction = rn.Instr
				if rn.Fn != f {
					anchor = nil
					allInstrs(f, func(in ssa.Instruction) {
						if mk, isMk := in.(*ssa.MakeClosure); isMk && mk.Fn == ssa.Value(rootClosureOf(rn.Fn, f)) {
							anchor = in
						}
					})
				}
				ok = anchor != nil && dominatesInstr(wm.Instr, anchor) && hasFact(factStrings(factsAt(anchor)), "!(", "WriteSchemaMetadata(", "!= nil")
			}
			c.check(ok, "target-recorded", "MigrationRunner.Run", p.Pos(fnPos(f)), "LastTargetVersion = targetVersion is persisted once, before the first migration", "the full target version is no longer persisted before migrations start: an enabled optional migration queued behind an interrupted one could be opted out of later")
		} else {
			c.und("target-recorded", "MigrationRunner.Run", "", "anchor not found")
		}
		// no-overwrite-migrated (regression rule for F12)
		if f := p.Func("migration/blocktransactions", "ingestor", "ingestBlock"); f != nil {
			var put *Site
			for _, s := range sitesOf(f) {
				if s.Callee != nil && s.Callee.Name() == "Put" && strings.Contains(qname(s.Callee), "BlockTransactionsSerializer") {
					ss := s
					put = &ss
				}
			}
			if put == nil {
				c.und("no-overwrite-migrated", "ingestor.ingestBlock", p.Pos(fnPos(f)), "BlockTransactions Put not found")
			} else {
				ok := false
				miss := "validateCount does not report the already-migrated case to its caller"
				if vc := findSite(f, "validateCount"); vc != nil {
					if call, isCall := vc.Instr.(*ssa.Call); isCall {
						sig := call.Call.Signature()
						if sig.Results().Len() >= 2 && sig.Results().At(0).Type().String() == "bool" {
							miss = "the Put is not guarded by the negation of validateCount's already-migrated result"
							for _, fct := range factsAt(put.Instr) {
								if ex, isEx := fct.Cond.(*ssa.Extract); isEx && ex.Tuple == ssa.Value(call) && ex.Index == 0 && !fct.Pos {
									ok = true
								}
							}
						}
					}
				}
				c.check(ok, "no-overwrite-migrated", "ingestor.ingestBlock → BlockTransactionsBucket.Put", p.Pos(put.Pos()), "a block reported as already migrated is skipped, not rewritten", "the combined-layout entry is written even for a block the re-run found already migrated: a re-run after an interruption overwrites migrated blocks with empty entries ("+miss+")")
			}
		} else {
			c.und("no-overwrite-migrated", "ingestor.ingestBlock", "", "anchor not found")
		}
		c18PersistedIDs(c)
	})
}

func c18PersistedIDs(c *Ctx) {
	p := c.P
	// bucket values
	got := map[string]int64{}
	sc := p.pkg("db").Types.Scope()
	bt := p.lookupType("db", "Bucket")
	for _, nm := range sc.Names() {
		k, ok := sc.Lookup(nm).(*types.Const)
		if !ok || !types.Identical(k.Type(), bt) {
			continue
		}
		v, _ := constant.Int64Val(k.Val())
		got[nm] = v
	}
	if os := c.Tier; os != "" && len(bucketHistory) == 0 {
		c.und("persisted-ids", "bucket history table", "", "empty")
	}
	var names []string
	for n := range bucketHistory {
		names = append(names, n)
	}
	sort.Strings(names)
	for _, n := range names {
		v, ok := got[n]
		c.check(ok && v == bucketHistory[n], "persisted-ids", "db."+n, "", fmt.Sprintf("bucket byte %d unchanged", bucketHistory[n]), fmt.Sprintf("bucket db.%s had byte value %d in the recorded history, now %d (present=%v): existing databases would be misread", n, bucketHistory[n], v, ok))
	}
	// no two buckets share a value
	seen := map[int64]string{}
	for n, v := range got {
		if o, dup := seen[v]; dup {
			c.viol("persisted-ids", "db."+n+" collides with db."+o, "", fmt.Sprintf("two buckets share byte value %d", v))
		}
		seen[v] = n
	}
	// CBOR registry order
	reg := registryTypes(p) // shared with C07/registry: reflect.TypeOf(X{}) and reflect.TypeFor[X]() entries, in order
	okr := len(reg) >= len(cborRegistryHistory)
	for i := range cborRegistryHistory {
		if i >= len(reg) || reg[i] != cborRegistryHistory[i] {
			okr = false
		}
	}
	c.check(okr, "persisted-ids", "encoder/registry order", "", "recorded CBOR tag order is a prefix of the current one", fmt.Sprintf("CBOR type registration order changed: recorded %v, current %v — tags of stored values would decode as other types", cborRegistryHistory, reg))
	// migration order (package node does not type-check completely in this sandbox — jemalloc — so it has no SSA: use the syntax tree)
	if order := migrationOrderAST(p); order != nil {
		okm := len(order) >= len(migrationOrderHistory)
		for i := range migrationOrderHistory {
			if i >= len(order) || order[i] != migrationOrderHistory[i] {
				okm = false
			}
		}
		c.check(okm, "persisted-ids", "node.registerMigrations order", "node/migration.go", "recorded migration indices are a prefix of the current registration", fmt.Sprintf("migration registration order changed: recorded %v, current %v — applied bits of existing databases would refer to other migrations", migrationOrderHistory, order))
	} else if f := p.Func("node", "", "registerMigrations"); f != nil {
		var order []string
		for _, s := range sitesOf(f) {
			nm := s.CalleeName()
			if !(strings.HasSuffix(nm, "Registry).With") || strings.HasSuffix(nm, "Registry).WithOptional")) {
				continue
			}
			a := stripIface(s.Args()[1])
			name := typeShort(a.Type())
			name = strings.TrimPrefix(name, "*")
			if call, ok := a.(*ssa.Call); ok {
				if cal := call.Call.StaticCallee(); cal != nil && cal.Pkg != nil {
					name = cal.Pkg.Pkg.Name() + "." + cal.Name()
				}
			}
			order = append(order, name)
		}
		okm := len(order) >= len(migrationOrderHistory)
		for i := range migrationOrderHistory {
			if i >= len(order) || order[i] != migrationOrderHistory[i] {
				okm = false
			}
		}
		c.check(okm, "persisted-ids", "node.registerMigrations order", p.Pos(fnPos(f)), "recorded migration indices are a prefix of the current registration", fmt.Sprintf("migration registration order changed: recorded %v, current %v — applied bits of existing databases would refer to other migrations", migrationOrderHistory, order))
	} else {
		c.und("persisted-ids", "node.registerMigrations", "", "anchor not found")
	}
	c.floor("persisted-ids", 40)
}

// rootClosureOf: the anonymous function directly nested in outer that (transitively) contains fn.
func rootClosureOf(fn, outer *ssa.Function) *ssa.Function {
	for fn != nil && fn.Parent() != outer {
		fn = fn.Parent()
	}
	return fn
}

// migrationOrderAST reads the With/WithOptional chain of node.registerMigrations from the syntax tree.
func migrationOrderAST(p *Prog) []string {
	pk := p.pkg("node")
	if pk == nil {
		return nil
	}
	var order []string
	for _, file := range pk.Syntax {
		for _, d := range file.Decls {
			fd, ok := d.(*ast.FuncDecl)
			if !ok || fd.Name.Name != "registerMigrations" || fd.Body == nil {
				continue
			}
			var calls []*ast.CallExpr
			ast.Inspect(fd.Body, func(n ast.Node) bool {
				if ce, ok := n.(*ast.CallExpr); ok {
					if se, ok := ce.Fun.(*ast.SelectorExpr); ok && (se.Sel.Name == "With" || se.Sel.Name == "WithOptional") {
						calls = append(calls, ce)
					}
				}
				return true
			})
			// the outermost call is visited first; chain order is the reverse (innermost receiver registered first)
			sort.Slice(calls, func(i, j int) bool {
				return calls[i].Fun.(*ast.SelectorExpr).Sel.Pos() < calls[j].Fun.(*ast.SelectorExpr).Sel.Pos()
			})
			for _, ce := range calls {
				if len(ce.Args) == 0 {
					continue
				}
				order = append(order, exprName(ce.Args[0]))
			}
		}
	}
	return order
}

func exprName(e ast.Expr) string {
	switch x := e.(type) {
	case *ast.UnaryExpr:
		return exprName(x.X)
	case *ast.CompositeLit:
		return types.ExprString(x.Type)
	case *ast.CallExpr:
		return types.ExprString(x.Fun)
	}
	return types.ExprString(e)
}

// wholeBucketClear: fn (or a same-package callee, depth ≤ 2) deletes a whole source bucket directly on the store
// (DeletePrefix on a typed bucket's prefix, or DeleteRange on a db.KeyValueStore / KeyValueRangeDeleter that is not a batch).
func wholeBucketClear(fn *ssa.Function, depth int) bool {
	if fn == nil || len(fn.Blocks) == 0 || depth > 2 {
		return false
	}
	for _, s := range sitesOf(fn) {
		cn := s.CalleeName()
		if strings.HasSuffix(cn, ".DeletePrefix") || strings.HasSuffix(cn, ").DeletePrefix") {
			return true
		}
		if s.Method != nil && s.Method.Name() == "DeleteRange" && strings.HasSuffix(typeShort(s.Recv.Type()), "KeyValueStore") {
			return true
		}
		if s.Callee != nil && s.Callee.Pkg == fn.Pkg && s.Callee != fn && wholeBucketClear(s.Callee, depth+1) {
			return true
		}
	}
	return false
}

// c18ClearAfterDone: a Migrate implementation wipes the buckets it converts only on a path that established that nothing is
// left to migrate and no error occurred. (An early wipe loses every entry not yet converted when the run is interrupted.)
func c18ClearAfterDone(c *Ctx) {
	p := c.P
	n := 0
	for _, fn := range p.sortedFuncs() {
		pr := pkgRelOf(fn)
		if !strings.HasPrefix(pr, "migration/") || strings.HasPrefix(pr, "migration/deprecated") || fn.Origin() != nil || strings.HasSuffix(p.Pos(fnPos(fn)), "_test.go") {
			continue
		}
		if fn.Name() != "Migrate" && !strings.HasPrefix(fn.Name(), "zzVerifFixtureC18Clear") {
			continue
		}
		for _, g := range withAnons(fn) {
			for _, s := range sitesOf(g) {
				if s.Callee == nil || s.Callee.Pkg != fn.Pkg || !wholeBucketClear(s.Callee, 0) {
					continue
				}
				// the pipeline stages themselves (range deletes of converted blocks inside a batch) are not whole-bucket clears
				n++
				d := p.mustHoldAt(s.Instr)
				okDone, m1 := everyDisjunctHas(d, []string{"$.IsDone"}, []string{"^!", "getFirstBlockToMigrate(", "#1"})
				okErr, m2 := everyDisjunctHas(d, []string{"^!", "errors.Join(", "!= nil"}, []string{"^!", "#2 != nil"}, []string{"^!", ".Err != nil"})
				c.check(okDone && okErr, "clear-after-done", qname(fn)+" → "+s.Callee.Name(), p.Pos(s.Pos()), "source buckets are wiped only after the pipeline reported completion (or nothing is left to migrate) without error",
					"the deprecated source buckets are wiped on a path that did not establish that every entry was converted: an interrupted or failed run loses the entries not yet migrated: "+m1+" "+m2)
			}
		}
	}
	if n < 2 {
		c.und("clear-after-done", "migration wipes", "", fmt.Sprintf("only %d whole-bucket clears found in Migrate implementations", n))
	}
	c.needFixture("clear-after-done")
}

// c18ErrorFirst: a Migrate implementation that ran a pipeline reports success or "interrupted, resume later" only on a
// path where the pipeline's error was tested and found nil. (An error of a worker also leaves IsDone false: testing IsDone
// first turns a failed block into a graceful interruption, the checkpoint is saved past it and the next run skips it.)
func c18ErrorFirst(c *Ctx) {
	p := c.P
	n := 0
	for _, fn := range p.sortedFuncs() {
		pr := pkgRelOf(fn)
		if !strings.HasPrefix(pr, "migration/") || strings.HasPrefix(pr, "migration/deprecated") || fn.Origin() != nil || strings.HasSuffix(p.Pos(fnPos(fn)), "_test.go") {
			continue
		}
		// Migrate itself, or a piece of it (a function that only Migrate reaches)
		if fn.Name() != "Migrate" && !(fn.Parent() == nil && p.calledOnlyFrom(fn, "Migrate", 0)) {
			continue
		}
		resultParam := false
		for _, pa := range fn.Params {
			if isNamed(pa.Type(), "migration/pipeline", "Result") {
				resultParam = true
			}
		}
		var results []ssa.Instruction
		allInstrs(fn, func(in ssa.Instruction) {
			if v, ok := in.(ssa.Value); ok {
				if _, isCall := in.(*ssa.Call); isCall && isNamed(v.Type(), "migration/pipeline", "Result") {
					results = append(results, in)
				}
			}
		})
		if len(results) == 0 && !resultParam {
			continue
		}
		for _, ret := range returnsOf(fn) {
			if len(ret.Results) == 0 || !isNilConst(ret.Results[len(ret.Results)-1]) {
				continue
			}
			// a tail call that hands the result on is judged in the callee
			after := resultParam
			for _, r := range results {
				if dominatesInstr(r, ret.Ret) {
					after = true
				}
			}
			if !after {
				continue
			}
			n++
			d := p.mustHoldAt(ret.Ret)
			ok, miss := everyDisjunctHas(d, []string{"^!", ".Err != nil)"}, []string{".Err == nil)"}, []string{"^!", "errors.Join(", "!= nil)"})
			c.check(ok, "error-first", fmt.Sprintf("%s: nil-error return #%d after the pipeline ran", qname(fn), n), p.Pos(posOf(ret.Ret, fn)), "only after the pipeline's error was tested and found nil", "Migrate returns a nil error (success or a resume checkpoint) on a path where the pipeline's error was not tested: a worker error is reported as a graceful interruption, the checkpoint moves past the failed item and the migration is later marked applied with that item unconverted: "+miss)
		}
	}
	if n < 2 {
		c.und("error-first", "pipeline migrations", "", fmt.Sprintf("only %d nil-error returns after a pipeline found", n))
	}
	// history-pruning migration: a key listed in a state diff may have no history entry (F1/F17): the copy step classifies
	// key-not-found instead of failing
	if f := p.Func("migration/historyprunner", "", "copyValue"); f != nil {
		ok := false
		for _, s := range sitesOf(f) {
			if s.CalleeName() == "errors.Is" && strings.Contains(term(s.Args()[1]), "ErrKeyNotFound") {
				ok = true
			}
		}
		c.check(ok, "history-entry-optional", "historyprunner.copyValue", p.Pos(fnPos(f)), "an absent history entry is skipped", "the history-pruning migration fails on a diff entry without a history entry (the deprecated state logs none for a write of the zero value to a key never written): pruning cannot be enabled on such a database (F17)")
	} else {
		c.und("history-entry-optional", "historyprunner.copyValue", "", "anchor not found")
	}
}

// c18DeleteAfterIngest: a worker that converts a range of items and then deletes their old representation queues the
// deletion only after its per-item loop has finished: if an item fails mid-range the partial batch is still flushed by the
// pipeline (Done), and a deletion queued first would remove old entries of items that were never converted.
func c18DeleteAfterIngest(c *Ctx) {
	p := c.P
	f := p.Func("migration/blocktransactions", "ingestor", "ingestBlockRange")
	if f == nil {
		c.und("delete-after-ingest", "ingestor.ingestBlockRange", "", "anchor not found")
		return
	}
	del := findSite(f, "deleteOldBlockRangeData")
	ing := findSite(f, "ingestBlock")
	if del == nil || ing == nil {
		c.viol("delete-after-ingest", "ingestBlockRange", p.Pos(fnPos(f)), "ingestBlockRange no longer ingests each block and then deletes the old layout of the range")
		return
	}
	// the delete is outside the loop and every path to it went through the loop's exit
	okAfter := inSameLoop(ing.Block(), ing.Block()) && !inSameLoop(del.Block(), del.Block()) && !dominatesInstr(del.Instr, ing.Instr)
	// and it is reached only when no item failed
	okErr, miss := everyDisjunctHas(p.mustHoldAt(del.Instr), []string{"^!", "ingestBlock(", "!= nil)"}, []string{"^!", "< "}, []string{"^!", "<= "})
	_ = okErr
	_ = miss
	c.check(okAfter, "delete-after-ingest", "ingestBlockRange: deleteOldBlockRangeData", p.Pos(del.Pos()), "queued after the per-block loop completed", "the old-layout range deletion is queued before the blocks of the range are ingested: when a block fails mid-range the flushed partial batch deletes old entries of blocks that were never converted, and they end up in neither layout")
}

// c18CommitEveryBatch: a batch handed to the block-transactions committer is written on every path that reports success.
// Its content is not only transactions: ranges of empty blocks put empty BlockTransactions entries (and old-layout range
// deletes) into it, so "no transactions" does not mean "nothing to persist" (seeded change C18-H). The only accepted reason
// to skip the write is an empty batch (batch.Size() == 0).
func c18CommitEveryBatch(c *Ctx) {
	p := c.P
	f := p.Func("migration/blocktransactions", "committer", "Run")
	if f == nil {
		c.und("commit-every-batch", "committer.Run", "", "anchor not found")
		return
	}
	pass := map[*ssa.BasicBlock]bool{}
	for _, ds := range p.deepSites(f, func(s Site) bool {
		return s.Method != nil && s.Method.Name() == "Write" && strings.HasSuffix(typeShort(s.Recv.Type()), "db.Batch")
	}, 2) {
		pass[ds.outer().Block()] = true
	}
	if len(pass) == 0 {
		c.viol("commit-every-batch", "committer.Run", p.Pos(fnPos(f)), "the committer no longer writes the batch it is handed")
		return
	}
	bad := ""
	seen := map[*ssa.BasicBlock]bool{}
	q := []*ssa.BasicBlock{f.Blocks[0]}
	for len(q) > 0 {
		b := q[0]
		q = q[1:]
		if seen[b] || pass[b] {
			continue
		}
		seen[b] = true
		if exitKind(b) == "return" {
			ret := b.Instrs[len(b.Instrs)-1].(*ssa.Return)
			isErr := len(ret.Results) > 0 && !isNilConst(unspill(ret.Results[len(ret.Results)-1], b))
			d := p.mustHoldAt(ret)
			empty, _ := everyDisjunctHas(d, []string{".Size() == 0"})
			if !isErr && !(empty && len(d) > 0) {
				bad = p.Pos(posOf(ret, f))
			}
		}
		q = append(q, b.Succs...)
	}
	c.check(bad == "", "commit-every-batch", "committer.Run", p.Pos(fnPos(f)), "every successful return is preceded by batch.Write() (or the batch is empty)", "the return at "+bad+" reports success without writing the batch: a batch holds more than transactions (entries of empty blocks, deletions of the old layout), which are lost although the migration then reports completion")
}

// c18ResumeAboveFloor: (resume-above-floor) a migration that walks blocks and may be resumed starts no lower than the oldest
// block the database still holds: in every function of migration/* that asks pruner.OldestRetainedBlock, the block number it
// returns as the start is that floor itself or max(…, floor) — a stored checkpoint alone is not enough, because another
// migration (history pruning, which runs first) may have raised the floor since the checkpoint was written. Seeded change
// C18-L returns the checkpoint when there is one: after an interruption followed by enabling pruning, every start fails
// with key-not-found on a pruned block and the upgrade never finishes.
func c18ResumeAboveFloor(c *Ctx) {
	p := c.P
	n := 0
	for _, fn := range p.sortedFuncs() {
		if !strings.HasPrefix(pkgRelOf(fn), "migration/") || fn.Origin() != nil || strings.HasSuffix(p.Pos(fnPos(fn)), "_test.go") {
			continue
		}
		var floor ssa.Value
		for _, s := range sitesOf(fn) {
			if s.Callee != nil && s.Callee.Name() == "OldestRetainedBlock" {
				if v, ok := s.Instr.(ssa.Value); ok {
					if refs := v.Referrers(); refs != nil {
						for _, r := range *refs {
							if ex, ok := r.(*ssa.Extract); ok && ex.Index == 0 {
								floor = ex
							}
						}
					}
				}
			}
		}
		if floor == nil {
			continue
		}
		var atLeast func(v ssa.Value, d int) bool
		atLeast = func(v ssa.Value, d int) bool {
			if d > 5 {
				return false
			}
			if v == floor {
				return true
			}
			switch x := v.(type) {
			case *ssa.Call:
				if b, ok := x.Call.Value.(*ssa.Builtin); ok && b.Name() == "max" {
					for _, a := range x.Call.Args {
						if atLeast(a, d+1) {
							return true
						}
					}
				}
			case *ssa.Phi:
				// max written as an if: an arm that is not the floor itself must come in under `arm > floor` / `arm >= floor`
				ft := term(floor)
				for i, e := range x.Edges {
					if atLeast(e, d+1) {
						continue
					}
					pred := x.Block().Preds[i]
					et := term(e)
					dd := p.mustHoldAt(pred.Instrs[len(pred.Instrs)-1])
					if o, _ := everyDisjunctHas(dd, []string{et + " > " + ft}, []string{et + " >= " + ft}, []string{ft + " < " + et}, []string{ft + " <= " + et},
						[]string{"^!", et + " <= " + ft}, []string{"^!", et + " < " + ft}, []string{"^!", ft + " >= " + et}, []string{"^!", ft + " > " + et}); !o {
						return false
					}
				}
				return len(x.Edges) > 0
			case *ssa.UnOp:
				// defer-spilled / named result: single store
				if al, ok := x.X.(*ssa.Alloc); ok {
					okAll, k := true, 0
					if refs := al.Referrers(); refs != nil {
						for _, r := range *refs {
							if st, ok := r.(*ssa.Store); ok && st.Addr == ssa.Value(al) {
								k++
								if !atLeast(st.Val, d+1) {
									okAll = false
								}
							}
						}
					}
					return okAll && k > 0
				}
			}
			return false
		}
		for _, r := range returnsOf(fn) {
			if len(r.Results) < 2 || !isNilConst(r.Results[len(r.Results)-1]) {
				continue
			}
			// the block numbers handed back: the first result if it is a uint64, or the uint64 fields of a struct built here
			var cands []ssa.Value
			if bt, ok := r.Results[0].Type().Underlying().(*types.Basic); ok && bt.Kind() == types.Uint64 {
				cands = append(cands, r.Results[0])
			} else if _, isStruct := r.Results[0].Type().Underlying().(*types.Struct); isStruct {
				for v := range backSlice(r.Results[0]) {
					if al, ok := v.(*ssa.Alloc); ok {
						if refs := al.Referrers(); refs != nil {
							for _, rr := range *refs {
								if fa, ok := rr.(*ssa.FieldAddr); ok {
									if bt, ok := fa.Type().(*types.Pointer).Elem().Underlying().(*types.Basic); ok && bt.Kind() == types.Uint64 {
										if fr := fa.Referrers(); fr != nil {
											for _, st := range *fr {
												if sto, ok := st.(*ssa.Store); ok && sto.Addr == ssa.Value(fa) {
													cands = append(cands, sto.Val)
												}
											}
										}
									}
								}
							}
						}
					}
				}
			}
			for _, cv := range cands {
				n++
				c.check(atLeast(cv, 0), "resume-above-floor", qname(fn)+": start block", p.Pos(posOf(r.Ret, fn)), "the start is the oldest retained block or max(…, oldest retained block)",
					"the block a resumable migration starts from ("+clip(term(cv), 120)+") is not bounded below by the oldest retained block: a checkpoint written before pruning raised the floor points at blocks that no longer exist, and every start fails on them")
			}
		}
	}
	if n == 0 {
		c.und("resume-above-floor", "migration/*", "", "no migration function that asks for the oldest retained block and returns a start block was found")
	}
}
