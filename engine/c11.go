package main

import (
	"fmt"
	"go/ast"
	"go/constant"
	"go/token"
	"go/types"
	"os"
	"strings"

	"golang.org/x/tools/go/packages"
	"golang.org/x/tools/go/ssa"
)

type rpcMethod struct {
	Name     string
	Params   []string
	Optional []bool
	Sig      *types.Signature
	Pos      string
	Table    string
}

// methodTables: every composite literal of type jsonrpc.Method in the module, grouped by enclosing function.
func methodTables(p *Prog) []rpcMethod {
	var out []rpcMethod
	mt := p.lookupType("jsonrpc", "Method")
	if mt == nil {
		return nil
	}
	for _, pk := range p.Pkgs {
		for _, file := range pk.Syntax {
			if isFixtureFile(p.Fset.Position(file.Pos()).Filename) {
				// fixtures are included (positive control) but marked by position
			}
			for _, d := range file.Decls {
				fd, ok := d.(*ast.FuncDecl)
				if !ok || fd.Body == nil {
					continue
				}
				ast.Inspect(fd.Body, func(n ast.Node) bool {
					cl, ok := n.(*ast.CompositeLit)
					if !ok {
						return true
					}
					t := pk.TypesInfo.TypeOf(cl)
					if t == nil || !types.Identical(t, mt) {
						return true
					}
					m := rpcMethod{Pos: p.Pos(cl.Pos()), Table: pk.Types.Name() + "." + fd.Name.Name}
					for _, el := range cl.Elts {
						kv, ok := el.(*ast.KeyValueExpr)
						if !ok {
							continue
						}
						key, _ := kv.Key.(*ast.Ident)
						if key == nil {
							continue
						}
						switch key.Name {
						case "Name":
							if tv, ok := pk.TypesInfo.Types[kv.Value]; ok && tv.Value != nil {
								m.Name = constant.StringVal(tv.Value)
							}
						case "Handler":
							if s, ok := pk.TypesInfo.TypeOf(kv.Value).Underlying().(*types.Signature); ok {
								m.Sig = s
							}
						case "Params":
							if pl, ok := kv.Value.(*ast.CompositeLit); ok {
								for _, pe := range pl.Elts {
									pcl, ok := pe.(*ast.CompositeLit)
									if !ok {
										continue
									}
									name, opt := "", false
									for _, f := range pcl.Elts {
										fkv, ok := f.(*ast.KeyValueExpr)
										if !ok {
											continue
										}
										fk, _ := fkv.Key.(*ast.Ident)
										if fk == nil {
											continue
										}
										if tv, ok := pk.TypesInfo.Types[fkv.Value]; ok && tv.Value != nil {
											if fk.Name == "Name" {
												name = constant.StringVal(tv.Value)
											}
											if fk.Name == "Optional" {
												opt = constant.BoolVal(tv.Value)
											}
										}
									}
									m.Params = append(m.Params, name)
									m.Optional = append(m.Optional, opt)
								}
							}
						}
					}
					out = append(out, m)
					return true
				})
			}
		}
	}
	return out
}

var _ = packages.NeedName

func init() {
	register("C11", func(c *Ctx) {
		p := c.P
		c.Explain = "Table-driven half of the JSON-RPC server decided from the syntax tree + go/types and SSA: (method-table) every registered jsonrpc.Method literal has a function handler whose non-context parameter count equals len(Params), results (T, *jsonrpc.Error) or (T, http.Header, *jsonrpc.Error), unique method and parameter names, and optional parameters forming a suffix (positional binding assumes it); " +
			"(positional-offset) every reflect In(i) lookup in buildArguments accounts for the context offset; (id-validation) request-id validation depends only on the JSON kind and the absence of a fraction, never on a range-limited numeric conversion; (id-correlation) every response carries the id of the request it answers, except on the invalid-id arm; (notification) no response is produced iff the request has no id. " +
			"Not decided: crash/hang freedom on arbitrary bytes, JSON validity of payloads, exactly-once invocation and batch concurrency (encoding/json, reflection and handler behaviour at run time)."
		ms := methodTables(p)
		ctxT := types.Universe.Lookup("error") // placeholder to keep types imported
		_ = ctxT
		perTable := map[string]map[string]bool{}
		n := 0
		for _, m := range ms {
			if strings.HasSuffix(m.Table, "_test") {
				continue
			}
			n++
			construct := m.Table + ":" + m.Name
			if m.Name == "" {
				c.und("method-table", construct+"@"+m.Pos, m.Pos, "method name is not a constant string")
				continue
			}
			if perTable[m.Table] == nil {
				perTable[m.Table] = map[string]bool{}
			}
			if perTable[m.Table][m.Name] {
				c.viol("method-table", construct+" duplicate", m.Pos, "method name registered twice in one table: the later entry silently replaces the earlier")
			}
			perTable[m.Table][m.Name] = true
			if m.Sig == nil {
				c.viol("method-table", construct, m.Pos, "handler is not a function")
				continue
			}
			nin := m.Sig.Params().Len()
			if nin > 0 && strings.HasSuffix(m.Sig.Params().At(0).Type().String(), "context.Context") {
				nin--
			}
			var bad []string
			if nin != len(m.Params) {
				bad = append(bad, fmt.Sprintf("handler takes %d non-context parameters but %d names are declared", nin, len(m.Params)))
			}
			nout := m.Sig.Results().Len()
			last := ""
			if nout > 0 {
				last = m.Sig.Results().At(nout - 1).Type().String()
			}
			if !(nout == 2 || nout == 3) || !strings.HasSuffix(last, "jsonrpc.Error") {
				bad = append(bad, "results must be (T, *jsonrpc.Error) or (T, http.Header, *jsonrpc.Error)")
			}
			if nout == 3 && m.Sig.Results().At(1).Type().String() != "net/http.Header" {
				bad = append(bad, "second result of a 3-tuple handler must be http.Header")
			}
			seenOpt := false
			names := map[string]bool{}
			for i, pn := range m.Params {
				if names[pn] || pn == "" {
					bad = append(bad, "parameter name "+pn+" empty or repeated")
				}
				names[pn] = true
				if m.Optional[i] {
					seenOpt = true
				} else if seenOpt {
					bad = append(bad, "required parameter "+pn+" follows an optional one (positional calls cannot omit the optional)")
				}
			}
			if len(bad) == 0 {
				c.ok("method-table", construct, m.Pos, "arity, result shape, unique names, optional suffix")
			} else {
				c.viol("method-table", construct, m.Pos, strings.Join(bad, "; "))
			}
		}
		c.floor("method-table", 90)
		c.needFixture("method-table")

		// positional-offset
		if f := p.Func("jsonrpc", "Server", "buildArguments"); f != nil {
			k := 0
			// addContext: the φ(0 | 1) selected by method.needsContext
			var addCtx ssa.Value
			allInstrs(f, func(in ssa.Instruction) {
				if phi, ok := in.(*ssa.Phi); ok && len(phi.Edges) == 2 && addCtx == nil {
					a, okA := constUint(phi.Edges[0])
					b, okB := constUint(phi.Edges[1])
					if okA && okB && a+b == 1 {
						addCtx = phi
					}
				}
			})
			for _, s := range sitesOf(f) {
				if s.Method == nil || s.Method.Name() != "In" || !strings.Contains(typeShort(s.Recv.Type()), "reflect.Type") {
					continue
				}
				k++
				it := termF(s.Args()[0])
				dep := addCtx != nil && dependsOn(s.Args()[0], addCtx, map[ssa.Value]bool{})
				c.check(dep, "positional-offset", fmt.Sprintf("buildArguments: In() #%d", k), p.Pos(s.Pos()), "handler parameter index includes the context offset", "handlerType.In("+it+") does not depend on the context offset: for handlers taking a context the zero value of the wrong parameter type is passed and reflect.Call panics")
			}
			if k < 3 {
				c.und("positional-offset", "buildArguments", p.Pos(fnPos(f)), "reflect In() lookups not found")
			}
		} else {
			c.und("positional-offset", "Server.buildArguments", "", "anchor not found")
		}
		// id-validation
		if f := p.Func("jsonrpc", "Request", "isSane"); f != nil {
			bad := ""
			for _, s := range sitesOf(f) {
				nm := s.CalleeName()
				if strings.HasSuffix(nm, "json.Number).Int64") || strings.HasSuffix(nm, "json.Number).Float64") || strings.Contains(nm, "strconv.Parse") || strings.Contains(nm, "strconv.Atoi") {
					bad = nm
				}
			}
			c.check(bad == "", "id-validation", "Request.isSane", p.Pos(fnPos(f)), "ids are validated by kind and fraction only", "request ids are validated with the range-limited conversion "+bad+": valid integral ids outside that range (e.g. random u64) or in exponent form are rejected with Invalid Request and id null")
			// string or Number accepted: the ErrInvalidID return is guarded by kind checks
			okr := false
			for _, ret := range returnsOf(f) {
				if strings.HasSuffix(term(ret.Results[0]), "ErrInvalidID") {
					okr = true
				}
			}
			c.check(okr, "id-validation", "Request.isSane: ErrInvalidID", p.Pos(fnPos(f)), "invalid ids are reported with the dedicated sentinel", "isSane no longer returns ErrInvalidID: the id-correlation arm cannot distinguish invalid ids")
			// the id is validated before anything else: every other failed check is answered with an error response that echoes
			// the request's id, so an ill-typed id ([37], {"a":1.5}, true) must have been rejected (→ id null) by then (defect F24)
			var idTest *ssa.If
			allInstrs(f, func(in ssa.Instruction) {
				iff, ok := in.(*ssa.If)
				if !ok || idTest != nil {
					return
				}
				if b, isB := iff.Cond.(*ssa.BinOp); isB && (isNilConst(b.X) || isNilConst(b.Y)) && strings.Contains(term(b), ".ID") {
					idTest = iff
				}
			})
			if idTest == nil {
				c.und("id-validation", "Request.isSane: id checked first", p.Pos(fnPos(f)), "the test of the request id was not recognised")
			} else {
				badRet := ""
				for _, ret := range returnsOf(f) {
					if isNilConst(ret.Results[0]) || strings.HasSuffix(term(ret.Results[0]), "ErrInvalidID") {
						continue
					}
					if !idTest.Block().Dominates(ret.Block) {
						badRet = p.Pos(posOf(ret.Ret, f))
					}
				}
				c.check(badRet == "", "id-validation", "Request.isSane: id checked first", p.Pos(posOf(idTest, f)), "every other failed sanity check is reported only after the id was validated", "the sanity error returned at "+badRet+" is reported before the id was validated: its error response echoes the request's id, which may be an array, object or boolean — not a valid JSON-RPC response id")
			}
		} else {
			c.und("id-validation", "Request.isSane", "", "anchor not found")
		}
		// id-correlation + notification
		if f := p.Func("jsonrpc", "Server", "handleRequest"); f != nil {
			var res *ssa.Alloc
			idFromReq := false
			allInstrs(f, func(in ssa.Instruction) {
				if a, ok := in.(*ssa.Alloc); ok && isNamed(a.Type(), "jsonrpc", "response") {
					res = a
				}
			})
			if res != nil {
				if refs := res.Referrers(); refs != nil {
					for _, r := range *refs {
						if fa, ok := r.(*ssa.FieldAddr); ok && fieldName(fa.X.Type(), fa.Field) == "ID" {
							if rr := fa.Referrers(); rr != nil {
								for _, u := range *rr {
									if st, ok := u.(*ssa.Store); ok && strings.HasSuffix(term(st.Val), "req.ID") {
										idFromReq = true
									}
								}
							}
						}
					}
				}
			}
			allRes := true
			// effective returns: the function's own returns, and — where it ends in `return s.helper(..)` with a same-package
			// helper — the helper's returns, with the helper's parameters read as the arguments of the call (refactoring
			// C11-R12 moves the reflective call and the notification arm into such a helper)
			type effRet struct {
				results   []ssa.Value
				d         dnf
				pos       string
				afterCall bool
			}
			isReflectCall := func(s Site) bool {
				return s.Callee != nil && s.Callee.Name() == "Call" && strings.Contains(qname(s.Callee), "reflect")
			}
			reflectCallIn := func(g *ssa.Function) *Site {
				for _, s := range sitesOf(g) {
					if isReflectCall(s) {
						ss := s
						return &ss
					}
				}
				return nil
			}
			var effs []effRet
			for _, ret := range returnsOf(f) {
				var fwd *ssa.Call
				all := len(ret.Results) > 0
				for i, r := range ret.Results {
					ex, ok := r.(*ssa.Extract)
					if !ok || ex.Index != i {
						all = false
						break
					}
					cl, ok := ex.Tuple.(*ssa.Call)
					if !ok || (fwd != nil && cl != fwd) {
						all = false
						break
					}
					fwd = cl
				}
				var g *ssa.Function
				if all && fwd != nil {
					g = fwd.Call.StaticCallee()
				}
				if g == nil || len(g.Blocks) == 0 || pkgRelOf(g) != pkgRelOf(f) {
					rc := reflectCallIn(f)
					effs = append(effs, effRet{ret.Results, p.mustHoldAt(ret.Ret), p.Pos(posOf(ret.Ret, f)), rc != nil && dominatesInstr(rc.Instr, ret.Ret)})
					continue
				}
				site := Site{Instr: fwd, Callee: g}
				rcf, rcg := reflectCallIn(f), reflectCallIn(g)
				for _, gr := range returnsOf(g) {
					var mapped []ssa.Value
					for _, v := range gr.Results {
						if pa, ok := v.(*ssa.Parameter); ok {
							for i, q := range g.Params {
								if q == pa && i < len(fwd.Call.Args) {
									v = fwd.Call.Args[i]
								}
							}
						}
						mapped = append(mapped, v)
					}
					after := (rcg != nil && dominatesInstr(rcg.Instr, gr.Ret)) || (rcf != nil && dominatesInstr(rcf.Instr, fwd))
					effs = append(effs, effRet{mapped, p.mustHoldChain(gr.Ret, []Site{site}), p.Pos(posOf(gr.Ret, g)), after})
				}
			}
			nNil, nResp := 0, 0
			for _, ret := range effs {
				if len(ret.results) < 3 {
					continue
				}
				if isNilConst(ret.results[0]) {
					// either the sanity-error arm (error non-nil) or the notification arm
					if isNilConst(ret.results[2]) {
						nNil++
						d := ret.d
						ok, miss := everyDisjunctHas(d, []string{".ID == nil"})
						okAfter := ret.afterCall
						if !okAfter {
							// before the handler call only on the arms on which the handler cannot run at all: unknown method, or
							// arguments that could not be built
							nf, _ := everyDisjunctHas(d, []string{"^!", ".methods["})
							bp, _ := everyDisjunctHas(d, []string{"buildArguments(", "!= nil"})
							okAfter = len(d) > 0 && (nf || bp)
						}
						c.check(ok && okAfter, "notification", fmt.Sprintf("handleRequest: no response only for a request without id (#%d)", nNil), ret.pos, "nil response under res.ID == nil, after the handler ran (or where it cannot run)", "a nil response is returned although the request carries an id, or instead of running the handler: "+miss)
					}
					continue
				}
				// a response object is produced only for a request that carries an id: a notification is never answered, not even
				// with method-not-found / invalid-params (JSON-RPC 2.0 §4.1; defect F23)
				nResp++
				okID, missID := everyDisjunctHas(ret.d, []string{"^!", ".ID == nil"})
				c.check(okID && len(ret.d) > 0, "notification", fmt.Sprintf("handleRequest: response only for a request with an id (#%d)", nResp), ret.pos, "the response is returned under ID != nil", "a response object is returned for a request without an id (a notification must never be answered, not even with an error): "+missID)
				if ret.results[0] != ssa.Value(res) {
					allRes = false
				}
			}
			c.check(res != nil && idFromReq && allRes, "id-correlation", "handleRequest: response.ID = req.ID", p.Pos(fnPos(f)), "every response returned is the one initialised with the request's id", "handleRequest returns a response that was not initialised with req.ID")
			if nNil == 0 {
				c.viol("notification", "handleRequest", p.Pos(fnPos(f)), "notifications (no id) are no longer answered with no response")
			}
			// responses after the call for requests with an id: every non-error return after Call under !(ID == nil) returns res
		} else {
			c.und("id-correlation", "Server.handleRequest", "", "anchor not found")
		}
		for _, fnn := range []string{"HandleReader", "handleBatchRequest"} {
			f := p.Func("jsonrpc", "Server", fnn)
			if f == nil {
				c.und("id-correlation", "Server."+fnn, "", "anchor not found")
				continue
			}
			k := 0
			// the function itself, its closures, and same-package helpers it calls (the error response may be built by a helper)
			scope := append([]*ssa.Function{}, withAnons(f)...)
			for _, g := range samePkgScope(f, 2) {
				if g == f || g.Name() == "handleRequest" || g.Name() == "HandleReader" || g.Name() == "handleBatchRequest" {
					continue
				}
				scope = append(scope, withAnons(g)...)
			}
			for _, g := range scope {
				allInstrs(g, func(in ssa.Instruction) {
					st, ok := in.(*ssa.Store)
					if !ok {
						return
					}
					fa, ok := st.Addr.(*ssa.FieldAddr)
					if !ok || !isNamed(fa.X.Type(), "jsonrpc", "response") || fieldName(fa.X.Type(), fa.Field) != "ID" {
						return
					}
					if _, fresh := fa.X.(*ssa.Alloc); fresh && isNilConst(st.Val) {
						return
					}
					k++
					ok1 := strings.HasSuffix(term(st.Val), "req.ID") || strings.HasSuffix(term(st.Val), ".ID")
					ok2, miss := everyDisjunctHas(p.mustHoldAt(in), []string{"^!", "errors.Is(", "ErrInvalidID"})
					c.check(ok1 && ok2, "id-correlation", fnn+": error response carries the request id", p.Pos(posOf(in, g)), "id copied from the request unless the id itself is invalid", "error responses are not correlated with the request id (or an invalid id is echoed): "+miss)
				})
			}
			if k == 0 {
				c.und("id-correlation", fnn, p.Pos(fnPos(f)), "assignment of the response id on the error arm not found")
			}
		}
		c11BatchAndParams(c)
		c11BufferOwnership(c)
	})
}

// c11BatchAndParams: (batch-every-entry) every pool task of a batch runs handleRequest before it can return, so each
// decodable entry is answered (or is a notification); (param-validated) a parameter value is handed to the handler only
// after it was decoded into the handler's type and — when a validator is configured — validated.
func c11BatchAndParams(c *Ctx) {
	c11BodyLimitConstant(c)
	c11NullRequired(c)
	c11OneMessagePerWrite(c)
	c11NumbersExact(c, "numbers-exact")
	c11UnknownNameRejected(c)
	p := c.P
	if f := p.Func("jsonrpc", "Server", "handleBatchRequest"); f != nil {
		n := 0
		for _, s := range sitesOf(f) {
			if !strings.HasSuffix(s.CalleeName(), "Pool).Go") && !(s.Method != nil && s.Method.Name() == "Go") {
				continue
			}
			for _, a := range s.Args() {
				for _, task := range funcValues(a, 0) {
					n++
					hr := findSite(task, "handleRequest")
					ok := hr != nil
					if ok {
						for _, ret := range returnsOf(task) {
							if !dominatesInstr(hr.Instr, ret.Ret) {
								ok = false
							}
						}
					}
					// the task may delegate to a same-package helper that runs handleRequest on each of its paths
					var viaHelper *deepSite
					if hr == nil {
						for _, ds := range p.deepSites(task, nameMatcher("handleRequest"), 2) {
							if len(ds.Chain) == 0 {
								continue
							}
							outer := ds.Chain[0]
							okH := true
							for _, ret := range returnsOf(task) {
								if !dominatesInstr(outer.Instr, ret.Ret) {
									okH = false
								}
							}
							inner := ds.Site
							for _, hret := range returnsOf(inner.Fn) {
								if !dominatesInstr(inner.Instr, hret.Ret) {
									okH = false
								}
							}
							if okH {
								d := ds
								viaHelper = &d
								ok = true
								hr = &d.Site
							}
						}
					}
					if viaHelper != nil {
						task = viaHelper.Site.Fn // the response is handed on inside the helper
					}
					c.check(ok, "batch-every-entry", "handleBatchRequest pool task", p.Pos(fnPos(task)), "handleRequest dominates every return of the task", "a batch entry's task can finish without calling handleRequest: the entry gets no response and its handler never runs (e.g. entries still queued when the shared deadline expires)")
					// the response returned by handleRequest is handed on (to the collecting closure / method) by the task
					found := false
					if hr != nil {
						if hv, isVal := hr.Instr.(ssa.Value); isVal {
							var resp ssa.Value
							if refs := hv.Referrers(); refs != nil {
								for _, r := range *refs {
									if ex, isEx := r.(*ssa.Extract); isEx && ex.Index == 0 {
										resp = ex
									}
								}
							}
							for _, t := range sitesOf(task) {
								if t.Instr == hr.Instr || resp == nil {
									continue
								}
								for _, a := range t.Args() {
									if flowsFrom(a, resp, 0) {
										found = true
									}
								}
							}
						}
					}
					c.check(found, "batch-every-entry", "handleBatchRequest pool task adds its response", p.Pos(fnPos(task)), "the task hands the response of handleRequest on to the batch collector", "the task no longer adds its response to the batch result")
				}
			}
		}
		if n == 0 {
			c.und("batch-every-entry", "handleBatchRequest", p.Pos(fnPos(f)), "pool task not found")
		}
	} else {
		c.und("batch-every-entry", "Server.handleBatchRequest", "", "anchor not found")
	}
	if f := p.Func("jsonrpc", "Server", "parseParam"); f != nil {
		um := findSite(f, "Unmarshal")
		k := 0
		for _, ret := range returnsOf(f) {
			if !isNilConst(ret.Results[1]) {
				continue
			}
			k++
			d := p.mustHoldAt(ret.Ret)
			okU := um != nil && dominatesInstr(um.Instr, ret.Ret)
			okE, m1 := everyDisjunctHas(d, []string{"^!", "json.Unmarshal(", "!= nil"})
			okV, m2 := everyDisjunctHas(d, []string{"^!", "s.validator != nil"}, []string{"s.validator == nil"}, []string{"^!", "s.validateParam(", "!= nil"})
			// decoding / validation delegated to same-package helpers: the helper's call dominates the success return, its error
			// was found nil, and the helper does the step on each of its own success paths
			if !okU || !okE {
				for _, ds := range p.deepSites(f, func(x Site) bool {
					n := x.CalleeName()
					return strings.HasSuffix(n, "json.Unmarshal") || strings.HasSuffix(n, "Decoder).Decode")
				}, 2) {
					if len(ds.Chain) == 0 {
						continue
					}
					outer := ds.Chain[0]
					h := outer.Callee
					inner := ds.Site.Instr
					allPass := true
					for _, hr := range returnsOf(h) {
						if len(hr.Results) > 0 && isNilConst(hr.Results[len(hr.Results)-1]) && len(ds.Chain) == 1 && !dominatesInstr(inner, hr.Ret) {
							allPass = false
						}
					}
					nm := strings.TrimPrefix(qname(h), "(*jsonrpc.Server).")
					if i := strings.LastIndex(nm, "."); i >= 0 {
						nm = nm[i+1:]
					}
					if o, _ := everyDisjunctHas(d, []string{"^!", nm + "(", "!= nil"}); o && allPass && dominatesInstr(outer.Instr, ret.Ret) {
						okU, okE, m1 = true, true, ""
					}
				}
			}
			if !okV {
				for _, ds := range p.deepSites(f, nameMatcher("validateParam"), 2) {
					if len(ds.Chain) == 0 {
						continue
					}
					outer := ds.Chain[0]
					h := outer.Callee
					// inside the helper: validateParam is skipped only when no validator is configured
					okIn := true
					for _, hr := range returnsOf(h) {
						if len(hr.Results) == 0 || !isNilConst(hr.Results[len(hr.Results)-1]) {
							continue
						}
						if o, _ := everyDisjunctHas(p.mustHoldAt(hr.Ret), []string{"^!", ".validator != nil"}, []string{".validator == nil"}, []string{"^!", "validateParam(", "!= nil"}); !o {
							okIn = false
						}
					}
					nm := qname(h)
					if i := strings.LastIndex(nm, "."); i >= 0 {
						nm = nm[i+1:]
					}
					if o, _ := everyDisjunctHas(d, []string{"^!", nm + "(", "!= nil"}); o && okIn && dominatesInstr(outer.Instr, ret.Ret) {
						okV, m2 = true, ""
					}
				}
			}
			c.check(okU && okE && okV, "param-validated", "parseParam success", p.Pos(posOf(ret.Ret, f)), "the value was decoded into the handler's type without error and validated when a validator is configured",
				fmt.Sprintf("a parameter reaches the handler without being decoded into its type and validated (decoded: %v %s; validated: %v %s): e.g. an explicit null skips the type's UnmarshalJSON and the validator, so the handler runs on an unvalidated zero value instead of the request being rejected with -32602", okU && okE, m1, okV, m2))
		}
		if k == 0 {
			c.und("param-validated", "parseParam", p.Pos(fnPos(f)), "no success return found")
		}
	} else {
		c.und("param-validated", "Server.parseParam", "", "anchor not found")
	}
}

// dependsOn: does value v (through φ, arithmetic and conversions) depend on target?
func dependsOn(v, target ssa.Value, seen map[ssa.Value]bool) bool {
	if v == target {
		return true
	}
	if v == nil || seen[v] {
		return false
	}
	seen[v] = true
	switch x := v.(type) {
	case *ssa.Phi:
		for _, e := range x.Edges {
			if dependsOn(e, target, seen) {
				return true
			}
		}
	case *ssa.BinOp:
		return dependsOn(x.X, target, seen) || dependsOn(x.Y, target, seen)
	case *ssa.Convert:
		return dependsOn(x.X, target, seen)
	case *ssa.ChangeType:
		return dependsOn(x.X, target, seen)
	}
	return false
}

// c11BufferOwnership: bytes handed across the server's boundaries are owned by the receiver only for the call:
// (no-retain) an io.Writer implementation of the package never stores (a slice of) the caller's buffer — the parse-error
// window sits behind a TeeReader, so retaining `p` aliases the JSON decoder's internal buffer and later window writes
// overwrite request bytes the decoder has not unmarshalled yet; (no-pooled-escape) a function never returns bytes of a
// buffer it has put (or defers putting) back into a sync.Pool — the next request would re-encode over a response that the
// transport is still writing.
func c11BufferOwnership(c *Ctx) {
	p := c.P
	nW, nR := 0, 0
	for _, fn := range p.sortedFuncs() {
		if pkgRelOf(fn) != "jsonrpc" || fn.Origin() != nil || strings.HasSuffix(p.Pos(fnPos(fn)), "_test.go") {
			continue
		}
		// --- no-retain: methods Write([]byte) (int, error)
		if fn.Name() == "Write" && fn.Signature.Recv() != nil && len(fn.Params) == 2 && fn.Params[1].Type().String() == "[]byte" || strings.HasPrefix(fn.Name(), "zzVerifFixtureC11Write") {
			nW++
			par := fn.Params[len(fn.Params)-1]
			bad := ""
			var derived func(v ssa.Value, d int) bool
			derived = func(v ssa.Value, d int) bool {
				if d > 4 {
					return false
				}
				if v == ssa.Value(par) {
					return true
				}
				if sl, ok := v.(*ssa.Slice); ok {
					return derived(sl.X, d+1)
				}
				if ph, ok := v.(*ssa.Phi); ok {
					for _, e := range ph.Edges {
						if derived(e, d+1) {
							return true
						}
					}
				}
				return false
			}
			allInstrs(fn, func(in ssa.Instruction) {
				if st, ok := in.(*ssa.Store); ok {
					if _, isField := st.Addr.(*ssa.FieldAddr); isField && derived(st.Val, 0) {
						bad = p.Pos(posOf(in, fn))
					}
				}
			})
			c.check(bad == "", "no-retain", qname(fn), p.Pos(fnPos(fn)), "the caller's buffer is copied, never stored", "Write stores a slice of its argument in a field ("+bad+"): the writer keeps aliasing the caller's buffer (here the JSON decoder's read buffer) and later writes through the retained slice corrupt request bytes that are still being parsed")
		}
		// --- no-pooled-escape
		var pooled []ssa.Value // buffers put (or deferred) into a sync.Pool in this function
		for _, s := range sitesOf(fn) {
			if strings.HasSuffix(s.CalleeName(), "sync.Pool).Put") && len(s.Args()) == 2 {
				pooled = append(pooled, stripIface(s.Args()[1]))
			}
		}
		if len(pooled) == 0 {
			continue
		}
		nR++
		bad := ""
		var fromPooled func(v ssa.Value, d int) bool
		fromPooled = func(v ssa.Value, d int) bool {
			if d > 5 {
				return false
			}
			switch x := v.(type) {
			case *ssa.Slice:
				return fromPooled(x.X, d+1)
			case *ssa.Phi:
				for _, e := range x.Edges {
					if fromPooled(e, d+1) {
						return true
					}
				}
			case *ssa.Call:
				cal := x.Call.StaticCallee()
				if cal != nil && cal.Name() == "Bytes" && len(x.Call.Args) > 0 {
					for _, pb := range pooled {
						if sameVal(x.Call.Args[0], pb) || stripIface(x.Call.Args[0]) == pb {
							return true
						}
					}
				}
				// bytes.TrimSuffix / TrimSpace etc. return sub-slices of their first argument
				if cal != nil && cal.Pkg != nil && cal.Pkg.Pkg.Path() == "bytes" && strings.HasPrefix(cal.Name(), "Trim") && len(x.Call.Args) > 0 {
					return fromPooled(x.Call.Args[0], d+1)
				}
			}
			return false
		}
		for _, ret := range returnsOf(fn) {
			for _, r := range ret.Results {
				if fromPooled(r, 0) {
					bad = p.Pos(posOf(ret.Ret, fn))
				}
			}
		}
		c.check(bad == "", "no-pooled-escape", qname(fn), p.Pos(fnPos(fn)), "no returned slice aliases a buffer that goes back to a pool", "the function returns bytes of a buffer it puts back into a sync.Pool ("+bad+"): a request served before the transport has written those bytes re-encodes over them, and clients receive another request's id or result")
	}
	if nW < 1 {
		c.und("no-retain", "jsonrpc writers", "", "no io.Writer implementation found in package jsonrpc")
	}
	c.needFixture("no-retain")
	c.needFixture("no-pooled-escape")
}

// c11UnknownNameRejected: when parameters are given by name, a request that carries a name the method does not declare is
// rejected (-32602) on every path — by-name and positional binding must not diverge on junk. Structurally: from the point
// where the params object is recognised as a map, every path to a successful return either (A) iterates over that map (the
// leftover scan: names not consumed by the binding loop), or (B) passes a test of len(map) against 0, or against a counter
// that is incremented only where a declared name was found in the map. Seeded change C11-G runs the scan only when a counter
// that also counts defaulted optional parameters differs from len(map).
func c11UnknownNameRejected(c *Ctx) {
	p := c.P
	f := p.Func("jsonrpc", "Server", "buildArguments")
	if f == nil {
		c.und("unknown-name-rejected", "Server.buildArguments", "", "anchor not found")
		return
	}
	var ta *ssa.TypeAssert
	allInstrs(f, func(in ssa.Instruction) {
		if x, ok := in.(*ssa.TypeAssert); ok {
			if m, isMap := x.AssertedType.Underlying().(*types.Map); isMap && m.Key().String() == "string" {
				ta = x
			}
		}
	})
	if ta == nil {
		c.und("unknown-name-rejected", "buildArguments: named branch", p.Pos(fnPos(f)), "type assertion of params to a string-keyed map not found")
		return
	}
	isM := func(v ssa.Value) bool {
		for d := 0; v != nil && d < 6; d++ {
			if v == ssa.Value(ta) {
				return true
			}
			switch x := v.(type) {
			case *ssa.Extract:
				v = x.Tuple
			case *ssa.ChangeType:
				v = x.X
			case *ssa.Phi:
				if len(x.Edges) == 0 {
					return false
				}
				v = x.Edges[0]
			default:
				return false
			}
		}
		return false
	}
	pass := map[*ssa.BasicBlock]string{}
	allInstrs(f, func(in ssa.Instruction) {
		switch x := in.(type) {
		case *ssa.Range:
			if isM(x.X) {
				pass[in.Block()] = "leftover scan over the params object"
			}
		case *ssa.Call:
			// maps.Keys(params) / maps.Values(params): the leftover scan written with the standard library
			cal := x.Call.StaticCallee()
			if cal != nil && cal.Origin() != nil {
				cal = cal.Origin()
			}
			if cal != nil && cal.Pkg != nil && cal.Pkg.Pkg.Path() == "maps" && len(x.Call.Args) > 0 && isM(x.Call.Args[0]) {
				pass[in.Block()] = "leftover scan over the params object (maps." + cal.Name() + ")"
			}
		case *ssa.If:
			b, ok := x.Cond.(*ssa.BinOp)
			if !ok {
				return
			}
			lenOfM := func(v ssa.Value) bool {
				call, ok := v.(*ssa.Call)
				if !ok {
					return false
				}
				bi, ok := call.Call.Value.(*ssa.Builtin)
				return ok && bi.Name() == "len" && isM(call.Call.Args[0])
			}
			var other ssa.Value
			switch {
			case lenOfM(b.X):
				other = b.Y
			case lenOfM(b.Y):
				other = b.X
			default:
				return
			}
			if k, isK := other.(*ssa.Const); isK && k.Value != nil && k.Int64() == 0 {
				pass[in.Block()] = "len(params object) tested against 0"
				return
			}
			// a counter: φ whose increments are all under the found-branch of a lookup in the map
			ph, isPhi := other.(*ssa.Phi)
			if !isPhi {
				return
			}
			okCounter := true
			nInc := 0
			var visit func(v ssa.Value, d int)
			seen := map[ssa.Value]bool{}
			visit = func(v ssa.Value, d int) {
				if seen[v] || d > 8 {
					return
				}
				seen[v] = true
				switch y := v.(type) {
				case *ssa.Phi:
					for _, e := range y.Edges {
						visit(e, d+1)
					}
				case *ssa.BinOp:
					if y.Op != token.ADD {
						okCounter = false
						return
					}
					nInc++
					found := false
					for _, fct := range factsAt(y) {
						if ex, isEx := fct.Cond.(*ssa.Extract); isEx && fct.Pos && ex.Index == 1 {
							if lk, isLk := ex.Tuple.(*ssa.Lookup); isLk && lk.CommaOk && isM(lk.X) {
								found = true
							}
						}
					}
					if !found {
						okCounter = false
					}
					visit(y.X, d+1)
				case *ssa.Const:
				default:
					okCounter = false
				}
			}
			visit(ph, 0)
			if okCounter && nInc > 0 {
				pass[in.Block()] = "len(params object) tested against the number of declared names found in it"
			}
		}
	})
	bad := ""
	seenB := map[*ssa.BasicBlock]bool{}
	q := append([]*ssa.BasicBlock{}, ta.Block().Succs...)
	if _, ok := pass[ta.Block()]; ok {
		q = nil
	}
	for len(q) > 0 {
		b := q[0]
		q = q[1:]
		if seenB[b] {
			continue
		}
		if _, ok := pass[b]; ok {
			continue
		}
		seenB[b] = true
		if ret, ok := b.Instrs[len(b.Instrs)-1].(*ssa.Return); ok {
			if len(ret.Results) > 0 && isNilConst(unspill(ret.Results[len(ret.Results)-1], b)) {
				bad = p.Pos(posOf(ret, f))
			}
			continue
		}
		q = append(q, b.Succs...)
	}
	how := ""
	for _, h := range pass {
		how = h
	}
	c.check(bad == "" && len(pass) > 0, "unknown-name-rejected", "buildArguments: named parameters", p.Pos(ta.Pos()), "every successful path of the by-name branch passes the unknown-name test ("+how+")", "the by-name branch reaches the successful return at "+bad+" without testing the params object for names the method does not declare: a misspelt optional parameter is silently replaced by its default")
}

// c11BodyLimitConstant: the HTTP transport bounds the request body with a limit the server chooses — a positive compile-time
// constant — never with a number taken from the request. A limit derived from Content-Length is −1 for every streamed
// (chunked / HTTP/2) request, which http.MaxBytesReader turns into 0: a perfectly valid request is answered with a parse
// error and its handler never runs (seeded change C11-I).
func c11BodyLimitConstant(c *Ctx) {
	p := c.P
	n := 0
	for _, fn := range p.sortedFuncs() {
		if pkgRelOf(fn) != "jsonrpc" || len(fn.Blocks) == 0 || strings.HasSuffix(p.Pos(fnPos(fn)), "_test.go") {
			continue
		}
		for _, s := range sitesOf(fn) {
			if s.CalleeName() != "net/http.MaxBytesReader" || len(s.Args()) < 3 {
				continue
			}
			n++
			k, ok := s.Args()[2].(*ssa.Const)
			okc := ok && k.Value != nil && k.Int64() > 0
			c.check(okc, "body-limit-constant", qname(fn)+" → http.MaxBytesReader", p.Pos(s.Pos()), "the body limit is a positive constant", "the body limit is "+term(s.Args()[2])+", not a positive constant chosen by the server: a value derived from the request (Content-Length is −1 for streamed bodies) makes MaxBytesReader refuse valid requests")
		}
	}
	if n == 0 {
		c.und("body-limit-constant", "jsonrpc", "", "no http.MaxBytesReader call found")
	}
}

// c11NullRequired: (null-required) a JSON `null` given for a parameter decodes to a nil pointer when the handler takes the
// parameter by pointer; handlers of *required* parameters dereference it (defect F29: `"params":[null]` for
// starknet_getBlockTransactionCount panicked — no response for a single request, a missing entry in a batch). Necessary
// condition decided here: every hand-over of a request-supplied value to parseParam in buildArguments (deep, through
// same-package helpers) is reached only on paths that compared that very value with nil — the comparison may live in an
// error-returning helper whose success condition is inlined. What the guard then does with Optional / the parameter kind is
// read off the atoms: the disjunct must also mention the Optional flag (the only legitimate reason to let a null through).
func c11NullRequired(c *Ctx) {
	p := c.P
	f := p.Func("jsonrpc", "Server", "buildArguments")
	if f == nil {
		c.und("null-required", "Server.buildArguments", "", "anchor not found")
		return
	}
	n := 0
	for _, ds := range p.deepSites(f, nameMatcher("parseParam"), 2) {
		args := ds.Site.Args()
		if len(args) == 0 {
			continue
		}
		n++
		// the request-supplied value: first non-receiver argument of interface type
		var val ssa.Value
		for _, a := range args {
			if _, isIface := a.Type().Underlying().(*types.Interface); isIface {
				val = a
				break
			}
		}
		construct := fmt.Sprintf("buildArguments → parseParam #%d", n)
		if val == nil {
			c.und("null-required", construct, p.Pos(ds.Site.Pos()), "request-supplied argument of parseParam not identified")
			continue
		}
		vt := term(val)
		d := p.mustHoldDeep(ds)
		// per disjunct: the value was compared with nil; where it *is* nil the path must owe that to the Optional flag or to
		// the handler's parameter kind (the only legitimate reasons to let a null through)
		ok, miss := true, ""
		okOpt, missOpt := true, ""
		for _, cj := range d {
			cmp, isNil := false, false
			for _, a := range cj.list() {
				if strings.Contains(a, "("+vt+" == nil)") {
					cmp = true
					if !strings.HasPrefix(a, "!") {
						isNil = true
					}
				}
				if strings.Contains(a, "("+vt+" != nil)") { // the same test spelt the other way round
					cmp = true
					if strings.HasPrefix(a, "!") {
						isNil = true
					}
				}
			}
			if !cmp {
				ok, miss = false, strings.Join(cj.list(), " ∧ ")
				break
			}
			if isNil && !cj.has("Optional") && !cj.has("reflect.Pointer") && !cj.has("reflect.Ptr") {
				okOpt, missOpt = false, " [nil let through without consulting Optional or the parameter kind]"
			}
		}
		if len(miss) > 400 {
			miss = miss[:400] + "…"
		}
		if os.Getenv("DBG_C11") != "" {
			fmt.Println("C11 null-required", p.Pos(ds.Site.Pos()), "val=", vt, "disjuncts=", len(d))
		}
		c.check(ok && okOpt, "null-required", construct, p.Pos(ds.Site.Pos()),
			"the value handed to parseParam was compared with nil, together with the parameter's Optional flag, on every path to the call",
			fmt.Sprintf("a request-supplied parameter value reaches parseParam on a path that never compared it with nil / never consulted Optional (path: %s%s): an explicit JSON null for a required pointer parameter decodes to a nil pointer that the handler dereferences — the request gets no response instead of -32602", miss, missOpt))
	}
	if n == 0 {
		c.und("null-required", "buildArguments", p.Pos(fnPos(f)), "no parseParam hand-over found")
	}
}

// c11OneMessagePerWrite: (one-message-per-write) a transport's Write hands the payload to the connection as ONE message. On
// the websocket transport every conn.Write call is a message of its own, so the payload handed to it must be the whole
// buffer the writer received — never a sub-slice of it, never inside a loop (seeded change C11-K chunks responses above
// 1 MiB "for slow clients": each chunk reaches the client as a separate message, none of them valid JSON).
func c11OneMessagePerWrite(c *Ctx) {
	p := c.P
	n := 0
	for _, fn := range p.sortedFuncs() {
		if pkgRelOf(fn) != "jsonrpc" || fn.Origin() != nil || strings.HasSuffix(p.Pos(fnPos(fn)), "_test.go") {
			continue
		}
		for _, s := range sitesOf(fn) {
			cal := s.Callee
			if cal == nil || cal.Name() != "Write" || cal.Signature.Recv() == nil || !strings.HasSuffix(cal.Signature.Recv().Type().String(), "websocket.Conn") {
				continue
			}
			n++
			args := s.Args()
			payload := args[len(args)-1]
			bad := ""
			// whole buffer: not a slice expression with bounds, followed through φ and through the caller's argument when the
			// payload is a parameter of an unexported helper
			var whole func(v ssa.Value, f *ssa.Function, d int) bool
			whole = func(v ssa.Value, f *ssa.Function, d int) bool {
				if d > 4 {
					return true
				}
				switch x := v.(type) {
				case *ssa.Slice:
					if x.Low != nil || x.High != nil {
						bad = "a sub-slice " + term(v)
						return false
					}
					return whole(x.X, f, d+1)
				case *ssa.Phi:
					for _, e := range x.Edges {
						if !whole(e, f, d+1) {
							return false
						}
					}
				case *ssa.Parameter:
					if f.Object() != nil && !f.Object().Exported() {
						idx := -1
						for i, pa := range f.Params {
							if pa == x {
								idx = i
							}
						}
						for _, cs := range p.callersOf(f) {
							if a := cs.Args(); idx >= 0 && idx < len(a) {
								if !whole(a[idx], cs.Fn, d+1) {
									return false
								}
							}
						}
					}
				}
				return true
			}
			ok := whole(payload, fn, 0)
			inLoop := inSameLoop(s.Instr.Block(), s.Instr.Block())
			for _, cs := range p.callersOf(fn) {
				if fn.Object() != nil && !fn.Object().Exported() && inSameLoop(cs.Instr.Block(), cs.Instr.Block()) {
					inLoop = true
				}
			}
			if inLoop {
				ok = false
				bad += " written inside a loop"
			}
			c.check(ok, "one-message-per-write", qname(fn)+" → websocket.Conn.Write", p.Pos(s.Pos()), "the whole buffer is written as one websocket message", "the payload of a websocket message is "+bad+": a response is split over several messages, none of which is a JSON-RPC response on its own")
		}
	}
	if n == 0 {
		c.und("one-message-per-write", "jsonrpc websocket transport", "", "no websocket.Conn.Write call found")
	}
}

// c11NumbersExact: (numbers-exact) numbers of a request keep their digits until they are decoded into the handler's own
// type: every json.Decoder the server creates has UseNumber() called on it before its first Decode, and no Request value is
// filled by a plain json.Unmarshal (which decodes numbers in `any` positions as float64). Seeded change C08-M drops
// UseNumber "to get rid of reflection": a block number or index above 2^53 is rounded — the node answers about a different
// block than the one asked for (or rejects max-uint64 as invalid params instead of "block not found").
func c11NumbersExact(c *Ctx, rule string) {
	p := c.P
	n := 0
	for _, fn := range p.sortedFuncs() {
		if pkgRelOf(fn) != "jsonrpc" || fn.Origin() != nil || strings.HasSuffix(p.Pos(fnPos(fn)), "_test.go") || p.InFixture(fnPos(fn)) {
			continue
		}
		for _, s := range sitesOf(fn) {
			nm := s.CalleeName()
			if strings.HasSuffix(nm, "json.NewDecoder") {
				n++
				dec, ok := s.Instr.(ssa.Value)
				if !ok {
					continue
				}
				var use []ssa.Instruction
				var decodes []ssa.Instruction
				for _, t := range sitesOf(fn) {
					if t.Recv == nil || t.Recv != dec {
						continue
					}
					switch {
					case strings.HasSuffix(t.CalleeName(), "Decoder).UseNumber"):
						use = append(use, t.Instr)
					case strings.HasSuffix(t.CalleeName(), "Decoder).Decode"):
						decodes = append(decodes, t.Instr)
					}
				}
				okd := len(use) > 0
				for _, d := range decodes {
					dom := false
					for _, u := range use {
						if dominatesInstr(u, d) {
							dom = true
						}
					}
					if !dom {
						okd = false
					}
				}
				// a decoder handed on (not decoded here) must have been switched before it leaves
				c.check(okd, rule, qname(fn)+": json.NewDecoder", p.Pos(s.Pos()), "UseNumber() before the first Decode", "a JSON decoder of the server decodes without UseNumber(): numbers in `any` positions (params, ids) become float64 and lose digits above 2^53 — a block number or index is rounded before the handler's own type ever sees it")
			}
			if strings.HasSuffix(nm, "json.Unmarshal") && len(s.Args()) >= 2 {
				tt := s.Args()[1].Type().String()
				if mi, ok := s.Args()[1].(*ssa.MakeInterface); ok {
					tt = mi.X.Type().String()
				}
				if strings.Contains(tt, "jsonrpc.Request") {
					n++
					c.viol(rule, qname(fn)+": json.Unmarshal into a Request", p.Pos(s.Pos()), "a request is filled by a plain json.Unmarshal: its params (typed any) decode numbers as float64 and lose digits above 2^53")
				}
			}
		}
	}
	if n == 0 {
		c.und(rule, "jsonrpc decoders", "", "no json.NewDecoder call found in package jsonrpc")
	}
}
