package main

import (
	"fmt"
	"go/token"
	"go/types"
	"strings"

	"golang.org/x/tools/go/ssa"
)

func init() {
	register("C10", func(c *Ctx) {
		p := c.P
		c.Explain = "Soundness structure of Merkle proof verification decided on CFG/SSA: (auth-before-traverse) in trie.VerifyProof and trie2.VerifyProof every success return and every use of a proof node (child selection, edge-path comparison, value return) happens only after the node's recomputed hash was compared with the expected hash and matched, and a missing node is an error; (range-fork) in trie2's range verifier the side that is cut below a fork edge is the one opposite to the boundary proof that points into the edge (mirror-image branches agree); " +
			"(rpc-one-view) storage-proof RPC handlers (v8/v9/v10) take both tries, all proofs and the returned roots from the one HeadState() value and reject unsupported blocks before generating proofs. (hash-family) outside the constructors no function of the trie packages names a hash family: proof nodes are hashed with the function the trie was built with. Not decided: completeness (honest proofs verify), absence-proof divergence cases, hash correctness — these are value-level."
		c10HashFamily(c)
		c10ContentHashPure(c)
		c10RangeUnsetDirty(c)
		for _, fr := range []fref{{"core/trie", "", "VerifyProof"}, {"core/trie2", "", "VerifyProof"}} {
			f := p.Func(fr.pkg, fr.recv, fr.name)
			if f == nil {
				c.und("auth-before-traverse", fr.pkg+".VerifyProof", "", "anchor not found")
				continue
			}
			c.saw(qname(f))
			name := fr.pkg + ".VerifyProof"
			// the lookup of the proof node: proof.Get(expected) in the verifier itself, or a same-package helper that performs it
			// on its parameters (`authenticatedProofNode(proof, expectedHash, hash)`, `retrieveProofNode(proof, &expected)`)
			lk := c10FindLookup(p, f)
			if lk == nil {
				c.und("auth-before-traverse", name+": proof.Get", p.Pos(fnPos(f)), "lookup of the proof node not found")
				continue
			}
			get := lk.call
			// the authentication fact: a dominating positive branch on X.Equal(expected) where X is the recomputed hash of the
			// node — or the success of a lookup helper every success return of which is under that fact
			authedAt := func(in ssa.Instruction) (bool, string) {
				if c10HashMatched(in) {
					return true, ""
				}
				if lk.helper != nil && lk.authInside {
					for _, fct := range factsAt(in) {
						b, ok := fct.Cond.(*ssa.BinOp)
						if !ok {
							continue
						}
						var other ssa.Value
						switch {
						case isNilConst(b.X):
							other = b.Y
						case isNilConst(b.Y):
							other = b.X
						default:
							continue
						}
						ex, isEx := other.(*ssa.Extract)
						if !isEx || ex.Tuple != ssa.Value(lk.call) {
							continue
						}
						if (b.Op == token.EQL && fct.Pos) || (b.Op == token.NEQ && !fct.Pos) {
							return true, ""
						}
					}
				}
				return false, strings.Join(factStrings(factsAt(in)), " ∧ ")
			}
			// success returns
			n := 0
			for _, ret := range returnsOf(f) {
				if !isNilConst(ret.Results[1]) {
					continue
				}
				n++
				ok, miss := authedAt(ret.Ret)
				c.check(ok, "auth-before-traverse", fmt.Sprintf("%s: success return #%d", name, n), p.Pos(posOf(ret.Ret, f)), "reachable only after the current node's hash matched the expected hash", "a result is returned without the hash of the node it was read from having been checked: "+miss)
			}
			if n == 0 {
				c.und("auth-before-traverse", name, p.Pos(fnPos(f)), "no success return found")
			}
			// the hash comparison itself
			hasEq := lk.authInside
			var eqInstr ssa.Instruction
			for _, s := range sitesOf(f) {
				if strings.HasSuffix(s.CalleeName(), ").Equal") && dominatesInstr(get, s.Instr) {
					hasEq = true
					eqInstr = s.Instr
					break
				}
			}
			if !hasEq {
				c.viol("auth-before-traverse", name+": hash comparison", p.Pos(fnPos(f)), "the recomputed hash of a proof node is never compared with the expected hash")
				continue
			}
			used := 0
			allInstrs(f, func(in ssa.Instruction) {
				isUse := false
				switch x := in.(type) {
				case *ssa.TypeAssert:
					if lk.node != nil && flowsFrom(x.X, lk.node, 0) {
						isUse = true
					}
				case *ssa.Call:
					nm := ""
					if cal := x.Call.StaticCallee(); cal != nil {
						nm = cal.Name()
					}
					if nm == "get" || nm == "verifyEdgePath" {
						isUse = true
					}
				}
				if !isUse || in == eqInstr {
					return
				}
				// the hashing call itself is allowed before the check
				used++
				ok, miss := authedAt(in)
				c.check(ok, "auth-before-traverse", fmt.Sprintf("%s: node use #%d", name, used), p.Pos(posOf(in, f)), "the node is interpreted only after its hash matched", "a proof node is interpreted (child selection / path comparison) before its hash was compared with the expected hash: "+miss)
			})
			// missing node → error
			okMissing := false
			scope := f
			if lk.helper != nil {
				scope = lk.helper
			}
			for _, ret := range returnsOf(scope) {
				last := ret.Results[len(ret.Results)-1]
				if isNilConst(last) {
					continue
				}
				if ok, _ := everyDisjunctHas(p.mustHoldAt(ret.Ret), []string{"^!", ".Get(", "#1"}); ok {
					okMissing = true
				}
			}
			if lk.helper != nil && okMissing {
				// … and the verifier returns the helper's error
				okMissing = false
				for _, ret := range returnsOf(f) {
					if isNilConst(ret.Results[1]) {
						continue
					}
					if ex, isEx := ret.Results[1].(*ssa.Extract); isEx && ex.Tuple == ssa.Value(lk.call) {
						okMissing = true
					}
				}
			}
			c.check(okMissing, "auth-before-traverse", name+": missing node is an error", p.Pos(fnPos(f)), "absent proof node → error", "a proof that lacks the expected node is no longer rejected")
			c10NextHashAuthentic(c, f, lk, name)
		}
		c.floor("next-hash-authentic", 5)
		c.floor("auth-before-traverse", 7)

		// range-fork mirror rule
		if f := p.Func("core/trie2", "", "handleEdgeFork"); f != nil {
			n := 0
			// the cuts below the edge: direct calls of unset, or calls of a same-package helper that forwards a boundary key and the
			// side to its own call of unset
			type cut struct {
				site      Site
				key, side string
			}
			var cuts []cut
			for _, s := range sitesOf(f) {
				if s.Callee == nil {
					continue
				}
				args := s.Args()
				if s.Callee.Name() == "unset" && len(args) >= 5 {
					cuts = append(cuts, cut{s, term(args[2]), term(args[4])})
					continue
				}
				if pkgRelOf(s.Callee) != pkgRelOf(f) || len(s.Callee.Blocks) == 0 {
					continue
				}
				for _, hs := range findSites(s.Callee, "unset") {
					ha := hs.Args()
					if len(ha) < 5 {
						continue
					}
					keyT, sideT := "", ""
					for k, prm := range s.Callee.Params {
						if k >= len(args) {
							continue
						}
						if strings.Contains(term(ha[2]), "LSBs("+prm.Name()+", ") {
							keyT = "LSBs(" + term(args[k]) + ", pos)"
						}
						if ha[4] == ssa.Value(prm) {
							sideT = term(args[k])
						}
					}
					if keyT != "" && sideT != "" {
						cuts = append(cuts, cut{s, keyT, sideT})
					}
				}
			}
			for _, ct := range cuts {
				s := ct.site
				n++
				removeLeft := ct.side
				pathT := ct.key
				want := map[string]string{"false": "left", "true": "right"}[removeLeft]
				ok := want != "" && strings.Contains(pathT, "LSBs("+want+", pos)")
				c.check(ok, "range-fork", "handleEdgeFork: unset(removeLeft="+removeLeft+")", p.Pos(s.Pos()), "cuts below the edge along the "+want+" boundary path", "unset(removeLeft="+removeLeft+") follows "+pathT+" — the side that is cut must follow the boundary proof that points into the edge ("+want+")")
				// guarded by the matching fork flag (whatever the two flags are called: …Right/.right, …Left/.left)
				d := p.mustHoldAt(s.Instr)
				flag := map[string]string{"false": "ight != 0", "true": "eft != 0"}[removeLeft]
				okf, miss := everyDisjunctHas(d, []string{flag})
				c.check(okf, "range-fork", "handleEdgeFork: unset(removeLeft="+removeLeft+") guard", p.Pos(s.Pos()), "under the fork flag of the opposite boundary (…"+flag+")", "unset(removeLeft="+removeLeft+") is not under …"+flag+": "+miss)
			}
			if n < 2 {
				c.und("range-fork", "handleEdgeFork", p.Pos(fnPos(f)), "the two unset calls were not found")
			}
		} else {
			c.und("range-fork", "trie2.handleEdgeFork", "", "anchor not found")
		}
		// edge-classified: inside unset, an edge whose path does not match the boundary key is always compared with that key
		// before the walker returns — a non-matching edge that lies inside the range (a whole leaf included) must be cut.
		// Seeded change C10-L hoists the "leaf edge" case above the comparison and cuts a leaf only when it matches: a range
		// with its first element left out still verifies.
		for _, pk := range []string{"core/trie2"} {
			f := p.Func(pk, "", "unset")
			if f == nil {
				c.und("range-fork", pk+".unset", "", "anchor not found")
				continue
			}
			k := 0
			for _, f := range samePkgScope(f, 2) {
				cmpBlock := map[*ssa.BasicBlock]bool{}
				for _, s2 := range sitesOf(f) {
					if s2.Callee != nil && s2.Callee.Name() == "Cmp" {
						cmpBlock[s2.Block()] = true
					}
				}
				allInstrsOne(f, func(in ssa.Instruction) {
					iff, ok := in.(*ssa.If)
					if !ok {
						return
					}
					cond := iff.Cond
					neg := false
					if u, isNot := cond.(*ssa.UnOp); isNot && u.Op == token.NOT {
						cond, neg = u.X, true
					}
					call, isCall := cond.(*ssa.Call)
					if !isCall || call.Call.StaticCallee() == nil || call.Call.StaticCallee().Name() != "PathMatches" {
						return
					}
					k++
					nb := iff.Block().Succs[1]
					if neg {
						nb = iff.Block().Succs[0]
					}
					// from the non-matching side, every way to a return passes a comparison of the edge with the boundary key
					seen := map[*ssa.BasicBlock]bool{}
					q := []*ssa.BasicBlock{nb}
					bad := ""
					for len(q) > 0 {
						b := q[0]
						q = q[1:]
						if seen[b] || cmpBlock[b] {
							continue
						}
						seen[b] = true
						if exitKind(b) == "return" {
							bad = p.Pos(posOf(b.Instrs[len(b.Instrs)-1], f))
						}
						q = append(q, b.Succs...)
					}
					c.check(bad == "", "range-fork", pk+".unset: non-matching edge classified", p.Pos(posOf(in, f)), "on the non-matching side the edge path is compared with the boundary key before the walker returns", "unset can return ("+bad+") for an edge that does not match the boundary key without comparing the edge with that key: an element that lies inside the range below a diverging edge is not cut, and a range with that element left out still verifies")
				})
			}
			if k == 0 {
				c.und("range-fork", pk+".unset", p.Pos(fnPos(f)), "no return under !PathMatches found")
			}
		}

		c10EveryRequestedKey(c)
		c10ProveEveryNode(c)
		// rpc-one-view
		for _, v := range []string{"rpc/v8", "rpc/v9", "rpc/v10"} {
			f := p.Func(v, "Handler", "StorageProof")
			if f == nil {
				c.und("rpc-one-view", v+".StorageProof", "", "anchor not found")
				continue
			}
			hs := 0
			var headState *ssa.Call
			for _, s := range sitesOf(f) {
				if s.Method != nil && (s.Method.Name() == "HeadState" || strings.HasPrefix(s.Method.Name(), "StateAt")) {
					hs++
					headState, _ = s.Instr.(*ssa.Call)
				}
			}
			if hs != 1 || headState == nil {
				c.viol("rpc-one-view", v+".StorageProof: one state view", p.Pos(fnPos(f)), fmt.Sprintf("the handler opens %d state views; tries, proofs and roots must come from one", hs))
				continue
			}
			bad := ""
			sup := findSite(f, "isBlockSupported")
			for _, s := range sitesOf(f) {
				nm := s.CalleeName()
				isTrie := s.Method != nil && (s.Method.Name() == "ClassTrie" || s.Method.Name() == "ContractTrie")
				isProof := strings.HasSuffix(nm, "getClassProof") || strings.HasSuffix(nm, "getContractProof") || strings.HasSuffix(nm, "getContractStorageProof")
				if isTrie && !strings.Contains(term(s.Recv), "HeadState()#0") {
					bad = "a trie is opened from " + term(s.Recv)
				}
				if strings.HasSuffix(nm, "getContractProof") || strings.HasSuffix(nm, "getContractStorageProof") {
					st := false
					for _, a := range s.Args() {
						if strings.Contains(term(a), "HeadState()#0") {
							st = true
						}
					}
					if !st {
						bad = nm + " is not given the handler's state view"
					}
				}
				if (isProof || isTrie) && sup != nil {
					if !dominatesInstr(sup.Instr, s.Instr) {
						bad = "proof generation is not preceded by isBlockSupported"
					} else if ok, _ := everyDisjunctHas(p.mustHoldAt(s.Instr), []string{"^!", "isBlockSupported(", "!= nil"}); !ok {
						bad = "proof generation runs although isBlockSupported failed"
					}
				}
			}
			if sup == nil {
				bad = "isBlockSupported is no longer called"
			}
			// roots come from the same tries that were proven
			roots := 0
			for _, s := range sitesOf(f) {
				if s.Method != nil && s.Method.Name() == "Hash" && (strings.Contains(term(s.Recv), "ClassTrie()#0") || strings.Contains(term(s.Recv), "ContractTrie()#0")) {
					roots++
				}
			}
			if roots < 2 {
				bad = "the returned roots are not the hashes of the tries that were proven"
			}
			c.check(bad == "", "rpc-one-view", v+".StorageProof", p.Pos(fnPos(f)), "tries, proofs and roots from the one HeadState() view, after isBlockSupported", bad)
		}
	})
}

// hashConstOK: functions that may name a hash family directly (role → family is fixed there); everything else in the
// trie packages must use the hash function the trie was constructed with.
var hashConstOK = map[string]string{
	"core/trie.NewTriePedersen":                         "constructor: fixes the family of a role",
	"core/trie.NewTriePoseidon":                         "constructor",
	"core/trie.NewTrieReaderPedersen":                   "constructor",
	"core/trie.NewTrieReaderPoseidon":                   "constructor",
	"core/trie.newTrieReader":                           "constructor default",
	"core/trie.newTrie":                                 "constructor default",
	"(*core/trie.Binary).String":                        "debug rendering only",
	"(*core/trie.Edge).String":                          "debug rendering only",
	"core/trie2.verifyRangeWithProof":                   "range proofs are defined for Pedersen tries only; reviewed",
	"core/trie2.VerifyRangeProof":                       "range proofs are defined for Pedersen tries only (contract / storage tries); reviewed",
	"core/trie2.NewContractTrie":                        "constructor",
	"core/trie2.NewContractStorageTrie":                 "constructor",
	"core/trie2.NewClassTrie":                           "constructor",
	"core/trie2.NewEmptyPedersen":                       "constructor",
	"core/trie2.NewEmptyPoseidon":                       "constructor",
	"(*core/trie2/triedb/pathdb.Database).getStateRoot": "path-scheme database, not reachable with the production configuration (nil trie-db config, see C05/helper-contract); hashes the class root with Pedersen — noted as observation O1 in DESIGN.md",
}

// c10HashFamily: proof nodes are hashed with the hash function of the trie they belong to.
func c10HashFamily(c *Ctx) {
	p := c.P
	n := 0
	for _, fn := range p.sortedFuncs() {
		pr := pkgRelOf(fn)
		if !(pr == "core/trie" || strings.HasPrefix(pr, "core/trie2")) || fn.Origin() != nil || strings.HasSuffix(p.Pos(fnPos(fn)), "_test.go") {
			continue
		}
		used := map[string]bool{}
		allInstrs(fn, func(in ssa.Instruction) {
			for _, op := range in.Operands(nil) {
				if op == nil || *op == nil {
					continue
				}
				if f, ok := (*op).(*ssa.Function); ok && f.Pkg != nil && strings.HasSuffix(f.Pkg.Pkg.Path(), "core/crypto") && (f.Name() == "Pedersen" || f.Name() == "Poseidon") {
					// as a value (argument / stored), not as the callee of a direct call
					if call, isCall := in.(ssa.CallInstruction); isCall && call.Common().Value == ssa.Value(f) {
						continue
					}
					used[f.Name()] = true
				}
			}
		})
		if len(used) == 0 {
			continue
		}
		n++
		key := qname(rootOf(fn))
		roleFixing := true
		for fam := range used {
			if !strings.Contains(rootOf(fn).Name(), fam) {
				roleFixing = false
			}
		}
		if nm := rootOf(fn).Name(); strings.HasPrefix(nm, "New") || strings.HasPrefix(nm, "new") {
			roleFixing = true
		}
		if roleFixing {
			c.ok("hash-family", key, p.Pos(fnPos(fn)), "role-fixing function (constructor, or named after the family it uses)")
			continue
		}
		if why, ok := hashConstOK[key]; ok {
			c.ok("hash-family", key, p.Pos(fnPos(fn)), "may name the family: "+why)
			continue
		}
		c.viol("hash-family", key, p.Pos(fnPos(fn)), "names the hash family "+strings.Join(keysOf(used), "/")+" directly instead of using the trie's own hash function: proof nodes of a trie of the other family (e.g. the Poseidon class trie) get wrong child hashes and honest proofs stop verifying")
	}
	if n < 8 {
		c.und("hash-family", "trie packages", "", fmt.Sprintf("only %d functions naming a hash family found", n))
	}
}

// c10ContentHashPure: the Hash methods of proof/trie nodes that VerifyProof relies on recompute the hash from the node's
// content; they never return a hash cached on the node (a proof node handed in by an untrusted party carries whatever
// cache it likes — F13 closed this at the call site, this rule closes it at the callee).
func c10ContentHashPure(c *Ctx) {
	p := c.P
	n := 0
	for _, tn := range []string{"BinaryNode", "EdgeNode"} {
		f := p.Func("core/trie2/trienode", tn, "Hash")
		if f == nil {
			c.und("content-hash-pure", "trienode."+tn+".Hash", "", "anchor not found")
			continue
		}
		n++
		bad := ""
		allInstrs(f, func(in ssa.Instruction) {
			if fa, ok := in.(*ssa.FieldAddr); ok {
				nm := fieldName(fa.X.Type(), fa.Field)
				if nm == "Flags" || (nm == "Hash" && strings.Contains(typeShort(fa.X.Type()), "NodeFlag")) {
					bad = nm
				}
			}
			if fl, ok := in.(*ssa.Field); ok {
				if nm := fieldName(fl.X.Type(), fl.Field); nm == "Flags" {
					bad = nm
				}
			}
		})
		for _, s := range sitesOf(f) {
			if s.Callee != nil && s.Callee.Name() == "Cache" {
				bad = "Cache()"
			}
		}
		c.check(bad == "", "content-hash-pure", "trienode."+tn+".Hash", p.Pos(fnPos(f)), "computed from children/path only", "the content hash of a node consults the cache stored on the node ("+bad+"): VerifyProof then accepts a proof node whose content was altered but whose cached hash was left in place")
	}
	_ = n
}

// c10NextHashAuthentic: the hash under which the verifier looks up the NEXT proof node may only come from (a) the root
// parameter, (b) a field / hash-node child of the proof node that was just authenticated, or (c) a content hash
// recomputed with the verifier's hash function. Anything else — in particular a hash cached on a node of the (untrusted)
// proof — lets an altered proof continue under an attacker-chosen hash (defect F19).
func c10NextHashAuthentic(c *Ctx, f *ssa.Function, lk *c10Lookup, name string) {
	p := c.P
	get := lk.call
	node := lk.node // the looked-up proof node
	fromNode := func(v ssa.Value) bool {
		// v is the proof node itself, a type-asserted view of it, or the child selected from it by get(node, …)
		var rec func(v ssa.Value, d int) bool
		rec = func(v ssa.Value, d int) bool {
			if v == nil || d > 10 {
				return false
			}
			if node != nil && flowsFrom(v, node, 0) {
				return true
			}
			switch x := v.(type) {
			case *ssa.Extract:
				return rec(x.Tuple, d+1)
			case *ssa.TypeAssert:
				return rec(x.X, d+1)
			case *ssa.Phi:
				for _, e := range x.Edges {
					if !rec(e, d+1) {
						return false
					}
				}
				return len(x.Edges) > 0
			case *ssa.Call:
				if cal := x.Call.StaticCallee(); cal != nil && cal.Name() == "get" && len(x.Call.Args) > 0 {
					return rec(x.Call.Args[0], d+1)
				}
			case *ssa.UnOp:
				if x.Op == token.MUL {
					return rec(x.X, d+1)
				}
			case *ssa.FieldAddr:
				return rec(x.X, d+1)
			case *ssa.Field:
				return rec(x.X, d+1)
			case *ssa.ChangeInterface:
				return rec(x.X, d+1)
			case *ssa.ChangeType:
				return rec(x.X, d+1)
			}
			return false
		}
		return rec(v, 0)
	}
	type leaf struct {
		ok   bool
		what string
		pos  token.Pos
	}
	var leaves []leaf
	seen := map[ssa.Value]bool{}
	var walk func(v ssa.Value, d int)
	walk = func(v ssa.Value, d int) {
		if v == nil || seen[v] {
			return
		}
		seen[v] = true
		if d > 14 {
			leaves = append(leaves, leaf{false, "source too deep: " + term(v), v.Pos()})
			return
		}
		switch x := v.(type) {
		case *ssa.Phi:
			for _, e := range x.Edges {
				walk(e, d+1)
			}
		case *ssa.ChangeType:
			walk(x.X, d+1)
		case *ssa.Convert:
			walk(x.X, d+1)
		case *ssa.UnOp:
			if x.Op != token.MUL {
				leaves = append(leaves, leaf{false, term(v), v.Pos()})
				return
			}
			if a, ok := x.X.(*ssa.Alloc); ok {
				n := 0
				if refs := a.Referrers(); refs != nil {
					for _, r := range *refs {
						if st, ok := r.(*ssa.Store); ok && st.Addr == a {
							n++
							walk(st.Val, d+1)
						}
					}
				}
				if n == 0 {
					leaves = append(leaves, leaf{false, "local never assigned: " + term(v), v.Pos()})
				}
				return
			}
			walk(x.X, d+1)
		case *ssa.Alloc:
			// the address of the local that holds the expected hash (handed to a lookup helper): its stores are the sources
			n := 0
			if refs := x.Referrers(); refs != nil {
				for _, r := range *refs {
					if st, ok := r.(*ssa.Store); ok && st.Addr == ssa.Value(x) {
						n++
						walk(st.Val, d+1)
					}
				}
			}
			if n == 0 {
				leaves = append(leaves, leaf{false, "local never assigned: " + term(v), v.Pos()})
			}
		case *ssa.Parameter:
			ok := len(f.Params) > 0 && x == f.Params[0]
			leaves = append(leaves, leaf{ok, "parameter " + x.Name(), x.Pos()})
		case *ssa.Extract:
			if ta, ok := x.Tuple.(*ssa.TypeAssert); ok && x.Index == 0 {
				walk(ta, d+1)
				return
			}
			leaves = append(leaves, leaf{false, term(v), v.Pos()})
		case *ssa.TypeAssert:
			// the hash-node child of the authenticated node
			leaves = append(leaves, leaf{fromNode(x.X), "child " + typeShort(x.AssertedType) + " of " + term(x.X), x.Pos()})
		case *ssa.FieldAddr:
			leaves = append(leaves, leaf{fromNode(x.X), "field " + term(v), x.Pos()})
		case *ssa.Field:
			leaves = append(leaves, leaf{fromNode(x.X), "field " + term(v), x.Pos()})
		case *ssa.Call:
			cc := x.Call
			nm := ""
			var recv ssa.Value
			args := cc.Args
			if cc.IsInvoke() {
				nm = cc.Method.Name()
				recv = cc.Value
			} else if cal := cc.StaticCallee(); cal != nil {
				nm = cal.Name()
				if cal.Signature.Recv() != nil && len(args) > 0 {
					recv, args = args[0], args[1:]
				}
			}
			ok := false
			if nm == "Hash" && recv != nil && fromNode(recv) {
				for _, a := range args {
					if pa, isP := a.(*ssa.Parameter); isP && strings.HasSuffix(pa.Type().String(), "crypto.HashFn") {
						ok = true
					}
				}
			}
			leaves = append(leaves, leaf{ok, "call " + term(v), x.Pos()})
		default:
			leaves = append(leaves, leaf{false, term(v), v.Pos()})
		}
	}
	walk(lk.key, 0)
	if len(leaves) < 2 {
		c.und("next-hash-authentic", name, p.Pos(get.Pos()), fmt.Sprintf("only %d source(s) of the expected hash were found", len(leaves)))
		return
	}
	for i, l := range leaves {
		pos := l.pos
		if !pos.IsValid() {
			pos = get.Pos()
		}
		c.check(l.ok, "next-hash-authentic", fmt.Sprintf("%s: expected-hash source #%d", name, i+1), p.Pos(pos),
			"the next expected hash is the root, a child hash stored in the authenticated node, or a recomputed content hash ("+l.what+")",
			"the next expected hash is taken from "+l.what+" — untrusted proof data (e.g. a hash cached on a proof node) must not decide which node is fetched next")
	}
}

// c10Lookup: where a verifier fetches the proof node filed under the expected hash.
type c10Lookup struct {
	call       *ssa.Call     // the call in the verifier (proof.Get or the helper)
	key        ssa.Value     // the expected-hash operand as seen in the verifier
	node       ssa.Value     // the fetched node as seen in the verifier
	helper     *ssa.Function // nil for a direct proof.Get
	authInside bool          // the helper compares the recomputed hash on every success path
}

func c10DirectGet(fn *ssa.Function) *ssa.Call {
	var get *ssa.Call
	for _, s := range sitesOf(fn) {
		if s.Callee != nil && s.Callee.Name() == "Get" && len(s.Args()) > 1 && strings.Contains(s.Args()[0].Type().String(), "ProofNodeSet") {
			if call, ok := s.Instr.(*ssa.Call); ok {
				get = call
			}
		}
	}
	return get
}

func c10FindLookup(p *Prog, f *ssa.Function) *c10Lookup {
	extract0 := func(call *ssa.Call) ssa.Value {
		if refs := call.Referrers(); refs != nil {
			for _, r := range *refs {
				if ex, ok := r.(*ssa.Extract); ok && ex.Index == 0 {
					return ex
				}
			}
		}
		return nil
	}
	if get := c10DirectGet(f); get != nil {
		return &c10Lookup{call: get, key: get.Call.Args[1], node: extract0(get)}
	}
	for _, s := range sitesOf(f) {
		g := s.Callee
		call, isCall := s.Instr.(*ssa.Call)
		if g == nil || !isCall || len(g.Blocks) == 0 || pkgRelOf(g) != pkgRelOf(f) || g == f {
			continue
		}
		get := c10DirectGet(g)
		if get == nil {
			continue
		}
		// the key of the helper's Get is (a load of) one of its parameters
		k := get.Call.Args[1]
		if u, ok := k.(*ssa.UnOp); ok && u.Op == token.MUL {
			k = u.X
		}
		pa, ok := k.(*ssa.Parameter)
		if !ok {
			continue
		}
		idx := -1
		for i, q := range g.Params {
			if q == pa {
				idx = i
			}
		}
		if idx < 0 || idx >= len(call.Call.Args) {
			continue
		}
		auth := true
		ns := 0
		for _, ret := range returnsOf(g) {
			if len(ret.Results) < 2 || !isNilConst(ret.Results[len(ret.Results)-1]) {
				continue
			}
			ns++
			if !c10HashMatched(ret.Ret) {
				auth = false
			}
		}
		return &c10Lookup{call: call, key: call.Call.Args[idx], node: extract0(call), helper: g, authInside: auth && ns > 0}
	}
	return nil
}

// c10HashMatched: the instruction is reached only under a positive X.Equal(expected) where X is a content hash
// Node.Hash(<hash function parameter>) — not the caching hasher (hasher.hash returns a hash cached on the untrusted node).
func c10HashMatched(in ssa.Instruction) bool {
	for _, fct := range factsAt(in) {
		call, ok := fct.Cond.(*ssa.Call)
		if !ok || !fct.Pos {
			continue
		}
		cal := call.Call.StaticCallee()
		if cal == nil || cal.Name() != "Equal" || len(call.Call.Args) < 2 {
			continue
		}
		if strings.Contains(termF(call.Call.Args[0]), ".Hash(hash)") {
			return true
		}
	}
	return false
}

// c10RangeUnsetDirty: the range-proof verifier cuts the parts of the proof tree that lie inside the proven range and then
// recomputes the root. The hasher stops at the first node that still carries a cached hash — and proof nodes come from the
// prover with their hashes cached — so every node the cutter DESCENDS THROUGH must be marked dirty before it does: a node
// that keeps its cached hash vouches for its whole subtree, and keys removed below it (and omitted from the response) go
// unnoticed (seeded change C10-J: the edge-node arm of `unset`). Decided on the two walkers of core/trie2: in `unset` every
// recursive call with node X as the new parent, and in `unsetInternal` every loop continuation out of the arm of X, is
// dominated by the store X.Flags = NewNodeFlag().
func c10RangeUnsetDirty(c *Ctx) {
	p := c.P
	isInner := func(t types.Type) bool {
		ts := t.String()
		return strings.HasSuffix(ts, "trienode.EdgeNode") || strings.HasSuffix(ts, "trienode.BinaryNode")
	}
	flagStores := func(fn *ssa.Function, x ssa.Value) []ssa.Instruction {
		var out []ssa.Instruction
		allInstrsOne(fn, func(in ssa.Instruction) {
			st, ok := in.(*ssa.Store)
			if !ok {
				return
			}
			fa, ok := st.Addr.(*ssa.FieldAddr)
			if !ok || fa.X != x || fieldName(fa.X.Type(), fa.Field) != "Flags" {
				return
			}
			if strings.Contains(termF(st.Val), "NewNodeFlag()") {
				out = append(out, in)
			}
		})
		return out
	}
	asserted := func(fn *ssa.Function) []ssa.Value {
		var out []ssa.Value
		allInstrsOne(fn, func(in ssa.Instruction) {
			ta, ok := in.(*ssa.TypeAssert)
			if !ok || !isInner(ta.AssertedType) {
				return
			}
			if ta.CommaOk {
				if refs := ta.Referrers(); refs != nil {
					for _, r := range *refs {
						if ex, isEx := r.(*ssa.Extract); isEx && ex.Index == 0 {
							out = append(out, ex)
						}
					}
				}
			} else {
				out = append(out, ta)
			}
		})
		return out
	}
	n := 0
	if f := p.Func("core/trie2", "", "unset"); f != nil {
		for _, x := range asserted(f) {
			fs := flagStores(f, x)
			for _, s := range sitesOf(f) {
				if s.Callee != f || len(s.Args()) == 0 {
					continue
				}
				a := s.Args()[0]
				if mi, ok := a.(*ssa.MakeInterface); ok {
					a = mi.X
				}
				if a != x {
					continue
				}
				n++
				ok := false
				for _, st := range fs {
					if dominatesInstr(st, s.Instr) {
						ok = true
					}
				}
				c.check(ok, "range-unset-dirty", "unset: descent below "+typeShort(x.Type()), p.Pos(s.Pos()), "the node is marked dirty before the cutter descends through it", "the cutter descends through this node without resetting its Flags: its cached (prover-supplied) hash then stands for the whole subtree, and keys cut below it are not reflected in the recomputed root")
			}
		}
	} else {
		c.und("range-unset-dirty", "core/trie2.unset", "", "anchor not found")
	}
	if f := p.Func("core/trie2", "", "unsetInternal"); f != nil {
		for _, x := range asserted(f) {
			// blocks of this arm that jump back to a loop header: predecessors (dominated by the assert) of a block that is on a
			// cycle and dominates them
			var xb *ssa.BasicBlock
			if in, ok := x.(ssa.Instruction); ok {
				xb = in.Block()
			}
			if xb == nil {
				continue
			}
			fs := flagStores(f, x)
			for _, b := range f.Blocks {
				if !xb.Dominates(b) {
					continue
				}
				for _, succ := range b.Succs {
					if succ.Dominates(b) && succ != b && inSameLoop(succ, b) && !xb.Dominates(succ) {
						n++
						ok := false
						for _, st := range fs {
							if st.Block().Dominates(b) {
								ok = true
							}
						}
						c.check(ok, "range-unset-dirty", "unsetInternal: descent below "+typeShort(x.Type()), p.Pos(posOf(b.Instrs[len(b.Instrs)-1], f)), "the node is marked dirty before the walk continues below it", "the walk to the fork point continues below this node without resetting its Flags: its cached hash hides what is cut below")
					}
				}
			}
		}
	} else {
		c.und("range-unset-dirty", "core/trie2.unsetInternal", "", "anchor not found")
	}
	// the walkers may be loops over a step helper: a same-package helper called from unset/unsetInternal that hands the child
	// of the node it inspected back to its caller is a descent through that node, and must mark it dirty first; a loop in unset
	// itself that continues below an asserted node counts like the one in unsetInternal
	for _, nm := range []string{"unset", "unsetInternal"} {
		f := p.Func("core/trie2", "", nm)
		if f == nil {
			continue
		}
		if nm == "unset" {
			for _, x := range asserted(f) {
				in, ok := x.(ssa.Instruction)
				if !ok {
					continue
				}
				xb := in.Block()
				// blocks that reset the node's Flags (directly, or by handing it to a same-package step helper that does)
				resets := map[*ssa.BasicBlock]bool{}
				for _, st := range flagStores(f, x) {
					resets[st.Block()] = true
				}
				for _, hs := range sitesOf(f) {
					if hs.Callee == nil || pkgRelOf(hs.Callee) != pkgRelOf(f) || hs.Callee == f {
						continue
					}
					for ai, a := range hs.Args() {
						if mi, isMI := a.(*ssa.MakeInterface); isMI {
							a = mi.X
						}
						if a == x && ai < len(hs.Callee.Params) && len(flagStores(hs.Callee, hs.Callee.Params[ai])) > 0 {
							resets[hs.Block()] = true
						}
					}
				}
				// from the arm, can the loop be continued (a back edge to a header that dominates the arm) without a reset?
				reaches, unreset := false, false
				type st struct {
					b    *ssa.BasicBlock
					done bool
				}
				seen := map[st]bool{}
				q := []st{{xb, resets[xb]}}
				for len(q) > 0 {
					cur := q[0]
					q = q[1:]
					if seen[cur] {
						continue
					}
					seen[cur] = true
					for _, succ := range cur.b.Succs {
						if succ.Dominates(xb) && succ != xb && inSameLoop(succ, xb) {
							reaches = true
							if !cur.done {
								unreset = true
							}
							continue
						}
						q = append(q, st{succ, cur.done || resets[succ]})
					}
				}
				if reaches {
					n++
					c.check(!unreset, "range-unset-dirty", "unset: descent below "+typeShort(x.Type()), p.Pos(posOf(in, f)), "the node is marked dirty before the cutter continues below it", "the cutter continues below this node without resetting its Flags: its cached (prover-supplied) hash then stands for the whole subtree")
				}
			}
		}
		for _, h := range samePkgScope(f, 1) {
			if h == f || h.Name() == "unset" || h.Name() == "unsetInternal" {
				continue
			}
			for _, x := range asserted(h) {
				fs := flagStores(h, x)
				for _, r := range returnsOf(h) {
					hands := false
					for _, res := range r.Results {
						for v := range backSlice(res) {
							switch y := v.(type) {
							case *ssa.FieldAddr:
								if y.X == x && strings.HasPrefix(fieldName(y.X.Type(), y.Field), "Child") {
									hands = true
								}
							case *ssa.Field:
								if y.X == x && strings.HasPrefix(fieldName(y.X.Type(), y.Field), "Child") {
									hands = true
								}
							}
						}
					}
					if !hands {
						continue
					}
					n++
					okd := false
					for _, st := range fs {
						if dominatesInstr(st, r.Ret) {
							okd = true
						}
					}
					c.check(okd, "range-unset-dirty", h.Name()+": hands back the child of "+typeShort(x.Type()), p.Pos(posOf(r.Ret, h)), "the node is marked dirty before its child is handed back to the walker", "the step helper hands the child of this node back to the walker without resetting the node's Flags")
				}
			}
		}
	}
	if n < 2 {
		c.und("range-unset-dirty", "core/trie2 range walkers", "", fmt.Sprintf("only %d descents found", n))
	}
}

// c10EveryRequestedKey: (every-requested-key) the storage-proof handlers prove every slot the request names: in
// processStorageKeys the keys of an entry (a load of the entry's Keys field) are consumed — appended, merged, put into a set —
// on every iteration of the loop over the requested entries; only the validation errors and loop control may stand in front
// of that use. Seeded change C10-K de-duplicates contracts with a `seen` set and `continue`: the keys of a second entry for
// the same contract are dropped, and the response lacks the path nodes that prove those slots.
func c10EveryRequestedKey(c *Ctx) {
	p := c.P
	n := 0
	for _, v := range []string{"rpc/v8", "rpc/v9", "rpc/v10"} {
		f := p.Func(v, "", "processStorageKeys")
		if f == nil {
			c.und("every-requested-key", v+".processStorageKeys", "", "anchor not found")
			continue
		}
		// loads of field Keys of the ranged entry that are used (not only measured with len) — in the function itself or in the
		// same-package helpers it is split into (two levels)
		found := false
		scope := []*ssa.Function{f}
		for d := 0; d < 2; d++ {
			for _, g := range append([]*ssa.Function{}, scope...) {
				for _, s := range sitesOf(g) {
					if s.Callee != nil && len(s.Callee.Blocks) > 0 && pkgRelOf(s.Callee) == pkgRelOf(f) {
						dup := false
						for _, x := range scope {
							if x == s.Callee {
								dup = true
							}
						}
						if !dup {
							scope = append(scope, s.Callee)
						}
					}
				}
			}
		}
		for _, f := range scope {
			allInstrsOne(f, func(in ssa.Instruction) {
				fa, ok := in.(*ssa.FieldAddr)
				var fv ssa.Value
				if ok && fieldName(fa.X.Type(), fa.Field) == "Keys" {
					fv = fa
				} else if fld, ok2 := in.(*ssa.Field); ok2 && fieldName(fld.X.Type(), fld.Field) == "Keys" {
					fv = fld
				}
				if fv == nil {
					return
				}
				// consumers: any use other than len()/nil comparison
				var uses []ssa.Instruction
				var collect func(v ssa.Value, d int)
				collect = func(v ssa.Value, d int) {
					refs := v.Referrers()
					if refs == nil || d > 3 {
						return
					}
					for _, r := range *refs {
						switch x := r.(type) {
						case *ssa.UnOp:
							collect(x, d+1)
						case *ssa.Call:
							if b, isB := x.Call.Value.(*ssa.Builtin); isB && b.Name() == "len" {
								continue
							}
							uses = append(uses, r)
						case *ssa.BinOp:
							continue
						case *ssa.Slice:
							collect(x, d+1)
						default:
							if _, isDbg := r.(*ssa.DebugRef); !isDbg {
								uses = append(uses, r)
							}
						}
					}
				}
				collect(fv, 0)
				for _, u := range uses {
					if !inSameLoop(u.Block(), u.Block()) {
						continue
					}
					found = true
					n++
					var bad []string
					for _, cj := range p.mustHoldAt(u) {
						for _, a := range cj.list() {
							if strings.HasSuffix(a, " == nil)") || strings.HasSuffix(a, " != nil)") || strings.Contains(a, "jump$") || (strings.Contains(a, "φ") && strings.Contains(a, " < len(")) || (strings.HasPrefix(strings.TrimPrefix(a, "!"), "next(") && strings.HasSuffix(a, "#0")) || (strings.Contains(a, "len(") && strings.HasSuffix(a, " == 0)")) {
								continue
							}
							bad = append(bad, a)
						}
					}
					bad = uniq(bad)
					c.check(len(bad) == 0, "every-requested-key", v+".processStorageKeys: keys of each entry", p.Pos(posOf(u, f)), "the keys of every requested entry are taken over (only validation and loop control guard it)",
						"the storage keys of a requested entry are taken over only under "+strings.Join(bad, "; ")+": slots named by an entry that fails this test are missing from the proof")
				}
			})
		}
		if !found {
			c.und("every-requested-key", v+".processStorageKeys", p.Pos(fnPos(f)), "no use of the entries' Keys inside the loop found")
		}
	}
}

// samePkgScope: fn and the same-package functions it statically calls, up to depth levels.
func samePkgScope(fn *ssa.Function, depth int) []*ssa.Function {
	scope := []*ssa.Function{fn}
	for d := 0; d < depth; d++ {
		for _, g := range append([]*ssa.Function{}, scope...) {
			for _, h := range withAnons(g) {
				for _, s := range sitesOf(h) {
					cal := s.Callee
					if cal != nil && len(cal.Blocks) == 0 && cal.Origin() != nil {
						cal = cal.Origin() // an instantiation without a body of its own: the generic body
					}
					if cal == nil || len(cal.Blocks) == 0 || pkgRelOf(cal) != pkgRelOf(fn) {
						continue
					}
					dup := false
					for _, x := range scope {
						if x == cal {
							dup = true
						}
					}
					if !dup {
						scope = append(scope, cal)
					}
				}
			}
		}
	}
	return scope
}

// c10ProveEveryNode: (prove-every-node) trie.Prove puts every node of the path into the proof set: the Put on the proof set
// inside Prove's loop is guarded by nothing but error checks and loop control — in particular not by a look-up in the very set
// (seeded change C10-N skips nodes "already proven": a leaf whose value equals the hash of an inner node, or a second
// sub-trie with identical content, is then missing and the honest proof does not verify). (set-reset-complete) the ordered
// set that carries proof nodes forgets everything when cleared: every field its methods write is reset by Clear (seeded change
// C10-M adds a keys slice that Clear leaves alone and re-uses one set per request across contracts).
func c10ProveEveryNode(c *Ctx) {
	p := c.P
	if f := p.Func("core/trie", "Trie", "Prove"); f != nil {
		n := 0
		var puts []Site
		for _, g := range samePkgScope(f, 2) {
			if g != f && !p.calledOnlyFrom(g, "Prove", 0) {
				continue
			}
			puts = append(puts, sitesOf(g)...)
		}
		for _, s := range puts {
			if s.Recv == nil || !(s.Callee != nil && s.Callee.Name() == "Put" || s.Method != nil && s.Method.Name() == "Put") || !strings.Contains(s.Recv.Type().String(), "ProofNodeSet") {
				continue
			}
			n++
			var bad []string
			for _, cj := range p.mustHoldAt(s.Instr) {
				for _, a := range cj.list() {
					if strings.Contains(a, ".Get(") || strings.Contains(a, ".Has(") || strings.Contains(a, ".Contains(") {
						bad = append(bad, a)
					}
				}
			}
			c.check(len(bad) == 0, "prove-every-node", "Trie.Prove → proof.Put", p.Pos(s.Pos()), "every node of the path is put into the proof set", "Prove adds a node to the proof set only under "+strings.Join(uniq(bad), "; ")+": a node whose hash is already in the (shared) set is left out although this key's path needs it")
		}
		if n == 0 {
			c.und("prove-every-node", "core/trie.Trie.Prove", p.Pos(fnPos(f)), "Put on the proof set not found")
		}
	} else {
		c.und("prove-every-node", "core/trie.Trie.Prove", "", "anchor not found")
	}
	if t, ok := p.lookupType("utils", "OrderedSet").(*types.Named); ok {
		c08ResetCompleteAs(c, t, "prove-every-node", "utils.OrderedSet")
	} else {
		c.und("prove-every-node", "utils.OrderedSet", "", "type not found")
	}
}
