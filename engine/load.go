package main

import (
	"fmt"
	"go/ast"
	"go/token"
	"go/types"
	"os"
	"path/filepath"
	"sort"
	"strings"
	"time"

	"golang.org/x/tools/go/callgraph"
	"golang.org/x/tools/go/callgraph/cha"
	"golang.org/x/tools/go/callgraph/vta"
	"golang.org/x/tools/go/packages"
	"golang.org/x/tools/go/ssa"
	"golang.org/x/tools/go/ssa/ssautil"
)

const modPath = "github.com/NethermindEth/juno"

// Prog is the loaded, type-checked, SSA-built juno module.
type Prog struct {
	RepoDir   string
	Fset      *token.FileSet
	Pkgs      []*packages.Package
	ByPath    map[string]*packages.Package
	SSA       *ssa.Program
	SSAPkg    map[string]*ssa.Package
	AllFuncs  map[*ssa.Function]bool // module functions with bodies (incl. anon, instantiations)
	cg        *callgraph.Graph
	LoadSecs  float64
	Fixtures  bool // fixture overlay active
	LoadNotes []string
	objFn     map[types.Object]*ssa.Function
	instIdx   map[*ssa.Function][]*callgraph.Node
	accCache  map[*types.TypeName]bool
}

func goEnv() []string {
	if !strings.HasPrefix(os.Getenv("PATH"), "/opt/veriftools/go1.26.8/bin:") {
		os.Setenv("PATH", "/opt/veriftools/go1.26.8/bin:"+os.Getenv("PATH"))
	}
	env := os.Environ()
	out := env[:0:0]
	for _, e := range env {
		if strings.HasPrefix(e, "GOWORK=") || strings.HasPrefix(e, "GOFLAGS=") ||
			strings.HasPrefix(e, "GOPROXY=") || strings.HasPrefix(e, "GOSUMDB=") ||
			strings.HasPrefix(e, "GOTOOLCHAIN=") || strings.HasPrefix(e, "PATH=") {
			continue
		}
		out = append(out, e)
	}
	out = append(out,
		"PATH="+os.Getenv("PATH"),
		"GOFLAGS=-mod=mod", "GOPROXY=off", "GOSUMDB=off", "GOTOOLCHAIN=local", "GOWORK=off",
		"CGO_ENABLED=1")
	return out
}

// tolerated load errors: exact table (DESIGN §2).
func toleratedErr(e packages.Error) bool {
	m := e.Msg + " " + e.Pos
	if strings.Contains(m, "jemalloc") {
		return true
	}
	return false
}

func isFixtureFile(name string) bool {
	return strings.Contains(filepath.Base(name), "zz_verif_fixture")
}

// fixtureOverlay maps /verif/engine/fixtures/<pkgdir>/<name>.go.txt to /repo/<pkgdir>/zz_verif_fixture_<name>.go
func fixtureOverlay(repo, fixDir string) map[string][]byte {
	ov := map[string][]byte{}
	filepath.Walk(fixDir, func(p string, info os.FileInfo, err error) error {
		if err != nil || info.IsDir() || !strings.HasSuffix(p, ".go.txt") {
			return nil
		}
		rel, _ := filepath.Rel(fixDir, p)
		dir := filepath.Dir(rel)
		base := strings.TrimSuffix(filepath.Base(rel), ".go.txt")
		if st, err := os.Stat(filepath.Join(repo, dir)); err != nil || !st.IsDir() {
			return nil
		}
		b, err := os.ReadFile(p)
		if err == nil {
			ov[filepath.Join(repo, dir, "zz_verif_fixture_"+base+".go")] = b
		}
		return nil
	})
	return ov
}

func loadOnce(repo string, overlay map[string][]byte) ([]*packages.Package, *token.FileSet, error) {
	fset := token.NewFileSet()
	cfg := &packages.Config{
		Mode: packages.NeedName | packages.NeedFiles | packages.NeedCompiledGoFiles | packages.NeedImports |
			packages.NeedTypes | packages.NeedTypesSizes | packages.NeedSyntax | packages.NeedTypesInfo | packages.NeedModule,
		Dir:     repo,
		Env:     goEnv(),
		Fset:    fset,
		Tests:   false,
		Overlay: overlay,
	}
	pkgs, err := packages.Load(cfg, "./...")
	return pkgs, fset, err
}

// Load loads /repo. If fixtures is non-empty, the overlay is tried first; if a fixture file does
// not type-check against the current tree (stale fixture), the load is repeated without overlay.
// curProg: the program of the current run (for helper functions that need callers but take no *Prog)
var curProg *Prog

func Load(repo, fixDir string) (*Prog, error) {
	t0 := time.Now()
	p := &Prog{RepoDir: repo}
	curProg = p
	var overlay map[string][]byte
	if fixDir != "" {
		overlay = fixtureOverlay(repo, fixDir)
	}
	if mo := mutantOverlay(repo); mo != nil { // rule self-test (thorough tier): patched copies of single files
		if overlay == nil {
			overlay = map[string][]byte{}
		}
		for k, v := range mo {
			overlay[k] = v
		}
		p.LoadNotes = append(p.LoadNotes, fmt.Sprintf("self-test overlay: %d patched files", len(mo)))
	}
	pkgs, fset, err := loadOnce(repo, overlay)
	if err != nil {
		return nil, err
	}
	fixtureBroken := false
	var hard []string
	scan := func(pkgs []*packages.Package) {
		fixtureBroken = false
		hard = nil
		packages.Visit(pkgs, nil, func(pk *packages.Package) {
			for _, e := range pk.Errors {
				if toleratedErr(e) {
					continue
				}
				if strings.Contains(e.Pos, "zz_verif_fixture") || strings.Contains(e.Msg, "zz_verif_fixture") {
					fixtureBroken = true
					p.LoadNotes = append(p.LoadNotes, "stale fixture: "+e.Pos+": "+e.Msg)
					continue
				}
				hard = append(hard, fmt.Sprintf("%s: %s", e.Pos, e.Msg))
			}
		})
	}
	scan(pkgs)
	p.Fixtures = len(overlay) > 0
	if fixtureBroken {
		pkgs, fset, err = loadOnce(repo, nil)
		if err != nil {
			return nil, err
		}
		scan(pkgs)
		p.Fixtures = false
	}
	if len(hard) > 0 {
		sort.Strings(hard)
		if len(hard) > 15 {
			hard = hard[:15]
		}
		return nil, fmt.Errorf("load/type errors (not in tolerated table):\n  %s", strings.Join(hard, "\n  "))
	}
	p.Fset = fset
	p.ByPath = map[string]*packages.Package{}
	for _, pk := range pkgs {
		if pk.Types == nil {
			continue
		}
		p.Pkgs = append(p.Pkgs, pk)
		p.ByPath[pk.PkgPath] = pk
	}
	sort.Slice(p.Pkgs, func(i, j int) bool { return p.Pkgs[i].PkgPath < p.Pkgs[j].PkgPath })
	if len(p.Pkgs) < 130 {
		return nil, fmt.Errorf("only %d packages loaded (<130): incomplete build", len(p.Pkgs))
	}
	prog, spkgs := ssautil.Packages(p.Pkgs, ssa.InstantiateGenerics)
	p.SSA = prog
	p.SSAPkg = map[string]*ssa.Package{}
	for i, sp := range spkgs {
		if sp != nil {
			p.SSAPkg[p.Pkgs[i].PkgPath] = sp
		}
	}
	prog.Build()
	p.AllFuncs = map[*ssa.Function]bool{}
	for fn := range ssautil.AllFunctions(prog) {
		if fn.Blocks == nil {
			continue
		}
		if fn.Pkg != nil && strings.HasPrefix(fn.Pkg.Pkg.Path(), modPath) {
			p.AllFuncs[fn] = true
		} else if fn.Pkg == nil {
			// instantiations / wrappers: keep when origin is in module
			if o := fn.Origin(); o != nil && o.Pkg != nil && strings.HasPrefix(o.Pkg.Pkg.Path(), modPath) {
				p.AllFuncs[fn] = true
			} else if par := fn.Parent(); par != nil {
				root := par
				for root.Parent() != nil {
					root = root.Parent()
				}
				if root.Pkg != nil && strings.HasPrefix(root.Pkg.Pkg.Path(), modPath) {
					p.AllFuncs[fn] = true
				} else if o := root.Origin(); o != nil && o.Pkg != nil && strings.HasPrefix(o.Pkg.Pkg.Path(), modPath) {
					p.AllFuncs[fn] = true
				}
			}
		}
	}
	// declared functions (incl. generic origins, which AllFunctions does not enumerate) and their closures
	for _, pk := range p.Pkgs {
		for _, obj := range pk.TypesInfo.Defs {
			fo, ok := obj.(*types.Func)
			if !ok {
				continue
			}
			fn := prog.FuncValue(fo)
			if fn == nil || fn.Blocks == nil {
				continue
			}
			for _, f := range withAnons(fn) {
				p.AllFuncs[f] = true
			}
		}
	}
	if len(p.AllFuncs) < 5000 {
		return nil, fmt.Errorf("only %d function bodies (<5000): incomplete build", len(p.AllFuncs))
	}
	p.LoadSecs = time.Since(t0).Seconds()
	return p, nil
}

// CallGraph builds (lazily) the VTA call graph seeded with CHA.
func (p *Prog) CallGraph() *callgraph.Graph {
	if p.cg == nil {
		all := ssautil.AllFunctions(p.SSA)
		for f := range p.AllFuncs { // generic origins are not enumerated by AllFunctions
			all[f] = true
		}
		p.cg = vta.CallGraph(all, cha.CallGraph(p.SSA))
	}
	return p.cg
}

// ---- lookup helpers ----

func (p *Prog) pkg(path string) *packages.Package {
	if !strings.HasPrefix(path, modPath) {
		path = modPath + "/" + path
	}
	return p.ByPath[path]
}

// Func finds a package-level function or method: pkg "core/state", recv "" or "State"/"*State", name.
func (p *Prog) Func(pkgRel, recv, name string) *ssa.Function {
	pk := p.pkg(pkgRel)
	if pk == nil {
		return nil
	}
	sp := p.SSA.Package(pk.Types)
	if sp == nil {
		return nil
	}
	if recv == "" {
		if f := sp.Func(name); f != nil {
			return f
		}
		// a free function turned into a method (or back) keeps its role: accept the one method of that name in the package
		var cand *ssa.Function
		n := 0
		for fn := range p.AllFuncs {
			if fn.Pkg == sp && fn.Name() == name && fn.Signature.Recv() != nil && fn.Origin() == nil && fn.Parent() == nil && fn.Synthetic == "" {
				cand = fn
				n++
			}
		}
		if n == 1 {
			return cand
		}
		return nil
	}
	tn := strings.TrimPrefix(recv, "*")
	obj := pk.Types.Scope().Lookup(tn)
	if obj == nil {
		return nil
	}
	named, ok := obj.Type().(*types.Named)
	if !ok {
		return nil
	}
	for _, T := range []types.Type{types.NewPointer(named), named} {
		ms := p.SSA.MethodSets.MethodSet(T)
		for i := 0; i < ms.Len(); i++ {
			if ms.At(i).Obj().Name() == name {
				fn := p.SSA.MethodValue(ms.At(i))
				if fn != nil && fn.Synthetic == "" {
					return fn
				}
				if fn != nil {
					// wrapper for promoted/value method: get the declared one
					if f := p.SSA.FuncValue(ms.At(i).Obj().(*types.Func)); f != nil {
						return f
					}
					return fn
				}
			}
		}
	}
	return nil
}

// FuncsOfGeneric returns all instantiations (and the generic origin) of a function found by Func-like lookup.
func (p *Prog) FuncsNamed(pkgRel, recv, name string) []*ssa.Function {
	var out []*ssa.Function
	for fn := range p.AllFuncs {
		if fn.Parent() != nil {
			continue
		}
		if fn.Name() != name {
			continue
		}
		o := fn
		if fn.Origin() != nil {
			o = fn.Origin()
		}
		if o.Pkg == nil || o.Pkg.Pkg.Path() != modPath+"/"+pkgRel {
			continue
		}
		r := ""
		if sig := o.Signature; sig.Recv() != nil {
			r = recvName(sig.Recv().Type())
		}
		if strings.TrimPrefix(recv, "*") != r {
			continue
		}
		out = append(out, fn)
	}
	sort.Slice(out, func(i, j int) bool { return out[i].String() < out[j].String() })
	return out
}

func recvName(t types.Type) string {
	if pt, ok := t.(*types.Pointer); ok {
		t = pt.Elem()
	}
	if n, ok := t.(*types.Named); ok {
		return n.Obj().Name()
	}
	return ""
}

func (p *Prog) Pos(pos token.Pos) string {
	if !pos.IsValid() {
		return "?"
	}
	ps := p.Fset.Position(pos)
	rel, err := filepath.Rel(p.RepoDir, ps.Filename)
	if err != nil {
		rel = ps.Filename
	}
	return fmt.Sprintf("%s:%d", rel, ps.Line)
}

func (p *Prog) File(pos token.Pos) string {
	if !pos.IsValid() {
		return ""
	}
	return p.Fset.Position(pos).Filename
}

func (p *Prog) InFixture(pos token.Pos) bool { return isFixtureFile(p.File(pos)) }

// fnPos gives a usable position for a function (anon functions included).
func fnPos(fn *ssa.Function) token.Pos {
	if fn.Pos().IsValid() {
		return fn.Pos()
	}
	if fn.Syntax() != nil {
		return fn.Syntax().Pos()
	}
	if fn.Parent() != nil {
		return fnPos(fn.Parent())
	}
	if fn.Origin() != nil {
		return fnPos(fn.Origin())
	}
	return token.NoPos
}

// qname is the stable construct name of a function: pkgrel.(Recv).Name[$anon]
func qname(fn *ssa.Function) string {
	if fn == nil {
		return "<nil>"
	}
	s := fn.String()
	s = strings.ReplaceAll(s, modPath+"/", "")
	return s
}

// inModule reports whether fn is defined in juno (not fixture).
func (p *Prog) inModule(fn *ssa.Function) bool { return p.AllFuncs[fn] }

// rootOf returns the outermost enclosing function.
func rootOf(fn *ssa.Function) *ssa.Function {
	for fn.Parent() != nil {
		fn = fn.Parent()
	}
	return fn
}

// pkgRelOf returns the module-relative package path of fn ("" if outside).
func pkgRelOf(fn *ssa.Function) string {
	r := rootOf(fn)
	if r.Origin() != nil {
		r = r.Origin()
	}
	if r.Pkg == nil {
		if r.Object() != nil && r.Object().Pkg() != nil {
			return strings.TrimPrefix(strings.TrimPrefix(r.Object().Pkg().Path(), modPath), "/")
		}
		return ""
	}
	return strings.TrimPrefix(strings.TrimPrefix(r.Pkg.Pkg.Path(), modPath), "/")
}

// enclosingFuncDecl finds syntax for a position (used by AST rules).
func (p *Prog) fileOf(pk *packages.Package, pos token.Pos) *ast.File {
	for _, f := range pk.Syntax {
		if f.FileStart <= pos && pos <= f.FileEnd {
			return f
		}
	}
	return nil
}
