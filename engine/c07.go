package main

import (
	"fmt"
	"go/types"
	"reflect"
	"sort"
	"strings"

	"golang.org/x/tools/go/ssa"
)

// cborKey: effective CBOR map key of a struct field as fxamacker/cbor derives it (tag name, else Go field name).
func cborKey(f *types.Var, tag string) (string, bool) {
	st := reflect.StructTag(tag)
	if v, ok := st.Lookup("cbor"); ok {
		name := strings.Split(v, ",")[0]
		if name == "-" {
			return "", false
		}
		if name != "" {
			return name, true
		}
	}
	return f.Name(), f.Exported()
}

type cfield struct {
	key string
	typ types.Type
	tag string
}

// flatFields: exported fields with embedded structs promoted (shallower depth wins, as encoding/json and fxamacker/cbor do).
func flatFields(t types.Type, depth int, out map[string]cfield, depthOf map[string]int) {
	st, ok := t.Underlying().(*types.Struct)
	if !ok {
		if p, isP := t.Underlying().(*types.Pointer); isP {
			flatFields(p.Elem(), depth, out, depthOf)
		}
		return
	}
	for i := 0; i < st.NumFields(); i++ {
		f := st.Field(i)
		if f.Embedded() {
			if _, hasTag := reflect.StructTag(st.Tag(i)).Lookup("cbor"); !hasTag {
				flatFields(f.Type(), depth+1, out, depthOf)
				continue
			}
		}
		k, ok := cborKey(f, st.Tag(i))
		if !ok {
			continue
		}
		if d, seen := depthOf[k]; seen && d <= depth {
			continue
		}
		depthOf[k] = depth
		out[k] = cfield{k, f.Type(), st.Tag(i)}
	}
}

func fieldsOf(t types.Type) map[string]cfield {
	out := map[string]cfield{}
	flatFields(t, 0, out, map[string]int{})
	return out
}

func derefOnce(t types.Type) types.Type {
	if p, ok := t.Underlying().(*types.Pointer); ok {
		return p.Elem()
	}
	return t
}

func init() {
	register("C07", func(c *Ctx) {
		p := c.P
		c.Explain = "Agreement of the tables the storage codecs are generated from, decided with go/types and SSA: (projection) every partial-decoding projection names each typed field with the CBOR key and (up to one pointer level) the type of the full struct it projects, and the skeleton's key set equals the source's key set; (extractors) projections are mapped one-to-one (the AllMapped result is returned unfiltered) from the fields they claim; (blob-copy) the only extractor that hands out the raw block blob copies it out of database-owned memory; " +
			"(registry) every concrete Transaction / ClassDefinition / TrieNode type is registered with the encoder exactly once; (sections) index slices are paired with their own section of the blob and only the two section helpers slice it; (codec-agreement) per bucket, the value encoder of every Put and the decoder of every Get in core's accessors belong to one codec family. Not decided: round-trip identity of values, offsets inside the blob, nil-vs-empty."
		c07DecoderLimits(c)
		c07NoPooledEscape(c)
		c07NoOmitEmpty(c)
		core := p.pkg("core").Types.Scope()
		disc := p.lookupType("core", "discardedCBOR")
		// ---- projection ----
		type src struct {
			skeleton string
			sources  []string
		}
		sources := map[string][]string{
			"discardedHeaderSkeleton":  {"Header"},
			"discardedReceiptSkeleton": {"TransactionReceipt"},
		}
		nproj := 0
		for _, nm := range core.Names() {
			tn, ok := core.Lookup(nm).(*types.TypeName)
			if !ok {
				continue
			}
			st, ok := tn.Type().Underlying().(*types.Struct)
			if !ok {
				continue
			}
			var srcNames []string
			for i := 0; i < st.NumFields(); i++ {
				if st.Field(i).Embedded() {
					if s, ok := sources[st.Field(i).Name()]; ok {
						srcNames = s
					}
				}
			}
			if nm == "transactionHashProjection" {
				srcNames = []string{"InvokeTransaction", "DeclareTransaction", "DeployTransaction", "DeployAccountTransaction", "L1HandlerTransaction"}
			}
			if srcNames == nil {
				continue
			}
			nproj++
			srcFields := map[string]cfield{}
			for _, sn := range srcNames {
				t := p.lookupType("core", sn)
				if t == nil {
					c.und("projection", nm+": source "+sn, "", "source struct not found")
					continue
				}
				for k, f := range fieldsOf(t) {
					srcFields[k] = f
				}
			}
			pf := fieldsOf(tn.Type())
			for k, f := range pf {
				construct := nm + "." + k
				sf, ok := srcFields[k]
				if !ok {
					c.viol("projection", construct, "", "projection field has CBOR key "+k+" which does not exist in "+strings.Join(srcNames, "/")+": it would silently decode to the zero value")
					continue
				}
				if disc != nil && types.Identical(f.typ, disc) {
					c.ok("projection", construct, "", "discarded key exists in the source")
					continue
				}
				okT := types.Identical(derefOnce(f.typ), derefOnce(sf.typ))
				c.check(okT, "projection", construct, "", "typed field matches the source's key and type", fmt.Sprintf("projection field %s has type %s but the stored struct has %s under the same key: it would fail to decode or decode garbage", construct, typeShort(f.typ), typeShort(sf.typ)))
			}
			for k := range srcFields {
				if _, ok := pf[k]; !ok {
					c.viol("projection", nm+" lacks "+k, "", "the stored struct has CBOR key "+k+" that the projection "+nm+" does not declare: with strict decoding an unknown key fails, and a typed field that moved to this key would be missed")
				}
			}
		}
		if nproj < 8 {
			c.und("projection", "core projections", "", fmt.Sprintf("only %d projection structs found", nproj))
		}
		c.floor("projection", 100)
		c.needFixture("projection")

		// ---- extractors ----
		for _, ex := range []string{"extractAllTransactionHashes", "extractAllTransactionEvents"} {
			f := p.Func("core", ex, "extract")
			if f == nil {
				c.und("extractors", ex, "", "anchor not found")
				continue
			}
			am := findSite(f, "AllMapped")
			if am == nil {
				c.viol("extractors", ex+": AllMapped", p.Pos(fnPos(f)), "the projection slice is no longer mapped with indexed.AllMapped")
				continue
			}
			ok := false
			for _, ret := range returnsOf(f) {
				if isNilConst(ret.Results[1]) {
					if ext, isEx := ret.Results[0].(*ssa.Extract); isEx && ext.Tuple == am.Instr.(ssa.Value) && ext.Index == 0 {
						ok = true
					} else {
						ok = false
						break
					}
				}
			}
			c.check(ok, "extractors", ex+": one entry per item", p.Pos(fnPos(f)), "the mapped slice is returned as is (index = position in the block)", "the result of AllMapped is filtered or rewritten before it is returned: entries no longer correspond one-to-one to the block's transactions/receipts")
		}
		for _, row := range []struct {
			ex     string
			fields map[string]string
		}{
			{"extractExecutionStatus", map[string]string{"Reverted": ".Reverted", "RevertReason": ".RevertReason"}},
		} {
			f := p.Func("core", row.ex, "extract")
			if f == nil {
				c.und("extractors", row.ex, "", "anchor not found")
				continue
			}
			got := map[string]string{}
			allInstrs(f, func(in ssa.Instruction) {
				if st, ok := in.(*ssa.Store); ok {
					if fa, ok := st.Addr.(*ssa.FieldAddr); ok {
						got[fieldName(fa.X.Type(), fa.Field)] = term(st.Val)
					}
				}
			})
			for k, suf := range row.fields {
				c.check(strings.HasSuffix(got[k], suf), "extractors", row.ex+"."+k, p.Pos(fnPos(f)), "copied from the projection's "+k, fmt.Sprintf("%s.%s is built from %q", row.ex, k, got[k]))
			}
		}
		// events extractor closure copies Events and TransactionHash
		if f := p.Func("core", "extractAllTransactionEvents", "extract"); f != nil {
			got := map[string]string{}
			for _, g := range withFuncValues(f) {
				allInstrs(g, func(in ssa.Instruction) {
					if st, ok := in.(*ssa.Store); ok {
						if fa, ok := st.Addr.(*ssa.FieldAddr); ok && isNamed(fa.X.Type(), "core", "TransactionEvents") {
							got[fieldName(fa.X.Type(), fa.Field)] = term(st.Val)
						}
					}
				})
			}
			c.check(strings.HasSuffix(got["Events"], ".Events") && strings.HasSuffix(got["TransactionHash"], ".TransactionHash"), "extractors", "extractAllTransactionEvents fields", p.Pos(fnPos(f)), "Events and TransactionHash copied from the receipt projection", fmt.Sprintf("events extractor builds %v", got))
		}
		// ---- blob-copy ----
		if f := p.Func("core", "extractAll", "extract"); f != nil {
			got := ""
			allInstrs(f, func(in ssa.Instruction) {
				if st, ok := in.(*ssa.Store); ok {
					if fa, ok := st.Addr.(*ssa.FieldAddr); ok && isNamed(fa.X.Type(), "core", "BlockTransactions") && fieldName(fa.X.Type(), fa.Field) == "Data" {
						got = term(st.Val)
					}
				}
			})
			if got == "" {
				for _, ret := range returnsOf(f) {
					got = "returns " + term(ret.Results[0])
				}
			}
			ok := strings.Contains(got, "slices.Clone(") || strings.Contains(got, "bytes.Clone(")
			c.check(ok, "blob-copy", "extractAll.extract: Data", p.Pos(fnPos(f)), "the raw blob is cloned before it leaves the database callback", "extractAll hands out the database-owned blob without copying it ("+got+"): lazily decoded transactions would read recycled memory after the Get callback returned")
		} else {
			c.und("blob-copy", "extractAll.extract", "", "anchor not found")
		}
		// ---- registry ----
		reg := registryTypes(p)
		count := map[string]int{}
		for _, r := range reg {
			count[r]++
		}
		for _, row := range []struct{ pkg, iface string }{{"core", "Transaction"}, {"core", "ClassDefinition"}, {"core/trie2/trienode", "TrieNode"}} {
			it := p.lookupType(row.pkg, row.iface)
			if it == nil {
				c.und("registry", row.pkg+"."+row.iface, "", "interface not found")
				continue
			}
			ii, _ := it.Underlying().(*types.Interface)
			sc := p.pkg(row.pkg).Types.Scope()
			n := 0
			for _, nm := range sc.Names() {
				tn, ok := sc.Lookup(nm).(*types.TypeName)
				if !ok || tn.IsAlias() {
					continue
				}
				if _, isI := tn.Type().Underlying().(*types.Interface); isI {
					continue
				}
				if n2, isNamedT := tn.Type().(*types.Named); isNamedT && n2.TypeParams().Len() > 0 {
					continue
				}
				if ii != nil && (types.Implements(types.NewPointer(tn.Type()), ii) || types.Implements(tn.Type(), ii)) {
					n++
					key := p.pkg(row.pkg).Types.Name() + "." + nm
					c.check(count[key] == 1, "registry", key+" registered", "", "registered exactly once with the encoder", fmt.Sprintf("%s implements %s.%s but is registered %d times in encoder/registry: it cannot be stored/decoded as an interface value", key, row.pkg, row.iface, count[key]))
				}
			}
			if n < 2 {
				c.und("registry", row.pkg+"."+row.iface+" implementers", "", fmt.Sprintf("only %d found", n))
			}
		}
		for k, v := range count {
			if v > 1 {
				c.viol("registry", k+" duplicate", "", "type registered more than once")
			}
		}
		// ---- sections ----
		c07Sections(c)
		c07CompositeComplete(c)
		c07ContentFinalBeforeWrite(c)
		// ---- codec-agreement ----
		c07Codec(c)
	})
}

func registryTypes(p *Prog) []string {
	var reg []string
	for _, fn := range p.sortedFuncs() {
		if pkgRelOf(fn) != "encoder/registry" {
			continue
		}
		allInstrs(fn, func(in ssa.Instruction) {
			a, ok := in.(*ssa.Alloc)
			if !ok {
				return
			}
			if els := arrayLiteral(a); len(els) > 3 && strings.Contains(typeShort(a.Type()), "reflect.Type") {
				for _, e := range els {
					name := term(e)
					if call, ok := stripIface(e).(*ssa.Call); ok && len(call.Call.Args) == 1 {
						if mi, ok := call.Call.Args[0].(*ssa.MakeInterface); ok {
							name = typeShort(mi.X.Type())
						}
					} else if ok && len(call.Call.Args) == 0 {
						// reflect.TypeFor[T]()
						if cal := call.Call.StaticCallee(); cal != nil && strings.HasPrefix(cal.Name(), "TypeFor") && len(cal.TypeArgs()) == 1 {
							name = typeShort(cal.TypeArgs()[0])
						}
					}
					reg = append(reg, name)
				}
			}
		})
	}
	return reg
}

func c07Sections(c *Ctx) {
	p := c.P
	n := 0
	for _, fn := range p.sortedFuncs() {
		if pkgRelOf(fn) != "core" || fn.Signature.Recv() == nil || !isNamed(fn.Signature.Recv().Type(), "core", "BlockTransactions") {
			continue
		}
		for _, s := range sitesOf(fn) {
			if !strings.Contains(s.CalleeName(), "indexed.NewLazySlice") {
				continue
			}
			n++
			idx, sec := term(s.Args()[0]), term(s.Args()[1])
			ok := (strings.HasSuffix(idx, "Indexes.Transactions") && strings.HasSuffix(sec, "transactionsSection()")) ||
				(strings.HasSuffix(idx, "Indexes.Receipts") && strings.HasSuffix(sec, "receiptsSection()"))
			c.check(ok, "sections", qname(fn), p.Pos(s.Pos()), "index slice paired with its own section", "lazy slice pairs "+idx+" with "+sec+": offsets would be applied to the wrong part of the blob")
		}
	}
	if n < 5 {
		c.und("sections", "BlockTransactions lazy slices", "", fmt.Sprintf("only %d found", n))
	}
	// who slices Data
	for _, fn := range p.sortedFuncs() {
		if pkgRelOf(fn) != "core" {
			continue
		}
		allInstrs(fn, func(in ssa.Instruction) {
			sl, ok := in.(*ssa.Slice)
			if !ok || !strings.HasSuffix(term(sl.X), "b.Data") || !isNamedRecv(fn, "BlockTransactions") {
				return
			}
			okf := fn.Name() == "transactionsSection" || fn.Name() == "receiptsSection"
			c.check(okf, "sections", "b.Data sliced in "+qname(fn), p.Pos(posOf(in, fn)), "only the section helpers slice the blob", "the blob is sliced outside transactionsSection/receiptsSection")
		})
	}
	if f := p.Func("core", "BlockTransactions", "transactionsSection"); f != nil {
		ok := false
		allInstrs(f, func(in ssa.Instruction) {
			if sl, isSl := in.(*ssa.Slice); isSl && sl.High != nil && strings.Contains(term(sl.High), "Indexes.Receipts[0]") {
				ok = true
			}
		})
		c.check(ok, "sections", "transactionsSection bound", p.Pos(fnPos(f)), "transactions end where the first receipt starts", "transactionsSection no longer ends at Indexes.Receipts[0]")
	}
}

func isNamedRecv(fn *ssa.Function, name string) bool {
	return fn.Signature.Recv() != nil && isNamed(fn.Signature.Recv().Type(), "core", name)
}

func codecFamily(t string) string {
	switch {
	case strings.Contains(t, "encoder.Marshal(") || strings.Contains(t, "encoder.Unmarshal(") || strings.Contains(t, "encoder.UnmarshalFirst("):
		return "cbor"
	case strings.Contains(t, "MarshalBlockNumber(") || strings.Contains(t, "UnmarshalBlockNumber(") || strings.Contains(t, "BigEndian.Uint64(") || strings.Contains(t, "BigEndian.PutUint64("):
		return "be64"
	case strings.Contains(t, ".MarshalBinary()") || strings.Contains(t, ".UnmarshalBinary("):
		return "binary"
	case strings.Contains(t, ".Marshal()") || strings.Contains(t, ".SetBytes(") || strings.Contains(t, "felt.FromBytes") || strings.Contains(t, ".Unmarshal("):
		return "felt-bytes"
	}
	return ""
}

func c07Codec(c *Ctx) {
	p := c.P
	ci := p.caps()
	r := p.newResolver()
	ai := p.attrIndex(r, ci)
	enc := map[string]map[string]string{} // bucket → family → where
	dec := map[string]map[string]string{}
	for _, a := range ai.all {
		if pkgRelOf(a.Prim) != "core" && pkgRelOf(a.Prim) != "core/state" {
			continue
		}
		for _, s := range sitesOf(a.Prim) {
			op, _ := p.isDBPrimitive(ci, s)
			if op == "" {
				continue
			}
			args := s.Args()
			if s.Callee != nil {
				args = args[1:]
			}
			switch {
			case op == "Put" && a.Op == "Put" && len(args) == 2:
				fam := codecFamily(termF(args[1]))
				if fam == "" {
					continue
				}
				if enc[a.Bucket] == nil {
					enc[a.Bucket] = map[string]string{}
				}
				enc[a.Bucket][fam] = qname(a.Prim)
			case op == "Get" && a.Op == "Get" && len(args) == 2:
				for _, cb := range funcValues(args[1], 0) {
					fam := ""
					for _, cs := range sitesOf(cb) {
						if f := codecFamily(cs.CalleeName() + "("); f != "" {
							fam = f
						}
						t := cs.CalleeName()
						switch {
						case strings.HasSuffix(t, "encoder.Unmarshal") || strings.HasSuffix(t, "encoder.UnmarshalFirst"):
							fam = "cbor"
						case strings.HasSuffix(t, "UnmarshalBlockNumber") || strings.HasSuffix(t, "Uint64"):
							fam = "be64"
						case strings.HasSuffix(t, ").UnmarshalBinary"):
							fam = "binary"
						case strings.HasSuffix(t, ").SetBytes") || strings.HasSuffix(t, ").Unmarshal") || strings.Contains(t, "felt.FromBytes"):
							if fam == "" {
								fam = "felt-bytes"
							}
						}
					}
					if fam == "" {
						continue
					}
					if dec[a.Bucket] == nil {
						dec[a.Bucket] = map[string]string{}
					}
					dec[a.Bucket][fam] = qname(a.Prim)
				}
			}
		}
	}
	var bs []string
	for b := range enc {
		bs = append(bs, b)
	}
	sort.Strings(bs)
	n := 0
	for _, b := range bs {
		if strings.HasPrefix(b, "?") || len(dec[b]) == 0 {
			continue
		}
		n++
		ok := len(enc[b]) == 1 && len(dec[b]) == 1
		var ef, df string
		for f := range enc[b] {
			ef = f
		}
		for f := range dec[b] {
			df = f
		}
		ok = ok && ef == df
		c.check(ok, "codec-agreement", "bucket "+b, "", "writers and readers use the "+ef+" codec", fmt.Sprintf("bucket %s is written with %v but read with %v", b, enc[b], dec[b]))
	}
	if n < 6 {
		c.und("codec-agreement", "core accessors", "", fmt.Sprintf("only %d buckets with both an encoder and a decoder recognised", n))
	}
}

// c07CompositeComplete: accessors in package core that assemble a composite (struct literal) from several reads return it
// with every field set on every success path — a header-only shortcut makes the full-block accessor disagree with the
// per-section accessors for the same stored block.
func c07CompositeComplete(c *Ctx) {
	p := c.P
	n := 0
	for _, fn := range p.sortedFuncs() {
		if pkgRelOf(fn) != "core" || fn.Origin() != nil || fn.Parent() != nil || !strings.HasSuffix(p.File(fnPos(fn)), "/accessors.go") && !strings.HasPrefix(fn.Name(), "zzVerifFixtureC07Composite") {
			continue
		}
		if !strings.HasPrefix(fn.Name(), "Get") && !strings.HasPrefix(fn.Name(), "zzVerifFixtureC07Composite") {
			continue
		}
		for _, ret := range returnsOf(fn) {
			if len(ret.Results) < 2 || !isNilConst(ret.Results[len(ret.Results)-1]) {
				continue
			}
			al, ok := ret.Results[0].(*ssa.Alloc)
			if !ok || al.Comment != "complit" {
				continue
			}
			st, ok := al.Type().Underlying().(*types.Pointer).Elem().Underlying().(*types.Struct)
			if !ok || st.NumFields() < 2 {
				continue
			}
			n++
			set := map[string]bool{}
			for _, r := range *al.Referrers() {
				if fa, isFa := r.(*ssa.FieldAddr); isFa {
					for _, r2 := range *fa.Referrers() {
						if s, isSt := r2.(*ssa.Store); isSt && s.Addr == ssa.Value(fa) && dominatesInstr(s, ret.Ret) {
							set[fieldName(fa.X.Type(), fa.Field)] = true
						}
					}
				}
			}
			var missing []string
			for i := 0; i < st.NumFields(); i++ {
				if !set[st.Field(i).Name()] {
					missing = append(missing, st.Field(i).Name())
				}
			}
			c.check(len(missing) == 0, "composite-complete", fmt.Sprintf("%s returns %s", qname(fn), typeShort(al.Type())), p.Pos(posOf(ret.Ret, fn)), "every field of the assembled value is set", "a success path returns the composite without "+strings.Join(missing, ", ")+": the full accessor and the per-section accessors disagree about the same stored block")
		}
	}
	if n < 1 {
		c.und("composite-complete", "core accessors", "", "no composite-assembling accessor found")
	}
	c.needFixture("composite-complete")
}

// c07ContentFinalBeforeWrite: in every closure of the state backends that serialises a block (writeBlockContent), nothing
// that can still modify the block or its state update runs after the serialisation: every later call that is handed the
// block / header / state update only reads it. (Signing after the header was encoded leaves the stored header without the
// signatures the in-memory block carries.)
func c07ContentFinalBeforeWrite(c *Ctx) {
	p := c.P
	// does fn (or a same-package callee, depth ≤ 2) store into a core.Block / core.Header / core.StateUpdate?
	var mutates func(fn *ssa.Function, depth int) bool
	memo := map[*ssa.Function]bool{}
	mutates = func(fn *ssa.Function, depth int) bool {
		if fn == nil || len(fn.Blocks) == 0 || depth > 2 {
			return false
		}
		if v, ok := memo[fn]; ok {
			return v
		}
		memo[fn] = false
		res := false
		allInstrs(fn, func(in ssa.Instruction) {
			if st, ok := in.(*ssa.Store); ok {
				if fa, ok := st.Addr.(*ssa.FieldAddr); ok {
					if _, fresh := fa.X.(*ssa.Alloc); !fresh {
						for _, tn := range []string{"Block", "Header", "StateUpdate"} {
							if isNamed(fa.X.Type(), "core", tn) {
								res = true
							}
						}
					}
				}
			}
		})
		if !res {
			for _, s := range sitesOf(fn) {
				if s.Callee != nil && s.Callee.Pkg == fn.Pkg && mutates(s.Callee, depth+1) {
					res = true
				}
			}
		}
		memo[fn] = res
		return res
	}
	n := 0
	for _, fn := range p.sortedFuncs() {
		if pkgRelOf(fn) != "blockchain/statebackend" || fn.Origin() != nil || strings.HasSuffix(p.Pos(fnPos(fn)), "_test.go") {
			continue
		}
		ss := sitesOf(fn)
		for _, w := range ss {
			if w.CalleeName() != "blockchain/statebackend.writeBlockContent" {
				continue
			}
			n++
			bad := ""
			for _, s := range ss {
				if s.Instr == w.Instr || s.Callee == nil || !dominatesInstr(w.Instr, s.Instr) {
					continue
				}
				takesBlock := false
				for _, a := range s.Args() {
					for _, tn := range []string{"Block", "Header", "StateUpdate"} {
						if isNamed(a.Type(), "core", tn) {
							takesBlock = true
						}
					}
				}
				if takesBlock && mutates(s.Callee, 0) {
					bad = s.Callee.Name() + " at " + p.Pos(s.Pos())
				}
			}
			c.check(bad == "", "content-final", qname(fn)+" → writeBlockContent", p.Pos(w.Pos()), "no call that can modify the block runs after it was serialised", "the block is modified by "+bad+" after writeBlockContent encoded it: what is stored differs from the block the node finalised (e.g. the stored header lacks the signatures)")
		}
	}
	if n < 2 {
		c.und("content-final", "statebackend closures", "", fmt.Sprintf("only %d writeBlockContent sites found", n))
	}
}

// c07DecoderLimits: the encoder writes containers of any size, so what the decoder refuses cannot be read back although it
// was stored without an error. Both container limits of the decoding mode (arrays and maps) are therefore set explicitly, to
// the same bound, and not below the bound the stored data may already rely on (10 485 760 — lowering it makes values that
// are on disk unreadable; raising it is fine). Defect F26: only MaxArrayElements was raised, a state update with more than
// 131 072 entries in one map was written and could never be decoded. Seeded change C07-I lowers both to 1<<17.
func c07DecoderLimits(c *Ctx) {
	p := c.P
	const floor = 10485760
	f := p.Func("encoder", "", "initEncAndDecModes")
	if f == nil {
		c.und("decoder-limits", "encoder.initEncAndDecModes", "", "anchor not found")
		return
	}
	vals := map[string]int64{}
	found := false
	// the options literal may be built by a helper of the package (`newDecMode()`)
	var scan []*ssa.Function
	for _, g := range p.sortedFuncs() {
		if pkgRelOf(g) == "encoder" && len(g.Blocks) > 0 && !strings.HasSuffix(p.Pos(fnPos(g)), "_test.go") {
			scan = append(scan, g)
		}
	}
	each := func(visit func(ssa.Instruction)) {
		for _, g := range scan {
			allInstrs(g, visit)
		}
	}
	each(func(in ssa.Instruction) {
		st, ok := in.(*ssa.Store)
		if !ok {
			return
		}
		fa, ok := st.Addr.(*ssa.FieldAddr)
		if !ok || !strings.HasSuffix(fa.X.Type().String(), "cbor/v2.DecOptions") {
			return
		}
		found = true
		if k, isK := st.Val.(*ssa.Const); isK && k.Value != nil {
			vals[fieldName(fa.X.Type(), fa.Field)] = k.Int64()
		} else {
			vals[fieldName(fa.X.Type(), fa.Field)] = -1
		}
	})
	if !found {
		c.und("decoder-limits", "encoder.initEncAndDecModes", p.Pos(fnPos(f)), "the cbor.DecOptions literal was not found")
		return
	}
	for _, fld := range []string{"MaxArrayElements", "MaxMapPairs"} {
		v, ok := vals[fld]
		switch {
		case !ok:
			c.viol("decoder-limits", "encoder DecOptions."+fld, p.Pos(fnPos(f)), fld+" is left at the library default (131072): larger containers are written by the encoder but cannot be decoded")
		case v < floor:
			c.viol("decoder-limits", "encoder DecOptions."+fld, p.Pos(fnPos(f)), fmt.Sprintf("%s = %d is below the bound stored data may rely on (%d): values already on disk become unreadable", fld, v, floor))
		default:
			c.ok("decoder-limits", "encoder DecOptions."+fld, p.Pos(fnPos(f)), fmt.Sprintf("%s = %d", fld, v))
		}
	}
}

// c07NoPooledEscape: (no-pooled-escape) bytes that end up in a stored value never alias a buffer that goes back to a
// sync.Pool. A function that releases an object's buffer to a pool — directly or through a helper method that Puts a buffer
// reached from its receiver, also when deferred — must not return a value that contains `Bytes()` of that same buffer
// (followed through sub-slices, struct literals and local cells; a copy — bytes.Clone, append to a fresh slice, string
// conversion — ends the aliasing). Seeded change C07-K pools the encode buffer of the block blob and `defer`s its release:
// BlockTransactions.Data of one block is overwritten by the next block that is encoded.
func c07NoPooledEscape(c *Ctx) {
	p := c.P
	// releasers: methods/functions that Put a buffer reached from their first parameter
	isPoolPut := func(s Site) bool {
		return s.Callee != nil && s.Callee.Name() == "Put" && s.Callee.Signature.Recv() != nil && strings.HasSuffix(s.Callee.Signature.Recv().Type().String(), "sync.Pool")
	}
	releasers := map[*ssa.Function]bool{}
	for _, fn := range p.sortedFuncs() {
		if len(fn.Params) == 0 || fn.Origin() != nil {
			continue
		}
		for _, s := range sitesOf(fn) {
			if !isPoolPut(s) {
				continue
			}
			a := s.Args()
			if len(a) < 2 {
				continue
			}
			if backSlice(a[1])[ssa.Value(fn.Params[0])] {
				releasers[fn] = true
			}
		}
	}
	roots := func(v ssa.Value) map[ssa.Value]bool {
		out := map[ssa.Value]bool{}
		for x := range backSlice(v) {
			switch x.(type) {
			case *ssa.Alloc, *ssa.Call:
				out[x] = true
			}
		}
		return out
	}
	n := 0
	for _, fn := range p.sortedFuncs() {
		pr := pkgRelOf(fn)
		if fn.Origin() != nil {
			continue
		}
		if !(pr == "core" || strings.HasPrefix(pr, "core/indexed") || pr == "encoder" || pr == "db" || strings.HasPrefix(pr, "db/")) || strings.HasSuffix(p.Pos(fnPos(fn)), "_test.go") {
			continue
		}
		released := map[ssa.Value]bool{}
		for _, s := range sitesOf(fn) {
			a := s.Args()
			switch {
			case isPoolPut(s) && len(a) >= 2:
				for k := range roots(a[1]) {
					released[k] = true
				}
			case s.Callee != nil && (releasers[s.Callee] || s.Callee.Origin() != nil && releasers[s.Callee.Origin()]) && len(a) >= 1:
				for k := range roots(a[0]) {
					released[k] = true
				}
			}
		}
		if len(released) == 0 {
			continue
		}
		n++
		bad := ""
		seen := map[ssa.Value]bool{}
		var alias func(v ssa.Value, d int) bool
		alias = func(v ssa.Value, d int) bool {
			if v == nil || seen[v] || d > 30 {
				return false
			}
			seen[v] = true
			switch x := v.(type) {
			case *ssa.Phi:
				for _, e := range x.Edges {
					if alias(e, d+1) {
						return true
					}
				}
			case *ssa.Slice:
				return alias(x.X, d+1)
			case *ssa.ChangeType:
				return alias(x.X, d+1)
			case *ssa.MakeInterface:
				return alias(x.X, d+1)
			case *ssa.UnOp:
				return alias(x.X, d+1)
			case *ssa.FieldAddr:
				return alias(x.X, d+1)
			case *ssa.Field:
				return alias(x.X, d+1)
			case *ssa.Alloc:
				var cell func(a ssa.Value, dd int) bool
				cell = func(a ssa.Value, dd int) bool {
					refs := a.Referrers()
					if refs == nil || dd > 3 {
						return false
					}
					for _, r := range *refs {
						switch y := r.(type) {
						case *ssa.Store:
							if y.Addr == a && alias(y.Val, d+1) {
								return true
							}
						case *ssa.FieldAddr:
							if cell(y, dd+1) {
								return true
							}
						}
					}
					return false
				}
				return cell(x, 0)
			case *ssa.Call:
				cal := x.Call.StaticCallee()
				if cal != nil && cal.Name() == "Bytes" && len(x.Call.Args) > 0 {
					for k := range roots(x.Call.Args[0]) {
						if released[k] {
							return true
						}
					}
				}
				if cal != nil && cal.Pkg != nil && cal.Pkg.Pkg.Path() == "bytes" && strings.HasPrefix(cal.Name(), "Trim") && len(x.Call.Args) > 0 {
					return alias(x.Call.Args[0], d+1)
				}
			}
			return false
		}
		for _, ret := range returnsOf(fn) {
			for _, r := range ret.Results {
				if alias(r, 0) {
					bad = p.Pos(posOf(ret.Ret, fn))
				}
			}
		}
		c.check(bad == "", "no-pooled-escape", qname(fn), p.Pos(fnPos(fn)), "no returned value aliases a buffer that goes back to a pool", "the function returns bytes of a buffer that it hands back to a sync.Pool ("+bad+"): the next value encoded through the pool overwrites them — a block blob built before the previous one was persisted (or by a concurrent writer) is stored with another block's bytes")
	}
	if n == 0 {
		c.ok("no-pooled-escape", "core, core/indexed, encoder, db", "", "no function of the storage codecs returns a buffer to a sync.Pool")
	}
}

// c07NoOmitEmpty: (no-omitempty) a stored struct field of slice, map or pointer type does not carry the CBOR `omitempty`
// option: with it an empty non-nil value is not written and reads back as nil — an event with `"data": []` comes back with
// `Data == nil` through every accessor (seeded change C07-M copies the tag of ProofFacts onto Event.Keys/Data and the message
// payloads). The fields that carry the option today are a reviewed, frozen set.
func c07NoOmitEmpty(c *Ctx) {
	p := c.P
	reviewed := map[string]string{
		"core.BlockTransactionsIndexes.Transactions": "index slices of the block blob: written from make(…, 0, n)+append, empty only for an empty block, and consumers use len()",
		"core.BlockTransactionsIndexes.Receipts":     "see Transactions",
		"core.InvokeTransaction.ProofFacts":          "added late to an existing layout; the test-suite already treats nil and empty as equal for this field (observation O13)",
	}
	pk := p.pkg("core")
	if pk == nil {
		c.und("no-omitempty", "core", "", "package not found")
		return
	}
	n := 0
	scope := pk.Types.Scope()
	for _, name := range scope.Names() {
		tn, ok := scope.Lookup(name).(*types.TypeName)
		if !ok {
			continue
		}
		st, ok := tn.Type().Underlying().(*types.Struct)
		if !ok || p.InFixture(tn.Pos()) || strings.HasSuffix(p.Pos(tn.Pos()), "_test.go") {
			continue
		}
		for i := 0; i < st.NumFields(); i++ {
			tag := reflect.StructTag(st.Tag(i)).Get("cbor")
			if !strings.Contains(tag, "omitempty") {
				continue
			}
			switch st.Field(i).Type().Underlying().(type) {
			case *types.Slice, *types.Map, *types.Pointer:
			default:
				continue
			}
			n++
			key := "core." + name + "." + st.Field(i).Name()
			if why, ok := reviewed[key]; ok {
				c.ok("no-omitempty", key, p.Pos(st.Field(i).Pos()), "reviewed: "+why)
				continue
			}
			c.viol("no-omitempty", key, p.Pos(st.Field(i).Pos()), "stored field "+key+" carries the CBOR omitempty option: an empty (non-nil) value is not written and is read back as nil — what accessors return differs from what was stored")
		}
	}
	if n == 0 {
		c.ok("no-omitempty", "core", "", "no stored slice/map/pointer field carries omitempty")
	}
}
