package main

import (
	"go/token"
	"go/types"
	"sort"
	"strings"

	"golang.org/x/tools/go/ssa"
)

// E6: labelled forward flow to sinks, over one function and its nested closures.

type flowUnit struct {
	p       *Prog
	root    *ssa.Function
	funcs   []*ssa.Function
	fvAlloc map[*ssa.FreeVar][]ssa.Value // free variable → bound values in the enclosing function
	binds   map[ssa.Value][]*ssa.FreeVar // alloc/value → free vars it is bound to
	taint   map[ssa.Value]map[string]bool
	work    []ssa.Value
}

func newFlowUnit(p *Prog, fn *ssa.Function) *flowUnit {
	u := &flowUnit{p: p, root: fn, funcs: withAnons(fn), fvAlloc: map[*ssa.FreeVar][]ssa.Value{}, binds: map[ssa.Value][]*ssa.FreeVar{}, taint: map[ssa.Value]map[string]bool{}}
	for _, f := range u.funcs {
		allInstrs(f, func(in ssa.Instruction) {
			if mc, ok := in.(*ssa.MakeClosure); ok {
				cf := mc.Fn.(*ssa.Function)
				for i, b := range mc.Bindings {
					if i < len(cf.FreeVars) {
						u.fvAlloc[cf.FreeVars[i]] = append(u.fvAlloc[cf.FreeVars[i]], b)
						u.binds[b] = append(u.binds[b], cf.FreeVars[i])
					}
				}
			}
		})
	}
	return u
}

func (u *flowUnit) add(v ssa.Value, labels map[string]bool) {
	if v == nil || len(labels) == 0 {
		return
	}
	m := u.taint[v]
	if m == nil {
		m = map[string]bool{}
		u.taint[v] = m
	}
	changed := false
	for l := range labels {
		if !m[l] {
			m[l] = true
			changed = true
		}
	}
	if changed {
		u.work = append(u.work, v)
	}
}

func baseOfAddr(a ssa.Value) ssa.Value {
	for {
		switch x := a.(type) {
		case *ssa.FieldAddr:
			a = x.X
		case *ssa.IndexAddr:
			a = x.X
		case *ssa.Slice:
			a = x.X
		default:
			return a
		}
	}
}

func (u *flowUnit) run() {
	for len(u.work) > 0 {
		v := u.work[len(u.work)-1]
		u.work = u.work[:len(u.work)-1]
		labels := u.taint[v]
		// closures: bound values ↔ free variables
		for _, fv := range u.binds[v] {
			u.add(fv, labels)
		}
		if fv, ok := v.(*ssa.FreeVar); ok {
			for _, b := range u.fvAlloc[fv] {
				u.add(b, labels)
			}
		}
		refs := v.Referrers()
		if refs == nil {
			continue
		}
		for _, r := range *refs {
			switch x := r.(type) {
			case *ssa.Store:
				if x.Val == v {
					u.add(baseOfAddr(x.Addr), labels)
					if x.Addr != baseOfAddr(x.Addr) {
						u.add(x.Addr, labels)
					}
				}
			case *ssa.MapUpdate:
				if x.Value == v || x.Key == v {
					u.add(x.Map, labels)
				}
			case *ssa.Send:
				if x.X == v {
					u.add(x.Chan, labels)
				}
			case *ssa.If:
				// control dependence, φ form only: a value selected at the join of the two arms depends on the condition
				// (`h := zero; if r.Reverted { h = keccak(reason) }`). Early-exit guards create no φ and carry nothing.
				for _, succ := range x.Block().Succs {
					region := []*ssa.BasicBlock{succ}
					for _, b := range x.Parent().Blocks {
						if b != succ && succ.Dominates(b) && len(succ.Preds) == 1 {
							region = append(region, b)
						}
					}
					for _, b := range region {
						targets := b.Succs
						if b == succ && len(succ.Preds) > 1 { // the arm is empty: succ itself is the join
							targets = []*ssa.BasicBlock{succ}
						}
						for _, j := range targets {
							if len(succ.Preds) == 1 && succ.Dominates(j) && j != succ {
								continue
							}
							for _, in := range j.Instrs {
								ph, isPhi := in.(*ssa.Phi)
								if !isPhi {
									break
								}
								u.add(ph, labels)
							}
						}
					}
				}
			case ssa.CallInstruction:
				cc := x.Common()
				// result
				if val, ok := r.(ssa.Value); ok {
					u.add(val, labels)
				}
				// pointer-to-local arguments may be written by the callee
				for _, a := range cc.Args {
					if a == v {
						continue
					}
					if _, isAlloc := baseOfAddr(a).(*ssa.Alloc); isAlloc {
						u.add(baseOfAddr(a), labels)
					}
					if fv, isFV := baseOfAddr(a).(*ssa.FreeVar); isFV {
						u.add(fv, labels)
					}
					// a pointer loaded from memory (e.g. digests[i]): the callee may write through it
					if _, isPtr := a.Type().Underlying().(*types.Pointer); isPtr {
						if ld, isLoad := a.(*ssa.UnOp); isLoad && ld.Op == token.MUL {
							u.add(a, labels)
							u.add(baseOfAddr(ld.X), labels)
						}
					}
				}
				if cc.IsInvoke() && cc.Value != v {
					// receiver may be mutated
				}
				// function values called with tainted args: parameters of local closures
				if mc, ok := cc.Value.(*ssa.MakeClosure); ok {
					_ = mc
				}
			default:
				if val, ok := r.(ssa.Value); ok {
					u.add(val, labels)
				}
			}
		}
	}
}

// seedFieldLoads seeds every load of a field (path) reachable from root parameter `par` with its access path label.
func (u *flowUnit) seedFieldLoads(par *ssa.Parameter) {
	rootish := map[ssa.Value]string{par: ""}
	changed := true
	for changed {
		changed = false
		for _, f := range u.funcs {
			allInstrs(f, func(in ssa.Instruction) {
				v, ok := in.(ssa.Value)
				if !ok {
					return
				}
				if _, done := rootish[v]; done {
					return
				}
				switch x := in.(type) {
				case *ssa.Call:
					if x.Call.IsInvoke() {
						if p, ok := rootish[x.Call.Value]; ok {
							rootish[v] = joinPath(p, x.Call.Method.Name()+"()")
							changed = true
						}
					}
				case *ssa.FieldAddr:
					if p, ok := rootish[x.X]; ok {
						rootish[v] = joinPath(p, fieldName(x.X.Type(), x.Field))
						changed = true
					}
				case *ssa.Field:
					if p, ok := rootish[x.X]; ok {
						rootish[v] = joinPath(p, fieldName(x.X.Type(), x.Field))
						changed = true
					}
				case *ssa.UnOp:
					if x.Op != token.MUL {
						return
					}
					if p, ok := rootish[x.X]; ok {
						rootish[v] = p
						changed = true
						return
					}
					// load of a spill alloc / free var holding the root
					if a, ok := x.X.(*ssa.Alloc); ok {
						if refs := a.Referrers(); refs != nil {
							for _, r := range *refs {
								if st, ok := r.(*ssa.Store); ok && st.Addr == ssa.Value(a) {
									if p, ok := rootish[st.Val]; ok {
										rootish[v] = p
										changed = true
									}
								}
							}
						}
					}
					if fv, ok := x.X.(*ssa.FreeVar); ok {
						for _, b := range u.fvAlloc[fv] {
							if a, ok := b.(*ssa.Alloc); ok {
								if refs := a.Referrers(); refs != nil {
									for _, r := range *refs {
										if st, ok := r.(*ssa.Store); ok && st.Addr == ssa.Value(a) {
											if p, ok := rootish[st.Val]; ok {
												rootish[v] = p
												changed = true
											}
										}
									}
								}
							}
						}
					}
				}
			})
		}
		// free variables bound directly to a rootish value
		for fv, bs := range u.fvAlloc {
			if _, done := rootish[fv]; done {
				continue
			}
			for _, b := range bs {
				if p, ok := rootish[b]; ok {
					rootish[fv] = p
					changed = true
				}
			}
		}
	}
	for v, path := range rootish {
		if path == "" {
			continue
		}
		// only value loads / Field values carry data; addresses are handled through their loads
		switch x := v.(type) {
		case *ssa.UnOp, *ssa.Field, *ssa.Call:
			u.add(v, map[string]bool{path: true})
		case *ssa.FieldAddr:
			// address passed directly (e.g. &b.Hash): seed it as well
			u.add(x, map[string]bool{path: true})
		}
	}
}

func joinPath(a, b string) string {
	if a == "" {
		return b
	}
	return a + "." + b
}

func (u *flowUnit) seedParam(par *ssa.Parameter, label string) {
	u.add(par, map[string]bool{label: true})
}

// sinkLabels: labels that reach an argument of a call accepted by isSink (and armOK for the call's position).
func (u *flowUnit) sinkLabels(isSink func(Site) bool, armOK func(ssa.Instruction) bool) map[string]string {
	out := map[string]string{}
	for _, f := range u.funcs {
		for _, s := range sitesOf(f) {
			if !isSink(s) || (armOK != nil && !armOK(s.Instr)) {
				continue
			}
			for _, a := range s.Args() {
				for _, cand := range []ssa.Value{a, baseOfAddr(a)} {
					for l := range u.taint[cand] {
						if _, ok := out[l]; !ok {
							out[l] = u.p.Pos(s.Pos())
						}
					}
				}
			}
		}
	}
	return out
}

// resultLabels: labels that reach a returned value of the root function.
func (u *flowUnit) resultLabels() map[string]bool {
	out := map[string]bool{}
	for _, ret := range returnsOf(u.root) {
		for _, r := range ret.Results {
			for _, cand := range []ssa.Value{r, baseOfAddr(r)} {
				for l := range u.taint[cand] {
					out[l] = true
				}
			}
		}
	}
	return out
}

var hashSinkNames = map[string]bool{
	"core/crypto.Pedersen": true, "core/crypto.PedersenArray": true, "core/crypto.PedersenElems": true,
	"core/crypto.Poseidon": true, "core/crypto.PoseidonArray": true, "core/crypto.PoseidonElems": true,
	"(*core/crypto.PoseidonDigest).Update": true, "(*core/crypto.PoseidonDigest).UpdateArray": true,
	"(*core/crypto.PedersenDigest).Update": true, "(*core/crypto.PedersenDigest).UpdateArray": true,
	"core/crypto.StarknetKeccak": true,
}

func isHashSink(s Site) bool {
	n := s.CalleeName()
	if hashSinkNames[n] {
		return true
	}
	if strings.HasSuffix(n, "Keccak256") || strings.HasSuffix(n, ".StarknetKeccak") {
		return true
	}
	// hash.Hash Write (sha3 / keccak state)
	if s.Method != nil && s.Method.Name() == "Write" && strings.Contains(typeShort(s.Recv.Type()), "KeccakState") {
		return true
	}
	return false
}

func sortedKeys(m map[string]string) []string {
	var o []string
	for k := range m {
		o = append(o, k)
	}
	sort.Strings(o)
	return o
}
