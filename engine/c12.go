package main

import (
	"fmt"
	"go/types"
	"sort"
	"strings"

	"golang.org/x/tools/go/ssa"
)

type guardSpec struct {
	do    string
	line  string
	conjs [][]string // each required conjunct = one pattern list (all patterns must match one positive/negated atom)
}

var tmGuards = []guardSpec{
	{"doFirstProposal", "L22", [][]string{{"ValidRound == -1"}, {"s.state.step == types.StepPropose"}}},
	{"doProposalAndPolkaPrevious", "L28", [][]string{
		{"HasQuorumForVote(", "ValidRound, votecounter.Prevote, ", ".ID)"}, {"s.state.step == types.StepPropose"}, {"ValidRound >= 0"}, {"ValidRound < s.state.round"}}},
	{"doPolkaAny", "L34", [][]string{{"s.state.step == types.StepPrevote"}, {"HasQuorumForAny(s.state.round, votecounter.Prevote)"}, {"^!", "s.state.timeoutPrevoteScheduled"}}},
	{"doProposalAndPolkaCurrent", "L36", [][]string{
		{"HasQuorumForVote(s.state.round, votecounter.Prevote, ", ".ID)"}, {"$.Valid"}, {"s.state.step >= types.StepPrevote"}, {"^!", "s.state.lockedValueAndOrValidValueSet"}}},
	{"doPolkaNil", "L44", [][]string{{"HasQuorumForVote(s.state.round, votecounter.Prevote, nil)"}, {"s.state.step == types.StepPrevote"}}},
	{"doPrecommitAny", "L47", [][]string{{"HasQuorumForAny(s.state.round, votecounter.Precommit)"}, {"^!", "s.state.timeoutPrecommitScheduled"}}},
	{"doCommitValue", "L49", [][]string{{"HasQuorumForVote(", "Round, votecounter.Precommit, ", ".ID)"}, {"$.Valid"}}},
	{"doSkipRound", "L55", [][]string{{" > s.state.round)"}, {"HasNonFaultyFutureMessage("}}},
}

func tmFunc(p *Prog, name string) *ssa.Function {
	fs := p.FuncsNamed("consensus/tendermint", "stateMachine", name)
	for _, f := range fs {
		if f.Origin() == nil {
			return f
		}
	}
	if len(fs) > 0 {
		return fs[0]
	}
	return nil
}

func init() {
	register("C12", func(c *Ctx) {
		// (memo-key) look-aside memos of the consensus packages are keyed by every input of the remembered value (engine/memo.go)
		memoKeyRule(c, "memo-key", func(pk string) bool {
			return strings.HasPrefix(pk, "consensus/votecounter") || strings.HasPrefix(pk, "consensus/tendermint") || pk == "consensus"
		})
		c.needFixture("memo-key")
		p := c.P
		c.Explain = "Decides that the implemented Tendermint rules are the paper's rules, on the generic SSA bodies of consensus/tendermint and consensus/votecounter: (rule-guards) at every call of a rule action in stateMachine.process the DNF of conditions that must hold (dominating branches, &&/|| recovered from φ-nodes, boolean helpers inlined) contains each conjunct of the paper's enabling condition; " +
			"(vote-decision) the value is prevoted only under Valid ∧ (lockedRound = −1 ∨ lockedValue = v) resp. Valid ∧ (lockedRound ≤ validRound ∨ lockedValue = v); (vote-once) prevote/precommit messages are only built by setStepAndSend*, every call of which holds step = propose resp. prevote and advances the step; " +
			"(lock-writes) locked*/valid*/height/round/first-time flags are only stored by their owning rule actions, the lock under step = prevote; (thresholds) q(N)=⌈2N/3⌉, f(N)=⌊(N−1)/3⌋, quorum tests are ≥ q, skip-round is > f, a validator's power is added once per vote kind; (proposer) a proposal is accepted only from the proposer of its own height and round; (commit-reset) commit resets counter, height, locks, round. " +
			"Not decided: agreement under adversarial schedules (the paper's proof is relied upon for that), liveness."
		proc := tmFunc(p, "process")
		if proc == nil {
			c.und("rule-guards", "stateMachine.process", "", "anchor not found")
			return
		}
		c.saw(qname(proc))
		siteDNF := map[string]dnf{}
		for _, g := range tmGuards {
			sites := findSites(proc, g.do)
			if len(sites) == 0 {
				c.und("rule-guards", g.line+":"+g.do, p.Pos(fnPos(proc)), "rule action is not called from stateMachine.process")
				continue
			}
			for _, s := range sites {
				d := p.mustHoldAt(s.Instr)
				siteDNF[g.do] = d
				for _, cj := range g.conjs {
					ok, miss := everyDisjunctHas(d, cj)
					construct := g.line + ":" + g.do + " requires " + strings.Join(cj, "…")
					if ok {
						c.ok("rule-guards", construct, p.Pos(s.Pos()), "conjunct holds on every path to the action")
					} else {
						c.viol("rule-guards", construct, p.Pos(s.Pos()), "the paper's enabling conjunct is not implied on the path: "+miss)
					}
				}
			}
		}
		c.floor("rule-guards", 22)

		// timeouts
		for _, t := range []struct{ fn, step string }{{"onTimeoutPropose", "s.state.step == types.StepPropose"}, {"onTimeoutPrevote", "s.state.step == types.StepPrevote"}, {"onTimeoutPrecommit", ""}} {
			f := tmFunc(p, t.fn)
			if f == nil {
				c.und("rule-guards", t.fn, "", "anchor not found")
				continue
			}
			for _, s := range sitesOf(f) {
				nm := s.CalleeName()
				if !(strings.Contains(nm, "setStepAndSend") || strings.HasSuffix(nm, ".startRound")) {
					continue
				}
				d := p.mustHoldAt(s.Instr)
				req := [][]string{{"s.state.height == ", "Height"}, {"s.state.round == ", "Round"}}
				if t.step != "" {
					req = append(req, []string{t.step})
				}
				for _, cj := range req {
					ok, miss := everyDisjunctHas(d, cj)
					c.check(ok, "rule-guards", t.fn+" requires "+strings.Join(cj, "…"), p.Pos(s.Pos()), "timeout acts only for the same height/round/step", "timeout handler acts without "+strings.Join(cj, "…")+": "+miss)
				}
			}
		}

		// vote-decision
		for _, vd := range []struct {
			fn   string
			alts [][]string
		}{
			{"doFirstProposal", [][]string{{"s.state.lockedRound == -1"}, {"s.state.lockedValue", "Hash() == "}}},
			{"doProposalAndPolkaPrevious", [][]string{{"(s.state.lockedRound <= ", "ValidRound)"}, {"s.state.lockedValue", "Hash() == "}}},
		} {
			f := tmFunc(p, vd.fn)
			if f == nil {
				c.und("vote-decision", vd.fn, "", "anchor not found")
				continue
			}
			// every prevote site of the rule; the value is voted either through a
			// φ (nil | id) argument of one call or through separate calls
			var sites []Site
			for _, s := range findSites(f, "setStepAndSendPrevote") {
				if len(s.Args()) >= 2 {
					sites = append(sites, s)
				}
			}
			if len(sites) == 0 {
				c.und("vote-decision", vd.fn, p.Pos(fnPos(f)), "prevote call not found")
				continue
			}
			site := &sites[0]
			b := &bform{p: p, visited: map[ssa.Value]bool{}}
			var d dnf
			for i := range sites {
				s := sites[i]
				at := p.mustHoldAt(s.Instr)
				switch a := s.Args()[1].(type) {
				case *ssa.Phi:
					for i, e := range a.Edges {
						if isNilConst(e) {
							continue
						}
						d = dnfOr(d, dnfAnd(at, b.pathCond(a.Block().Preds[i], a.Block(), f, 0)))
					}
				default:
					if isNilConst(a) {
						continue
					}
					site = &sites[i]
					d = dnfOr(d, at)
				}
			}
			ok1, miss1 := everyDisjunctHas(d, []string{"$.Valid"})
			ok2, miss2 := everyDisjunctHas(d, vd.alts...)
			c.check(ok1, "vote-decision", vd.fn+": value ⇒ Valid", p.Pos(site.Pos()), "the value is prevoted only if valid", "the proposal id can be prevoted on a path without Valid: "+miss1)
			c.check(ok2 && len(d) > 0, "vote-decision", vd.fn+": value ⇒ lock condition", p.Pos(site.Pos()), "the value is prevoted only if not locked on another value (paper's lock check)", "the proposal id can be prevoted while locked: "+miss2)
		}
		c.floor("vote-decision", 4)

		// vote-once
		for _, vo := range []struct{ fn, step, next string }{{"setStepAndSendPrevote", "s.state.step == types.StepPropose", "types.StepPrevote"}, {"setStepAndSendPrecommit", "s.state.step == types.StepPrevote", "types.StepPrecommit"}} {
			f := tmFunc(p, vo.fn)
			if f == nil {
				c.und("vote-once", vo.fn, "", "anchor not found")
				continue
			}
			// advances the step
			adv := false
			allInstrs(f, func(in ssa.Instruction) {
				if st, ok := in.(*ssa.Store); ok && strings.HasSuffix(term(st.Addr), "s.state.step") && term(st.Val) == vo.next {
					adv = true
				}
			})
			c.check(adv, "vote-once", vo.fn+": advances step", p.Pos(fnPos(f)), "sets step to "+vo.next, "the vote is sent without advancing the step: the same rule could fire again and vote twice")
			n := 0
			for _, caller := range p.sortedFuncs() {
				if pkgRelOf(caller) != "consensus/tendermint" || caller.Origin() != nil {
					continue
				}
				for _, s := range findSites(caller, vo.fn) {
					n++
					d := p.mustHoldAt(s.Instr)
					if outer, ok := siteDNF[rootOf(caller).Name()]; ok {
						d = dnfAnd(d, outer)
					}
					ok, miss := everyDisjunctHas(d, []string{vo.step})
					c.check(ok, "vote-once", vo.fn+" ← "+caller.Name(), p.Pos(s.Pos()), "called only under "+vo.step, "vote can be sent outside "+vo.step+": "+miss)
				}
			}
			if n < 3 {
				c.und("vote-once", vo.fn+":callers", "", fmt.Sprintf("only %d callers found", n))
			}
		}
		// only setStepAndSend*/sendProposal build broadcast actions
		for _, fn := range p.sortedFuncs() {
			if !strings.HasPrefix(pkgRelOf(fn), "consensus/") || fn.Origin() != nil || strings.HasPrefix(pkgRelOf(fn), "consensus/driver") || strings.HasPrefix(pkgRelOf(fn), "consensus/p2p") {
				continue
			}
			allInstrs(fn, func(in ssa.Instruction) {
				v, ok := in.(ssa.Value)
				if !ok {
					return
				}
				switch in.(type) {
				case *ssa.ChangeType, *ssa.Convert, *ssa.Alloc:
				default:
					return
				}
				for _, k := range []string{"BroadcastPrevote", "BroadcastPrecommit", "BroadcastProposal"} {
					if isNamed(v.Type(), "consensus/types/actions", k) {
						owner := map[string]string{"BroadcastPrevote": "setStepAndSendPrevote", "BroadcastPrecommit": "setStepAndSendPrecommit", "BroadcastProposal": "sendProposal"}[k]
						c.check(fn.Name() == owner, "vote-once", k+" built by "+qname(fn), p.Pos(posOf(in, fn)), "built only by "+owner, k+" action constructed outside "+owner)
					}
				}
			})
		}
		c.floor("vote-once", 10)

		// lock-writes
		owners := map[string]map[string]bool{
			"lockedValue":                   {"doProposalAndPolkaCurrent": true, "doCommitValue": true},
			"lockedRound":                   {"doProposalAndPolkaCurrent": true, "doCommitValue": true},
			"validValue":                    {"doProposalAndPolkaCurrent": true, "doCommitValue": true},
			"validRound":                    {"doProposalAndPolkaCurrent": true, "doCommitValue": true},
			"height":                        {"doCommitValue": true},
			"round":                         {"resetState": true},
			"step":                          {"resetState": true, "setStepAndSendPrevote": true, "setStepAndSendPrecommit": true},
			"timeoutPrevoteScheduled":       {"resetState": true, "doPolkaAny": true},
			"timeoutPrecommitScheduled":     {"resetState": true, "doPrecommitAny": true},
			"lockedValueAndOrValidValueSet": {"resetState": true, "doProposalAndPolkaCurrent": true},
		}
		nlw := 0
		for _, fn := range p.sortedFuncs() {
			if pkgRelOf(fn) != "consensus/tendermint" || fn.Origin() != nil {
				continue
			}
			allInstrs(fn, func(in ssa.Instruction) {
				st, ok := in.(*ssa.Store)
				if !ok {
					return
				}
				fa, ok := st.Addr.(*ssa.FieldAddr)
				if !ok || !isNamed(fa.X.Type(), "consensus/tendermint", "state") {
					return
				}
				fname := fieldName(fa.X.Type(), fa.Field)
				ow, tracked := owners[fname]
				if !tracked {
					return
				}
				if _, fresh := fa.X.(*ssa.Alloc); fresh {
					return
				}
				nlw++
				construct := "state." + fname + " ← " + fn.Name()
				// a piece of an owning action (a helper that only that action reaches) writes on its behalf
				piece := !ow[fn.Name()] && p.calledOnlyFromAny(fn, ow, 0)
				if !ow[fn.Name()] && !piece {
					c.viol("lock-writes", construct, p.Pos(posOf(in, fn)), "consensus state variable "+fname+" is written outside its owning rule action")
					return
				}
				if (fname == "lockedValue" || fname == "lockedRound") && (fn.Name() == "doProposalAndPolkaCurrent" || (piece && p.calledOnlyFrom(fn, "doProposalAndPolkaCurrent", 0))) {
					d := p.mustHoldAt(in)
					if piece {
						// the step test may stand in the helper or in front of its call
						for _, cs := range p.callersOf(fn) {
							d = p.mustHoldChain(in, []Site{cs})
						}
					}
					ok, miss := everyDisjunctHas(d, []string{"s.state.step == types.StepPrevote"}, []string{"types.StepPrevote == s.state.step"})
					c.check(ok, "lock-writes", construct, p.Pos(posOf(in, fn)), "lock is taken only under step = prevote (paper line 37)", "the lock is taken outside step = prevote: "+miss)
					return
				}
				c.ok("lock-writes", construct, p.Pos(posOf(in, fn)), "written by its owning rule action")
			})
		}
		c.floor("lock-writes", 19)
		// commit-reset
		if f := tmFunc(p, "doCommitValue"); f != nil {
			want := map[string]string{"height": "", "lockedRound": "-1", "lockedValue": "nil", "validRound": "-1", "validValue": "nil"}
			got := map[string]string{}
			allInstrs(f, func(in ssa.Instruction) {
				if st, ok := in.(*ssa.Store); ok {
					if fa, ok := st.Addr.(*ssa.FieldAddr); ok && isNamed(fa.X.Type(), "consensus/tendermint", "state") {
						got[fieldName(fa.X.Type(), fa.Field)] = term(st.Val)
					}
				}
			})
			// `s.state = state{...}` / `s.state = newHeightState(h)`: every field is (re)written — named fields with the
			// literal's values, the others with their zero value
			whole := false
			allInstrs(f, func(in ssa.Instruction) {
				st, ok := in.(*ssa.Store)
				if !ok {
					return
				}
				fa, ok := st.Addr.(*ssa.FieldAddr)
				if !ok || fieldName(fa.X.Type(), fa.Field) != "state" {
					return
				}
				if lf := structLiteralFields(st.Val, 0); lf != nil {
					whole = true
					for k, v := range lf {
						got[k] = v
					}
				}
			})
			for k, v := range want {
				gv, ok := got[k]
				okv := ok && (v == "" || gv == v)
				if k == "height" {
					okv = ok && strings.Contains(gv, "s.state.height + 1")
				}
				c.check(okv, "commit-reset", "doCommitValue resets "+k, p.Pos(fnPos(f)), "reset on commit", fmt.Sprintf("commit does not reset %s (got %q)", k, gv))
			}
			c.check(findSite(f, "StartNewHeight") != nil, "commit-reset", "doCommitValue → voteCounter.StartNewHeight", p.Pos(fnPos(f)), "vote counter moves to the next height", "commit does not advance the vote counter")
			c.check(findSite(f, "resetState") != nil || whole, "commit-reset", "doCommitValue → resetState(0)", p.Pos(fnPos(f)), "round state reset", "commit does not reset the round state")
		} else {
			c.und("commit-reset", "doCommitValue", "", "anchor not found")
		}

		c12HeightScoped(c)
		c12LockAndThresholdWrites(c)
		c12Thresholds(c)
	})
}

func vcFunc(p *Prog, recv, name string) *ssa.Function {
	fs := p.FuncsNamed("consensus/votecounter", recv, name)
	for _, f := range fs {
		if f.Origin() == nil {
			return f
		}
	}
	if len(fs) > 0 {
		return fs[0]
	}
	return nil
}

func c12Thresholds(c *Ctx) {
	p := c.P
	if f := vcFunc(p, "", "f"); f != nil {
		t := retTerm(f)
		c.check(t == "(($0 - 1) / 3)", "thresholds", "votecounter.f", p.Pos(fnPos(f)), "f(N) = ⌊(N−1)/3⌋", "faulty-power bound is "+t+", expected (N-1)/3")
	} else {
		c.und("thresholds", "votecounter.f", "", "anchor not found")
	}
	if f := vcFunc(p, "", "q"); f != nil {
		t := retTerm(f)
		okq := t == "φ((($0 * 2) / 3) | ((($0 * 2) / 3) + 1))"
		// the +1 arm is taken iff (2N mod 3) > 0
		if okq {
			okq = false
			for _, b := range f.Blocks {
				if iff, ok := b.Instrs[len(b.Instrs)-1].(*ssa.If); ok && termP(iff.Cond) == "((($0 * 2) % 3) > 0)" {
					okq = true
				}
			}
		}
		c.check(okq, "thresholds", "votecounter.q", p.Pos(fnPos(f)), "q(N) = ⌈2N/3⌉", "quorum threshold is "+t+", not one of the accepted forms of ⌈2N/3⌉ (re-confirm by hand and extend the table if it is equivalent)")
	} else {
		c.und("thresholds", "votecounter.q", "", "anchor not found")
	}
	for _, q := range []struct{ fn, pat string }{
		{"HasQuorumForVote", " >= v.|quorumVotingPower)"}, {"HasQuorumForAny", " >= v.|quorumVotingPower)"},
		{"HasFuturePrecommitQuorum", " >= v.|quorumVotingPower)"}, {"HasNonFaultyFutureMessage", " > v.|faultyVotingPower)"},
	} {
		f := vcFunc(p, "VoteCounter", q.fn)
		if f == nil {
			c.und("thresholds", "VoteCounter."+q.fn, "", "anchor not found")
			continue
		}
		var d dnf
		for _, ret := range returnsOf(f) {
			b := &bform{p: p, visited: map[ssa.Value]bool{}}
			rd := b.dnf(ret.Results[0], true, 0)
			d = dnfOr(d, dnfAnd(b.pathCond(ret.Block, nil, f, 0), rd))
		}
		// the threshold may be a field of the counter or of a small struct grouping the thresholds (v.thresholds.quorum…)
		ok, miss := everyDisjunctHas(d, strings.Split(q.pat, "|"))
		q.pat = strings.ReplaceAll(q.pat, "|", "")
		c.check(ok && len(d) > 0, "thresholds", "VoteCounter."+q.fn, p.Pos(fnPos(f)), "true only if count"+q.pat, "threshold comparison changed: returns true without count"+q.pat+" — "+miss)
	}
	// quorum fields assigned from q()/f()
	for _, fnn := range []string{"New", "StartNewHeight"} {
		var f *ssa.Function
		if fnn == "New" {
			f = vcFunc(p, "", "New")
		} else {
			f = vcFunc(p, "VoteCounter", fnn)
		}
		if f == nil {
			c.und("thresholds", fnn, "", "anchor not found")
			continue
		}
		got := map[string]string{}
		allInstrs(f, func(in ssa.Instruction) {
			if st, ok := in.(*ssa.Store); ok {
				if fa, ok := st.Addr.(*ssa.FieldAddr); ok && isNamed(fa.X.Type(), "consensus/votecounter", "VoteCounter") {
					got[fieldName(fa.X.Type(), fa.Field)] = termInl(st.Val)
					// a struct-valued field built by a constructor of the package (thresholds: newThresholds(total))
					for k, t := range structLiteralFields(st.Val, 0) {
						got[k] = t
					}
				}
			}
		})
		c.check(strings.HasPrefix(got["quorumVotingPower"], "votecounter.q(") && strings.HasPrefix(got["faultyVotingPower"], "votecounter.f("), "thresholds", "votecounter."+fnn+": fields", p.Pos(fnPos(f)),
			"quorum = q(total), faulty = f(total)", fmt.Sprintf("threshold fields are not q(total)/f(total): quorum=%q faulty=%q", got["quorumVotingPower"], got["faultyVotingPower"]))
	}
	// ballot: power added once per (validator, kind)
	if f := vcFunc(p, "ballotSet", "add"); f != nil {
		n := 0
		allInstrs(f, func(in ssa.Instruction) {
			st, ok := in.(*ssa.Store)
			if !ok {
				return
			}
			at := term(st.Addr)
			if strings.Contains(at, "b.perVoteType[") {
				n++
				ok, miss := everyDisjunctHas(p.mustHoldAt(in), []string{"^!", "b.ballots[", "[voteType]"})
				if !ok {
					// the lookup may be hoisted into a local ballot variable: accept a dominating
					// negative test of <value loaded from b.ballots[..]>[voteType]
					for _, fct := range factsAt(in) {
						if !fct.Pos && c12IsBallotKindTest(fct.Cond) {
							ok = true
						}
					}
				}
				c.check(ok, "thresholds", "ballotSet.add: perVoteType", p.Pos(posOf(in, f)), "power counted only if this validator has not voted this kind yet", "voting power is added without the duplicate-ballot check: "+miss)
			}
			if strings.HasSuffix(at, "b.total") {
				n++
				ok, miss := everyDisjunctHas(p.mustHoldAt(in), []string{"^!", "b.ballots[", "#1"})
				c.check(ok, "thresholds", "ballotSet.add: total", p.Pos(posOf(in, f)), "sender power counted once", "sender power is added to total more than once per validator: "+miss)
			}
		})
		if n < 2 {
			c.und("thresholds", "ballotSet.add", p.Pos(fnPos(f)), "power accumulation stores not found")
		}
	} else {
		c.und("thresholds", "ballotSet.add", "", "anchor not found")
	}
	// proposer check in AddProposal
	if f := vcFunc(p, "VoteCounter", "AddProposal"); f != nil {
		site := findSite(f, "setProposal")
		if site == nil {
			c.und("proposer", "VoteCounter.AddProposal", p.Pos(fnPos(f)), "setProposal call not found")
		} else {
			ok, miss := everyDisjunctHas(p.mustHoldAt(site.Instr), []string{"^!", "Sender != ", "Proposer(proposal.", "Height, proposal.", "Round)"})
			c.check(ok, "proposer", "VoteCounter.AddProposal", p.Pos(site.Pos()), "proposal stored only if sender = Proposer(proposal.Height, proposal.Round)",
				"a proposal is accepted without checking its sender against the proposer of the proposal's own height and round: "+miss)
		}
	} else {
		c.und("proposer", "VoteCounter.AddProposal", "", "anchor not found")
	}
	c.floor("thresholds", 9)
}

// heightIndependent: fields of the state machine that deliberately survive a commit.
var heightIndependent = map[string]string{
	"stateMachine.lastTriggerSync": "remembers the last height for which a sync was triggered (monotone height marker)",
	"stateMachine.lastQuorum":      "remembers the last height for which a future-height quorum was seen (monotone height marker)",
	"stateMachine.state":           "reset field by field (checked per field)",
}

// c12HeightScoped: every field of the state machine (and of its round state) that is mutated after construction is
// re-initialised on commit — otherwise what was learned about height h (locks, validity verdicts, first-time flags, caches)
// leaks into height h+1.
func c12HeightScoped(c *Ctx) {
	p := c.P
	commit := tmFunc(p, "doCommitValue")
	if commit == nil {
		c.und("height-scoped", "doCommitValue", "", "anchor not found")
		return
	}
	// functions executed by a commit (within the package)
	inCommit := map[*ssa.Function]bool{}
	reach := p.Reachable([]*ssa.Function{commit}, func(caller, callee *ssa.Function) bool { return pkgRelOf(callee) != "consensus/tendermint" })
	for _, g := range reach.Funcs() {
		inCommit[canonGeneric(g)] = true
		inCommit[g] = true
	}
	type mut struct {
		fns    map[string]bool
		commit bool
		pos    string
	}
	muts := map[string]*mut{}
	note := func(typ, field string, fn *ssa.Function, pos string) {
		k := typ + "." + field
		m := muts[k]
		if m == nil {
			m = &mut{fns: map[string]bool{}}
			muts[k] = m
		}
		root := canonGeneric(rootOf(fn))
		if root.Name() == "New" {
			return
		}
		m.fns[root.Name()] = true
		m.pos = pos
		if inCommit[root] || inCommit[rootOf(fn)] {
			m.commit = true
		}
	}
	ownerOf := func(t types.Type) string {
		for _, n := range []string{"stateMachine", "state"} {
			if isNamed(t, "consensus/tendermint", n) {
				return n
			}
		}
		return ""
	}
	for _, fn := range p.sortedFuncs() {
		if pkgRelOf(fn) != "consensus/tendermint" || fn.Origin() != nil || strings.HasSuffix(p.Pos(fnPos(fn)), "_test.go") {
			continue
		}
		allInstrs(fn, func(in ssa.Instruction) {
			switch x := in.(type) {
			case *ssa.Store:
				if fa, ok := x.Addr.(*ssa.FieldAddr); ok {
					if o := ownerOf(fa.X.Type()); o != "" {
						if _, fresh := fa.X.(*ssa.Alloc); !fresh {
							note(o, fieldName(fa.X.Type(), fa.Field), fn, p.Pos(posOf(in, fn)))
							// a whole-struct assignment to a field that is itself one of the tracked structs writes each of
							// its fields
							if ptr, isPtr := fa.Type().(*types.Pointer); isPtr {
								if io := ownerOf(ptr.Elem()); io != "" {
									if stt, isSt := types.Unalias(ptr.Elem()).Underlying().(*types.Struct); isSt {
										for i := 0; i < stt.NumFields(); i++ {
											note(io, stt.Field(i).Name(), fn, p.Pos(posOf(in, fn)))
										}
									}
								}
							}
						}
					}
				}
			case *ssa.MapUpdate:
				if ld, ok := x.Map.(*ssa.UnOp); ok {
					if fa, ok := ld.X.(*ssa.FieldAddr); ok {
						if o := ownerOf(fa.X.Type()); o != "" {
							note(o, fieldName(fa.X.Type(), fa.Field), fn, p.Pos(posOf(in, fn)))
						}
					}
				}
			case ssa.CallInstruction:
				// delete(m, k) / clear(m) / append through a field are mutations too
				if b, ok := x.Common().Value.(*ssa.Builtin); ok && (b.Name() == "delete" || b.Name() == "clear") && len(x.Common().Args) > 0 {
					if ld, ok := x.Common().Args[0].(*ssa.UnOp); ok {
						if fa, ok := ld.X.(*ssa.FieldAddr); ok {
							if o := ownerOf(fa.X.Type()); o != "" {
								note(o, fieldName(fa.X.Type(), fa.Field), fn, p.Pos(posOf(in, fn)))
							}
						}
					}
				}
			}
		})
	}
	var ks []string
	for k := range muts {
		ks = append(ks, k)
	}
	sort.Strings(ks)
	n := 0
	for _, k := range ks {
		m := muts[k]
		if len(m.fns) == 0 {
			continue
		}
		n++
		if why, ok := heightIndependent[k]; ok {
			c.ok("height-scoped", k, m.pos, "survives a commit by design: "+why)
			continue
		}
		c.check(m.commit, "height-scoped", k, m.pos, "re-initialised by the commit action", "field "+k+" is mutated while a height is being decided ("+strings.Join(keysOf(m.fns), ", ")+") but the commit action does not re-initialise it: what was recorded for height h is applied to height h+1 (e.g. a validity verdict cached per round lets an invalid proposal of the next height through)")
	}
	if n < 10 {
		c.und("height-scoped", "stateMachine fields", "", fmt.Sprintf("only %d mutated fields found", n))
	}
}

// c12LockAndThresholdWrites: (lock-unconditional) in the rule action of lines 36–43 the lock (lockedValue, lockedRound) is
// (re)taken under step = prevote and nothing else — in particular not depending on the lock already held: re-locking the same
// value in a later round must raise lockedRound, or line 28/29 later accepts an older polka; (thresholds-every-height)
// StartNewHeight recomputes total, f and q for the new height unconditionally.
func c12LockAndThresholdWrites(c *Ctx) {
	p := c.P
	if f := tmFunc(p, "doProposalAndPolkaCurrent"); f != nil {
		n := 0
		allInstrs(f, func(in ssa.Instruction) {
			st, ok := in.(*ssa.Store)
			if !ok {
				return
			}
			fa, ok := st.Addr.(*ssa.FieldAddr)
			if !ok || !isNamed(fa.X.Type(), "consensus/tendermint", "state") {
				return
			}
			fld := fieldName(fa.X.Type(), fa.Field)
			if fld != "lockedValue" && fld != "lockedRound" {
				return
			}
			n++
			var bad []string
			for _, cj := range p.mustHoldAt(in) {
				for _, a := range cj.list() {
					if strings.Contains(a, "lockedValue") || strings.Contains(a, "lockedRound") {
						bad = append(bad, a)
					}
				}
			}
			bad = uniq(bad)
			c.check(len(bad) == 0, "lock-unconditional", "doProposalAndPolkaCurrent: "+fld, p.Pos(posOf(in, f)), "set whenever the rule fires in step prevote, independent of the lock already held", "the lock is only updated under "+strings.Join(bad, "; ")+": a validator re-locking the same value in a later round keeps its old lockedRound and later accepts a proposal carrying an older polka (agreement can break)")
		})
		if n < 2 {
			c.und("lock-unconditional", "doProposalAndPolkaCurrent", p.Pos(fnPos(f)), "stores to lockedValue/lockedRound not found")
		}
	} else {
		c.und("lock-unconditional", "doProposalAndPolkaCurrent", "", "anchor not found")
	}
	vc := p.FuncsNamed("consensus/votecounter", "VoteCounter", "StartNewHeight")
	var f *ssa.Function
	for _, g := range vc {
		if g.Origin() == nil {
			f = g
		}
	}
	if f == nil {
		c.und("thresholds-every-height", "VoteCounter.StartNewHeight", "", "anchor not found")
		return
	}
	got := map[string]string{}
	cond := map[string]bool{}
	allInstrs(f, func(in ssa.Instruction) {
		if st, ok := in.(*ssa.Store); ok {
			if fa, ok := st.Addr.(*ssa.FieldAddr); ok {
				nm := fieldName(fa.X.Type(), fa.Field)
				uncond := func() bool {
					d := p.mustHoldAt(in)
					return !(!(len(d) == 1 && len(d[0]) == 0) && len(d) > 0)
				}
				if nm == "totalVotingPower" || nm == "faultyVotingPower" || nm == "quorumVotingPower" {
					got[nm] = termInl(st.Val)
					if !uncond() {
						cond[nm] = true
					}
				} else if lf := structLiteralFields(st.Val, 0); lf != nil {
					// the three values grouped in one struct that is replaced as a whole
					for _, k := range []string{"totalVotingPower", "faultyVotingPower", "quorumVotingPower"} {
						if t, has := lf[k]; has {
							got[k] = t
							if !uncond() {
								cond[k] = true
							}
						}
					}
				}
			}
		}
	})
	for _, nm := range []string{"totalVotingPower", "faultyVotingPower", "quorumVotingPower"} {
		v, ok := got[nm]
		want := map[string]string{"totalVotingPower": "TotalVotingPower(", "faultyVotingPower": "f(", "quorumVotingPower": "q("}[nm]
		c.check(ok && !cond[nm] && strings.Contains(v, want) && (strings.Contains(v, "TotalVotingPower(") || strings.Contains(v, "totalVotingPower")), "thresholds-every-height", "StartNewHeight: "+nm, p.Pos(fnPos(f)), "recomputed unconditionally from the validator set of the new height", "StartNewHeight does not unconditionally recompute "+nm+" from the new height's total voting power (got "+v+fmt.Sprintf(", conditional=%v", cond[nm])+"): after the set changes and changes back the thresholds of another height stay in force and a minority can form a quorum")
	}
}

// c12IsBallotKindTest: v reads element [voteType-typed index] of a ballot value
// obtained from a lookup in the ballots map (directly, or through a local that
// is only ever assigned such a lookup).
func c12IsBallotKindTest(v ssa.Value) bool {
	fromBallots := func(x ssa.Value) bool {
		if e, ok := x.(*ssa.Extract); ok {
			x = e.Tuple
		}
		l, ok := x.(*ssa.Lookup)
		if !ok {
			return false
		}
		ld, ok := l.X.(*ssa.UnOp)
		if !ok {
			return false
		}
		fa, ok := ld.X.(*ssa.FieldAddr)
		return ok && fieldName(fa.X.Type(), fa.Field) == "ballots"
	}
	kindIdx := func(i ssa.Value) bool {
		n := namedOf(i.Type())
		return n != nil && n.Obj().Name() == "VoteType"
	}
	switch x := v.(type) {
	case *ssa.Index:
		return kindIdx(x.Index) && fromBallots(x.X)
	case *ssa.UnOp:
		ia, ok := x.X.(*ssa.IndexAddr)
		if !ok || !kindIdx(ia.Index) {
			return false
		}
		a, ok := ia.X.(*ssa.Alloc)
		if !ok || a.Referrers() == nil {
			return false
		}
		n := 0
		for _, r := range *a.Referrers() {
			if st, ok := r.(*ssa.Store); ok && st.Addr == ssa.Value(a) {
				if !fromBallots(st.Val) {
					return false
				}
				n++
			}
		}
		return n > 0
	}
	return false
}
