package main

import (
	"fmt"
	"go/token"
	"go/types"
	"sort"
	"strings"

	"golang.org/x/tools/go/ssa"
)

// mapOrigins: where can map value v come from? kinds: clone, make, nil, field:<Type.f>, global, unknown:<…>
func (p *Prog) mapOrigins(v ssa.Value, depth int, seen map[ssa.Value]bool, out map[string]bool) {
	if v == nil || depth > 10 || seen[v] {
		return
	}
	seen[v] = true
	switch x := v.(type) {
	case *ssa.Const:
		out["nil"] = true
	case *ssa.MakeMap:
		out["make"] = true
	case *ssa.Phi:
		for _, e := range x.Edges {
			p.mapOrigins(e, depth+1, seen, out)
		}
	case *ssa.ChangeType:
		p.mapOrigins(x.X, depth+1, seen, out)
	case *ssa.Call:
		f := x.Call.StaticCallee()
		if f == nil {
			out["unknown:dynamic-call"] = true
			return
		}
		o := f
		if o.Origin() != nil {
			o = o.Origin()
		}
		if o.Pkg != nil && o.Pkg.Pkg.Path() == "maps" && o.Name() == "Clone" {
			out["clone"] = true
			return
		}
		if f.Blocks == nil {
			out["unknown:"+o.Name()] = true
			return
		}
		for _, ret := range returnsOf(f) {
			for _, r := range ret.Results {
				if _, isMap := r.Type().Underlying().(*types.Map); isMap {
					p.mapOrigins(r, depth+1, seen, out)
				}
			}
		}
	case *ssa.Parameter:
		fn := x.Parent()
		idx := -1
		for i, q := range fn.Params {
			if q == x {
				idx = i
			}
		}
		callers := p.callersOf(fn)
		if len(callers) == 0 {
			out["unknown:param-without-callers"] = true
		}
		for _, s := range callers {
			if idx < len(s.Args()) {
				p.mapOrigins(s.Args()[idx], depth+1, seen, out)
			}
		}
	case *ssa.UnOp:
		if x.Op != token.MUL {
			out["unknown:unop"] = true
			return
		}
		switch a := x.X.(type) {
		case *ssa.FieldAddr:
			n := namedOf(a.X.Type())
			tn := "?"
			if n != nil {
				tn = n.Obj().Name()
			}
			// a field of a private accumulator (an unexported struct of this package whose values are never stored into
			// another object, a global or an interface): the map is whatever the package stores into that field
			if n != nil && !n.Obj().Exported() && p.isLocalAccumulator(n) {
				out["nil"] = true
				fname := fieldName(a.X.Type(), a.Field)
				for _, fn := range p.sortedFuncs() {
					if fn.Pkg == nil || n.Obj().Pkg() == nil || fn.Pkg.Pkg != n.Obj().Pkg() {
						continue
					}
					allInstrs(fn, func(in ssa.Instruction) {
						st, ok := in.(*ssa.Store)
						if !ok {
							return
						}
						fa, ok := st.Addr.(*ssa.FieldAddr)
						if ok && namedOf(fa.X.Type()) != nil && namedOf(fa.X.Type()).Obj() == n.Obj() && fieldName(fa.X.Type(), fa.Field) == fname {
							p.mapOrigins(st.Val, depth+1, seen, out)
						}
					})
				}
				return
			}
			out["field:"+tn+"."+fieldName(a.X.Type(), a.Field)] = true
		case *ssa.Alloc:
			if refs := a.Referrers(); refs != nil {
				for _, r := range *refs {
					if st, ok := r.(*ssa.Store); ok && st.Addr == ssa.Value(a) {
						p.mapOrigins(st.Val, depth+1, seen, out)
					}
				}
			}
		case *ssa.FreeVar:
			// captured accumulator: resolve through the binding
			fn := a.Parent()
			for i, fv := range fn.FreeVars {
				if fv != a || fn.Parent() == nil {
					continue
				}
				allInstrs(fn.Parent(), func(in ssa.Instruction) {
					if mc, ok := in.(*ssa.MakeClosure); ok && mc.Fn == ssa.Value(fn) && i < len(mc.Bindings) {
						if al, ok := mc.Bindings[i].(*ssa.Alloc); ok {
							if refs := al.Referrers(); refs != nil {
								for _, r := range *refs {
									if st, ok := r.(*ssa.Store); ok && st.Addr == ssa.Value(al) {
										p.mapOrigins(st.Val, depth+1, seen, out)
									}
								}
							}
							// stores through the free variable inside the closure
							allInstrs(fn, func(in2 ssa.Instruction) {
								if st, ok := in2.(*ssa.Store); ok && st.Addr == ssa.Value(a) {
									p.mapOrigins(st.Val, depth+1, seen, out)
								}
							})
						}
					}
				})
			}
		case *ssa.Global:
			out["global"] = true
		default:
			out["unknown:load"] = true
		}
	case *ssa.Field:
		n := namedOf(x.X.Type())
		tn := "?"
		if n != nil {
			tn = n.Obj().Name()
		}
		out["field:"+tn+"."+fieldName(x.X.Type(), x.Field)] = true
	case *ssa.Extract:
		if call, ok := x.Tuple.(*ssa.Call); ok {
			if f := call.Call.StaticCallee(); f != nil && f.Blocks != nil {
				for _, ret := range returnsOf(f) {
					if x.Index < len(ret.Results) {
						p.mapOrigins(ret.Results[x.Index], depth+1, seen, out)
					}
				}
				return
			}
		}
		out["unknown:extract"] = true
	default:
		out[fmt.Sprintf("unknown:%T", v)] = true
	}
}

func init() {
	register("C20", func(c *Ctx) {
		p := c.P
		c20CopySafe(c)
		c.Explain = "Immutability and publication discipline of the pre-confirmed view decided from SSA stores, map origins and the call graph: (immutable) no store to a field of a published chain node or of a PreConfirmed reached through one; every map that is the destination of maps.Copy / an index assignment in sync/preconfirmed originates from nil, make or maps.Clone — never from a field of a published entry; " +
			"(cas-only) ChainStorage.inner is used only through Load and CompareAndSwap; (single-writer) ApplyUpdate/AdvanceTo are called only by the poller; (bounded-walk) every traversal along node.parent is bounded by an integer counter (views are length-bounded, not nil-terminated); (overlay-first) every pending.State reader consults its diff sections before delegating to the head state; " +
			"(merge-order) state views fold StateDiff.Merge over OldestFirst() and open the base at oldest−1, and Merge covers all seven sections; (arith) guarded unsigned arithmetic in chain_storage.go. Not decided: that what readers observe under concurrency equals the model overlay; poller protocol correctness."
		c20Immutable(c)
		c20CasOnly(c)
		c20BoundedWalk(c)
		c20Overlay(c)
		c20MergeOrder(c)
		c20SnapshotAndPrecedence(c)
		c20DeepCopyAndStop(c)
		c.usubRule("arith", func(fn *ssa.Function) bool {
			return pkgRelOf(fn) == "sync/preconfirmed" && strings.HasSuffix(p.File(fnPos(fn)), "/chain_storage.go")
		}, map[string]string{
			"sync/preconfirmed.replaceSlot: current.tip() - blockNumber":                                                       "sole caller computeUpdate returns an error for blockNumber > tip+1, routes blockNumber == tip+1 to extend and rejects blockNumber < oldest before calling replaceSlot, hence blockNumber ≤ tip (two-fact arithmetic outside the idiom fragment; reviewed)",
			"(*sync/preconfirmed.ChainReader).baseState: c.oldestPreConf() - 1":                                                "pre-confirmed slots lie strictly above the stored head, so the oldest slot is ≥ 1 whenever a base state exists; the poller only builds views at head+1",
			"(*sync/preconfirmed.ChainReader).oldestPreConf: c.head.preconfirmed.Block.Header.Number - uint64((c.length - 1))": "structural invariant of NewChain/extend/replaceSlot/rebuild: a view of length L ending at block N holds the contiguous blocks N-L+1..N, hence N ≥ L-1; all callers hold length > 0",
		})
	})
}

func c20Immutable(c *Ctx) {
	p := c.P
	n := 0
	for _, fn := range p.sortedFuncs() {
		if pkgRelOf(fn) != "sync/preconfirmed" {
			continue
		}
		allInstrs(fn, func(in ssa.Instruction) {
			switch x := in.(type) {
			case *ssa.Store:
				fa, ok := x.Addr.(*ssa.FieldAddr)
				if !ok {
					return
				}
				base := fa.X
				isNode := isNamed(base.Type(), "sync/preconfirmed", "node") || isNamed(base.Type(), "sync/preconfirmed", "ChainReader")
				isPC := isNamed(base.Type(), "core/pending", "PreConfirmed")
				if !isNode && !isPC {
					return
				}
				n++
				construct := fmt.Sprintf("%s.%s ← %s", typeShort(base.Type()), fieldName(base.Type(), fa.Field), qname(fn))
				if _, fresh := base.(*ssa.Alloc); fresh {
					c.ok("immutable", construct, p.Pos(posOf(in, fn)), "store into an object allocated in this function (not yet published)")
					return
				}
				c.viol("immutable", construct, p.Pos(posOf(in, fn)), "a field of a (possibly published) chain node / pre-confirmed entry is written in place; published entries must be replaced by copies")
			case *ssa.MapUpdate:
				n++
				o := map[string]bool{}
				p.mapOrigins(x.Map, 0, map[ssa.Value]bool{}, o)
				checkMapOrigins(c, "map index assignment in "+qname(fn), p.Pos(posOf(in, fn)), o)
			case *ssa.Call:
				f := x.Call.StaticCallee()
				if f == nil {
					return
				}
				of := f
				if of.Origin() != nil {
					of = of.Origin()
				}
				if of.Pkg != nil && of.Pkg.Pkg.Path() == "maps" && of.Name() == "Copy" && len(x.Call.Args) == 2 {
					n++
					o := map[string]bool{}
					p.mapOrigins(x.Call.Args[0], 0, map[ssa.Value]bool{}, o)
					checkMapOrigins(c, "maps.Copy destination in "+qname(fn), p.Pos(posOf(in, fn)), o)
				}
			}
		})
	}
	if n < 6 {
		c.und("immutable", "sync/preconfirmed", "", fmt.Sprintf("only %d store/map-mutation sites found", n))
	}
	c.needFixture("immutable")
}

func checkMapOrigins(c *Ctx, construct, pos string, o map[string]bool) {
	var bad []string
	for k := range o {
		if k == "nil" || k == "make" || k == "clone" {
			continue
		}
		bad = append(bad, k)
	}
	sort.Strings(bad)
	if len(bad) == 0 {
		c.ok("immutable", construct, pos, "destination map originates from nil/make/maps.Clone only")
	} else {
		c.viol("immutable", construct, pos, "the mutated map can be "+strings.Join(bad, ", ")+": a map reachable from a published pre-confirmed entry would be modified in place (readers hold it lock-free)")
	}
}

func c20CasOnly(c *Ctx) {
	p := c.P
	n := 0
	for _, fn := range p.sortedFuncs() {
		allInstrs(fn, func(in ssa.Instruction) {
			fa, ok := in.(*ssa.FieldAddr)
			if !ok || !isNamed(fa.X.Type(), "sync/preconfirmed", "ChainStorage") || fieldName(fa.X.Type(), fa.Field) != "inner" {
				return
			}
			if refs := fa.Referrers(); refs != nil {
				for _, r := range *refs {
					n++
					nm := "non-call use"
					if ci, ok := r.(ssa.CallInstruction); ok {
						if f := ci.Common().StaticCallee(); f != nil {
							nm = f.Name()
						}
					}
					c.check(nm == "Load" || nm == "CompareAndSwap", "cas-only", "ChainStorage.inner."+nm+" ← "+qname(fn), p.Pos(posOf(r, fn)), "published pointer is only loaded or CAS-ed", "ChainStorage.inner is accessed through "+nm+": updates could overwrite a concurrent change or readers could see a torn view")
				}
			}
		})
	}
	if n < 4 {
		c.und("cas-only", "ChainStorage.inner", "", fmt.Sprintf("only %d uses found", n))
	}
	// single-writer
	for _, m := range []string{"ApplyUpdate", "AdvanceTo"} {
		f := p.Func("sync/preconfirmed", "ChainStorage", m)
		if f == nil {
			c.und("single-writer", "ChainStorage."+m, "", "anchor not found")
			continue
		}
		k := 0
		for _, s := range p.callersOf(f) {
			k++
			okc := pkgRelOf(s.Fn) == "sync/preconfirmed" && strings.HasSuffix(p.File(s.Pos()), "/poller.go")
			c.check(okc, "single-writer", "ChainStorage."+m+" ← "+qname(rootOf(s.Fn)), p.Pos(s.Pos()), "only the poller advances the view", "ChainStorage."+m+" is called outside the poller: two writers would race on the CAS and break contiguity")
		}
		if k == 0 {
			c.und("single-writer", "ChainStorage."+m, p.Pos(fnPos(f)), "no caller found")
		}
	}
}

func isIntCompare(v ssa.Value) bool {
	b, ok := v.(*ssa.BinOp)
	if !ok {
		return false
	}
	switch b.Op {
	case token.LSS, token.LEQ, token.GTR, token.GEQ, token.EQL, token.NEQ:
	default:
		return false
	}
	bt, ok := b.X.Type().Underlying().(*types.Basic)
	return ok && bt.Info()&types.IsInteger != 0
}

func c20BoundedWalk(c *Ctx) {
	p := c.P
	n := 0
	for _, fn := range p.sortedFuncs() {
		if pkgRelOf(fn) != "sync/preconfirmed" {
			continue
		}
		// loop-carried traversal: φ of *node with an edge = load of .parent (of the φ or a value derived from it)
		allInstrs(fn, func(in ssa.Instruction) {
			phi, ok := in.(*ssa.Phi)
			if !ok || !isNamed(phi.Type(), "sync/preconfirmed", "node") {
				return
			}
			carried := false
			for _, e := range phi.Edges {
				if u, ok := e.(*ssa.UnOp); ok && u.Op == token.MUL {
					if fa, ok := u.X.(*ssa.FieldAddr); ok && fieldName(fa.X.Type(), fa.Field) == "parent" {
						carried = true
					}
				}
			}
			if !carried || !blocksFrom(phi.Block(), nil)[phi.Block()] {
				return // not a loop header (e.g. the φ that merges the loop's exits)
			}
			n++
			// exit conditions of the loop headed at phi's block
			hdr := phi.Block()
			bounded := false
			loop := map[*ssa.BasicBlock]bool{}
			for _, b := range fn.Blocks {
				if hdr.Dominates(b) && blocksFrom(b, nil)[hdr] {
					loop[b] = true
				}
			}
			loop[hdr] = true
			for b := range loop {
				iff, ok := b.Instrs[len(b.Instrs)-1].(*ssa.If)
				if !ok {
					continue
				}
				exits := !loop[b.Succs[0]] || !loop[b.Succs[1]]
				if exits && isIntCompare(iff.Cond) {
					bounded = true
				}
			}
			// `for range n` loops: header compares an int counter
			c.check(bounded, "bounded-walk", "loop over node.parent in "+qname(fn), p.Pos(posOf(in, fn)), "the walk is bounded by an integer counter (the view's length)", "a walk along node.parent is terminated only by a nil test: length-bounded views (SnapshotForBlock) share nodes with longer chains, so the walk leaves the view")
		})
		// recursion passing .parent
		for _, s := range sitesOf(fn) {
			if s.Callee == nil || canonGeneric(s.Callee) != fn && s.Callee != fn {
				continue
			}
			passesParent := false
			for _, a := range s.Args() {
				if u, ok := a.(*ssa.UnOp); ok && u.Op == token.MUL {
					if fa, ok := u.X.(*ssa.FieldAddr); ok && fieldName(fa.X.Type(), fa.Field) == "parent" {
						passesParent = true
					}
				}
			}
			if !passesParent {
				continue
			}
			n++
			bounded := false
			for _, f := range factsAt(s.Instr) {
				if isIntCompare(f.Cond) {
					bounded = true
				}
			}
			// `if current == nil || remaining == 0 { return }` → facts are negations of both; accept int compare among raw facts
			for _, f := range rawFactsAtBlock(s.Block()) {
				if isIntCompare(f.Cond) {
					bounded = true
				}
			}
			if !bounded {
				d := p.mustHoldAt(s.Instr)
				for _, cj := range d {
					for a := range cj {
						if strings.Contains(a, "remaining") || strings.Contains(a, "keep") || strings.Contains(a, " == 0") {
							bounded = true
						}
					}
				}
			}
			c.check(bounded, "bounded-walk", "recursion over node.parent in "+qname(fn), p.Pos(s.Pos()), "the recursion is bounded by an integer counter", "a recursive walk along node.parent is not bounded by a counter")
		}
	}
	if n < 3 {
		c.und("bounded-walk", "sync/preconfirmed", "", fmt.Sprintf("only %d parent traversals found", n))
	}
}

func c20Overlay(c *Ctx) {
	p := c.P
	for _, row := range []struct {
		m        string
		sections []string
	}{
		{"ContractClassHash", []string{"ReplacedClasses", "DeployedContracts"}},
		{"ContractNonce", []string{"Nonces", "DeployedContracts"}},
		{"ContractStorage", []string{"StorageDiffs", "DeployedContracts"}},
		{"ContractStorageLastUpdatedBlock", []string{"StorageDiffs", "DeployedContracts"}},
		{"Class", []string{"newClasses"}},
		{"CompiledClassHash", []string{"DeclaredV1Classes"}},
		{"CompiledClassHashV2", []string{"MigratedClasses"}},
	} {
		f := p.Func("core/pending", "State", row.m)
		if f == nil {
			c.und("overlay-first", "pending.State."+row.m, "", "anchor not found")
			continue
		}
		var deleg *Site
		for _, s := range sitesOf(f) {
			if s.Method != nil && s.Method.Name() == row.m && strings.HasSuffix(term(s.Recv), "p.head") {
				ss := s
				deleg = &ss
			}
		}
		if deleg == nil {
			c.viol("overlay-first", "pending.State."+row.m, p.Pos(fnPos(f)), "the reader no longer falls back to the head state's "+row.m)
			continue
		}
		d := p.mustHoldAt(deleg.Instr)
		for _, sec := range row.sections {
			ok, miss := everyDisjunctHas(d, []string{"^!", sec + "[", "#1"})
			c.check(ok, "overlay-first", "pending.State."+row.m+" consults "+sec, p.Pos(deleg.Pos()), "head state is asked only after the overlay section missed", "the head state is consulted without first looking in the overlay's "+sec+": "+miss)
		}
	}
	c.floor("overlay-first", 11)
}

func c20MergeOrder(c *Ctx) {
	p := c.P
	for _, m := range []string{"PreConfirmedStateAt", "PreConfirmedStateBeforeIndexAt"} {
		f := p.Func("sync/preconfirmed", "ChainReader", m)
		if f == nil {
			c.und("merge-order", "ChainReader."+m, "", "anchor not found")
			continue
		}
		of := findSite(f, "OldestFirst")
		var merge *Site
		if dss := p.deepSites(f, func(s Site) bool { return strings.HasSuffix(s.CalleeName(), "StateDiff).Merge") }, 2); len(dss) > 0 {
			merge = &dss[len(dss)-1].Site
		}
		nf := findSite(f, "NewestFirst")
		c.check(of != nil && merge != nil && nf == nil, "merge-order", "ChainReader."+m, p.Pos(fnPos(f)), "diffs are merged oldest-first", "state view no longer folds StateDiff.Merge over OldestFirst(): later blocks would be overridden by earlier ones")
		c.check(findSite(f, "contains") != nil, "merge-order", "ChainReader."+m+": contains() gate", p.Pos(fnPos(f)), "block number checked against the view", "the view is no longer checked to contain the requested block")
	}
	if f := p.Func("sync/preconfirmed", "ChainReader", "baseState"); f != nil {
		s := findSite(f, "StateAtBlockNumber")
		ok := s != nil && strings.Contains(term(s.Args()[len(s.Args())-1]), "oldestPreConf() - 1")
		c.check(ok, "merge-order", "ChainReader.baseState", p.Pos(fnPos(f)), "base = state at oldest−1", "the overlay's base state is not the state at (oldest pre-confirmed − 1)")
	} else {
		c.und("merge-order", "ChainReader.baseState", "", "anchor not found")
	}
	if f := p.Func("core", "StateDiff", "Merge"); f != nil {
		u := newFlowUnit(p, f)
		u.seedFieldLoads(f.Params[1])
		u.run()
		// every section of the incoming diff flows into the receiver (map update / append / maps.Copy on a receiver field)
		touched := map[string]bool{}
		allInstrs(f, func(in ssa.Instruction) {
			var labels map[string]bool
			switch x := in.(type) {
			case *ssa.MapUpdate:
				labels = u.taint[x.Value]
				if labels == nil {
					labels = u.taint[x.Key]
				}
			case *ssa.Store:
				labels = u.taint[x.Val]
			case *ssa.Call:
				for _, a := range x.Call.Args {
					for l := range u.taint[a] {
						if labels == nil {
							labels = map[string]bool{}
						}
						labels[l] = true
					}
				}
			}
			for l := range labels {
				touched[l] = true
			}
		})
		for _, sec := range []string{"StorageDiffs", "Nonces", "DeployedContracts", "DeclaredV0Classes", "DeclaredV1Classes", "ReplacedClasses", "MigratedClasses"} {
			ok := false
			for l := range touched {
				if l == sec || strings.HasPrefix(l, sec+".") {
					ok = true
				}
			}
			c.check(ok, "merge-order", "StateDiff.Merge covers "+sec, p.Pos(fnPos(f)), "section of the incoming diff is merged", "StateDiff.Merge ignores the incoming "+sec+": the overlay would miss those changes")
		}
	} else {
		c.und("merge-order", "core.StateDiff.Merge", "", "anchor not found")
	}
}

// c20SnapshotAndPrecedence: (snapshot-contains) SnapshotForBlock hands out a non-empty view only for a block number inside
// the stored chain (oldest ≤ n ≤ tip): after a head revert a number below the chain must yield the empty view, not a view
// whose first block is above the requested one; (overlay-precedence) where two sections of the merged diff can both
// describe an address (deployed, later replaced), the later-effect section is consulted first — lookup order is the only
// place the merged diff encodes order.
func c20SnapshotAndPrecedence(c *Ctx) {
	p := c.P
	if f := p.Func("sync/preconfirmed", "ChainStorage", "SnapshotForBlock"); f != nil {
		n := 0
		for _, ret := range returnsOf(f) {
			al, isAl := ret.Results[0].(*ssa.UnOp)
			_ = al
			_ = isAl
			// non-empty view: some field store into the returned literal
			nonEmpty := false
			if ld, ok := ret.Results[0].(*ssa.UnOp); ok {
				if a, ok := ld.X.(*ssa.Alloc); ok {
					for _, r := range *a.Referrers() {
						if fa, ok := r.(*ssa.FieldAddr); ok {
							for _, r2 := range *fa.Referrers() {
								if st, ok := r2.(*ssa.Store); ok && dominatesInstr(st, ret.Ret) {
									nonEmpty = true
								}
							}
						}
					}
				}
			}
			if !nonEmpty {
				continue
			}
			n++
			d := p.mustHoldAt(ret.Ret)
			ok1, m1 := everyDisjunctHas(d, []string{"(blockNumber >= ", "oldestPreConf())"}, []string{"^!", "(blockNumber < ", "oldestPreConf())"}, []string{"oldestPreConf() <= blockNumber)"})
			ok2, m2 := everyDisjunctHas(d, []string{"(blockNumber <= ", "tip())"}, []string{"^!", "(blockNumber > ", "tip())"}, []string{"tip() >= blockNumber)"})
			c.check(ok1 && ok2, "snapshot-contains", "SnapshotForBlock: non-empty view", p.Pos(posOf(ret.Ret, f)), "only for oldest ≤ blockNumber ≤ tip of the stored chain", "a non-empty view is returned for a block number outside the stored chain (lower bound: "+fmt.Sprint(ok1)+" "+m1+"; upper bound: "+fmt.Sprint(ok2)+" "+m2+"): after a head revert the view starts above the requested block and is no longer contiguous with the head it was asked for")
		}
		if n == 0 {
			c.und("snapshot-contains", "SnapshotForBlock", p.Pos(fnPos(f)), "no non-empty return found")
		}
	} else {
		c.und("snapshot-contains", "ChainStorage.SnapshotForBlock", "", "anchor not found")
	}
	for _, row := range []struct{ m, first, second string }{
		{"ContractClassHash", "ReplacedClasses", "DeployedContracts"},
		{"ContractNonce", "Nonces", "DeployedContracts"},
		{"ContractStorage", "StorageDiffs", "DeployedContracts"},
	} {
		f := p.Func("core/pending", "State", row.m)
		if f == nil {
			c.und("overlay-precedence", "pending.State."+row.m, "", "anchor not found")
			continue
		}
		var first, second ssa.Instruction
		allInstrs(f, func(in ssa.Instruction) {
			lk, ok := in.(*ssa.Lookup)
			if !ok {
				return
			}
			t := term(lk.X)
			if strings.HasSuffix(t, "."+row.first) && first == nil {
				first = in
			}
			if strings.HasSuffix(t, "."+row.second) && second == nil {
				second = in
			}
		})
		ok := first != nil && second != nil && dominatesInstr(first, second)
		c.check(ok, "overlay-precedence", "pending.State."+row.m+": "+row.first+" before "+row.second, p.Pos(fnPos(f)), "the section holding the later effect is consulted first", "the overlay consults "+row.second+" before "+row.first+": for an address that was deployed and later changed within the pre-confirmed window the earlier value wins and the view no longer equals the base overlaid with the diffs in order")
	}
}

// c20DeepCopyAndStop: (no-shallow-clone) a map whose values are themselves maps is never copied with maps.Clone in the code
// that builds pre-confirmed entries: the outer copy shares the inner maps with the published (immutable) entry, and a later
// Merge into the copy writes through them; (stop-test-every-iteration) the loop that folds the view's diffs up to the
// requested block evaluates its stop test on every iteration — an early `continue` that bypasses it lets the fold run on
// to the tip.
func c20DeepCopyAndStop(c *Ctx) {
	p := c.P
	n := 0
	for _, fn := range p.sortedFuncs() {
		pr := pkgRelOf(fn)
		if !(pr == "core" || pr == "core/pending" || pr == "adapters/sn2core" || strings.HasPrefix(pr, "sync")) || strings.HasSuffix(p.Pos(fnPos(fn)), "_test.go") {
			continue
		}
		for _, s := range sitesOf(fn) {
			if s.Callee == nil {
				continue
			}
			cal := s.Callee
			if cal.Origin() != nil {
				cal = cal.Origin()
			}
			if cal.Object() == nil || cal.Object().Pkg() == nil || cal.Object().Pkg().Path() != "maps" || cal.Name() != "Clone" {
				continue
			}
			n++
			mt, ok := s.Args()[0].Type().Underlying().(*types.Map)
			nested := false
			if ok {
				switch mt.Elem().Underlying().(type) {
				case *types.Map, *types.Slice:
					nested = true
				}
			}
			c.check(!nested, "no-shallow-clone", qname(fn)+" → maps.Clone("+typeShort(s.Args()[0].Type())+")", p.Pos(s.Pos()), "values are not themselves maps/slices", "maps.Clone copies only the outer map: the inner maps stay shared with the original, so merging into the copy mutates the entry it was cloned from (a pinned pre-confirmed view then shows later writes)")
		}
	}
	if n == 0 {
		c.ok("no-shallow-clone", "maps.Clone call sites", "", "none in the pre-confirmed / state-diff code")
	}
	c.needFixture("no-shallow-clone")
	// stop test
	f := p.Func("sync/preconfirmed", "ChainReader", "PreConfirmedStateAt")
	if f == nil {
		c.und("stop-test-every-iteration", "ChainReader.PreConfirmedStateAt", "", "anchor not found")
		return
	}
	k := 0
	for _, g := range withAnons(f) {
		if g == f {
			continue
		}
		// the range-over-func body: returns false to stop, true to continue
		var stop *ssa.If
		allInstrs(g, func(in ssa.Instruction) {
			if iff, ok := in.(*ssa.If); ok {
				t := term(iff.Cond)
				if strings.Contains(t, "Number == ") && strings.Contains(t, "blockNumber") || strings.Contains(t, "blockNumber == ") {
					stop = iff
				}
			}
		})
		if stop == nil {
			continue
		}
		k++
		ok := true
		for _, ret := range returnsOf(g) {
			if !dominatesInstr(stop, ret.Ret) {
				ok = false
			}
		}
		// the merge of the iteration: here, or inside a same-package helper (on each of its paths) called here
		var mergeOuter ssa.Instruction
		for _, ds := range p.deepSites(g, nameMatcher("Merge"), 2) {
			always := true
			if len(ds.Chain) > 0 {
				for _, r := range returnsOf(ds.Site.Instr.Parent()) {
					if !dominatesInstr(ds.Site.Instr, r.Ret) {
						always = false
					}
				}
			}
			if always && ds.outer().Parent() == g {
				mergeOuter = ds.outer()
			}
		}
		c.check(ok && mergeOuter != nil && dominatesInstr(mergeOuter, stop), "stop-test-every-iteration", "PreConfirmedStateAt: fold loop", p.Pos(posOf(stop, g)), "every iteration merges the entry's diff and then evaluates the stop test", "an iteration of the fold can end without evaluating `entry.Block.Number == blockNumber` (or without merging first): for a requested block with an empty diff the fold runs on and the state at that block equals the state at the tip")
	}
	if k == 0 {
		c.und("stop-test-every-iteration", "PreConfirmedStateAt", p.Pos(fnPos(f)), "fold loop with a stop test not found")
	}
}

// isLocalAccumulator: no value of type T / *T is stored into a field, a global, a map/slice element, or boxed into an
// interface anywhere in T's package: such a struct lives only in locals, parameters and results of the package's functions.
func (p *Prog) isLocalAccumulator(n *types.Named) bool {
	if p.accCache == nil {
		p.accCache = map[*types.TypeName]bool{}
	}
	if v, ok := p.accCache[n.Obj()]; ok {
		return v
	}
	isT := func(t types.Type) bool {
		if pt, ok := types.Unalias(t).(*types.Pointer); ok {
			t = pt.Elem()
		}
		m := namedOf(t)
		return m != nil && m.Obj() == n.Obj()
	}
	ok := true
	for _, fn := range p.sortedFuncs() {
		if fn.Pkg == nil || n.Obj().Pkg() == nil || fn.Pkg.Pkg != n.Obj().Pkg() {
			continue
		}
		allInstrs(fn, func(in ssa.Instruction) {
			switch x := in.(type) {
			case *ssa.Store:
				if isT(x.Val.Type()) {
					if _, local := x.Addr.(*ssa.Alloc); !local {
						ok = false
					}
				}
			case *ssa.MakeInterface:
				if isT(x.X.Type()) {
					ok = false
				}
			case *ssa.MapUpdate:
				if isT(x.Value.Type()) {
					ok = false
				}
			case *ssa.Send:
				if isT(x.X.Type()) {
					ok = false
				}
			}
		})
	}
	p.accCache[n.Obj()] = ok
	return ok
}

// c20CopySafe: (copy-safe) the delta path derives the next pre-confirmed block from the current one by copying the struct
// (`next := *current`) and then replacing the fields that change — the idiom C20/immutable accepts. That is sound only while
// the struct carries no state that is *derived from its own content*: a lazily built index, a once-guard, an atomic memo is
// copied along and keeps describing the old content. Decided: every module struct type that is copied by dereference in
// adapters/sn2core, sync/preconfirmed or core/pending has no field (directly or in an embedded module struct) whose type
// comes from sync or sync/atomic. Seeded change C20-K adds a lazily built tx-hash index (atomic.Value) to
// pending.PreConfirmed: after a delta the new tip's lookups miss the appended transactions.
func c20CopySafe(c *Ctx) {
	p := c.P
	n := 0
	seenT := map[string]bool{}
	var syncField func(t types.Type, d int) string
	syncField = func(t types.Type, d int) string {
		st, ok := t.Underlying().(*types.Struct)
		if !ok || d > 2 {
			return ""
		}
		for i := 0; i < st.NumFields(); i++ {
			f := st.Field(i)
			ts := f.Type().String()
			if strings.HasPrefix(ts, "sync.") || strings.HasPrefix(ts, "sync/atomic.") || strings.HasPrefix(ts, "*sync.") || strings.HasPrefix(ts, "*sync/atomic.") {
				return f.Name() + " " + ts
			}
			if nt, ok := f.Type().(*types.Named); ok && nt.Obj().Pkg() != nil && strings.HasPrefix(nt.Obj().Pkg().Path(), modPath) {
				if s := syncField(nt, d+1); s != "" {
					return f.Name() + "." + s
				}
			}
		}
		return ""
	}
	for _, fn := range p.sortedFuncs() {
		pr := pkgRelOf(fn)
		if !(pr == "adapters/sn2core" || pr == "sync/preconfirmed" || pr == "core/pending") || fn.Origin() != nil || strings.HasSuffix(p.Pos(fnPos(fn)), "_test.go") {
			continue
		}
		allInstrsOne(fn, func(in ssa.Instruction) {
			u, ok := in.(*ssa.UnOp)
			if !ok || u.Op != token.MUL {
				return
			}
			nt, ok := u.Type().(*types.Named)
			if !ok || nt.Obj().Pkg() == nil || !strings.HasPrefix(nt.Obj().Pkg().Path(), modPath) {
				return
			}
			if _, isStruct := nt.Underlying().(*types.Struct); !isStruct {
				return
			}
			// a whole-struct copy: the loaded value is stored into another cell
			copied := false
			if refs := u.Referrers(); refs != nil {
				for _, r := range *refs {
					if st, ok := r.(*ssa.Store); ok && st.Val == ssa.Value(u) {
						copied = true
					}
				}
			}
			if !copied {
				return
			}
			key := nt.String()
			if seenT[key] {
				return
			}
			seenT[key] = true
			n++
			sf := syncField(nt, 0)
			c.check(sf == "", "copy-safe", "struct copy of "+nt.Obj().Name()+" in "+qname(fn), p.Pos(posOf(in, fn)), "the copied struct carries no sync/atomic state derived from its content",
				nt.Obj().Name()+" is copied by value here but has field "+sf+": whatever was memoised in it for the original (a lazily built index, a once-guard) is carried into the copy and keeps describing the old content after the copy's fields are replaced")
		})
	}
	if n == 0 {
		c.und("copy-safe", "adapters/sn2core, sync/preconfirmed, core/pending", "", "no by-value struct copy found (the delta path's `next := *current` idiom)")
	}
}
