package main

import (
	"encoding/json"
	"fmt"
	"os"
	"os/exec"
	"path/filepath"
	"regexp"
	"sort"
	"strings"
	"sync"
)

// Thorough tier: rule self-test. Every stored seeded fault (/verif/seeded/*/patch.diff) that one of this property's rules
// is recorded to detect is applied to a scratch copy of the files it touches (never to /repo), the patched sources are
// fed to the analyser as a go/packages overlay on top of /repo's current tree, and the property's check is re-run in a
// child process. A rule that no longer reports its fault has lost its teeth on the current tree. The result is recorded in
// the evidence; it never turns into a VIOLATION (the property is decided by the main run on the unmodified tree only).

type SelfTestResult struct {
	Mutant   string   `json:"mutant"`
	Expected []string `json:"expected_rules"`
	Fired    []string `json:"fired_rules"`
	Status   string   `json:"status"` // caught | missed | stale (patch no longer applies to the current tree)
}

// runRenameRobustness: thorough tier. Re-runs the property's check on a behaviour-preserving variant of the current tree
// (every local/parameter/receiver renamed, a no-op closure call inserted at the top of every function, every position
// shifted by a line) laid over /repo as an overlay. Any report on the variant is a false alarm of a rule that depends on
// spelling, position or closure numbering; it is recorded in the evidence, never turned into a VIOLATION.
func runRenameRobustness(p *Prog, prop, repo, verif string) map[string]any {
	exe, err := os.Executable()
	if err != nil {
		return nil
	}
	tmp, err := os.MkdirTemp("", "junocheck-variant-")
	if err != nil {
		return nil
	}
	defer os.RemoveAll(tmp)
	os.Setenv("VERIF_VARIANT_NOOP", "1")
	n, err := writeRenamedVariant(p, filepath.Join(tmp, "files"), "Zq")
	os.Unsetenv("VERIF_VARIANT_NOOP")
	if err != nil {
		return map[string]any{"error": err.Error()}
	}
	sv := filepath.Join(tmp, "verif")
	os.MkdirAll(sv, 0o755)
	if kb, err := os.ReadFile(filepath.Join(verif, "known_findings.json")); err == nil {
		os.WriteFile(filepath.Join(sv, "known_findings.json"), kb, 0o644)
	}
	cmd := exec.Command(exe, "-prop", prop, "-repo", repo, "-verif", sv, "-tier", "quick", "-nofixtures")
	cmd.Env = append(os.Environ(), "VERIF_MUTANT_DIR="+filepath.Join(tmp, "files"), "VERIF_TIER=quick")
	out, _ := cmd.CombinedOutput()
	var alarms []string
	for _, m := range regexp.MustCompile(`(?m)^(?:VIOLATION|UNDECIDED) (C\d\d/[\w-]+ construct=.*)$`).FindAllStringSubmatch(string(out), -1) {
		a := m[1]
		if len(a) > 200 {
			a = a[:200]
		}
		alarms = append(alarms, a)
	}
	if strings.Contains(string(out), "BROKEN-LOAD") {
		alarms = append(alarms, "variant did not load")
	}
	for _, a := range alarms {
		fmt.Printf("ROBUSTNESS-ALARM property=%s on the renamed variant: %s\n", prop, a)
	}
	if alarms == nil {
		alarms = []string{}
	}
	return map[string]any{
		"what":          "behaviour-preserving variant of the current tree (locals/params/receivers renamed, no-op closure call at the top of every function, positions shifted), overlaid and re-checked; every report on it is a false alarm of the rule",
		"files_varied":  n,
		"false_alarms":  len(alarms),
		"alarm_samples": alarms,
	}
}

// runBenignRefactorings: thorough tier. The stored behaviour-preserving refactorings of this property's code
// (/verif/refactors/<prop>-R*/patch.diff, written by independent sub-agents) are overlaid one at a time and the check is
// re-run: each must stay silent. A report is a false alarm of the rule; it is recorded, never turned into a VIOLATION.
func runBenignRefactorings(prop, repo, verif string) map[string]any {
	exe, err := os.Executable()
	if err != nil {
		return nil
	}
	dirs, _ := filepath.Glob(filepath.Join(verif, "refactors", prop+"-R*"))
	sort.Strings(dirs)
	type res struct {
		Name   string   `json:"refactoring"`
		Status string   `json:"status"` // silent | alarm | stale
		Alarms []string `json:"alarms,omitempty"`
	}
	out := make([]res, len(dirs))
	sem := make(chan struct{}, 4)
	var wg sync.WaitGroup
	for i, d := range dirs {
		wg.Add(1)
		go func(i int, d string) {
			defer wg.Done()
			sem <- struct{}{}
			defer func() { <-sem }()
			r := res{Name: filepath.Base(d), Status: "stale"}
			defer func() { out[i] = r }()
			tmp, err := os.MkdirTemp("", "junocheck-refactor-")
			if err != nil {
				return
			}
			defer os.RemoveAll(tmp)
			files := filepath.Join(tmp, "files")
			patch := filepath.Join(d, "patch.diff")
			pb, err := os.ReadFile(patch)
			if err != nil {
				return
			}
			seen := map[string]bool{}
			for _, m := range patchFileRe.FindAllStringSubmatch(string(pb), -1) {
				rel := m[1]
				if seen[rel] || strings.Contains(rel, "..") {
					continue
				}
				seen[rel] = true
				if src, err := os.ReadFile(filepath.Join(repo, rel)); err == nil {
					os.MkdirAll(filepath.Dir(filepath.Join(files, rel)), 0o755)
					os.WriteFile(filepath.Join(files, rel), src, 0o644)
				}
			}
			os.MkdirAll(files, 0o755)
			if _, err := exec.Command("patch", "-p1", "-s", "-N", "--no-backup-if-mismatch", "-d", files, "-i", patch).CombinedOutput(); err != nil {
				return
			}
			sv := filepath.Join(tmp, "verif")
			os.MkdirAll(sv, 0o755)
			if kb, err := os.ReadFile(filepath.Join(verif, "known_findings.json")); err == nil {
				os.WriteFile(filepath.Join(sv, "known_findings.json"), kb, 0o644)
			}
			cmd := exec.Command(exe, "-prop", prop, "-repo", repo, "-verif", sv, "-tier", "quick", "-nofixtures")
			cmd.Env = append(os.Environ(), "VERIF_MUTANT_DIR="+files, "VERIF_TIER=quick")
			o, _ := cmd.CombinedOutput()
			if strings.Contains(string(o), "BROKEN-LOAD") {
				return
			}
			r.Status = "silent"
			for _, m := range regexp.MustCompile(`(?m)^(?:VIOLATION|UNDECIDED) (C\d\d/[\w-]+ construct=.{0,140})`).FindAllStringSubmatch(string(o), -1) {
				r.Status = "alarm"
				r.Alarms = append(r.Alarms, m[1])
			}
		}(i, d)
	}
	wg.Wait()
	n := map[string]int{}
	for _, r := range out {
		n[r.Status]++
		for _, a := range r.Alarms {
			fmt.Printf("ROBUSTNESS-ALARM property=%s on behaviour-preserving refactoring %s: %s\n", prop, r.Name, a)
		}
	}
	return map[string]any{
		"what":   "behaviour-preserving refactorings of this property's code written by independent sub-agents (extract/inline helper, if→switch, early returns, renames, loop→library call, error wrapping, file moves …), overlaid one at a time; each must stay silent",
		"silent": n["silent"], "alarm": n["alarm"], "stale": n["stale"],
		"results": out,
	}
}

func mutantOverlay(repo string) map[string][]byte {
	dir := os.Getenv("VERIF_MUTANT_DIR")
	if dir == "" {
		return nil
	}
	ov := map[string][]byte{}
	filepath.Walk(dir, func(p string, info os.FileInfo, err error) error {
		if err != nil || info.IsDir() || !strings.HasSuffix(p, ".go") {
			return nil
		}
		rel, _ := filepath.Rel(dir, p)
		if b, err := os.ReadFile(p); err == nil {
			ov[filepath.Join(repo, rel)] = b
		}
		return nil
	})
	return ov
}

var patchFileRe = regexp.MustCompile(`(?m)^(?:---|\+\+\+) [ab]/(\S+)`)

func runSelfTest(prop, repo, verif string) []SelfTestResult {
	exe, err := os.Executable()
	if err != nil {
		return nil
	}
	dirs, _ := filepath.Glob(filepath.Join(verif, "seeded", "*"))
	sort.Strings(dirs)
	type job struct {
		name, patch string
		expected    []string
	}
	var jobs []job
	for _, d := range dirs {
		b, err := os.ReadFile(filepath.Join(d, "meta.json"))
		if err != nil {
			continue
		}
		var meta struct {
			DetectedBy []string `json:"detected_by"`
		}
		if json.Unmarshal(b, &meta) != nil {
			continue
		}
		var exp []string
		for _, r := range meta.DetectedBy {
			if strings.HasPrefix(r, prop+"/") {
				exp = append(exp, r)
			}
		}
		if len(exp) == 0 {
			continue
		}
		jobs = append(jobs, job{filepath.Base(d), filepath.Join(d, "patch.diff"), exp})
	}
	res := make([]SelfTestResult, len(jobs))
	sem := make(chan struct{}, 4)
	var wg sync.WaitGroup
	for i, j := range jobs {
		wg.Add(1)
		go func(i int, j job) {
			defer wg.Done()
			sem <- struct{}{}
			defer func() { <-sem }()
			r := SelfTestResult{Mutant: j.name, Expected: j.expected, Status: "stale"}
			defer func() { res[i] = r }()
			tmp, err := os.MkdirTemp("", "junocheck-selftest-")
			if err != nil {
				return
			}
			defer os.RemoveAll(tmp)
			files := filepath.Join(tmp, "files")
			pb, err := os.ReadFile(j.patch)
			if err != nil {
				return
			}
			seen := map[string]bool{}
			for _, m := range patchFileRe.FindAllStringSubmatch(string(pb), -1) {
				rel := m[1]
				if seen[rel] || strings.Contains(rel, "..") {
					continue
				}
				seen[rel] = true
				src, err := os.ReadFile(filepath.Join(repo, rel))
				if err != nil {
					continue // file created by the patch
				}
				os.MkdirAll(filepath.Dir(filepath.Join(files, rel)), 0o755)
				os.WriteFile(filepath.Join(files, rel), src, 0o644)
			}
			os.MkdirAll(files, 0o755)
			pc := exec.Command("patch", "-p1", "-s", "-N", "--no-backup-if-mismatch", "-d", files, "-i", j.patch)
			if out, err := pc.CombinedOutput(); err != nil {
				_ = out
				return // stale
			}
			sv := filepath.Join(tmp, "verif")
			os.MkdirAll(sv, 0o755)
			if kb, err := os.ReadFile(filepath.Join(verif, "known_findings.json")); err == nil {
				os.WriteFile(filepath.Join(sv, "known_findings.json"), kb, 0o644)
			}
			cmd := exec.Command(exe, "-prop", prop, "-repo", repo, "-verif", sv, "-tier", "quick", "-nofixtures")
			cmd.Env = append(os.Environ(), "VERIF_MUTANT_DIR="+files, "VERIF_TIER=quick")
			out, _ := cmd.CombinedOutput()
			if strings.Contains(string(out), "BROKEN-LOAD") {
				return // the patched tree does not type-check any more: stale
			}
			fired := map[string]bool{}
			for _, m := range regexp.MustCompile(`(?m)^(?:VIOLATION|UNDECIDED) (C\d\d/[\w-]+)`).FindAllStringSubmatch(string(out), -1) {
				fired[m[1]] = true
			}
			for f := range fired {
				r.Fired = append(r.Fired, f)
			}
			sort.Strings(r.Fired)
			r.Status = "missed"
			if len(r.Fired) > 0 {
				r.Status = "caught"
			}
		}(i, j)
	}
	wg.Wait()
	for _, r := range res {
		if r.Status == "missed" {
			fmt.Printf("SELFTEST-MISSED property=%s mutant=%s expected=%s (the rule no longer reports this seeded fault on the current tree)\n", prop, r.Mutant, strings.Join(r.Expected, ","))
		}
	}
	return res
}
