package main

import (
	"strings"

	"golang.org/x/tools/go/ssa"
)

// concurrentCaptureRule: (concurrent-capture) a function literal that runs concurrently with a sibling — it is started with
// `go`, handed to a pool/errgroup `Go`, or called from such a literal — writes a local variable of the enclosing function
// that it captured by reference only (a) at an index that is its own parameter (children[i] = …), (b) through a sync type,
// or (c) while holding a mutex. Writes are stores to the captured cell and calls of pointer-receiver methods on it.
// Seeded change C01-L shares one `childPath` buffer between the two goroutines that collect the children of a binary node:
// nodes are persisted under the sibling's path, the root returned by Commit is still right, and the trie is corrupt after
// the next restart.
func concurrentCaptureRule(c *Ctx, rule string, inScope func(pkgRel string) bool) int {
	p := c.P
	n := 0
	for _, fn := range p.sortedFuncs() {
		if fn.Parent() != nil || fn.Origin() != nil || !inScope(pkgRelOf(fn)) || strings.HasSuffix(p.Pos(fnPos(fn)), "_test.go") {
			continue
		}
		anons := withAnons(fn)
		if len(anons) < 2 {
			continue
		}
		conc := map[*ssa.Function]bool{}
		inst := map[*ssa.Function]int{} // how many instances may run at the same time (2 = "more than one")
		bump := func(f *ssa.Function, k int) {
			inst[f] += k
			if inst[f] > 2 {
				inst[f] = 2
			}
		}
		closureOf := func(v ssa.Value) *ssa.Function {
			for d := 0; v != nil && d < 4; d++ {
				switch x := v.(type) {
				case *ssa.MakeClosure:
					if f, ok := x.Fn.(*ssa.Function); ok {
						return f
					}
					return nil
				case *ssa.Function:
					return x
				case *ssa.UnOp:
					// a closure kept in a local cell: the single store into it
					if al, ok := x.X.(*ssa.Alloc); ok {
						if refs := al.Referrers(); refs != nil {
							for _, r := range *refs {
								if st, ok := r.(*ssa.Store); ok && st.Addr == ssa.Value(al) {
									v = st.Val
								}
							}
						}
						continue
					}
					if fv, ok := x.X.(*ssa.FreeVar); ok {
						// captured cell holding a closure: find the binding in the parent
						par := fv.Parent().Parent()
						if par == nil {
							return nil
						}
						idx := -1
						for i, f2 := range fv.Parent().FreeVars {
							if f2 == fv {
								idx = i
							}
						}
						var bound ssa.Value
						allInstrs(par, func(in ssa.Instruction) {
							if mc, ok := in.(*ssa.MakeClosure); ok && mc.Fn == ssa.Value(fv.Parent()) && idx >= 0 && idx < len(mc.Bindings) {
								bound = mc.Bindings[idx]
							}
						})
						if al, ok := bound.(*ssa.Alloc); ok {
							if refs := al.Referrers(); refs != nil {
								for _, r := range *refs {
									if st, ok := r.(*ssa.Store); ok && st.Addr == ssa.Value(al) {
										v = st.Val
									}
								}
							}
							continue
						}
						return nil
					}
					return nil
				case *ssa.FreeVar:
					return nil
				default:
					return nil
				}
			}
			return nil
		}
		for _, g := range anons {
			allInstrsOne(g, func(in ssa.Instruction) {
				switch x := in.(type) {
				case *ssa.Go:
					if f := closureOf(x.Call.Value); f != nil {
						conc[f] = true
						k := 1
						if inSameLoop(in.Block(), in.Block()) {
							k = 2
						}
						bump(f, k)
					}
				case *ssa.Call:
					nm := ""
					if cal := x.Call.StaticCallee(); cal != nil {
						nm = cal.Name()
					} else if x.Call.IsInvoke() {
						nm = x.Call.Method.Name()
					}
					if nm == "Go" {
						for _, a := range x.Call.Args {
							if f := closureOf(a); f != nil {
								conc[f] = true
								k := 1
								if inSameLoop(in.Block(), in.Block()) {
									k = 2
								}
								bump(f, k)
							}
						}
					}
				}
			})
		}
		if len(conc) == 0 {
			continue
		}
		// closures called from concurrent ones: each calling instance is an instance of the callee
		launched := []*ssa.Function{}
		for f := range conc {
			launched = append(launched, f)
		}
		seenCall := map[ssa.Instruction]bool{}
		for changed := true; changed; {
			changed = false
			for _, f := range launched {
				allInstrsOne(f, func(in ssa.Instruction) {
					if call, ok := in.(*ssa.Call); ok && !seenCall[in] {
						if g := closureOf(call.Call.Value); g != nil && g.Parent() != nil && g != f {
							seenCall[in] = true
							if !conc[g] {
								conc[g] = true
								launched = append(launched, g)
							}
							bump(g, inst[f])
							changed = true
						}
					}
				})
			}
		}
		// writers per captured cell (by name within the enclosing function)
		writers := map[string]int{}
		type pend struct {
			name string
			f    *ssa.Function
			bad  string
		}
		var pending []pend
		for _, f := range launched {
			for _, fv := range f.FreeVars {
				pt, isPtr := fv.Type().Underlying().(interface {
					Elem() interface{ String() string }
				})
				_ = pt
				_ = isPtr
				ts := fv.Type().String()
				if !strings.HasPrefix(ts, "*") || strings.Contains(ts, "sync.") || strings.Contains(ts, "atomic.") || strings.HasPrefix(ts, "*func(") || strings.HasPrefix(ts, "**") {
					continue
				}
				refs := fv.Referrers()
				if refs == nil {
					continue
				}
				// a variable declared inside a loop body is a fresh cell per iteration: literals started in different iterations
				// do not share it
				if perIteration(f, fv) {
					continue
				}
				n++
				underLock := func(in ssa.Instruction) bool {
					held := false
					for _, s := range sitesOf(f) {
						if s.Callee != nil && s.Callee.Name() == "Lock" && dominatesInstr(s.Instr, in) {
							held = true
							for _, u := range sitesOf(f) {
								if u.Callee != nil && u.Callee.Name() == "Unlock" && dominatesInstr(s.Instr, u.Instr) && dominatesInstr(u.Instr, in) {
									held = false
								}
							}
						}
					}
					return held
				}
				bad := ""
				for _, r := range *refs {
					switch x := r.(type) {
					case *ssa.Store:
						if x.Addr == ssa.Value(fv) && !underLock(x) {
							bad = "assigned at " + p.Pos(posOf(x, f))
						}
					case *ssa.IndexAddr:
						// element write: fine when the index is the literal's own parameter
						if ir := x.Referrers(); ir != nil {
							for _, rr := range *ir {
								if st, ok := rr.(*ssa.Store); ok && st.Addr == ssa.Value(x) {
									own := false
									for v := range backSlice(x.Index) {
										if pa, ok := v.(*ssa.Parameter); ok && pa.Parent() == f {
											own = true
										}
									}
									if !own && !underLock(st) {
										bad = "element written at " + p.Pos(posOf(st, f)) + " at an index that is not the literal's own parameter"
									}
								}
							}
						}
					case *ssa.Call:
						cal := x.Call.StaticCallee()
						if cal != nil && cal.Signature.Recv() != nil && len(x.Call.Args) > 0 && x.Call.Args[0] == ssa.Value(fv) {
							if strings.HasPrefix(cal.Signature.Recv().Type().String(), "*") && writesThroughRecv(cal, 0) {
								if !underLock(x) {
									bad = "pointer-receiver method " + cal.Name() + " called on it at " + p.Pos(posOf(x, f))
								}
							}
						}
					}
				}
				if bad != "" {
					writers[fv.Name()] += inst[f]
				}
				if bad != "" && writers[fv.Name()] < 2 {
					// a single writer instance so far: judged after all literals were seen
					pending = append(pending, pend{fv.Name(), f, bad})
					continue
				}
				c.saw(qname(fn))
				c.check(bad == "", rule, qname(fn)+": "+fv.Name()+" captured by a concurrently running literal", p.Pos(fnPos(f)), "the captured local is only read, written at the literal's own index, or written under a mutex",
					"local variable "+fv.Name()+" of "+qname(fn)+" is shared by function literals that run concurrently and is written without a lock ("+bad+"): the goroutines overwrite each other's value")
			}
		}
		for _, pd := range pending {
			c.check(writers[pd.name] < 2, rule, qname(fn)+": "+pd.name+" captured by a concurrently running literal", p.Pos(fnPos(pd.f)), "written by a single goroutine (each concurrent literal writes its own variable)",
				"local variable "+pd.name+" of "+qname(fn)+" is written without a lock by more than one concurrently running function literal ("+pd.bad+"): the goroutines overwrite each other's value")
		}
	}
	return n
}

// writesThroughRecv: the method stores into memory reached from its receiver (directly or through a same-package method it
// calls on the receiver).
func writesThroughRecv(f *ssa.Function, depth int) bool {
	if f == nil || len(f.Blocks) == 0 || len(f.Params) == 0 || depth > 2 {
		return len(f.Blocks) == 0 && depth == 0 // body-less (library) method with a pointer receiver: assume it may write
	}
	recv := ssa.Value(f.Params[0])
	fromRecv := func(v ssa.Value) bool {
		for d := 0; v != nil && d < 6; d++ {
			if v == recv {
				return true
			}
			switch x := v.(type) {
			case *ssa.FieldAddr:
				v = x.X
			case *ssa.IndexAddr:
				v = x.X
			case *ssa.Slice:
				v = x.X
			default:
				return false
			}
		}
		return false
	}
	w := false
	allInstrsOne(f, func(in ssa.Instruction) {
		switch x := in.(type) {
		case *ssa.Store:
			if fromRecv(x.Addr) {
				w = true
			}
		case *ssa.Call:
			if cal := x.Call.StaticCallee(); cal != nil && cal.Signature.Recv() != nil && len(x.Call.Args) > 0 && fromRecv(x.Call.Args[0]) && cal != f {
				if strings.HasPrefix(cal.Signature.Recv().Type().String(), "*") && writesThroughRecv(cal, depth+1) {
					w = true
				}
			}
		}
	})
	return w
}

// perIteration: the cell bound to free variable fv of literal f is allocated inside a loop of the enclosing function.
func perIteration(f *ssa.Function, fv *ssa.FreeVar) bool {
	par := f.Parent()
	if par == nil {
		return false
	}
	idx := -1
	for i, x := range f.FreeVars {
		if x == fv {
			idx = i
		}
	}
	res := false
	allInstrsOne(par, func(in ssa.Instruction) {
		if mc, ok := in.(*ssa.MakeClosure); ok && mc.Fn == ssa.Value(f) && idx >= 0 && idx < len(mc.Bindings) {
			if al, ok := mc.Bindings[idx].(*ssa.Alloc); ok && inSameLoop(al.Block(), al.Block()) {
				res = true
			}
		}
	})
	return res
}
