package main

import (
	"encoding/json"
	"fmt"
	"os"
	"path/filepath"
	"sort"
	"strings"
	"time"
)

type Status string

const (
	OK        Status = "OK"
	VIOL      Status = "VIOLATION"
	UNDECIDED Status = "UNDECIDED"
	KNOWN     Status = "KNOWN"
	FIXTURE   Status = "FIXTURE" // a violation located in a positive-control fixture (expected)
)

// Ob is one decided rule instance.
type Ob struct {
	Rule      string `json:"rule"`      // e.g. C05/batch-only
	Construct string `json:"construct"` // stable identity (function / field / bucket), never a line
	Status    Status `json:"status"`
	Pos       string `json:"pos,omitempty"`
	Msg       string `json:"msg,omitempty"`
}

type KnownFinding struct {
	Property  string `json:"property"`
	Rule      string `json:"rule"`
	Construct string `json:"construct"`
	What      string `json:"what"`
}

type KnownFile struct {
	Known []KnownFinding `json:"known"`
	Fixed []string       `json:"fixed"`
}

// Ctx is the per-property run context.
type Ctx struct {
	P        *Prog
	Prop     string
	Tier     string
	Obs      []Ob
	Floors   map[string]int  // rule -> min #non-fixture instances
	NeedFix  map[string]bool // rule -> fixture must fire
	Notes    []string
	Assume   []string
	Cuts     []string
	Analysed map[string]bool // functions analysed
	Explain  string
	SelfTest []SelfTestResult
	Robust   map[string]any
	Benign   map[string]any
}

func (c *Ctx) add(rule, construct string, st Status, pos string, msg string) {
	c.Obs = append(c.Obs, Ob{Rule: c.Prop + "/" + rule, Construct: construct, Status: st, Pos: pos, Msg: msg})
}
func (c *Ctx) ok(rule, construct, pos, msg string)   { c.add(rule, construct, OK, pos, msg) }
func (c *Ctx) viol(rule, construct, pos, msg string) { c.add(rule, construct, VIOL, pos, msg) }
func (c *Ctx) und(rule, construct, pos, msg string)  { c.add(rule, construct, UNDECIDED, pos, msg) }
func (c *Ctx) check(cond bool, rule, construct, pos, okmsg, badmsg string) {
	if cond {
		c.ok(rule, construct, pos, okmsg)
	} else {
		c.viol(rule, construct, pos, badmsg)
	}
}
func (c *Ctx) floor(rule string, n int) {
	if c.Floors == nil {
		c.Floors = map[string]int{}
	}
	c.Floors[c.Prop+"/"+rule] = n
}
func (c *Ctx) needFixture(rule string) {
	if c.NeedFix == nil {
		c.NeedFix = map[string]bool{}
	}
	c.NeedFix[c.Prop+"/"+rule] = true
}
func (c *Ctx) note(f string, a ...any) { c.Notes = append(c.Notes, fmt.Sprintf(f, a...)) }
func (c *Ctx) assume(s string)         { c.Assume = append(c.Assume, s) }
func (c *Ctx) cut(s string)            { c.Cuts = append(c.Cuts, s) }
func (c *Ctx) saw(fn string) {
	if c.Analysed == nil {
		c.Analysed = map[string]bool{}
	}
	c.Analysed[fn] = true
}

func loadKnown(path string) KnownFile {
	var k KnownFile
	b, err := os.ReadFile(path)
	if err == nil {
		json.Unmarshal(b, &k)
	}
	return k
}

// finish classifies, prints, writes evidence, returns exit code.
func (c *Ctx) finish(verifDir string, t0 time.Time, seed int) int {
	known := loadKnown(filepath.Join(verifDir, "known_findings.json"))
	// what later rounds added to the property's decided clauses (one source for the evidence explanation and the manifest)
	if b, err := os.ReadFile(filepath.Join(verifDir, "engine", "additions.json")); err == nil {
		add := map[string]string{}
		if json.Unmarshal(b, &add) == nil && add[c.Prop] != "" && !strings.Contains(c.Explain, add[c.Prop]) {
			c.Explain += " " + add[c.Prop]
		}
	}
	isKnown := func(o Ob) *KnownFinding {
		for i := range known.Known {
			k := &known.Known[i]
			if k.Property == c.Prop && k.Rule == o.Rule && k.Construct == o.Construct {
				return k
			}
		}
		return nil
	}
	// fixtures
	fixFired := map[string]bool{}
	perRule := map[string]int{}
	var obs []Ob
	for _, o := range c.Obs {
		if strings.Contains(o.Pos, "zz_verif_fixture") || strings.Contains(o.Construct, "zzVerifFixture") {
			if o.Status == VIOL || o.Status == UNDECIDED {
				fixFired[o.Rule] = true
			}
			o.Status = FIXTURE
			obs = append(obs, o)
			continue
		}
		perRule[o.Rule]++
		obs = append(obs, o)
	}
	// dedupe identical (rule, construct, status)
	seen := map[string]bool{}
	var ded []Ob
	for _, o := range obs {
		k := o.Rule + "|" + o.Construct + "|" + string(o.Status) + "|" + o.Msg
		if seen[k] {
			continue
		}
		seen[k] = true
		ded = append(ded, o)
	}
	obs = ded
	sort.SliceStable(obs, func(i, j int) bool {
		if obs[i].Rule != obs[j].Rule {
			return obs[i].Rule < obs[j].Rule
		}
		return obs[i].Construct < obs[j].Construct
	})
	broken := []string{}
	for r, n := range c.Floors {
		if os.Getenv("VERIF_FLOORS") != "" {
			fmt.Printf("FLOOR %s matched=%d floor=%d\n", r, perRule[r], n)
		}
		// the declared number is the count confirmed by hand on the reference tree; the alarm threshold is 60 % of it
		// (declared counts ≤ 4 are kept as they are): a rule that lost most of its instances is vacuous, a rule that
		// lost a few because a maintainer de-duplicated code is not
		eff := n
		if n > 4 {
			eff = (n*6 + 9) / 10
		}
		if perRule[r] < eff {
			broken = append(broken, fmt.Sprintf("VACUOUS rule %s matched %d instances, floor is %d (60%% of the %d confirmed)", r, perRule[r], eff, n))
		}
	}
	if c.P.Fixtures {
		for r := range c.NeedFix {
			if !fixFired[r] {
				broken = append(broken, fmt.Sprintf("BROKEN-RULE %s did not report its positive-control fixture", r))
			}
		}
	}
	sort.Strings(broken)
	nViol, nKnown, nOK, nUnd, nFix := 0, 0, 0, 0, 0
	replayDir := filepath.Join(verifDir, "evidence", "replay")
	os.MkdirAll(replayDir, 0o755)
	var out []string
	usedKnown := map[string]bool{}
	for i := range obs {
		o := &obs[i]
		switch o.Status {
		case OK:
			nOK++
		case FIXTURE:
			nFix++
		case VIOL, UNDECIDED:
			if k := isKnown(*o); k != nil {
				o.Status = KNOWN
				nKnown++
				usedKnown[k.Rule+"|"+k.Construct] = true
				out = append(out, fmt.Sprintf("KNOWN-FINDING: property=%s %s %s @%s: %s", c.Prop, o.Rule, o.Construct, o.Pos, k.What))
				continue
			}
			if o.Status == UNDECIDED {
				nUnd++
			} else {
				nViol++
			}
			out = append(out, fmt.Sprintf("%s %s construct=%s at %s: %s", o.Status, o.Rule, o.Construct, o.Pos, o.Msg))
		}
	}
	for _, b := range broken {
		out = append(out, b)
	}
	fail := nViol+nUnd > 0 || len(broken) > 0
	replay := filepath.Join(replayDir, c.Prop+".txt")
	if fail {
		os.WriteFile(replay, []byte(strings.Join(out, "\n")+"\n"), 0o644)
	} else {
		os.Remove(replay)
	}
	for _, l := range out {
		fmt.Println(l)
	}
	// evidence
	distinct := map[string]bool{}
	for _, o := range obs {
		if o.Status != FIXTURE {
			distinct[o.Rule+"|"+o.Construct] = true
		}
	}
	var samples []any
	perRuleSample := map[string]int{}
	for _, o := range obs {
		if o.Status == FIXTURE {
			continue
		}
		if perRuleSample[o.Rule] >= 3 && o.Status == OK {
			continue
		}
		perRuleSample[o.Rule]++
		samples = append(samples, o)
		if len(samples) >= 60 {
			break
		}
	}
	ruleCounts := map[string]map[string]int{}
	for _, o := range obs {
		if ruleCounts[o.Rule] == nil {
			ruleCounts[o.Rule] = map[string]int{}
		}
		ruleCounts[o.Rule][string(o.Status)]++
	}
	var fns []string
	for f := range c.Analysed {
		fns = append(fns, f)
	}
	sort.Strings(fns)
	nf := len(fns)
	if len(fns) > 80 {
		fns = fns[:80]
	}
	total := nOK + nViol + nUnd + nKnown
	ev := map[string]any{
		"property_id": c.Prop,
		"tier":        c.Tier,
		"seed":        seed,
		"level":       "other",
		"coverage": map[string]any{
			"explanation":         c.Explain,
			"obligations":         total,
			"discharged":          nOK,
			"known_findings":      nKnown,
			"evaluations":         total,
			"distinct_nontrivial": len(distinct),
			"rule":                "one obligation per (rule, construct) instance found in /repo's current source; distinct = distinct rule×construct pairs; positive-control fixture instances are excluded from all counts",
			"samples":             samples,
			"per_rule":            ruleCounts,
			"fixture_controls":    map[string]any{"active": c.P.Fixtures, "fired": nFix, "required_rules": keys(c.NeedFix)},
			"vacuity_floors":      c.Floors,
			"packages_loaded":     len(c.P.Pkgs),
			"function_bodies":     len(c.P.AllFuncs),
			"functions_analysed":  nf,
			"functions_sample":    fns,
			"cut_points":          nonNil(c.Cuts),
			"notes":               nonNil(append(c.Notes, c.P.LoadNotes...)),
			"broken":              nonNil(broken),
			"rule_self_test":      selfTestSummary(c.SelfTest),
			"rename_robustness":   robustOrEmpty(c.Robust),
			"benign_refactorings": robustOrEmpty(c.Benign),
			"checker_cmd":         "engine/junocheck -prop " + c.Prop + " -tier " + c.Tier,
			"trusted_base":        []string{"go/types, go/ssa, go/callgraph/vta of golang.org/x/tools v0.50.0", "hand-confirmed rule tables in /verif/engine", "not followed: reflection, unsafe, cgo, assembly, goroutine interleavings"},
			"exhaustive":          false,
		},
		"assumptions": append([]string{
			"go/types, go/ssa and the VTA call graph of golang.org/x/tools v0.50.0 are sound for the constructs used; reflection, unsafe, cgo and assembly are not followed",
			"build configuration linux/amd64 with default tags; _test.go files are not part of the analysed program",
			"package juno/jemalloc (cgo pkg-config) is the only tolerated load error",
		}, c.Assume...),
		"wall_s":     time.Since(t0).Seconds(),
		"violations": nViol + nUnd,
	}
	b, _ := json.MarshalIndent(ev, "", " ")
	os.MkdirAll(filepath.Join(verifDir, "evidence"), 0o755)
	if len(c.Prop) == 3 && c.Prop[0] == 'C' {
		os.WriteFile(filepath.Join(verifDir, "evidence", c.Prop+".json"), b, 0o644)
	}
	fmt.Printf("SUMMARY property=%s tier=%s obligations=%d ok=%d known=%d violations=%d undecided=%d fixtures_fired=%d broken=%d wall=%.1fs\n",
		c.Prop, c.Tier, total, nOK, nKnown, nViol, nUnd, nFix, len(broken), time.Since(t0).Seconds())
	if fail {
		fmt.Printf("VIOLATION property=%s replay=%s\n", c.Prop, replay)
		return 1
	}
	return 0
}

func robustOrEmpty(m map[string]any) map[string]any {
	if m == nil {
		return map[string]any{"what": "thorough tier only"}
	}
	return m
}

func selfTestSummary(rs []SelfTestResult) map[string]any {
	n := map[string]int{}
	for _, r := range rs {
		n[r.Status]++
	}
	if rs == nil {
		rs = []SelfTestResult{}
	}
	return map[string]any{
		"what":   "thorough tier only: each stored seeded fault recorded as detected by this property's rules is overlaid (patched copies of the touched files, /repo untouched) and the check re-run; a miss means a rule lost its teeth on the current tree; stale = the patch no longer applies",
		"caught": n["caught"], "missed": n["missed"], "stale": n["stale"],
		"results": rs,
	}
}

func keys(m map[string]bool) []string {
	var o []string
	for k := range m {
		o = append(o, k)
	}
	sort.Strings(o)
	return o
}

func nonNil(s []string) []string {
	if s == nil {
		return []string{}
	}
	return s
}
