package main

import (
	"fmt"
	"go/types"
	"strings"

	"golang.org/x/tools/go/ssa"
)

func init() {
	register("C17", func(c *Ctx) {
		p := c.P
		c.Explain = "Single-writer and guard structure of the L1 head, decided on call graph, bucket attribution and must-hold DNF: (who-writes) the L1Height bucket is written only through core.WriteL1Head ← Blockchain.SetL1Head ← l1.Client.setL1Head; (guards) the head is chosen among buffered commits with key ≤ finalised height (the value returned by the provider), keeping the highest key; finalised entries leave the buffer; a removal drops every buffered entry at or above the removed L1 height; inserts are keyed by the L1 reference height; " +
			"(confinement) the buffer of non-finalised logs is touched only by the client's own loop functions, none of which is started with `go`; (provider-fidelity) every StateUpdate built from a geth log copies Raw.Removed and Raw.BlockNumber, and the resubscription reuses the channel the loop reads from (queued removals are not lost); (catch-up-bounds) guarded from/to arithmetic. " +
			"Not decided: monotonicity of the stored L2 number across restarts, behaviour under subscription failure orderings."
		ci := p.caps()
		r := p.newResolver()
		ai := p.attrIndex(r, ci)
		// who-writes
		n := 0
		for _, a := range ai.all {
			if a.Bucket != "L1Height" || !(a.Op == "Put" || a.Op == "Delete" || a.Op == "DeleteRange") {
				continue
			}
			w := rootOf(a.Fn)
			n++
			c.check(qname(w) == "core.WriteL1Head", "who-writes", "L1Height "+a.Op+" ← "+qname(w), p.Pos(a.Pos), "the accessor", "bucket L1Height is written by "+qname(w))
			for _, s := range p.callersOf(w) {
				cn := qname(rootOf(s.Fn))
				ok := cn == "(*blockchain.Blockchain).SetL1Head" || strings.HasSuffix(pkgRelOf(s.Fn), "testutils") || strings.HasPrefix(pkgRelOf(s.Fn), "migration") ||
					(pkgRelOf(s.Fn) == "blockchain" && p.calledOnlyFrom(s.Fn, "SetL1Head", 0)) // a piece of SetL1Head
				c.check(ok, "who-writes", "core.WriteL1Head ← "+cn, p.Pos(s.Pos()), "only Blockchain.SetL1Head", "the L1 head record is written from "+cn)
			}
		}
		if n == 0 {
			c.und("who-writes", "L1Height", "", "no writer of the L1Height bucket found")
		}
		if f := p.Func("blockchain", "Blockchain", "SetL1Head"); f != nil {
			k := 0
			for _, s := range p.callersOf(f) {
				cn := qname(rootOf(s.Fn))
				if strings.HasPrefix(pkgRelOf(s.Fn), "mocks") {
					continue
				}
				k++
				c.check(cn == "(*l1.Client).setL1Head" || (pkgRelOf(s.Fn) == "l1" && p.calledOnlyFrom(s.Fn, "setL1Head", 0)), "who-writes", "Blockchain.SetL1Head ← "+cn, p.Pos(s.Pos()), "only the L1 client", "Blockchain.SetL1Head is called from "+cn+": the L1 head could be set without the finality check")
			}
			if k == 0 {
				c.und("who-writes", "Blockchain.SetL1Head", "", "no caller")
			}
		} else {
			c.und("who-writes", "Blockchain.SetL1Head", "", "anchor not found")
		}
		// guards
		sl := p.Func("l1", "Client", "setL1Head")
		ap := p.Func("l1", "Client", "applyStateUpdate")
		if sl == nil || ap == nil {
			c.und("guards", "l1.Client.setL1Head/applyStateUpdate", "", "anchor not found")
		} else {
			nf := 0
			for _, op := range c17BufOps(p, sl) {
				in := op.in
				switch op.kind {
				case "lookup":
					// selection of the head candidate: c.nonFinalisedLogs[...]
					nf++
					d := op.cond
					ok1, m1 := everyDisjunctHas(d, []string{" <= ", "finalisedHeight(ctx)#0"})
					ok2, m2 := everyDisjunctHas(d, []string{" >= ", "φ("}, []string{" >= ", "maxFinalised"})
					c.check(ok1, "guards", "setL1Head: candidate ≤ finalised height", p.Pos(posOf(in, in.Parent())), "only commits at or below the provider's finalised height can become the head", "a buffered commit can be chosen as L1 head without key ≤ finalisedHeight (the provider's value): "+m1)
					c.check(ok2, "guards", "setL1Head: highest candidate wins", p.Pos(posOf(in, in.Parent())), "candidate replaces the current maximum only if its key is ≥", "the chosen head is not the highest finalised commit: "+m2)
				case "delete":
					nf++
					ok1, m1 := everyDisjunctHas(op.cond, []string{" <= ", "finalisedHeight(ctx)#0"})
					c.check(ok1 && op.cond != nil, "guards", "setL1Head: only finalised entries leave the buffer", p.Pos(posOf(in, in.Parent())), "delete under key ≤ finalised height", "non-finalised commits are dropped from the buffer: "+m1)
				}
			}
			// finalisedHeight comes from the provider
			if fh := p.Func("l1", "Client", "finalisedHeight"); fh != nil {
				okp := false
				for _, ret := range returnsOf(fh) {
					if strings.Contains(term(ret.Results[0]), "FinalisedHeight(") {
						okp = true
					}
				}
				c.check(okp, "guards", "finalisedHeight = provider.FinalisedHeight", p.Pos(fnPos(fh)), "finality is the provider's finalised block", "the finalised height no longer comes from provider.FinalisedHeight")
			}
			// head fields
			var hs *Site
			if dss := p.deepSites(sl, nameMatcher("SetL1Head"), 2); len(dss) > 0 {
				hs = &dss[0].Site
			}
			if dss := p.deepSites(sl, nameMatcher("SetL1Head"), 2); len(dss) > 0 {
				// never backwards (F30): the write is reached only after the candidate's Starknet block number was compared with the
				// recorded head's (or no head is recorded / readable yet)
				d := p.mustHoldDeep(dss[0])
				okm, miss := everyDisjunctHas(d, []string{"L1Head()", "BlockNumber"}, []string{"L1Head()#1", "!= nil"})
				c.check(okm, "guards", "setL1Head: never to an older Starknet block", p.Pos(dss[0].Site.Pos()), "the candidate's block number was compared with the recorded head before the write", "the L1 head is written without comparing the candidate with the head already recorded ("+clip(miss, 200)+"): a commit of an older Starknet block that is delivered late moves the head backwards")
			}
			if hs == nil {
				c.und("guards", "setL1Head: head fields", p.Pos(fnPos(sl)), "call of Blockchain.SetL1Head not found in setL1Head or its helpers")
			} else {
				got := map[string]string{}
				for _, di := range p.deepInstrs(sl, 2) {
					if st, ok := di.In.(*ssa.Store); ok {
						if fa, ok := st.Addr.(*ssa.FieldAddr); ok && isNamed(fa.X.Type(), "core", "L1Head") {
							got[fieldName(fa.X.Type(), fa.Field)] = term(st.Val)
						}
					}
				}
				okf := strings.HasSuffix(got["BlockNumber"], ".L2BlockNumber") && strings.HasSuffix(got["BlockHash"], ".L2BlockHash") && strings.HasSuffix(got["StateRoot"], ".StateRoot")
				c.check(okf, "guards", "setL1Head: head = (L2BlockNumber, L2BlockHash, StateRoot) of the chosen commit", p.Pos(hs.Pos()), "fields copied from the chosen commit", fmt.Sprintf("L1 head fields are %v", got))
			}
			// applyStateUpdate
			for _, op := range c17BufOps(p, ap) {
				in := op.in
				switch op.kind {
				case "delete":
					nf++
					d := op.cond
					ok1, m1 := everyDisjunctHas(d, []string{"stateUpdate.Removed"})
					ok2, m2 := everyDisjunctHas(d, []string{" >= stateUpdate.L1RefHeight)"})
					c.check(ok1 && ok2 && d != nil, "guards", "applyStateUpdate: removal drops entries ≥ removed height", p.Pos(posOf(in, in.Parent())), "delete under Removed ∧ key ≥ L1RefHeight", "a removal no longer drops exactly the buffered entries at or above the removed L1 height: "+m1+m2)
				case "insert":
					nf++
					ok1, m1 := everyDisjunctHas(op.cond, []string{"^!", "stateUpdate.Removed"})
					c.check(ok1 && strings.HasSuffix(op.key, "stateUpdate.L1RefHeight") && op.val == "stateUpdate", "guards", "applyStateUpdate: insert keyed by L1RefHeight", p.Pos(posOf(in, in.Parent())), "non-removed updates are buffered under their L1 reference height", "buffering changed: key "+op.key+" value "+op.val+" "+m1)
				}
			}
			if nf < 3 { // four on today's tree; a selection folded into a maps.DeleteFunc predicate is seen as one operation
				c.und("guards", "l1.Client buffer operations", "", fmt.Sprintf("only %d buffer operations recognised", nf))
			}
		}
		// confinement
		owners := map[string]bool{"NewClient": true, "applyStateUpdate": true, "setL1Head": true, "catchUpL1HeadUpdates": true}
		touch := map[*ssa.Function]bool{}
		for _, fn := range p.sortedFuncs() {
			if pkgRelOf(fn) != "l1" {
				continue
			}
			allInstrs(fn, func(in ssa.Instruction) {
				if fa, ok := in.(*ssa.FieldAddr); ok && isNamed(fa.X.Type(), "l1", "Client") && fieldName(fa.X.Type(), fa.Field) == "nonFinalisedLogs" {
					touch[rootOf(fn)] = true
				}
			})
		}
		for f := range touch {
			c.check(owners[f.Name()] || p.calledOnlyFromAny(f, owners, 0), "confinement", "nonFinalisedLogs ← "+qname(f), p.Pos(fnPos(f)), "touched only by the client's loop functions", "the buffer of non-finalised logs is accessed by "+qname(f)+", outside the single-goroutine loop")
		}
		if len(touch) < 3 {
			c.und("confinement", "nonFinalisedLogs", "", "accessors not found")
		}
		// no `go` statement in package l1 reaches an accessor
		for _, fn := range p.sortedFuncs() {
			if pkgRelOf(fn) != "l1" {
				continue
			}
			allInstrs(fn, func(in ssa.Instruction) {
				g, ok := in.(*ssa.Go)
				if !ok {
					return
				}
				var roots []*ssa.Function
				if f := g.Call.StaticCallee(); f != nil {
					roots = append(roots, f)
				}
				roots = append(roots, funcValues(g.Call.Value, 0)...)
				reach := p.Reachable(roots, func(_, callee *ssa.Function) bool { return pkgRelOf(callee) != "l1" })
				bad := ""
				for f := range touch {
					if reach.Has(f) && f.Name() != "NewClient" {
						bad = qname(f)
					}
				}
				c.check(bad == "", "confinement", "go statement in "+qname(fn), p.Pos(posOf(in, fn)), "spawned goroutine does not touch the buffer", "a goroutine started in "+qname(fn)+" reaches "+bad+", which touches the unsynchronised buffer")
			})
		}
		// accessors are not used as function values
		for f := range touch {
			for _, fn := range p.sortedFuncs() {
				allInstrs(fn, func(in ssa.Instruction) {
					for _, op := range in.Operands(nil) {
						if *op == ssa.Value(f) {
							if ci, ok := in.(ssa.CallInstruction); ok && ci.Common().Value == ssa.Value(f) {
								if _, isGo := in.(*ssa.Go); !isGo {
									continue
								}
							}
							c.viol("confinement", qname(f)+" used as a value in "+qname(fn), p.Pos(posOf(in, fn)), "a buffer accessor escapes as a function value / goroutine entry")
						}
					}
				})
			}
		}
		c17Provider(c)
		c17RemovedFirst(c)
		c17OrderAndDrain(c)
		c.usubRule("catch-up-bounds", func(fn *ssa.Function) bool {
			return pkgRelOf(fn) == "l1" && strings.HasSuffix(p.File(fnPos(fn)), "/l1.go")
		}, nil)
	})
}

func c17Provider(c *Ctx) {
	p := c.P
	// every StateUpdate literal in package l1 built from a geth log copies Removed and BlockNumber of the raw log
	n := 0
	for _, fn := range p.sortedFuncs() {
		if pkgRelOf(fn) != "l1" {
			continue
		}
		allInstrs(fn, func(in ssa.Instruction) {
			a, ok := in.(*ssa.Alloc)
			if !ok || !isNamed(a.Type(), "l1", "StateUpdate") {
				return
			}
			if pt, _ := a.Type().Underlying().(*types.Pointer); pt == nil {
				return
			}
			set := map[string]string{}
			if refs := a.Referrers(); refs != nil {
				for _, r := range *refs {
					if fa, ok := r.(*ssa.FieldAddr); ok {
						if rr := fa.Referrers(); rr != nil {
							for _, u := range *rr {
								if st, ok := u.(*ssa.Store); ok && st.Addr == ssa.Value(fa) {
									set[fieldName(fa.X.Type(), fa.Field)] = term(st.Val)
								}
							}
						}
					}
				}
			}
			fromLog := false
			for _, par := range fn.Params {
				if strings.Contains(par.Type().String(), "StarknetLogStateUpdate") {
					fromLog = true
				}
			}
			if len(set) < 3 && !fromLog {
				return
			}
			n++
			ok1 := strings.HasSuffix(set["Removed"], ".Raw.Removed")
			ok2 := strings.HasSuffix(set["L1RefHeight"], ".Raw.BlockNumber")
			c.check(ok1 && ok2, "provider-fidelity", "StateUpdate literal in "+qname(fn), p.Pos(posOf(in, fn)), "Removed and L1RefHeight are copied from the raw log", fmt.Sprintf("a StateUpdate is built from an L1 log without Removed=Raw.Removed / L1RefHeight=Raw.BlockNumber (got Removed=%q, L1RefHeight=%q): reorged-out commits would be re-buffered as fresh ones", set["Removed"], set["L1RefHeight"]))
		})
	}
	if n == 0 {
		c.und("provider-fidelity", "l1.StateUpdate literals", "", "none found")
	}
	// the loop resubscribes on the channel it reads from
	if f := p.Func("l1", "Client", "receiveL1StateUpdates"); f != nil {
		ch := ssa.Value(f.Params[3])
		okSel, okSub := false, true
		allInstrs(f, func(in ssa.Instruction) {
			if sel, ok := in.(*ssa.Select); ok {
				for _, st := range sel.States {
					if stripLoad(st.Chan) == ch {
						okSel = true
					}
				}
			}
		})
		for _, s := range findSites(f, "subscribeToUpdates") {
			if stripLoad(s.Args()[len(s.Args())-1]) != ch {
				okSub = false
			}
		}
		if !(okSel && okSub) {
			// the channel may live in a field of a small stream object: what the loop selects on and what every (re)subscription
			// delivers into must have the same origin (the same parameter, or the same field of the same struct type) and no
			// subscription may be handed a freshly made channel
			origin := func(v ssa.Value) map[string]bool {
				out := map[string]bool{}
				for x := range backSlice(v) {
					switch y := x.(type) {
					case *ssa.Parameter:
						if _, isChan := y.Type().Underlying().(*types.Chan); isChan {
							out["param:"+y.Type().String()] = true
						}
					case *ssa.FieldAddr:
						if pt, ok := y.Type().Underlying().(*types.Pointer); ok {
							if _, isChan := pt.Elem().Underlying().(*types.Chan); isChan {
								out["field:"+y.X.Type().String()+"."+fieldName(y.X.Type(), y.Field)] = true
							}
						}
					case *ssa.MakeChan:
						out["fresh"] = true
					}
				}
				return out
			}
			selO := map[string]bool{}
			for _, g := range samePkgScope(f, 1) {
				allInstrs(g, func(in ssa.Instruction) {
					if sel, ok := in.(*ssa.Select); ok {
						for _, st := range sel.States {
							for k := range origin(st.Chan) {
								selO[k] = true
							}
						}
					}
				})
			}
			subs := p.deepSites(f, nameMatcher("subscribeToUpdates"), 2)
			same := len(subs) > 0 && len(selO) > 0 && !selO["fresh"]
			for _, ds := range subs {
				a := ds.Site.Args()
				o := origin(a[len(a)-1])
				shared := false
				for k := range o {
					if k != "fresh" && selO[k] {
						shared = true
					}
				}
				// a subscription inside the constructor of the stream object may receive the channel it was just made with
				if o["fresh"] && inSameLoop(ds.Site.Block(), ds.Site.Block()) {
					shared = false
				}
				if !shared {
					same = false
				}
			}
			if same {
				okSel, okSub = true, true
			}
		}
		c.check(okSel && okSub, "provider-fidelity", "receiveL1StateUpdates: one update channel", p.Pos(fnPos(f)), "the resubscription delivers into the channel the loop reads from", "after a subscription error the loop switches to a different channel: updates (incl. removals) still queued in the old channel are lost")
	} else {
		c.und("provider-fidelity", "receiveL1StateUpdates", "", "anchor not found")
	}
}

// stripLoad sees through a parameter spilled to a local (captured by a closure) and read back.
func stripLoad(v ssa.Value) ssa.Value {
	if u, ok := v.(*ssa.UnOp); ok {
		if a, ok := u.X.(*ssa.Alloc); ok {
			if st := onlyStore(a); st != nil {
				return st.Val
			}
		}
	}
	return v
}

// c17RemovedFirst: a log the L1 node reports as removed always purges the buffer: in applyStateUpdate the test of
// stateUpdate.Removed dominates every return (nothing — duplicate suppression, filters — can swallow a removal notice
// before it is looked at), and the removal arm deletes every buffered entry at or above the removed height.
func c17RemovedFirst(c *Ctx) {
	p := c.P
	f := p.Func("l1", "Client", "applyStateUpdate")
	if f == nil {
		c.und("removed-first", "Client.applyStateUpdate", "", "anchor not found")
		return
	}
	c.saw(qname(f))
	var iff *ssa.If
	allInstrs(f, func(in ssa.Instruction) {
		if i, ok := in.(*ssa.If); ok && iff == nil && strings.HasSuffix(term(i.Cond), ".Removed") {
			iff = i
		}
	})
	if iff == nil {
		c.viol("removed-first", "applyStateUpdate", p.Pos(fnPos(f)), "applyStateUpdate no longer branches on stateUpdate.Removed")
		return
	}
	ok := true
	for _, ret := range returnsOf(f) {
		if !dominatesInstr(iff, ret.Ret) {
			ok = false
		}
	}
	c.check(ok, "removed-first", "applyStateUpdate: Removed tested on every path", p.Pos(posOf(iff, f)), "the Removed test dominates every return", "applyStateUpdate can return before looking at stateUpdate.Removed: a removal notice (which carries the same fields as the log it revokes) is swallowed, the reorged-out entry stays buffered and is later recorded as the L1 head")
	// the removal arm deletes with l1BlockNumber >= removed height
	del := false
	for _, op := range c17BufOps(p, f) {
		if op.kind != "delete" || op.cond == nil {
			continue
		}
		d := op.cond
		o1, _ := everyDisjunctHas(d, []string{"$.Removed"})
		o2, _ := everyDisjunctHas(d, []string{" >= stateUpdate.L1RefHeight)"})
		if o1 && o2 {
			del = true
		}
	}
	c.check(del, "removed-first", "applyStateUpdate: removal arm", p.Pos(fnPos(f)), "deletes every buffered entry at or above the removed L1 height", "the removal arm no longer deletes the buffered entries at or above the removed height")
}

// c17OrderAndDrain: (apply-in-order) the buffer is keyed by L1 block and the last writer wins, so logs are applied in the
// order the L1 node delivered them (ascending): every loop that feeds applyStateUpdate from a slice is a plain forward range
// without early exit; (drain-after-close) the historical-log filter returns only after a non-blocking drain of the log
// channel — geth's FilterLogs closes Err() when it has shipped everything but never closes the channel, so logs can still be
// buffered when Err() becomes ready.
func c17OrderAndDrain(c *Ctx) {
	p := c.P
	ap := p.Func("l1", "Client", "applyStateUpdate")
	if ap == nil {
		c.und("apply-in-order", "Client.applyStateUpdate", "", "anchor not found")
	} else {
		n := 0
		for _, s := range p.callersOf(ap) {
			fn := s.Instr.Parent()
			if !inSameLoop(s.Block(), s.Block()) {
				continue
			}
			arg := s.Args()[len(s.Args())-1]
			ld, isLoad := arg.(*ssa.UnOp)
			if !isLoad {
				continue // not fed from a slice (e.g. channel receive loop)
			}
			ia, isIdx := ld.X.(*ssa.IndexAddr)
			if !isIdx {
				continue
			}
			n++
			fwd := isRangeIndex(ia.Index)
			// no early exit: every block of the loop other than its header stays inside the loop
			var header *ssa.BasicBlock
			for d := s.Block(); d != nil; d = d.Idom() {
				if d.Comment == "rangeindex.loop" && inSameLoop(d, s.Block()) {
					header = d
					break
				}
			}
			noExit := header != nil
			if header != nil {
				// natural loop of the header's back edges
				body := map[*ssa.BasicBlock]bool{header: true}
				var stack []*ssa.BasicBlock
				for _, pr := range header.Preds {
					if header.Dominates(pr) && !body[pr] {
						body[pr] = true
						stack = append(stack, pr)
					}
				}
				for len(stack) > 0 {
					b := stack[len(stack)-1]
					stack = stack[:len(stack)-1]
					for _, pr := range b.Preds {
						if !body[pr] {
							body[pr] = true
							stack = append(stack, pr)
						}
					}
				}
				for b := range body {
					if b == header {
						continue
					}
					for _, succ := range b.Succs {
						if !body[succ] {
							noExit = false
						}
					}
				}
			}
			c.check(fwd && noExit, "apply-in-order", qname(fn)+" → applyStateUpdate over a slice", p.Pos(s.Pos()), "forward range over the delivered logs, no early exit", "the logs of a chunk are not applied front to back to the end (forward range: "+fmt.Sprint(fwd)+", no early exit: "+fmt.Sprint(noExit)+"): with several state updates in one L1 block the earliest instead of the latest survives in the buffer and is later recorded as the L1 head")
		}
		if n == 0 {
			c.und("apply-in-order", "applyStateUpdate callers", "", "no slice-fed loop calling applyStateUpdate found")
		}
	}
	f := p.Func("l1/geth/contract", "StarknetFilterer", "FilterLogStateUpdate")
	if f == nil {
		c.und("drain-after-close", "StarknetFilterer.FilterLogStateUpdate", "", "anchor not found")
		return
	}
	var drains []*ssa.Select
	allInstrs(f, func(in ssa.Instruction) {
		if sel, ok := in.(*ssa.Select); ok && !sel.Blocking {
			for _, st := range sel.States {
				if st.Dir == types.RecvOnly && strings.Contains(term(st.Chan), "FilterLogs(") {
					drains = append(drains, sel)
				}
			}
		}
	})
	n := 0
	for _, ret := range returnsOf(f) {
		if !isNilConst(ret.Results[1]) {
			continue
		}
		n++
		ok := false
		for _, d := range drains {
			if dominatesInstr(d, ret.Ret) {
				ok = true
			}
		}
		c.check(ok, "drain-after-close", "FilterLogStateUpdate: success return", p.Pos(posOf(ret.Ret, f)), "reached only through a non-blocking drain of the log channel", "the filter returns as soon as the subscription's Err() is ready, without draining the log channel: a random tail of each chunk — its newest events — is lost and catch-up commits an older state update than the highest finalised one")
	}
	if n == 0 {
		c.und("drain-after-close", "FilterLogStateUpdate", p.Pos(fnPos(f)), "no success return found")
	}
}

// c17BufOp: one operation on the buffer of non-finalised logs performed by fn or a same-package helper, with the condition
// (in fn's terms) under which it is performed. A removal is either delete(buf, k) — the condition is that of the call site,
// which for a delete inside `for k := range buf` is the per-key filter — or maps.DeleteFunc(buf, pred), whose condition is
// that of the call conjoined with the condition under which pred returns true.
type c17BufOp struct {
	kind     string // lookup | delete | insert
	in       ssa.Instruction
	cond     dnf // nil: not determined
	key, val string
}

func c17BufOps(p *Prog, fn *ssa.Function) []c17BufOp {
	isBuf := func(v ssa.Value) bool {
		ld, ok := v.(*ssa.UnOp)
		if !ok {
			return false
		}
		fa, ok := ld.X.(*ssa.FieldAddr)
		return ok && isNamed(fa.X.Type(), "l1", "Client") && fieldName(fa.X.Type(), fa.Field) == "nonFinalisedLogs"
	}
	substT := func(t string, chain []Site) string {
		for i := len(chain) - 1; i >= 0; i-- {
			if chain[i].Callee == nil {
				continue
			}
			d := substParams(dnf{conj{t: true}}, chain[i].Callee, chain[i].Args())
			for a := range d[0] {
				if a != t {
					t = a
					break
				}
			}
		}
		return t
	}
	var out []c17BufOp
	for _, di := range p.deepInstrs(fn, 2) {
		switch x := di.In.(type) {
		case *ssa.Lookup:
			if isBuf(x.X) {
				out = append(out, c17BufOp{kind: "lookup", in: x, cond: p.mustHoldChain(x, di.Chain)})
			}
		case *ssa.Extract:
			// the element variable of `for k, v := range buffer`: it is "looked up" where it is assigned to a variable
			// that outlives the iteration (an edge of a φ), under the condition of that edge
			nx, ok := x.Tuple.(*ssa.Next)
			if !ok || x.Index != 2 || x.Referrers() == nil {
				continue
			}
			rg, ok := nx.Iter.(*ssa.Range)
			if !ok || !isBuf(rg.X) {
				continue
			}
			for _, r := range *x.Referrers() {
				phi, isPhi := r.(*ssa.Phi)
				if !isPhi {
					continue
				}
				for i, e := range phi.Edges {
					if e != ssa.Value(x) {
						continue
					}
					b := &bform{p: p, visited: map[ssa.Value]bool{}}
					cond := b.pathCond(phi.Block().Preds[i], phi.Block(), phi.Parent(), 0)
					out = append(out, c17BufOp{kind: "lookup", in: phi, cond: p.liftChain(cond, di.Chain)})
				}
			}
		case *ssa.MapUpdate:
			if isBuf(x.Map) {
				out = append(out, c17BufOp{kind: "insert", in: x, cond: p.mustHoldChain(x, di.Chain), key: substT(term(x.Key), di.Chain), val: substT(term(x.Value), di.Chain)})
			}
		case *ssa.Call:
			if len(x.Call.Args) == 0 || !isBuf(x.Call.Args[0]) {
				continue
			}
			if b, ok := x.Call.Value.(*ssa.Builtin); ok && b.Name() == "delete" {
				out = append(out, c17BufOp{kind: "delete", in: x, cond: p.mustHoldChain(x, di.Chain)})
				continue
			}
			if cal := x.Call.StaticCallee(); cal != nil && len(x.Call.Args) == 2 {
				o := cal
				if o.Origin() != nil {
					o = o.Origin()
				}
				if o.Pkg != nil && o.Pkg.Pkg.Path() == "maps" && o.Name() == "DeleteFunc" {
					var cond dnf
					if mc, ok := x.Call.Args[1].(*ssa.MakeClosure); ok {
						if pc := p.closureTrueCond(mc); pc != nil {
							for i := len(di.Chain) - 1; i >= 0; i-- {
								if di.Chain[i].Callee != nil {
									pc = substParams(pc, di.Chain[i].Callee, di.Chain[i].Args())
								}
							}
							cond = dnfAnd(p.mustHoldChain(x, di.Chain), pc)
						}
					}
					out = append(out, c17BufOp{kind: "delete", in: x, cond: cond})
				}
			}
		}
	}
	return out
}
