package main

import (
	"fmt"
	"go/token"
	"go/types"
	"strings"

	"golang.org/x/tools/go/ssa"
)

func isUnitPtrSlice(t types.Type) bool {
	s, ok := t.Underlying().(*types.Slice)
	if !ok {
		return false
	}
	p, ok := s.Elem().Underlying().(*types.Pointer)
	return ok && isNamed(p.Elem(), "consensus/propeller", "Unit")
}

func init() {
	register("C19", func(c *Ctx) {
		p := c.P
		c.Explain = "Structural conditions of the erasure-coded broadcast decided on SSA: (nil-consistency) elements of sparse []*Unit slices (made with a length and filled by index, or nil-tested somewhere) are dereferenced only under a nil test — Engler's null-consistency rule; (leaf-agreement) the Merkle leaf bytes the validator verifies are the bytes the producer/reconstructor hashed; (unit-complete) every Unit literal sets every field the validator reads; " +
			"(validate-order) a shard is recorded as received only after duplicate, origin, Merkle and signature checks passed, and no slice is indexed by the attacker-controlled shard index before the origin check; (root-before-unpad) the message is unpadded/returned only under recomputed root == announced root; (pad-prefix) the writer places the message at the offset binary.PutUvarint returned, matching the reader's binary.Uvarint; (pad-arith) no unsigned underflow in padding/sharding. " +
			"Not decided: bit-exact reconstruction for all subsets (Reed–Solomon algebra)."
		c19NilConsistency(c)
		c19LeafAgreement(c)
		c19UnitComplete(c)
		c19ValidateOrder(c)
		// root-before-unpad
		if f := p.Func("consensus/propeller", "", "ConstructMessageFromUnits"); f != nil {
			un := findSite(f, "UnpadMessage")
			if un == nil {
				c.viol("root-before-unpad", "ConstructMessageFromUnits", p.Pos(fnPos(f)), "UnpadMessage is no longer called")
			} else {
				ok, miss := everyDisjunctHas(p.mustHoldAt(un.Instr), []string{"^!", "essageRoot != ", "xpectedRoot"}, []string{"essageRoot == ", "xpectedRoot"})
				c.check(ok, "root-before-unpad", "ConstructMessageFromUnits → UnpadMessage", p.Pos(un.Pos()), "only after the recomputed Merkle root matched the announced one", "the message is unpadded/returned without comparing the recomputed root with the announced root: "+miss)
			}
			// recomputed root comes from merkle.New over the recovered shards
			mn := findSite(f, "merkle.New")
			rc := findSite(f, "RecoverData")
			c.check(mn != nil && rc != nil && dominatesInstr(rc.Instr, mn.Instr) && strings.Contains(term(mn.Args()[0]), "RecoverData("), "root-before-unpad", "ConstructMessageFromUnits: root over recovered shards", p.Pos(fnPos(f)), "merkle.New(RecoverData(...))", "the expected root is not computed over the recovered shards")
		} else {
			c.und("root-before-unpad", "ConstructMessageFromUnits", "", "anchor not found")
		}
		// pad-prefix
		if f := p.Func("consensus/propeller", "", "PadMessage"); f != nil {
			ok := false
			for _, s := range sitesOf(f) {
				if s.CalleeName() != "builtin:copy" {
					continue
				}
				dst, src := s.Args()[0], s.Args()[1]
				if _, isParam := src.(*ssa.Parameter); !isParam {
					continue
				}
				if sl, isSl := dst.(*ssa.Slice); isSl && sl.Low != nil {
					lt := term(sl.Low)
					ok = strings.Contains(lt, "binary.PutUvarint(") || strings.Contains(lt, "len(binary.AppendUvarint(")
					c.check(ok, "pad-prefix", "PadMessage: message offset", p.Pos(s.Pos()), "message copied at the offset returned by binary.PutUvarint", "the message is placed at offset "+lt+", not at the length binary.PutUvarint reported: the reader (binary.Uvarint) would cut at a different offset for some lengths")
				}
			}
			if !ok {
				c.und("pad-prefix", "PadMessage", p.Pos(fnPos(f)), "copy(result[prefixLen:], msg) not recognised")
			}
		} else {
			c.und("pad-prefix", "PadMessage", "", "anchor not found")
		}
		if f := p.Func("consensus/propeller", "", "UnpadMessage"); f != nil {
			ok := false
			for _, ret := range returnsOf(f) {
				if sl, isSl := ret.Results[0].(*ssa.Slice); isSl && sl.Low != nil && strings.Contains(term(sl.Low), "binary.Uvarint(") {
					d := p.mustHoldAt(ret.Ret)
					o1, _ := everyDisjunctHas(d, []string{"^!", " > ", "len(padded)"})
					o2, _ := everyDisjunctHas(d, []string{"^!", "#1 <= 0"})
					ok = o1 && o2
				}
			}
			c.check(ok, "pad-prefix", "UnpadMessage: bounds", p.Pos(fnPos(f)), "slices at the varint length after checking it is positive and that prefix+len fits", "UnpadMessage no longer validates the varint prefix / length before slicing")
		}
		// pad-arith
		c.usubRule("pad-arith", func(fn *ssa.Function) bool {
			if pkgRelOf(fn) != "consensus/propeller" {
				return false
			}
			file := p.File(fnPos(fn))
			return strings.HasSuffix(file, "/padding.go") || strings.HasSuffix(file, "/sharding.go") || strings.HasSuffix(file, "/scheduler.go")
		}, nil)
	})
}

func c19NilConsistency(c *Ctx) {
	p := c.P
	n := 0
	for _, fn := range p.sortedFuncs() {
		if pkgRelOf(fn) != "consensus/propeller" || fn.Origin() != nil {
			continue
		}
		// element loads from []*Unit slices
		type eload struct {
			load  *ssa.UnOp
			slice ssa.Value
		}
		var loads []eload
		sparse := map[ssa.Value]bool{}
		allInstrs(fn, func(in ssa.Instruction) {
			if ms, ok := in.(*ssa.MakeSlice); ok && isUnitPtrSlice(ms.Type()) {
				sparse[ms] = true
			}
			u, ok := in.(*ssa.UnOp)
			if !ok || u.Op != token.MUL {
				return
			}
			ia, ok := u.X.(*ssa.IndexAddr)
			if !ok || !isUnitPtrSlice(ia.X.Type()) {
				return
			}
			loads = append(loads, eload{u, ia.X})
		})
		// range over the slice yields elements via Next/Extract for maps only; slices use IndexAddr: covered.
		// a slice is sparse if some element of it is nil-tested in this function
		for _, l := range loads {
			if refs := l.load.Referrers(); refs != nil {
				for _, r := range *refs {
					if b, ok := r.(*ssa.BinOp); ok && (isNilConst(b.X) || isNilConst(b.Y)) {
						sparse[l.slice] = true
					}
				}
			}
		}
		// parameters that receive a sparse slice from some caller
		for _, par := range fn.Params {
			if !isUnitPtrSlice(par.Type()) {
				continue
			}
			for _, s := range p.callersOf(fn) {
				for i, q := range fn.Params {
					if q == par && i < len(s.Args()) {
						if _, isMake := s.Args()[i].(*ssa.MakeSlice); isMake {
							sparse[par] = true
						}
					}
				}
			}
		}
		for _, l := range loads {
			if !sparse[l.slice] {
				continue
			}
			refs := l.load.Referrers()
			if refs == nil {
				continue
			}
			for _, r := range *refs {
				deref := false
				switch x := r.(type) {
				case *ssa.FieldAddr:
					deref = x.X == ssa.Value(l.load)
				case *ssa.UnOp:
					deref = x.Op == token.MUL && x.X == ssa.Value(l.load)
				}
				if !deref {
					continue
				}
				n++
				construct := fmt.Sprintf("%s: %s", qname(fn), shortTerm(l.load))
				d := p.mustHoldAt(r)
				et := term(l.load)
				ok, miss := everyDisjunctHas(d, []string{"(" + et + " != nil)"}, []string{"^!", "(" + et + " == nil)"})
				c.check(ok, "nil-consistency", construct, p.Pos(posOf(r, fn)), "element of a sparse unit slice is dereferenced only under a nil test", "element "+et+" of a slice whose entries may be nil (absent shards) is dereferenced without a nil test: "+miss)
			}
		}
	}
	if n < 1 {
		c.und("nil-consistency", "consensus/propeller", "", "no dereference of sparse []*Unit elements found")
	}
	c.needFixture("nil-consistency")
}

func c19LeafAgreement(c *Ctx) {
	p := c.P
	v := p.Func("consensus/propeller", "UnitValidator", "verifyDataShards")
	cr := p.Func("consensus/propeller", "", "CreatePropellerUnits")
	if v == nil || cr == nil {
		c.und("leaf-agreement", "verifyDataShards/CreatePropellerUnits", "", "anchor not found")
		return
	}
	// producer: merkle.New(X) and the units carry ShardData = []Shard{X[i]}
	mn := findSite(cr, "merkle.New")
	ver := findSite(v, "Verify")
	if mn == nil || ver == nil {
		c.und("leaf-agreement", "merkle.New / Proof.Verify", "", "call not found")
		return
	}
	prodRaw := strings.Contains(term(mn.Args()[0]), "EncodeData(")
	leaf := term(ver.Args()[2])
	verRaw := strings.Contains(leaf, ".ShardData[0") && !strings.Contains(leaf, "MarshalProto")
	c.check(!prodRaw || verRaw, "leaf-agreement", "UnitValidator.verifyDataShards vs CreatePropellerUnits", p.Pos(ver.Pos()),
		"the validator verifies the same leaf bytes the producer hashed", "producer and reconstructor build the Merkle tree over the raw shards ("+shortTerm(mn.Args()[0])+") but the validator verifies the proof against "+leaf+": honest units do not validate")
}

func c19UnitComplete(c *Ctx) {
	p := c.P
	// fields read by the validator
	read := map[string]bool{}
	for _, fn := range p.sortedFuncs() {
		if pkgRelOf(fn) != "consensus/propeller" || fn.Signature.Recv() == nil || !isNamed(fn.Signature.Recv().Type(), "consensus/propeller", "UnitValidator") {
			continue
		}
		allInstrs(fn, func(in ssa.Instruction) {
			if fa, ok := in.(*ssa.FieldAddr); ok && isNamed(fa.X.Type(), "consensus/propeller", "Unit") {
				read[fieldName(fa.X.Type(), fa.Field)] = true
			}
		})
	}
	if len(read) < 6 {
		c.und("unit-complete", "UnitValidator reads", "", fmt.Sprintf("only %d Unit fields read by the validator", len(read)))
	}
	n := 0
	for _, fn := range p.sortedFuncs() {
		if pkgRelOf(fn) != "consensus/propeller" {
			continue
		}
		allInstrs(fn, func(in ssa.Instruction) {
			a, ok := in.(*ssa.Alloc)
			if !ok || !isNamed(a.Type(), "consensus/propeller", "Unit") {
				return
			}
			pt, _ := a.Type().Underlying().(*types.Pointer)
			if pt == nil {
				return
			}
			if _, isStruct := pt.Elem().Underlying().(*types.Struct); !isStruct {
				return
			}
			set := map[string]bool{}
			nst := 0
			if refs := a.Referrers(); refs != nil {
				for _, r := range *refs {
					if fa, ok := r.(*ssa.FieldAddr); ok {
						if rr := fa.Referrers(); rr != nil {
							for _, u := range *rr {
								if st, ok := u.(*ssa.Store); ok && st.Addr == ssa.Value(fa) {
									set[fieldName(fa.X.Type(), fa.Field)] = true
									nst++
								}
							}
						}
					}
				}
			}
			if nst < 3 { // not a composite literal (zero value / copy target)
				return
			}
			n++
			var missing []string
			for f := range read {
				if !set[f] {
					missing = append(missing, f)
				}
			}
			c.check(len(missing) == 0, "unit-complete", "Unit literal in "+qname(fn), p.Pos(posOf(in, fn)), "sets every field the validator reads", "Unit is built without "+strings.Join(missing, ", ")+", which UnitValidator reads: receivers would verify against the zero value")
		})
	}
	if n < 2 {
		c.und("unit-complete", "Unit literals", "", fmt.Sprintf("only %d Unit literals found", n))
	}
}

func c19ValidateOrder(c *Ctx) {
	p := c.P
	f := p.Func("consensus/propeller", "UnitValidator", "Validate")
	if f == nil {
		c.und("validate-order", "UnitValidator.Validate", "", "anchor not found")
		return
	}
	n := 0
	allInstrs(f, func(in ssa.Instruction) {
		var target ssa.Value
		switch x := in.(type) {
		case *ssa.MapUpdate:
			target = x.Map
		case *ssa.Store:
			if ia, ok := x.Addr.(*ssa.IndexAddr); ok {
				target = ia.X
			}
		}
		if target == nil || !strings.HasSuffix(term(target), "v.receivedShards") {
			return
		}
		n++
		d := p.mustHoldAt(in)
		for _, need := range [][]string{
			{"^!", "ValidateShardOrigin(", "!= nil"},
			{"^!", "verifyDataShards(", "!= nil"},
			{"^!", "verifySignature(", "!= nil"},
		} {
			ok, miss := everyDisjunctHas(d, need)
			c.check(ok, "validate-order", "Validate: receivedShards ← after "+need[1], p.Pos(posOf(in, f)), "recorded only after the check passed", "a shard is recorded as received although "+need[1]+"…) did not pass: "+miss)
		}
		okd, miss := everyDisjunctHas(d, []string{"^!", "v.receivedShards[", "#1"}, []string{"^!", "v.receivedShards["})
		c.check(okd, "validate-order", "Validate: duplicate index rejected", p.Pos(posOf(in, f)), "recorded only if not seen before", "duplicate shard index is not rejected before recording: "+miss)
	})
	if n == 0 {
		c.und("validate-order", "Validate", p.Pos(fnPos(f)), "recording of the received shard not found")
	}
	// attacker-controlled index: no slice/array indexing by a received unit's ShardIndex before the origin check
	for _, fn := range p.sortedFuncs() {
		if pkgRelOf(fn) != "consensus/propeller" {
			continue
		}
		allInstrs(fn, func(in ssa.Instruction) {
			var idx, base ssa.Value
			switch x := in.(type) {
			case *ssa.IndexAddr:
				idx, base = x.Index, x.X
			case *ssa.Index:
				idx, base = x.Index, x.X
			default:
				return
			}
			if !strings.Contains(term(idx), ".ShardIndex") {
				return
			}
			if _, isMap := base.Type().Underlying().(*types.Map); isMap {
				return
			}
			d := p.mustHoldAt(in)
			ok, miss := everyDisjunctHas(d, []string{"^!", "ValidateShardOrigin(", "!= nil"}, []string{"^!", "Validate(", "!= nil"}, []string{".ShardIndex", " < "}, []string{"^!", ".ShardIndex", " >= "})
			c.check(ok, "validate-order", "index by ShardIndex in "+qname(fn), p.Pos(posOf(in, fn)), "only after the origin/range check of the shard index", "a slice is indexed by the received unit's ShardIndex before that index was validated (out-of-range index ⇒ panic in the processor goroutine): "+miss)
		})
	}
}
