package main

import (
	"fmt"
	"go/constant"
	"go/token"
	"go/types"
	"sort"
	"strings"

	"golang.org/x/tools/go/ssa"
)

func isUnitPtrSlice(t types.Type) bool {
	s, ok := t.Underlying().(*types.Slice)
	if !ok {
		return false
	}
	p, ok := s.Elem().Underlying().(*types.Pointer)
	return ok && isNamed(p.Elem(), "consensus/propeller", "Unit")
}

func init() {
	register("C19", func(c *Ctx) {
		p := c.P
		c.Explain = "Structural conditions of the erasure-coded broadcast decided on SSA: (nil-consistency) elements of sparse []*Unit slices (made with a length and filled by index, or nil-tested somewhere) are dereferenced only under a nil test — Engler's null-consistency rule; (leaf-agreement) the Merkle leaf bytes the validator verifies are the bytes the producer/reconstructor hashed; (unit-complete) every Unit literal sets every field the validator reads; " +
			"(validate-order) a shard is recorded as received only after duplicate, origin, Merkle and signature checks passed, and no slice is indexed by the attacker-controlled shard index before the origin check; (root-before-unpad) the message is unpadded/returned only under recomputed root == announced root; (pad-prefix) the writer places the message at the offset binary.PutUvarint returned, matching the reader's binary.Uvarint; (pad-arith) no unsigned underflow in padding/sharding; (merkle-domains, merkle-orientation) leaf and node preimages are domain-separated by tags neither of which prefixes the other, the verifier starts from the leaf hash, puts the running hash left on even index bits and right on odd ones exactly as merkle.New pairs (i, i+1) with sibling ancestor^1, and returns true only for recomputed root == claimed root; (sign-agreement) signer and verifier build the payload from the same (root, committee, nonce) triple, all three are in the payload, and a signature is accepted only after pubKey.Verify succeeded; (rs-verify) recovered shards are returned only after Reconstruct succeeded and the parity check reported them consistent. " +
			"Not decided: bit-exact reconstruction for all subsets (Reed–Solomon algebra)."
		c19NilConsistency(c)
		c19LeafAgreement(c)
		c19Merkle(c)
		c19OriginRule(c)
		c19ValidatorDiscipline(c)
		c19VerdictMemo(c)
		memoKeyRule(c, "memo-key", func(pk string) bool { return strings.HasPrefix(pk, "consensus/propeller") })
		c19UnitComplete(c)
		c19ValidateOrder(c)
		c19UntrustedLength(c)
		c19WireIndexGuarded(c)
		// root-before-unpad
		if f := p.Func("consensus/propeller", "", "ConstructMessageFromUnits"); f != nil {
			// the body may live in an unexported worker the exported function delegates to: re-anchor on the function that
			// actually calls UnpadMessage
			if dss := p.deepSites(f, nameMatcher("UnpadMessage"), 2); len(dss) > 0 && dss[0].Site.Instr.Parent() != f {
				if g := rootOf(dss[0].Site.Instr.Parent()); p.calledOnlyFrom(g, "ConstructMessageFromUnits", 0) {
					f = g
				}
			}
			un := findSite(f, "UnpadMessage")
			if un == nil {
				c.viol("root-before-unpad", "ConstructMessageFromUnits", p.Pos(fnPos(f)), "UnpadMessage is no longer called")
			} else {
				ok, miss := everyDisjunctHas(p.mustHoldAt(un.Instr), []string{"^!", "essageRoot != ", "xpectedRoot"}, []string{"essageRoot == ", "xpectedRoot"})
				c.check(ok, "root-before-unpad", "ConstructMessageFromUnits → UnpadMessage", p.Pos(un.Pos()), "only after the recomputed Merkle root matched the announced one", "the message is unpadded/returned without comparing the recomputed root with the announced root: "+miss)
			}
			// recomputed root comes from merkle.New over the recovered shards
			mn := findSite(f, "merkle.New")
			rc := findSite(f, "RecoverData")
			c.check(mn != nil && rc != nil && dominatesInstr(rc.Instr, mn.Instr) && strings.Contains(term(mn.Args()[0]), "RecoverData("), "root-before-unpad", "ConstructMessageFromUnits: root over recovered shards", p.Pos(fnPos(f)), "merkle.New(RecoverData(...))", "the expected root is not computed over the recovered shards")
		} else {
			c.und("root-before-unpad", "ConstructMessageFromUnits", "", "anchor not found")
		}
		// pad-prefix
		if f := p.Func("consensus/propeller", "", "PadMessage"); f != nil {
			ok := false
			for _, s := range sitesOf(f) {
				if s.CalleeName() != "builtin:copy" {
					continue
				}
				dst, src := s.Args()[0], s.Args()[1]
				if _, isParam := src.(*ssa.Parameter); !isParam {
					continue
				}
				if sl, isSl := dst.(*ssa.Slice); isSl && sl.Low != nil {
					lt := term(sl.Low)
					ok = strings.Contains(lt, "binary.PutUvarint(") || strings.Contains(lt, "len(binary.AppendUvarint(") || c19FromEncoder(f, sl.Low)
					c.check(ok, "pad-prefix", "PadMessage: message offset", p.Pos(s.Pos()), "message copied at the offset returned by binary.PutUvarint", "the message is placed at offset "+lt+", not at the length binary.PutUvarint reported: the reader (binary.Uvarint) would cut at a different offset for some lengths")
				}
			}
			if !ok {
				c.und("pad-prefix", "PadMessage", p.Pos(fnPos(f)), "copy(result[prefixLen:], msg) not recognised")
			}
			// the buffer is sized with the same prefix length the encoder reported: a second, hand-rolled computation of the
			// varint length (seeded changes C19-B and C19-L) that is one short at a 7-bit boundary makes the buffer one byte
			// too small for messages that already fill it, and copy() silently drops the last byte
			nMk := 0
			allInstrs(f, func(in ssa.Instruction) {
				mk, isMk := in.(*ssa.MakeSlice)
				if !isMk {
					return
				}
				nMk++
				lt := termInlDeep(p, mk.Len)
				okLen := strings.Contains(lt, "binary.PutUvarint(") || strings.Contains(lt, "binary.AppendUvarint(") || c19FromEncoder(f, mk.Len)
				c.check(okLen, "pad-prefix", "PadMessage: buffer size", p.Pos(posOf(in, f)), "the padded length is computed from the prefix length binary.PutUvarint/AppendUvarint reported", "the padded buffer is sized from a prefix length that does not come from the varint encoder ("+clip(lt, 160)+"): writer and sizing can disagree at a 7-bit boundary and the message tail is cut off")
			})
			if nMk == 0 {
				c.und("pad-prefix", "PadMessage: buffer size", p.Pos(fnPos(f)), "allocation of the padded buffer not found")
			}
		} else {
			c.und("pad-prefix", "PadMessage", "", "anchor not found")
		}
		if f := p.Func("consensus/propeller", "", "UnpadMessage"); f != nil {
			ok := false
			for _, ret := range returnsOf(f) {
				if sl, isSl := ret.Results[0].(*ssa.Slice); isSl && sl.Low != nil && strings.Contains(term(sl.Low), "binary.Uvarint(") {
					d := p.mustHoldAt(ret.Ret)
					o1, _ := everyDisjunctHas(d, []string{"^!", " > ", "len(padded)"})
					o2, _ := everyDisjunctHas(d, []string{"^!", "#1 <= 0"})
					ok = o1 && o2
				}
			}
			if !ok {
				// the decoding may sit in a same-package helper: then the helper's success returns carry the positivity test of
				// the prefix size, and UnpadMessage's success return the comparison of the decoded length with the bytes at hand
				for _, h := range samePkgScope(f, 1) {
					if h == f || findSite(h, "Uvarint") == nil {
						continue
					}
					okPos := true
					for _, hr := range returnsOf(h) {
						if len(hr.Results) == 0 || !isNilConst(hr.Results[len(hr.Results)-1]) {
							continue
						}
						if o, _ := everyDisjunctHas(p.mustHoldAt(hr.Ret), []string{"^!", "#1 <= 0"}, []string{"#1 > 0"}, []string{"0 < ", "#1"}); !o {
							okPos = false
						}
					}
					okLen := false
					for _, ret := range returnsOf(f) {
						if len(ret.Results) < 2 || !isNilConst(ret.Results[1]) {
							continue
						}
						if o, _ := everyDisjunctHas(p.mustHoldAt(ret.Ret), []string{"^!", "len(", " < "}, []string{"^!", " > ", "len("}, []string{"len(", " >= "}, []string{" <= ", "len("}); o {
							okLen = true
						}
					}
					if okPos && okLen {
						ok = true
					}
				}
			}
			c.check(ok, "pad-prefix", "UnpadMessage: bounds", p.Pos(fnPos(f)), "slices at the varint length after checking it is positive and that prefix+len fits", "UnpadMessage no longer validates the varint prefix / length before slicing")
		}
		// pad-arith
		c.usubRule("pad-arith", func(fn *ssa.Function) bool {
			if pkgRelOf(fn) != "consensus/propeller" {
				return false
			}
			file := p.File(fnPos(fn))
			return strings.HasSuffix(file, "/padding.go") || strings.HasSuffix(file, "/sharding.go") || strings.HasSuffix(file, "/scheduler.go")
		}, nil)
	})
}

func c19NilConsistency(c *Ctx) {
	p := c.P
	n := 0
	for _, fn := range p.sortedFuncs() {
		if pkgRelOf(fn) != "consensus/propeller" || fn.Origin() != nil {
			continue
		}
		// element loads from []*Unit slices
		type eload struct {
			load  *ssa.UnOp
			slice ssa.Value
		}
		var loads []eload
		sparse := map[ssa.Value]bool{}
		allInstrs(fn, func(in ssa.Instruction) {
			if ms, ok := in.(*ssa.MakeSlice); ok && isUnitPtrSlice(ms.Type()) {
				sparse[ms] = true
			}
			u, ok := in.(*ssa.UnOp)
			if !ok || u.Op != token.MUL {
				return
			}
			ia, ok := u.X.(*ssa.IndexAddr)
			if !ok || !isUnitPtrSlice(ia.X.Type()) {
				return
			}
			loads = append(loads, eload{u, ia.X})
		})
		// range over the slice yields elements via Next/Extract for maps only; slices use IndexAddr: covered.
		// a slice is sparse if some element of it is nil-tested in this function
		for _, l := range loads {
			if refs := l.load.Referrers(); refs != nil {
				for _, r := range *refs {
					if b, ok := r.(*ssa.BinOp); ok && (isNilConst(b.X) || isNilConst(b.Y)) {
						sparse[l.slice] = true
					}
				}
			}
		}
		// parameters that receive a sparse slice from some caller
		for _, par := range fn.Params {
			if !isUnitPtrSlice(par.Type()) {
				continue
			}
			for _, s := range p.callersOf(fn) {
				for i, q := range fn.Params {
					if q == par && i < len(s.Args()) {
						if _, isMake := s.Args()[i].(*ssa.MakeSlice); isMake {
							sparse[par] = true
						}
					}
				}
			}
		}
		for _, l := range loads {
			if !sparse[l.slice] {
				continue
			}
			refs := l.load.Referrers()
			if refs == nil {
				continue
			}
			for _, r := range *refs {
				deref := false
				switch x := r.(type) {
				case *ssa.FieldAddr:
					deref = x.X == ssa.Value(l.load)
				case *ssa.UnOp:
					deref = x.Op == token.MUL && x.X == ssa.Value(l.load)
				}
				if !deref {
					continue
				}
				n++
				construct := fmt.Sprintf("%s: %s", qname(fn), shortTerm(l.load))
				d := p.mustHoldAt(r)
				et := term(l.load)
				ok, miss := everyDisjunctHas(d, []string{"(" + et + " != nil)"}, []string{"^!", "(" + et + " == nil)"})
				c.check(ok, "nil-consistency", construct, p.Pos(posOf(r, fn)), "element of a sparse unit slice is dereferenced only under a nil test", "element "+et+" of a slice whose entries may be nil (absent shards) is dereferenced without a nil test: "+miss)
			}
		}
	}
	if n < 1 {
		c.und("nil-consistency", "consensus/propeller", "", "no dereference of sparse []*Unit elements found")
	}
	c.needFixture("nil-consistency")
}

func c19LeafAgreement(c *Ctx) {
	p := c.P
	v := p.Func("consensus/propeller", "UnitValidator", "verifyDataShards")
	if v == nil {
		// by role: the function of the package that hands a unit's shard to merkle's Proof.Verify
		for _, g := range p.sortedFuncs() {
			if pkgRelOf(g) != "consensus/propeller" || g.Origin() != nil || strings.HasSuffix(p.Pos(fnPos(g)), "_test.go") || p.InFixture(fnPos(g)) {
				continue
			}
			for _, s2 := range sitesOf(g) {
				if s2.Callee != nil && s2.Callee.Name() == "Verify" && strings.Contains(qname(s2.Callee), "merkle") {
					v = g
				}
			}
		}
	}
	cr := p.Func("consensus/propeller", "", "CreatePropellerUnits")
	if v == nil || cr == nil {
		c.und("leaf-agreement", "verifyDataShards/CreatePropellerUnits", "", "anchor not found")
		return
	}
	// producer: merkle.New(X) and the units carry ShardData = []Shard{X[i]}
	mn := findSite(cr, "merkle.New")
	ver := findSite(v, "Verify")
	if mn == nil || ver == nil {
		c.und("leaf-agreement", "merkle.New / Proof.Verify", "", "call not found")
		return
	}
	prodRaw := strings.Contains(term(mn.Args()[0]), "EncodeData(")
	leaf := term(ver.Args()[2])
	verRaw := strings.Contains(leaf, ".ShardData[0") && !strings.Contains(leaf, "MarshalProto")
	c.check(!prodRaw || verRaw, "leaf-agreement", "UnitValidator.verifyDataShards vs CreatePropellerUnits", p.Pos(ver.Pos()),
		"the validator verifies the same leaf bytes the producer hashed", "producer and reconstructor build the Merkle tree over the raw shards ("+shortTerm(mn.Args()[0])+") but the validator verifies the proof against "+leaf+": honest units do not validate")
}

func c19UnitComplete(c *Ctx) {
	p := c.P
	// fields read by the validator
	read := map[string]bool{}
	for _, fn := range p.sortedFuncs() {
		if pkgRelOf(fn) != "consensus/propeller" || fn.Signature.Recv() == nil || !isNamed(fn.Signature.Recv().Type(), "consensus/propeller", "UnitValidator") {
			continue
		}
		allInstrs(fn, func(in ssa.Instruction) {
			if fa, ok := in.(*ssa.FieldAddr); ok && isNamed(fa.X.Type(), "consensus/propeller", "Unit") {
				read[fieldName(fa.X.Type(), fa.Field)] = true
			}
		})
	}
	if len(read) < 6 {
		c.und("unit-complete", "UnitValidator reads", "", fmt.Sprintf("only %d Unit fields read by the validator", len(read)))
	}
	n := 0
	for _, fn := range p.sortedFuncs() {
		if pkgRelOf(fn) != "consensus/propeller" {
			continue
		}
		allInstrs(fn, func(in ssa.Instruction) {
			a, ok := in.(*ssa.Alloc)
			if !ok || !isNamed(a.Type(), "consensus/propeller", "Unit") {
				return
			}
			pt, _ := a.Type().Underlying().(*types.Pointer)
			if pt == nil {
				return
			}
			if _, isStruct := pt.Elem().Underlying().(*types.Struct); !isStruct {
				return
			}
			set := map[string]bool{}
			nst := 0
			if refs := a.Referrers(); refs != nil {
				for _, r := range *refs {
					if fa, ok := r.(*ssa.FieldAddr); ok {
						if rr := fa.Referrers(); rr != nil {
							for _, u := range *rr {
								if st, ok := u.(*ssa.Store); ok && st.Addr == ssa.Value(fa) {
									set[fieldName(fa.X.Type(), fa.Field)] = true
									nst++
								}
							}
						}
					}
				}
			}
			if nst < 3 { // not a composite literal (zero value / copy target)
				return
			}
			n++
			var missing []string
			for f := range read {
				if !set[f] {
					missing = append(missing, f)
				}
			}
			c.check(len(missing) == 0, "unit-complete", "Unit literal in "+qname(fn), p.Pos(posOf(in, fn)), "sets every field the validator reads", "Unit is built without "+strings.Join(missing, ", ")+", which UnitValidator reads: receivers would verify against the zero value")
		})
	}
	if n < 2 {
		c.und("unit-complete", "Unit literals", "", fmt.Sprintf("only %d Unit literals found", n))
	}
}

func c19ValidateOrder(c *Ctx) {
	p := c.P
	f := p.Func("consensus/propeller", "UnitValidator", "Validate")
	if f == nil {
		c.und("validate-order", "UnitValidator.Validate", "", "anchor not found")
		return
	}
	n := 0
	// the three checks by role, not by name: the same-package functions that (transitively) reach the primitive of the role
	roleNames := func(prim func(Site) bool) []string {
		var out []string
		for _, g := range p.sortedFuncs() {
			if pkgRelOf(g) != "consensus/propeller" || g.Origin() != nil || len(g.Blocks) == 0 {
				continue
			}
			if len(p.deepSites(g, prim, 2)) > 0 || func() bool {
				for _, s := range sitesOf(g) {
					if prim(s) {
						return true
					}
				}
				return false
			}() {
				out = append(out, g.Name()+"(")
			}
		}
		return out
	}
	roles := []struct {
		what  string
		names []string
	}{
		{"the origin check (ValidateShardOrigin)", append(roleNames(nameMatcher("ValidateShardOrigin")), "ValidateShardOrigin(")},
		{"the Merkle proof check (Proof.Verify)", roleNames(func(s Site) bool {
			return s.Callee != nil && s.Callee.Name() == "Verify" && strings.Contains(qname(s.Callee), "merkle")
		})},
		{"the signature check (VerifyMessageSignature)", append(roleNames(nameMatcher("VerifyMessageSignature")), "VerifyMessageSignature(")},
	}
	for _, di := range p.deepInstrs(f, 2) {
		in := di.In
		var target ssa.Value
		switch x := in.(type) {
		case *ssa.MapUpdate:
			target = x.Map
		case *ssa.Store:
			if ia, ok := x.Addr.(*ssa.IndexAddr); ok {
				target = ia.X
			}
		}
		if target == nil || !strings.HasSuffix(term(target), ".receivedShards") {
			continue
		}
		n++
		d := p.mustHoldAt(in)
		if len(di.Chain) > 0 {
			d = p.mustHoldChain(in, di.Chain)
		}
		for _, role := range roles {
			var alts [][]string
			for _, nm := range role.names {
				alts = append(alts, []string{"^!", nm, "!= nil"})
			}
			ok, miss := everyDisjunctHas(d, alts...)
			c.check(ok && len(alts) > 0, "validate-order", "Validate: receivedShards ← after "+role.what, p.Pos(posOf(in, in.Parent())), "recorded only after the check passed", "a shard is recorded as received although "+role.what+" did not pass: "+clip(miss, 200))
		}
		okd, miss := everyDisjunctHas(d, []string{"^!", ".receivedShards[", "#1"}, []string{"^!", ".receivedShards["}, []string{"^!", "hasReceived("}, []string{"^!", "eceived("})
		c.check(okd, "validate-order", "Validate: duplicate index rejected", p.Pos(posOf(in, in.Parent())), "recorded only if not seen before", "duplicate shard index is not rejected before recording: "+clip(miss, 200))
	}
	if n == 0 {
		c.und("validate-order", "Validate", p.Pos(fnPos(f)), "recording of the received shard not found")
	}
	// attacker-controlled index: no slice/array indexing by a received unit's ShardIndex before the origin check
	for _, fn := range p.sortedFuncs() {
		if pkgRelOf(fn) != "consensus/propeller" {
			continue
		}
		allInstrs(fn, func(in ssa.Instruction) {
			var idx, base ssa.Value
			switch x := in.(type) {
			case *ssa.IndexAddr:
				idx, base = x.Index, x.X
			case *ssa.Index:
				idx, base = x.Index, x.X
			default:
				return
			}
			if !strings.Contains(term(idx), ".ShardIndex") {
				return
			}
			if _, isMap := base.Type().Underlying().(*types.Map); isMap {
				return
			}
			d := p.mustHoldAt(in)
			ok, miss := everyDisjunctHas(d, []string{"^!", "ValidateShardOrigin(", "!= nil"}, []string{"^!", "Validate(", "!= nil"}, []string{".ShardIndex", " < "}, []string{"^!", ".ShardIndex", " >= "})
			c.check(ok, "validate-order", "index by ShardIndex in "+qname(fn), p.Pos(posOf(in, fn)), "only after the origin/range check of the shard index", "a slice is indexed by the received unit's ShardIndex before that index was validated (out-of-range index ⇒ panic in the processor goroutine): "+miss)
		})
	}
}

// c19Merkle: producer (merkle.New) and verifier (Proof.Verify) of the shard tree agree on leaf/node domains and on
// left/right orientation; signer and verifier of the message root build the same payload; recovered shards are returned
// only after the Reed–Solomon parity check.
func c19Merkle(c *Ctx) {
	p := c.P
	// domain separation: constant evaluation
	mp := p.ByPath[modPath+"/consensus/propeller/merkle"]
	if mp == nil {
		c.und("merkle-domains", "package merkle", "", "package not found")
		return
	}
	constStr := func(name string) (string, bool) {
		o := mp.Types.Scope().Lookup(name)
		k, ok := o.(*types.Const)
		if !ok || k.Val().Kind() != constant.String {
			return "", false
		}
		return constant.StringVal(k.Val()), true
	}
	lo, ok1 := constStr("leafOpenTag")
	no, ok2 := constStr("nodeOpenTag")
	if !ok1 || !ok2 {
		c.und("merkle-domains", "leafOpenTag/nodeOpenTag", "", "tag constants not found")
	} else {
		sep := lo != "" && no != "" && !strings.HasPrefix(lo, no) && !strings.HasPrefix(no, lo)
		c.check(sep, "merkle-domains", "leaf vs node tag", "", fmt.Sprintf("leaf preimages start with %q, node preimages with %q: neither is a prefix of the other", lo, no), "leaf and node hashes are no longer domain-separated: an interior node can be presented as a leaf (second-preimage forgery of shard data)")
	}
	lh := p.Func("consensus/propeller/merkle", "", "merkleLeafHash")
	nh := p.Func("consensus/propeller/merkle", "", "merkleNodeHash")
	ver := p.Func("consensus/propeller/merkle", "Proof", "Verify")
	mk := p.Func("consensus/propeller/merkle", "", "New")
	if lh == nil || nh == nil || ver == nil || mk == nil {
		c.und("merkle-domains", "merkle functions", "", "anchor not found")
		return
	}
	// copies into the preimage buffer, in order
	copyOrder := func(f *ssa.Function) []string {
		var out []string
		for _, s := range sitesOf(f) {
			if s.CalleeName() == "builtin:copy" {
				out = append(out, term(s.Args()[1]))
			}
		}
		return out
	}
	lc := strings.Join(copyOrder(lh), " | ")
	c.check(strings.Contains(lc, "leafOpen") && strings.Contains(lc, "data") && strings.Contains(lc, "leafClose") && strings.Index(lc, "leafOpen") < strings.Index(lc, "data") && strings.Index(lc, "data") < strings.Index(lc, "leafClose"),
		"merkle-domains", "merkleLeafHash preimage", p.Pos(fnPos(lh)), "leafOpen ‖ data ‖ leafClose", "leaf preimage is built as "+lc)
	nc := strings.Join(copyOrder(nh), " | ")
	iO, iL, iM, iR, iC := strings.Index(nc, "nodeOpen"), strings.Index(nc, "left"), strings.Index(nc, "nodeMid"), strings.Index(nc, "right"), strings.Index(nc, "nodeClose")
	c.check(iO >= 0 && iO < iL && iL < iM && iM < iR && iR < iC, "merkle-domains", "merkleNodeHash preimage", p.Pos(fnPos(nh)), "nodeOpen ‖ left ‖ nodeMid ‖ right ‖ nodeClose", "node preimage is built as "+nc)
	// verifier orientation
	nOr := 0
	for _, s := range sitesOf(ver) {
		if s.Callee != nh {
			continue
		}
		nOr++
		d := p.mustHoldAt(s.Instr)
		even, _ := everyDisjunctHas(d, []string{"% 2) == 0)"})
		a0, a1 := term(s.Args()[0]), term(s.Args()[1])
		curFirst := strings.Contains(a0, "current") && strings.Contains(a1, "Siblings")
		sibFirst := strings.Contains(a0, "Siblings") && strings.Contains(a1, "current")
		c.check((even && curFirst) || (!even && sibFirst), "merkle-orientation", fmt.Sprintf("Proof.Verify arm even=%v", even), p.Pos(s.Pos()), "even index ⇒ current is the left child; odd ⇒ the right child", "the verifier hashes ("+a0+", "+a1+") on the arm where the index bit is "+map[bool]string{true: "0", false: "1"}[even]+": it no longer mirrors the tree built by merkle.New")
	}
	c.check(nOr == 2, "merkle-orientation", "Proof.Verify arms", p.Pos(fnPos(ver)), "two node-hash arms selected by the index bit", fmt.Sprintf("%d node-hash arms found", nOr))
	if s := findSite(ver, "merkleLeafHash"); s != nil {
		c.check(term(s.Args()[0]) == "leaf", "merkle-orientation", "Proof.Verify leaf", p.Pos(s.Pos()), "path starts from the leaf hash of the presented data", "verification no longer starts from merkleLeafHash(leaf)")
	} else {
		c.viol("merkle-orientation", "Proof.Verify leaf", p.Pos(fnPos(ver)), "verification no longer starts from merkleLeafHash(leaf)")
	}
	for _, ret := range returnsOf(ver) {
		d := p.boolDNF(ret.Results[0], true)
		ok, miss := everyDisjunctHas(d, []string{"current == *root"}, []string{"*root == ", "current"})
		c.check(ok && len(d) > 0, "merkle-orientation", "Proof.Verify result", p.Pos(posOf(ret.Ret, ver)), "true only if the recomputed root equals the claimed root", "Verify can return true without the recomputed root matching: "+miss)
	}
	// producer orientation
	okPair, okSib := false, false
	for _, s := range sitesOf(mk) {
		if s.Callee == nh {
			a0, a1 := term(s.Args()[0]), term(s.Args()[1])
			okPair = strings.Contains(a1, "+ 1)]") && !strings.Contains(a0, "+ 1)]")
		}
	}
	allInstrs(mk, func(in ssa.Instruction) {
		if b, ok := in.(*ssa.BinOp); ok && b.Op == token.XOR {
			if k, isK := b.Y.(*ssa.Const); isK && k.Value != nil && k.Int64() == 1 {
				okSib = true
			}
		}
	})
	c.check(okPair && okSib, "merkle-orientation", "merkle.New", p.Pos(fnPos(mk)), "parent = H(layer[i], layer[i+1]); proof sibling = layer[ancestor ^ 1]", "merkle.New no longer pairs (i, i+1) / records the sibling at ancestor^1")
	// signature payload agreement
	bs := p.Func("consensus/propeller", "", "buildSignPayload")
	sg := p.Func("consensus/propeller", "", "SignMessage")
	vf := p.Func("consensus/propeller", "", "VerifyMessageSignature")
	if bs == nil || sg == nil || vf == nil {
		c.und("sign-agreement", "signing functions", "", "anchor not found")
	} else {
		for _, f := range []*ssa.Function{sg, vf} {
			s := findSite(f, "buildSignPayload")
			ok := s != nil && term(s.Args()[0]) == "root" && term(s.Args()[1]) == "committeeID" && term(s.Args()[2]) == "nonce"
			c.check(ok, "sign-agreement", qname(f)+" payload", p.Pos(fnPos(f)), "payload = buildSignPayload(root, committeeID, nonce)", "signer and verifier no longer build the payload from the same (root, committee, nonce) triple")
		}
		srcs := strings.Join(copyOrder(bs), " | ")
		hasNonce := false
		for _, s := range sitesOf(bs) {
			if strings.HasSuffix(s.CalleeName(), "PutUint64") && strings.Contains(term(s.Args()[len(s.Args())-1]), "nonce") {
				hasNonce = true
			}
		}
		// by flow, whatever the encoder looks like (copy + PutUint64, append + AppendUint64 …): the returned payload is computed from
		// each of the three parameters
		flowAll := len(bs.Params) >= 3
		if flowAll {
			reach := map[ssa.Value]bool{}
			for _, r := range returnsOf(bs) {
				for _, res := range r.Results {
					for v := range backSlice(res) {
						reach[v] = true
					}
				}
			}
			for _, pa := range bs.Params[:3] {
				if !reach[pa] {
					flowAll = false
				}
			}
		}
		c.check((strings.Contains(srcs, "root") && strings.Contains(srcs, "committeeID") && hasNonce) || flowAll, "sign-agreement", "buildSignPayload fields", p.Pos(fnPos(bs)), "root, committee id and nonce are all part of the signed payload", "the signed payload no longer binds root, committee id and nonce ("+srcs+")")
		if s := findSite(vf, "Verify"); s != nil {
			for _, ret := range returnsOf(vf) {
				if !isNilConst(ret.Results[0]) {
					continue
				}
				d := p.mustHoldAt(ret.Ret)
				ok1, m1 := everyDisjunctHas(d, []string{"Verify(", "#0"})
				ok2, m2 := everyDisjunctHas(d, []string{"^!", "Verify(", "#1 != nil"})
				c.check(ok1 && ok2, "sign-agreement", "VerifyMessageSignature accepts", p.Pos(posOf(ret.Ret, vf)), "nil only if the key verified the signature without error", "a signature is accepted without a successful pubKey.Verify: "+m1+m2)
			}
		}
	}
	// Reed–Solomon: recovered shards leave RecoverData only after the parity check
	if rd := p.Func("consensus/propeller/reedsolomon", "", "RecoverData"); rd != nil {
		for _, ret := range returnsOf(rd) {
			if !isNilConst(ret.Results[1]) {
				continue
			}
			d := p.mustHoldAt(ret.Ret)
			ok1, m1 := everyDisjunctHas(d, []string{"Verify(shards)#0"})
			ok2, m2 := everyDisjunctHas(d, []string{"^!", "Reconstruct(shards) != nil"})
			c.check(ok1 && ok2, "rs-verify", "RecoverData success", p.Pos(posOf(ret.Ret, rd)), "shards are returned only after Reconstruct succeeded and Verify reported them consistent", "recovered shards are returned without the parity verification: "+m1+m2)
		}
	} else {
		c.und("rs-verify", "reedsolomon.RecoverData", "", "anchor not found")
	}
}

// c19OriginRule: ValidateShardOrigin accepts a unit only (a) from the publisher itself when the local peer is the
// designated broadcaster of that shard, or (b) from the designated broadcaster of that shard.
func c19OriginRule(c *Ctx) {
	p := c.P
	f := p.Func("consensus/propeller", "Scheduler", "ValidateShardOrigin")
	if f == nil {
		c.und("origin-rule", "Scheduler.ValidateShardOrigin", "", "anchor not found")
		return
	}
	c.saw(qname(f))
	n := 0
	for _, ret := range returnsOf(f) {
		if !isNilConst(ret.Results[0]) {
			continue
		}
		n++
		d := p.mustHoldAt(ret.Ret)
		okBase, m0 := everyDisjunctHas(d, []string{"^!", "PeerForShardIndex(", "#1 != nil)"})
		ok := okBase
		miss := m0
		for _, cj := range d {
			direct := cj.has("PeerForShardIndex(", "#0 == s.localPeerID)") && cj.has("(sender == publisher)")
			relayed := cj.has("PeerForShardIndex(", "#0 == sender)")
			if !direct && !relayed {
				ok = false
				miss = strings.Join(cj.list(), " ∧ ")
			}
		}
		c.check(ok && len(d) > 0, "origin-rule", fmt.Sprintf("ValidateShardOrigin accepts #%d", n), p.Pos(posOf(ret.Ret, f)), "sender is the shard's designated broadcaster, or the publisher delivering the local peer's own shard", "a unit is accepted although its sender is neither the designated broadcaster of that shard nor the publisher handing the local peer its own shard: a publisher can push every shard to one victim, which then counts the message as widely received: "+miss)
	}
	if n == 0 {
		c.und("origin-rule", "ValidateShardOrigin", p.Pos(fnPos(f)), "no accepting return found")
	}
}

// c19ValidatorDiscipline: (signature-cache) the validator remembers a signature as verified only after the public-key check
// succeeded — caching first lets one forged unit poison the cache: later forged units are accepted without a key check and
// honest ones rejected.
// (Not decided: that every rejection reason of the validator is one an honest producer never triggers — e.g. an exact
// proof-length formula that disagrees with merkle.New's padding for a one-shard committee; that is arithmetic over n.)
func c19ValidatorDiscipline(c *Ctx) {
	p := c.P
	f := p.Func("consensus/propeller", "UnitValidator", "verifySignature")
	storesCache := func(g *ssa.Function) bool {
		found := false
		allInstrs(g, func(in ssa.Instruction) {
			if st, ok := in.(*ssa.Store); ok {
				if fa, ok := st.Addr.(*ssa.FieldAddr); ok && fieldName(fa.X.Type(), fa.Field) == "verifiedSignature" {
					found = true
				}
			}
		})
		return found
	}
	if f == nil || !storesCache(f) {
		// by role: the method of the package that remembers the verified signature
		for _, g := range p.sortedFuncs() {
			if pkgRelOf(g) == "consensus/propeller" && g.Origin() == nil && g.Signature.Recv() != nil && !strings.HasPrefix(g.Name(), "New") && !strings.HasSuffix(p.Pos(fnPos(g)), "_test.go") && !p.InFixture(fnPos(g)) && storesCache(g) {
				f = g
			}
		}
	}
	if f != nil {
		n := 0
		allInstrs(f, func(in ssa.Instruction) {
			st, ok := in.(*ssa.Store)
			if !ok {
				return
			}
			fa, ok := st.Addr.(*ssa.FieldAddr)
			if !ok || fieldName(fa.X.Type(), fa.Field) != "verifiedSignature" {
				return
			}
			n++
			okv, miss := everyDisjunctHas(p.mustHoldAt(in), []string{"^!", "VerifyMessageSignature(", "!= nil)"})
			vs := findSite(f, "VerifyMessageSignature")
			c.check(okv && vs != nil && dominatesInstr(vs.Instr, in), "signature-cache", "verifySignature: verifiedSignature", p.Pos(posOf(in, f)), "cached only after VerifyMessageSignature returned nil", "the signature is cached as verified before (or without) a successful public-key verification: one unit with a forged signature poisons the cache, later forged units pass by comparison and honest units are rejected: "+miss)
		})
		if n == 0 {
			c.und("signature-cache", "verifySignature", p.Pos(fnPos(f)), "store to verifiedSignature not found")
		}
	} else {
		c.und("signature-cache", "UnitValidator.verifySignature", "", "anchor not found")
	}
}

// c19UntrustedLength: a length decoded from received bytes (binary.Uvarint / binary.ReadUvarint) must be compared with
// something before it takes part in unsigned arithmetic: `prefix + len` wraps around for lengths close to 2^64, the bound
// check that follows passes and the slice expression panics (defect F20). Accepted: any comparison of the decoded value
// itself (or a conversion of it) that dominates the arithmetic.
func c19UntrustedLength(c *Ctx) {
	p := c.P
	n := 0
	for _, fn := range p.sortedFuncs() {
		if pkgRelOf(fn) != "consensus/propeller" && !strings.HasPrefix(pkgRelOf(fn), "consensus/propeller/") {
			continue
		}
		for _, s := range sitesOf(fn) {
			nm := s.CalleeName()
			if !strings.HasSuffix(nm, "binary.Uvarint") && !strings.HasSuffix(nm, "binary.ReadUvarint") {
				continue
			}
			call, ok := s.Instr.(*ssa.Call)
			if !ok {
				continue
			}
			var src ssa.Value
			if refs := call.Referrers(); refs != nil {
				for _, r := range *refs {
					if ex, ok := r.(*ssa.Extract); ok && ex.Index == 0 {
						src = ex
					}
				}
			}
			if src == nil {
				continue
			}
			n++
			// values that are the decoded length up to conversions
			same := map[ssa.Value]bool{src: true}
			for changed := true; changed; {
				changed = false
				allInstrs(fn, func(in ssa.Instruction) {
					switch x := in.(type) {
					case *ssa.Convert:
						if same[x.X] && !same[x] {
							same[x] = true
							changed = true
						}
					case *ssa.ChangeType:
						if same[x.X] && !same[x] {
							same[x] = true
							changed = true
						}
					}
				})
			}
			// comparisons of the decoded value
			var cmps []*ssa.BinOp
			allInstrs(fn, func(in ssa.Instruction) {
				if b, ok := in.(*ssa.BinOp); ok {
					switch b.Op {
					case token.LSS, token.LEQ, token.GTR, token.GEQ:
						if same[b.X] || same[b.Y] {
							cmps = append(cmps, b)
						}
					}
				}
			})
			bounded := func(in ssa.Instruction) bool {
				for _, cmp := range cmps {
					if refs := cmp.Referrers(); refs != nil {
						for _, r := range *refs {
							if iff, ok := r.(*ssa.If); ok && iff.Block() != in.Block() && iff.Block().Dominates(in.Block()) {
								return true
							}
						}
					}
				}
				return false
			}
			bad := ""
			var badPos token.Pos
			allInstrs(fn, func(in ssa.Instruction) {
				b, ok := in.(*ssa.BinOp)
				if !ok || !(same[b.X] || same[b.Y]) {
					return
				}
				switch b.Op {
				case token.ADD, token.MUL, token.SHL, token.SUB:
					if !bounded(b) {
						bad = term(b)
						badPos = b.Pos()
					}
				}
			})
			construct := qname(fn) + ": length from " + nm[strings.LastIndex(nm, "/")+1:]
			if bad != "" {
				c.viol("untrusted-length-arith", construct, p.Pos(badPos), "the decoded length takes part in "+bad+" before it was compared with anything: a length close to the type's maximum wraps around and the bound check that follows passes")
			} else {
				c.ok("untrusted-length-arith", construct, p.Pos(s.Pos()), "the decoded length is bounded by a comparison before any arithmetic on it")
			}
		}
	}
	if n == 0 {
		c.und("untrusted-length-arith", "consensus/propeller", "", "no binary.Uvarint decoding found")
	}
}

// c19WireIndexGuarded: in a function that converts a received protobuf message (a parameter of a type of the propeller
// proto package) every constant index into a slice and every slice→array conversion is dominated by a test of that
// slice's length: a wire unit with no shards or a short root must be an error, not a panic (defect F21).
func c19WireIndexGuarded(c *Ctx) {
	p := c.P
	n := 0
	for _, fn := range p.sortedFuncs() {
		if pkgRelOf(fn) != "consensus/propeller" || fn.Signature == nil {
			continue
		}
		wire := false
		for _, pa := range fn.Params {
			if strings.Contains(pa.Type().String(), "consensus/propeller/proto.") {
				wire = true
			}
		}
		if !wire {
			continue
		}
		lenGuarded := func(in ssa.Instruction, v ssa.Value) bool {
			t := term(v)
			for _, f := range factStrings(factsAt(in)) {
				if strings.Contains(f, "len("+t+")") {
					return true
				}
			}
			d := p.mustHoldAt(in)
			if ok, _ := everyDisjunctHas(d, []string{"len(" + t + ")"}); ok && len(d) > 0 {
				return true
			}
			return false
		}
		allInstrs(fn, func(in ssa.Instruction) {
			switch x := in.(type) {
			case *ssa.IndexAddr:
				if _, isSlice := x.X.Type().Underlying().(*types.Slice); !isSlice {
					return
				}
				if _, isConst := x.Index.(*ssa.Const); !isConst {
					return
				}
				n++
				c.check(lenGuarded(x, x.X), "wire-index-guarded", qname(fn)+": "+term(x.X)+"["+term(x.Index)+"]", p.Pos(posOf(x, fn)), "indexed only after the slice's length was tested", "a slice built from the received message is indexed with a constant without a preceding length test: an empty list panics instead of being rejected")
			case *ssa.SliceToArrayPointer:
				n++
				c.check(lenGuarded(x, x.X), "wire-index-guarded", qname(fn)+": array conversion of "+term(x.X), p.Pos(posOf(x, fn)), "converted to an array only after its length was tested", "received bytes are converted to a fixed-size array without a preceding length test: a short field panics instead of being rejected")
			}
		})
	}
	if n == 0 {
		c.und("wire-index-guarded", "consensus/propeller", "", "no wire conversion with constant index / array conversion found")
	}
}

func clip(s string, n int) string {
	if len(s) > n {
		return s[:n] + "…"
	}
	return s
}

// termInlDeep: term of v with φ arms spelled out (the padded length is `φ(unpadded | unpadded + (divisor − remainder))`).
func termInlDeep(p *Prog, v ssa.Value) string {
	seen := map[ssa.Value]bool{}
	var parts []string
	var walk func(v ssa.Value, d int)
	walk = func(v ssa.Value, d int) {
		if v == nil || seen[v] || d > 8 {
			return
		}
		seen[v] = true
		parts = append(parts, term(v))
		switch x := v.(type) {
		case *ssa.Phi:
			for _, e := range x.Edges {
				walk(e, d+1)
			}
		case *ssa.BinOp:
			walk(x.X, d+1)
			walk(x.Y, d+1)
		case *ssa.Convert:
			walk(x.X, d+1)
		case *ssa.ChangeType:
			walk(x.X, d+1)
		}
	}
	walk(v, 0)
	return strings.Join(parts, " ; ")
}

// c19VerdictMemo: (verdict-memo-key) the function that checks the publisher's signature (it calls crypto.PubKey.Verify)
// may answer from remembered verdicts only if the memory is keyed by everything the verdict depends on. Decided: every call
// on a package-level object (a cache, a set …) whose result steers a branch of that function receives arguments that depend on
// *all* the parameters the Verify call depends on (key, root, committee, nonce, signature). Seeded change C19-K remembers
// rejected signatures under sha256(key ‖ signature): a unit with a corrupted nonce, verified first, blacklists the
// publisher's genuine signature — every honest unit of the message is rejected afterwards.
func c19VerdictMemo(c *Ctx) {
	p := c.P
	n := 0
	for _, fn := range p.sortedFuncs() {
		if pkgRelOf(fn) != "consensus/propeller" || fn.Origin() != nil || strings.HasSuffix(p.Pos(fnPos(fn)), "_test.go") {
			continue
		}
		var verify *ssa.CallCommon
		var verifyInstr ssa.Instruction
		for _, s := range sitesOf(fn) {
			if s.Method != nil && s.Method.Name() == "Verify" && strings.HasSuffix(s.Method.Type().(*types.Signature).Recv().Type().String(), "crypto.PubKey") {
				verify, verifyInstr = s.Instr.Common(), s.Instr
			}
		}
		if verify == nil {
			continue
		}
		n++
		deps := func(v ssa.Value) map[*ssa.Parameter]bool {
			out := map[*ssa.Parameter]bool{}
			seen := map[ssa.Value]bool{}
			var walk func(v ssa.Value, d int)
			walk = func(v ssa.Value, d int) {
				if v == nil || seen[v] || d > 40 {
					return
				}
				seen[v] = true
				switch x := v.(type) {
				case *ssa.Parameter:
					out[x] = true
				case *ssa.Alloc:
					// everything stored into the cell, and every call the cell's address is handed to
					if refs := x.Referrers(); refs != nil {
						for _, r := range *refs {
							switch y := r.(type) {
							case *ssa.Store:
								if y.Addr == ssa.Value(x) {
									walk(y.Val, d+1)
								}
							case *ssa.Slice, *ssa.IndexAddr, *ssa.FieldAddr:
								if rr := r.(ssa.Value).Referrers(); rr != nil {
									for _, z := range *rr {
										if st, ok := z.(*ssa.Store); ok && st.Addr == r.(ssa.Value) {
											walk(st.Val, d+1)
										}
										if call, ok := z.(ssa.CallInstruction); ok {
											for _, a := range call.Common().Args {
												walk(a, d+1)
											}
											if call.Common().IsInvoke() || call.Common().Value != nil {
												walk(call.Common().Value, d+1)
											}
										}
									}
								}
							}
						}
					}
				case *ssa.Call:
					for _, a := range x.Call.Args {
						walk(a, d+1)
					}
					if x.Call.IsInvoke() {
						walk(x.Call.Value, d+1)
					}
				default:
					if in, ok := v.(ssa.Instruction); ok {
						for _, op := range in.Operands(nil) {
							if op != nil && *op != nil {
								walk(*op, d+1)
							}
						}
					}
				}
			}
			walk(v, 0)
			return out
		}
		need := map[*ssa.Parameter]bool{}
		for _, a := range verify.Args {
			for k := range deps(a) {
				need[k] = true
			}
		}
		if verify.IsInvoke() {
			for k := range deps(verify.Value) {
				need[k] = true
			}
		}
		// calls on package-level objects whose result steers a branch
		fromGlobal := func(v ssa.Value) bool {
			for d := 0; v != nil && d < 5; d++ {
				switch x := v.(type) {
				case *ssa.Global:
					return !strings.HasPrefix(x.Name(), "err") && !strings.HasPrefix(x.Name(), "Err")
				case *ssa.UnOp:
					v = x.X
				case *ssa.FieldAddr:
					v = x.X
				case *ssa.MakeInterface:
					v = x.X
				default:
					return false
				}
			}
			return false
		}
		steers := func(call *ssa.Call) bool {
			seen := map[ssa.Value]bool{}
			var use func(v ssa.Value, d int) bool
			use = func(v ssa.Value, d int) bool {
				if seen[v] || d > 6 {
					return false
				}
				seen[v] = true
				refs := v.Referrers()
				if refs == nil {
					return false
				}
				for _, r := range *refs {
					switch y := r.(type) {
					case *ssa.If:
						return true
					case *ssa.Extract, *ssa.UnOp, *ssa.BinOp, *ssa.Phi:
						if use(y.(ssa.Value), d+1) {
							return true
						}
					}
				}
				return false
			}
			return use(call, 0)
		}
		nm := 0
		allInstrs(fn, func(in ssa.Instruction) {
			call, ok := in.(*ssa.Call)
			if !ok || in == verifyInstr {
				return
			}
			var recv ssa.Value
			if call.Call.IsInvoke() {
				recv = call.Call.Value
			} else if len(call.Call.Args) > 0 && call.Call.StaticCallee() != nil && call.Call.StaticCallee().Signature.Recv() != nil {
				recv = call.Call.Args[0]
			}
			if recv == nil || !fromGlobal(recv) || !steers(call) {
				return
			}
			nm++
			have := map[*ssa.Parameter]bool{}
			for i, a := range call.Call.Args {
				if i == 0 && !call.Call.IsInvoke() {
					continue
				}
				for k := range deps(a) {
					have[k] = true
				}
			}
			var missing []string
			for k := range need {
				if !have[k] {
					missing = append(missing, k.Name())
				}
			}
			sort.Strings(missing)
			c.check(len(missing) == 0, "verdict-memo-key", qname(fn)+": "+term(recv)+"."+calleeNameOf(call), p.Pos(posOf(in, fn)), "the remembered verdict is looked up under a key derived from every input of the signature check",
				"a remembered verdict steers the signature check but its key does not depend on "+strings.Join(missing, ", ")+": a verdict reached for one (root, committee, nonce) is replayed for another — a forged unit that shares the signature bytes poisons the memory and the publisher's genuine units are rejected (or a forged one accepted)")
		})
		if nm == 0 {
			c.ok("verdict-memo-key", qname(fn), p.Pos(fnPos(fn)), "the signature check consults no package-level memory: its verdict is a function of its arguments")
		}
	}
	if n == 0 {
		c.und("verdict-memo-key", "consensus/propeller", "", "no function calling crypto.PubKey.Verify found")
	}
}

func calleeNameOf(call *ssa.Call) string {
	if call.Call.IsInvoke() {
		return call.Call.Method.Name()
	}
	if f := call.Call.StaticCallee(); f != nil {
		return f.Name()
	}
	return "?"
}

// c19FromEncoder: v is computed from the length the varint encoder reported — directly, or through a field of a local struct
// that a same-package method (called on that struct in fn) fills from binary.PutUvarint / AppendUvarint.
func c19FromEncoder(fn *ssa.Function, v ssa.Value) bool {
	isEnc := func(x ssa.Value) bool {
		call, ok := x.(*ssa.Call)
		if !ok || call.Call.StaticCallee() == nil {
			return false
		}
		n := call.Call.StaticCallee().Name()
		return n == "PutUvarint" || n == "AppendUvarint"
	}
	sl := backSlice(v)
	for x := range sl {
		if isEnc(x) {
			return true
		}
	}
	for x := range sl {
		fa, ok := x.(*ssa.FieldAddr)
		if !ok {
			continue
		}
		fld := fieldName(fa.X.Type(), fa.Field)
		for _, s := range sitesOf(fn) {
			if s.Callee == nil || pkgRelOf(s.Callee) != pkgRelOf(fn) || s.Recv == nil || s.Recv != fa.X {
				continue
			}
			filled := false
			allInstrsOne(s.Callee, func(in ssa.Instruction) {
				if st, ok := in.(*ssa.Store); ok {
					if fa2, ok := st.Addr.(*ssa.FieldAddr); ok && fieldName(fa2.X.Type(), fa2.Field) == fld {
						for y := range backSlice(st.Val) {
							if isEnc(y) {
								filled = true
							}
						}
					}
				}
			})
			if filled {
				return true
			}
		}
	}
	return false
}
