package main

import (
	"fmt"
	"sort"
	"strings"

	"golang.org/x/tools/go/ssa"
)

// mutatesLongLived: does fn (transitively, within the atomic cut) store to a field of a long-lived in-memory object?
func mutatesLongLived(c *Ctx, fn *ssa.Function, nilCfg bool, memo map[*ssa.Function]bool) bool {
	if v, ok := memo[fn]; ok {
		return v
	}
	p := c.P
	reach := p.Reachable([]*ssa.Function{fn}, atomicCut(c, nilCfg))
	res := false
	for _, f := range reach.Funcs() {
		allInstrs(f, func(in ssa.Instruction) {
			st, ok := in.(*ssa.Store)
			if !ok {
				return
			}
			fa, ok := st.Addr.(*ssa.FieldAddr)
			if !ok {
				return
			}
			for _, ll := range longLived {
				if isNamed(fa.X.Type(), ll.pkg, ll.typ) && !isLocalValue(fa.X) {
					res = true
				}
			}
		})
	}
	memo[fn] = res
	return res
}

// C05/memory-mutation-last: inside an atomic closure, a call that mutates long-lived memory must be the last fallible step:
// no other call is reachable after it (otherwise a later failure drops the batch but keeps the memory change).
func checkMemoryMutationLast(c *Ctx, roots []AtomicRoot, nilCfg bool) {
	p := c.P
	memo := map[*ssa.Function]bool{}
	for _, r := range roots {
		if r.Closure == nil {
			continue
		}
		construct := qname(r.Outer) + "→" + r.Method
		var mutSites []Site
		ss := sitesOf(r.Closure)
		for _, s := range ss {
			if s.Callee != nil && p.AllFuncs[s.Callee] && mutatesLongLived(c, s.Callee, nilCfg, memo) {
				mutSites = append(mutSites, s)
			}
		}
		if len(mutSites) == 0 {
			continue
		}
		bad := 0
		for _, m := range mutSites {
			for _, s := range ss {
				if s.Instr == m.Instr {
					continue
				}
				if _, isBuiltin := s.Instr.Common().Value.(*ssa.Builtin); isBuiltin {
					continue
				}
				if canReach(m.Instr, s.Instr) {
					// a later call that cannot fail (no error result) is harmless
					sig := s.Instr.Common().Signature()
					fallible := false
					for i := 0; i < sig.Results().Len(); i++ {
						if sig.Results().At(i).Type().String() == "error" {
							fallible = true
						}
					}
					if !fallible {
						continue
					}
					bad++
					c.viol("memory-mutation-last", construct+" ⊢ "+m.CalleeName()+" before "+s.CalleeName(), p.Pos(m.Pos()),
						fmt.Sprintf("%s mutates long-lived in-memory state but the fallible step %s (%s) can still fail after it: the batch is dropped, the memory change is kept",
							m.CalleeName(), s.CalleeName(), p.Pos(s.Pos())))
				}
			}
		}
		if bad == 0 {
			c.ok("memory-mutation-last", construct, p.Pos(mutSites[0].Pos()), "the call that mutates in-memory state is the last fallible step of the closure")
		}
	}
	c.floor("memory-mutation-last", 6)
}

func checkHeightInBatch(c *Ctx, ai *attrIndex) {
	p := c.P
	n := 0
	seen := map[string]bool{}
	for _, a := range ai.all {
		if a.Bucket != "ChainHeight" || !(a.Op == "Put" || a.Op == "Delete" || a.Op == "DeleteRange") {
			continue
		}
		acc := rootOf(a.Fn)
		for _, s := range p.callersOf(acc) {
			caller := rootOf(s.Fn)
			k := qname(acc) + " ← " + qname(caller)
			if seen[k] {
				continue
			}
			seen[k] = true
			n++
			pr := pkgRelOf(caller)
			ok := (pr == "blockchain/statebackend" && (caller.Name() == "writeBlockContent" || caller.Name() == "deleteBlockContent")) ||
				strings.HasPrefix(pr, "migration") || pr == "genesis" || strings.HasPrefix(pr, "cmd/") || strings.HasSuffix(pr, "testutils") || pr == "mocks"
			c.check(ok, "height-in-batch", k, p.Pos(s.Pos()), "chain height is moved only by writeBlockContent/deleteBlockContent (same batch as the block) or by offline tools/migrations",
				"the chain-height key is written outside writeBlockContent/deleteBlockContent: the head pointer could move without its block")
		}
		if pr := pkgRelOf(acc); pr != "core" {
			k := "ChainHeight " + a.Op + " ← " + qname(acc)
			if !seen[k] {
				seen[k] = true
				n++
				c.viol("height-in-batch", k, p.Pos(a.Pos), "chain-height key written by a function outside core's accessor")
			}
		}
	}
	if n < 2 {
		c.und("height-in-batch", "ChainHeight", "", fmt.Sprintf("only %d writer call sites of the chain height found", n))
	}
}

// unconditionalLog: every accessor call in fn that logs/un-logs history executes for every entry of the section it ranges over:
// the only dominating conditions are the range iteration itself, error checks and boolean flag parameters.
func unconditionalLog(c *Ctx, rule string, fn *ssa.Function, ai *attrIndex, wantWrite bool) int {
	p := c.P
	n := 0
	for _, f := range withAnons(fn) {
		for _, s := range sitesOf(f) {
			if s.Callee == nil {
				continue
			}
			hit := false
			for _, a := range ai.byFn[s.Callee] {
				if historyBuckets[a.Bucket] && ((wantWrite && a.Op == "Put") || (!wantWrite && (a.Op == "Delete" || a.Op == "DeleteRange"))) {
					hit = true
				}
			}
			if !hit {
				continue
			}
			n++
			var bad []string
			for _, fact := range factsAt(s.Instr) {
				if allowedLoopFact(fact) {
					continue
				}
				bad = append(bad, fact.String())
			}
			sort.Strings(bad)
			secs := strings.Join(rangeSections(s), ",")
			construct := qname(f) + " ⊢ " + s.CalleeName() + " [" + secs + "]"
			if len(bad) == 0 {
				c.ok(rule, construct, p.Pos(s.Pos()), "executed for every entry of the diff section")
			} else {
				c.viol(rule, construct, p.Pos(s.Pos()), "history entry is logged/un-logged only under a data-dependent condition ("+strings.Join(bad, "; ")+"): readers assume one log entry per change")
			}
		}
	}
	return n
}

func allowedLoopFact(f Fact) bool {
	switch x := f.Cond.(type) {
	case *ssa.Extract:
		// ok flag of next(range)
		if _, isNext := x.Tuple.(*ssa.Next); isNext {
			return true
		}
	case *ssa.BinOp:
		// err != nil / err == nil, index < len
		if isNilConst(x.X) || isNilConst(x.Y) {
			v := x.X
			if isNilConst(v) {
				v = x.Y
			}
			if v.Type().String() == "error" {
				return true
			}
		}
		if x.Op.String() == "<" {
			t := term(x.Y)
			if strings.HasPrefix(t, "len(") {
				return true
			}
		}
	case *ssa.Parameter:
		return x.Type().String() == "bool"
	case *ssa.FreeVar:
		return true
	case *ssa.UnOp:
		// load of a captured bool flag (logChanges)
		if _, ok := x.X.(*ssa.FreeVar); ok && strings.HasSuffix(x.Type().String(), "bool") {
			return true
		}
	}
	return false
}

// c05ErrorNotDropped: on the block store / revert / prune paths the error result of a call is never left unused — an
// error that is overwritten before it is tested (`err = a(); err = b(); if err != nil`) lets a failed index write commit
// together with the rest of the batch. Explicit discards of Close()-like calls are the only accepted exception.
func c05ErrorNotDropped(c *Ctx) {
	p := c.P
	n, bad := 0, 0
	for _, fn := range p.sortedFuncs() {
		pr := pkgRelOf(fn)
		if !(pr == "core" || pr == "blockchain/statebackend" || pr == "blockchain" || pr == "core/state" || pr == "core/deprecatedstate" || pr == "pruner") || fn.Origin() != nil || strings.HasSuffix(p.Pos(fnPos(fn)), "_test.go") {
			continue
		}
		for _, s := range sitesOf(fn) {
			call, ok := s.Instr.(*ssa.Call)
			if !ok {
				continue // go / defer: result unavailable by construction
			}
			sig := call.Call.Signature()
			if sig.Results().Len() == 0 || sig.Results().At(sig.Results().Len()-1).Type().String() != "error" {
				continue
			}
			nm := ""
			if s.Callee != nil {
				nm = s.Callee.Name()
			} else if s.Method != nil {
				nm = s.Method.Name()
			}
			// database writes only: writer methods of the db packages / typed buckets, and core's Write*/Delete* accessors
			cn := s.CalleeName()
			isDBWrite := false
			switch nm {
			case "Put", "Delete", "DeleteRange", "DeletePrefix", "Write":
				if s.Callee != nil && strings.HasPrefix(pkgRelOf(s.Callee), "db") {
					isDBWrite = true
				}
				if s.Method != nil && (strings.Contains(typeShort(s.Recv.Type()), "db.") || strings.Contains(cn, "db.")) {
					isDBWrite = true
				}
			}
			if s.Callee != nil && pkgRelOf(s.Callee) == "core" && (strings.HasPrefix(nm, "Write") || strings.HasPrefix(nm, "Delete")) {
				isDBWrite = true
			}
			if !isDBWrite {
				continue
			}
			n++
			var errVal ssa.Value
			if sig.Results().Len() == 1 {
				errVal = call
			} else {
				for _, r := range *call.Referrers() {
					if ex, isEx := r.(*ssa.Extract); isEx && ex.Index == sig.Results().Len()-1 {
						errVal = ex
					}
				}
			}
			// used = tested, returned, stored or passed on directly; a φ that merges it with the error of ANOTHER call
			// overwrites it on that edge
			used := false
			if errVal != nil {
				for _, r := range *errVal.Referrers() {
					switch x := r.(type) {
					case *ssa.DebugRef:
					case *ssa.Phi:
						clean := true
						for _, e := range x.Edges {
							if e == errVal || isNilConst(e) || e == ssa.Value(x) {
								continue
							}
							clean = false
						}
						if clean {
							used = true
						}
					default:
						used = true
					}
				}
			}
			if !used {
				bad++
				c.viol("error-not-dropped", fmt.Sprintf("%s → %s", qname(fn), s.CalleeName()), p.Pos(s.Pos()), "the error returned by this call is never looked at (overwritten or discarded): a failed write on the store/revert path would be committed with the rest of the batch")
			}
		}
	}
	if bad == 0 {
		c.ok("error-not-dropped", fmt.Sprintf("%d error-returning calls on the store/revert/prune packages", n), "", "every error result is used")
	}
	if n < 100 {
		c.und("error-not-dropped", "scope", "", fmt.Sprintf("only %d error-returning calls found", n))
	}
}
