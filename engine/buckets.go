package main

import (
	"fmt"
	"go/constant"
	"go/token"
	"go/types"
	"sort"
	"strings"

	"golang.org/x/tools/go/callgraph"
	"golang.org/x/tools/go/ssa"
)

// E2: bucket-effect summaries. Demand-driven, context-sensitive (call-stack frames) backward resolution of
// the db.Bucket a key belongs to.

type frame struct {
	site   ssa.CallInstruction
	callee *ssa.Function
	parent *frame
}

func (f *frame) depth() int {
	n := 0
	for ; f != nil; f = f.parent {
		n++
	}
	return n
}
func (f *frame) find(fn *ssa.Function) *frame {
	for x := f; x != nil; x = x.parent {
		if x.callee == fn {
			return x
		}
	}
	return nil
}

type bset map[string]bool

func (b bset) add(o bset) {
	for k := range o {
		b[k] = true
	}
}
func (b bset) list() []string {
	var o []string
	for k := range b {
		o = append(o, k)
	}
	sort.Strings(o)
	return o
}

type resolver struct {
	p           *Prog
	bucketT     types.Type
	fieldStores map[string][]*ssa.Store // "pkg.Type.field" -> stores
	globStores  map[*ssa.Global][]*ssa.Store
	visiting    map[string]bool
	steps       int
	total       int
	noFallback  bool // parameters without a frame resolve to "?param" instead of all callers
}

func (p *Prog) newResolver() *resolver {
	r := &resolver{p: p, fieldStores: map[string][]*ssa.Store{}, globStores: map[*ssa.Global][]*ssa.Store{}, visiting: map[string]bool{}}
	r.bucketT = p.lookupType("db", "Bucket")
	for fn := range p.AllFuncs {
		r.indexStores(fn)
	}
	// package initialisers are synthetic functions without Pkg-level membership in AllFuncs sometimes
	for _, sp := range p.SSAPkg {
		if init := sp.Func("init"); init != nil {
			r.indexStores(init)
		}
	}
	return r
}

func (r *resolver) indexStores(fn *ssa.Function) {
	allInstrs(fn, func(in ssa.Instruction) {
		st, ok := in.(*ssa.Store)
		if !ok {
			return
		}
		switch a := st.Addr.(type) {
		case *ssa.FieldAddr:
			r.fieldStores[fieldKey(a.X.Type(), a.Field)] = append(r.fieldStores[fieldKey(a.X.Type(), a.Field)], st)
		case *ssa.Global:
			r.globStores[a] = append(r.globStores[a], st)
		}
	})
}

func fieldKey(t types.Type, idx int) string {
	n := namedOf(t)
	if n == nil {
		return "?." + fieldName(t, idx)
	}
	o := n.Origin().Obj()
	pk := ""
	if o.Pkg() != nil {
		pk = o.Pkg().Path()
	}
	return pk + "." + o.Name() + "." + fieldName(t, idx)
}

func (r *resolver) isBucket(t types.Type) bool {
	return r.bucketT != nil && types.Identical(t, r.bucketT)
}

func pathKey(p []int) string { return fmt.Sprint(p) }

func prepend(i int, p []int) []int {
	o := make([]int, 0, len(p)+1)
	o = append(o, i)
	return append(o, p...)
}

const maxDepth = 40

// res: set of bucket names that (the key / bucket / struct-with-path) v may denote.
func (r *resolver) res(v ssa.Value, path []int, fr *frame, depth int) bset {
	out := bset{}
	if v == nil || depth > maxDepth {
		out["?depth"] = true
		return out
	}
	if depth == 0 {
		r.steps = 0
	}
	r.steps++
	r.total++
	if r.steps > 60000 {
		out["?budget"] = true
		return out
	}
	key := fmt.Sprintf("%p|%s|%p", v, pathKey(path), fr)
	if r.visiting[key] {
		return out
	}
	r.visiting[key] = true
	defer delete(r.visiting, key)

	switch x := v.(type) {
	case *ssa.Const:
		if len(path) == 0 && r.isBucket(x.Type()) {
			out[strings.TrimPrefix(constName(x), "db.")] = true
		} else if x.Value == nil {
			// nil key/prefix: no bucket
		} else if x.Value.Kind() == constant.String {
			out["?conststr"] = true
		}
		return out
	case *ssa.Parameter:
		return r.param(x, path, fr, depth)
	case *ssa.FreeVar:
		return r.freevar(x, path, fr, depth)
	case *ssa.Phi:
		for _, e := range x.Edges {
			out.add(r.res(e, path, fr, depth+1))
		}
		return out
	case *ssa.ChangeType:
		return r.res(x.X, path, fr, depth+1)
	case *ssa.Convert:
		return r.res(x.X, path, fr, depth+1)
	case *ssa.ChangeInterface:
		return r.res(x.X, path, fr, depth+1)
	case *ssa.MakeInterface:
		return r.res(x.X, path, fr, depth+1)
	case *ssa.TypeAssert:
		return r.res(x.X, path, fr, depth+1)
	case *ssa.SliceToArrayPointer:
		return r.res(x.X, path, fr, depth+1)
	case *ssa.Slice:
		return r.res(x.X, path, fr, depth+1)
	case *ssa.Field:
		return r.res(x.X, prepend(x.Field, path), fr, depth+1)
	case *ssa.Extract:
		if call, ok := x.Tuple.(*ssa.Call); ok {
			return r.callResult(call, x.Index, path, fr, depth)
		}
		return out
	case *ssa.Call:
		return r.callResult(x, 0, path, fr, depth)
	case *ssa.UnOp:
		if x.Op == token.MUL {
			return r.load(x.X, path, fr, depth+1)
		}
		return out
	case *ssa.Alloc, *ssa.FieldAddr, *ssa.IndexAddr, *ssa.Global:
		// pointer value: denotes the pointee
		return r.load(v, path, fr, depth+1)
	case *ssa.MakeSlice:
		return r.sliceHead(x, fr, depth)
	case *ssa.Index:
		return r.res(x.X, path, fr, depth+1)
	case *ssa.Lookup:
		out["?map"] = true
		return out
	case *ssa.BinOp:
		// string/bytes concatenation: first operand carries the prefix
		return r.res(x.X, path, fr, depth+1)
	}
	return out
}

// sliceHead: a make([]byte, n) whose element 0 is stored from byte(bucket).
func (r *resolver) sliceHead(ms ssa.Value, fr *frame, depth int) bset {
	out := bset{}
	seen := map[ssa.Value]bool{}
	var walk func(v ssa.Value, d int)
	walk = func(v ssa.Value, d int) {
		if seen[v] || d > 4 {
			return
		}
		seen[v] = true
		refs := v.Referrers()
		if refs == nil {
			return
		}
		for _, ref := range *refs {
			switch y := ref.(type) {
			case *ssa.IndexAddr:
				if k, ok := y.Index.(*ssa.Const); ok && k.Value != nil && k.Int64() == 0 && y.X == v {
					if rr := y.Referrers(); rr != nil {
						for _, u := range *rr {
							if st, ok := u.(*ssa.Store); ok && st.Addr == y {
								var src ssa.Value
								switch cv := st.Val.(type) {
								case *ssa.Convert:
									src = cv.X
								case *ssa.ChangeType:
									src = cv.X
								}
								if src != nil && r.isBucket(src.Type()) {
									out.add(r.res(src, nil, fr, depth+1))
								}
							}
						}
					}
				}
			case *ssa.Phi:
				walk(y, d+1)
			case *ssa.Slice:
				// only [0:..] or [:..] reslices keep index 0
				if y.X == v && (y.Low == nil || isZeroConst(y.Low)) {
					walk(y, d+1)
				}
			}
		}
	}
	walk(ms, 0)
	if len(out) == 0 {
		out["?make"] = true
	}
	return out
}

func isZeroConst(v ssa.Value) bool {
	k, ok := v.(*ssa.Const)
	return ok && k.Value != nil && k.Value.Kind() == constant.Int && k.Int64() == 0
}

func (r *resolver) load(addr ssa.Value, path []int, fr *frame, depth int) bset {
	out := bset{}
	if depth > maxDepth {
		out["?depth"] = true
		return out
	}
	switch a := addr.(type) {
	case *ssa.Alloc:
		refs := a.Referrers()
		if refs == nil {
			return out
		}
		for _, ref := range *refs {
			switch y := ref.(type) {
			case *ssa.Store:
				if y.Addr == a {
					out.add(r.res(y.Val, path, fr, depth+1))
				}
			case *ssa.FieldAddr:
				if len(path) > 0 && y.Field == path[0] && y.X == a {
					out.add(r.storesTo(y, path[1:], fr, depth+1))
				}
			case *ssa.IndexAddr:
				if y.X == a {
					out.add(r.storesTo(y, path, fr, depth+1))
				}
			case *ssa.Slice:
				// array sliced; element stores through the alloc are found above
			}
		}
		return out
	case *ssa.FieldAddr:
		np := prepend(a.Field, path)
		got := r.res(a.X, np, fr, depth+1)
		if len(got) == 0 || onlyUnknown(got) {
			// global field summary: every store to this field anywhere
			for _, st := range r.fieldStores[fieldKey(a.X.Type(), a.Field)] {
				var f2 *frame
				if fr != nil {
					f2 = fr.find(st.Parent()) // same activation on the stack, if any
				}
				got.add(r.res(st.Val, path, f2ctx(f2), depth+1))
			}
			delete(got, "?nocaller")
		}
		return got
	case *ssa.IndexAddr:
		return r.res(a.X, path, fr, depth+1)
	case *ssa.Global:
		for _, st := range r.globStores[a] {
			out.add(r.res(st.Val, path, nil, depth+1))
		}
		return out
	default:
		return r.res(addr, path, fr, depth+1)
	}
}

func f2ctx(f *frame) *frame {
	if f == nil {
		return nil
	}
	return f
}

func onlyUnknown(b bset) bool {
	for k := range b {
		if !strings.HasPrefix(k, "?") {
			return false
		}
	}
	return true
}

func (r *resolver) storesTo(addr ssa.Value, path []int, fr *frame, depth int) bset {
	out := bset{}
	refs := addr.Referrers()
	if refs == nil {
		return out
	}
	for _, ref := range *refs {
		switch y := ref.(type) {
		case *ssa.Store:
			if y.Addr == addr {
				out.add(r.res(y.Val, path, fr, depth+1))
			}
		case *ssa.FieldAddr:
			if len(path) > 0 && y.Field == path[0] {
				out.add(r.storesTo(y, path[1:], fr, depth+1))
			}
		}
	}
	return out
}

func (r *resolver) param(x *ssa.Parameter, path []int, fr *frame, depth int) bset {
	out := bset{}
	fn := x.Parent()
	idx := -1
	for i, p := range fn.Params {
		if p == x {
			idx = i
		}
	}
	if idx < 0 {
		return out
	}
	argOf := func(site ssa.CallInstruction) ssa.Value {
		cc := site.Common()
		if cc.IsInvoke() {
			if idx == 0 {
				return cc.Value
			}
			if idx-1 < len(cc.Args) {
				return cc.Args[idx-1]
			}
			return nil
		}
		// closure call through a func value: params align with Args
		if idx < len(cc.Args) {
			return cc.Args[idx]
		}
		return nil
	}
	if f := fr.find(fn); f != nil && f.site != nil {
		if a := argOf(f.site); a != nil {
			return r.res(a, path, f.parent, depth+1)
		}
		return out
	}
	if r.noFallback {
		out["?param"] = true
		return out
	}
	// all callers (context lost)
	n := r.p.CallGraph().Nodes[fn]
	cnt := 0
	if n != nil {
		for _, e := range n.In {
			if e.Site == nil || !r.p.AllFuncs[e.Caller.Func] && e.Caller.Func.Name() != "init" {
				continue
			}
			cnt++
			if cnt > 60 {
				out["?manycallers"] = true
				break
			}
			if a := argOf(e.Site); a != nil {
				out.add(r.res(a, path, nil, depth+2))
			}
		}
	}
	if cnt == 0 {
		out["?nocaller"] = true
	}
	return out
}

func (r *resolver) freevar(x *ssa.FreeVar, path []int, fr *frame, depth int) bset {
	out := bset{}
	fn := x.Parent()
	idx := -1
	for i, fv := range fn.FreeVars {
		if fv == x {
			idx = i
		}
	}
	par := fn.Parent()
	if par == nil || idx < 0 {
		return out
	}
	pf := fr.find(par)
	var pctx *frame
	if pf != nil {
		pctx = pf // parameters of par resolve through pf
	}
	allInstrs(par, func(in ssa.Instruction) {
		if mc, ok := in.(*ssa.MakeClosure); ok && mc.Fn == fn && idx < len(mc.Bindings) {
			out.add(r.res(mc.Bindings[idx], path, pctx, depth+1))
		}
	})
	return out
}

func (r *resolver) callResult(call *ssa.Call, ridx int, path []int, fr *frame, depth int) bset {
	out := bset{}
	cc := call.Common()
	if b, ok := cc.Value.(*ssa.Builtin); ok {
		if b.Name() == "append" && len(cc.Args) > 0 {
			got := r.res(cc.Args[0], path, fr, depth+1)
			if (len(got) == 0 || onlyUnknown(got)) && len(cc.Args) > 1 {
				got.add(r.res(cc.Args[1], path, fr, depth+1))
			}
			return got
		}
		return out
	}
	var callees []*ssa.Function
	if f := cc.StaticCallee(); f != nil {
		callees = []*ssa.Function{f}
	} else {
		for _, e := range r.siteCallees(call) {
			callees = append(callees, e)
		}
	}
	for _, f := range callees {
		o := f
		if o.Origin() != nil {
			o = o.Origin()
		}
		// (db.Bucket).Key(parts...) → receiver bucket
		if o.Name() == "Key" && o.Signature.Recv() != nil && r.isBucket(o.Signature.Recv().Type()) && len(cc.Args) > 0 && !cc.IsInvoke() {
			out.add(r.res(cc.Args[0], nil, fr, depth+1))
			continue
		}
		if f.Blocks == nil {
			// body-less: bytes.Buffer.Bytes, slices.Clone, bytes.Join, append-like helpers
			if f.Name() == "Bytes" && f.Signature.Recv() != nil && strings.Contains(f.Signature.Recv().Type().String(), "bytes.Buffer") && len(cc.Args) > 0 {
				out.add(r.bufferHead(cc.Args[0], call.Parent(), fr, depth+1))
				continue
			}
			for _, a := range cc.Args {
				if _, isSlice := a.Type().Underlying().(*types.Slice); isSlice || r.isBucket(a.Type()) {
					out.add(r.res(a, path, fr, depth+1))
					break
				}
			}
			continue
		}
		nf := &frame{site: call, callee: f, parent: fr}
		for _, ret := range returnsOf(f) {
			if ridx < len(ret.Results) {
				out.add(r.res(ret.Results[ridx], path, nf, depth+1))
			}
		}
	}
	return out
}

func (r *resolver) siteCallees(site ssa.CallInstruction) []*ssa.Function {
	n := r.p.CallGraph().Nodes[site.Parent()]
	var out []*ssa.Function
	if n == nil {
		return nil
	}
	for _, e := range n.Out {
		if e.Site == site {
			out = append(out, e.Callee.Func)
		}
	}
	return out
}

// bufferHead: the first bytes written into a *bytes.Buffer value (buf) in fn or in callees that receive it.
func (r *resolver) bufferHead(buf ssa.Value, fn *ssa.Function, fr *frame, depth int) bset {
	out := bset{}
	if depth > maxDepth {
		return out
	}
	// candidates in program order (dominance order approximated by block index, then instr index)
	for _, b := range fn.Blocks {
		for _, in := range b.Instrs {
			ci, ok := in.(ssa.CallInstruction)
			if !ok {
				continue
			}
			cc := ci.Common()
			uses := false
			for _, a := range cc.Args {
				if a == buf {
					uses = true
				}
			}
			if !uses {
				continue
			}
			f := cc.StaticCallee()
			if f == nil {
				continue
			}
			if f.Blocks == nil {
				if (f.Name() == "Write" || f.Name() == "WriteString") && len(cc.Args) == 2 && cc.Args[0] == buf {
					return r.res(cc.Args[1], nil, fr, depth+1)
				}
				if f.Name() == "Reset" || f.Name() == "Bytes" || f.Name() == "Len" || f.Name() == "Put" || f.Name() == "Grow" {
					continue
				}
				continue
			}
			// module callee receiving the buffer: look inside with the matching parameter
			for i, a := range cc.Args {
				if a == buf && i < len(f.Params) {
					if call, ok := ci.(*ssa.Call); ok {
						got := r.bufferHead(f.Params[i], f, &frame{site: call, callee: f, parent: fr}, depth+1)
						if len(got) > 0 {
							return got
						}
					}
				}
			}
		}
	}
	return out
}

// ---------- effects ----------

type Eff struct {
	Buckets []string
	Op      string // Put | Delete | DeleteRange | Get | Has | Iterate
	Fn      *ssa.Function
	Pos     token.Pos
	Path    string
	Top     ssa.Instruction // the call instruction in the root function this effect derives from
}

func (e Eff) Unresolved() bool {
	if len(e.Buckets) == 0 {
		return true
	}
	for _, b := range e.Buckets {
		if strings.HasPrefix(b, "?") {
			return true
		}
	}
	return false
}

var dbOps = map[string]string{"Put": "Put", "Delete": "Delete", "DeleteRange": "DeleteRange", "Get": "Get", "Has": "Has", "NewIterator": "Iterate"}

// isDBPrimitive: call site is a KeyValueReader/Writer/RangeDeleter primitive (interface invoke or concrete backend method).
func (p *Prog) isDBPrimitive(ci *capInfo, s Site) (op string, key ssa.Value) {
	name := ""
	var recvT types.Type
	args := s.Args()
	if s.Method != nil {
		name, recvT = s.Method.Name(), s.Recv.Type()
	} else if s.Callee != nil && s.Callee.Signature.Recv() != nil {
		name, recvT = s.Callee.Name(), s.Callee.Signature.Recv().Type()
		if len(args) > 0 {
			args = args[1:]
		}
	}
	op, ok := dbOps[name]
	if !ok || recvT == nil || len(args) == 0 {
		return "", nil
	}
	isKV := false
	switch op {
	case "Put", "Delete":
		isKV = types.Implements(recvT, ci.writer)
	case "DeleteRange":
		isKV = ci.rangeDel != nil && types.Implements(recvT, ci.rangeDel)
	default:
		isKV = types.Implements(recvT, ci.reader)
	}
	if !isKV {
		return "", nil
	}
	if _, isSlice := args[0].Type().Underlying().(*types.Slice); !isSlice {
		return "", nil
	}
	return op, args[0]
}

// effectsFrom: all db primitive effects reachable from root, with buckets resolved under the call stack.
func (p *Prog) effectsFrom(r *resolver, ci *capInfo, root *ssa.Function, cut func(caller, callee *ssa.Function) bool) []Eff {
	var out []Eff
	type vkey struct {
		fn *ssa.Function
		s1 ssa.CallInstruction
		s2 ssa.CallInstruction
	}
	visited := map[vkey]bool{}
	cg := p.CallGraph()
	var walk func(fn *ssa.Function, fr *frame, names []string)
	walk = func(fn *ssa.Function, fr *frame, names []string) {
		if fr.depth() > 30 {
			return
		}
		var k vkey
		k.fn = fn
		if fr != nil {
			k.s1 = fr.site
			if fr.parent != nil {
				k.s2 = fr.parent.site
			}
		}
		if visited[k] {
			return
		}
		visited[k] = true
		bySite := map[ssa.CallInstruction][]*callgraph.Edge{}
		if n := cg.Nodes[fn]; n != nil {
			for _, e := range n.Out {
				bySite[e.Site] = append(bySite[e.Site], e)
			}
		}
		for _, s := range sitesOf(fn) {
			if op, key := p.isDBPrimitive(ci, s); op != "" {
				bs := r.res(key, nil, fr, 0).list()
				top := ssa.Instruction(s.Instr)
				for f2 := fr; f2 != nil && f2.parent != nil; f2 = f2.parent {
					top = f2.site
				}
				out = append(out, Eff{Buckets: bs, Op: op, Fn: fn, Pos: s.Pos(), Path: strings.Join(names, " → "), Top: top})
				continue
			}
			var callees []*ssa.Function
			for _, e := range bySite[s.Instr] {
				callees = append(callees, e.Callee.Func)
			}
			// synthetic wrappers (bound method values `x.m` passed as callbacks, thunks) are not part of the function set the
			// call graph was built over: their single static call is followed directly
			if len(callees) == 0 && s.Callee != nil && fn.Synthetic != "" {
				callees = append(callees, s.Callee)
			}
			// function values handed to body-less callees
			if s.Callee != nil && s.Callee.Blocks == nil {
				for _, a := range s.Args() {
					callees = append(callees, funcValues(a, 0)...)
				}
			}
			callees = refineByFrame(s, callees, fr)
			for _, g := range callees {
				if g == nil || g.Blocks == nil {
					continue
				}
				if pkgRelOf(g) == "db" { // db.BufferBatch / db.SyncBatch: primitives, their Put/Delete were counted at the call site
					continue
				}
				if cut != nil && cut(fn, g) {
					continue
				}
				if fr.find(g) != nil { // recursion
					continue
				}
				walk(g, &frame{site: s.Instr, callee: g, parent: fr}, append(names, qname(g)))
			}
		}
	}
	walk(root, &frame{callee: root}, []string{qname(root)})
	return out
}

// concreteTypeOf traces an interface value back through parameters (using the call stack) to a MakeInterface.
func concreteTypeOf(v ssa.Value, fr *frame, depth int) types.Type {
	if depth > 12 || v == nil {
		return nil
	}
	switch x := v.(type) {
	case *ssa.MakeInterface:
		return x.X.Type()
	case *ssa.ChangeInterface:
		return concreteTypeOf(x.X, fr, depth+1)
	case *ssa.Parameter:
		fn := x.Parent()
		f := fr.find(fn)
		if f == nil || f.site == nil {
			return nil
		}
		idx := -1
		for i, p := range fn.Params {
			if p == x {
				idx = i
			}
		}
		cc := f.site.Common()
		var a ssa.Value
		if cc.IsInvoke() {
			if idx == 0 {
				a = cc.Value
			} else if idx-1 < len(cc.Args) {
				a = cc.Args[idx-1]
			}
		} else if idx >= 0 && idx < len(cc.Args) {
			a = cc.Args[idx]
		}
		return concreteTypeOf(a, f.parent, depth+1)
	case *ssa.Phi:
		var t types.Type
		for _, e := range x.Edges {
			et := concreteTypeOf(e, fr, depth+1)
			if et == nil || (t != nil && !types.Identical(t, et)) {
				return nil
			}
			t = et
		}
		return t
	}
	if _, isI := v.Type().Underlying().(*types.Interface); !isI {
		return v.Type()
	}
	return nil
}

// refineByFrame narrows the callees of an interface invoke when the receiver's dynamic type is determined by the call stack.
func refineByFrame(s Site, callees []*ssa.Function, fr *frame) []*ssa.Function {
	if s.Method == nil || len(callees) < 2 {
		return callees
	}
	ct := concreteTypeOf(s.Recv, fr, 0)
	if ct == nil {
		return callees
	}
	var out []*ssa.Function
	for _, g := range callees {
		if g.Signature.Recv() != nil && (types.Identical(g.Signature.Recv().Type(), ct) ||
			types.Identical(g.Signature.Recv().Type(), types.NewPointer(ct))) {
			out = append(out, g)
		} else if len(g.Params) > 0 && types.Identical(g.Params[0].Type(), ct) {
			out = append(out, g)
		}
	}
	if len(out) == 0 {
		return callees
	}
	return out
}

// Attribution of a primitive effect to the function in which its bucket becomes determined.
type Attr struct {
	Bucket string
	Op     string
	Fn     *ssa.Function // function where the bucket is fixed (may be a caller of the primitive's function)
	Prim   *ssa.Function // function containing the primitive call
	Pos    token.Pos     // position in Fn
}

// allAttributions computes, for every db primitive call site in the module (outside db backends), which function
// fixes its bucket. Parametric helpers (typed buckets, nodeKeyByPath, trie storage) are lifted to their callers (≤5 levels).
func (p *Prog) allAttributions(r *resolver, ci *capInfo) []Attr {
	var out []Attr
	old := r.noFallback
	r.noFallback = true
	defer func() { r.noFallback = old }()
	cg := p.CallGraph()
	for _, fn := range p.sortedFuncs() {
		pr := pkgRelOf(fn)
		if pr == "db/memory" || pr == "db/pebble" || pr == "db/pebblev2" || pr == "db/remote" || pr == "db" {
			continue
		}
		for _, s := range sitesOf(fn) {
			op, key := p.isDBPrimitive(ci, s)
			if op == "" {
				continue
			}
			type work struct {
				fr  *frame
				top *ssa.Function
				pos token.Pos
			}
			q := []work{{&frame{callee: fn}, fn, s.Pos()}}
			for lvl := 0; lvl < 6 && len(q) > 0; lvl++ {
				var next []work
				for _, w := range q {
					bs := r.res(key, nil, w.fr, 0)
					needUp := false
					for b := range bs {
						if b == "?param" || b == "?nocaller" {
							needUp = true
						} else if !strings.HasPrefix(b, "?") {
							out = append(out, Attr{b, op, w.top, fn, w.pos})
						}
					}
					if len(bs) == 0 {
						out = append(out, Attr{"?", op, w.top, fn, w.pos})
					}
					if needUp {
						// lift to callers of w.top
						tops := []*ssa.Function{w.top}
						if n := cg.Nodes[w.top]; n != nil {
							cnt := 0
							for _, e := range n.In {
								if e.Site == nil || !(p.AllFuncs[e.Caller.Func] || e.Caller.Func.Name() == "init") {
									continue
								}
								cnt++
								if cnt > 80 {
									break
								}
								// rebuild the frame chain with the new bottom
								nf := rebase(w.fr, w.top, &frame{site: e.Site, callee: w.top, parent: &frame{callee: e.Caller.Func}})
								next = append(next, work{nf, e.Caller.Func, e.Site.Pos()})
							}
						}
						// closures: free variables bound in the parent
						if par := w.top.Parent(); par != nil {
							nf := rebase(w.fr, w.top, &frame{callee: w.top, parent: &frame{callee: par}})
							next = append(next, work{nf, par, fnPos(w.top)})
						}
						_ = tops
					}
				}
				q = next
			}
		}
	}
	// dedupe
	seen := map[string]bool{}
	var ded []Attr
	for _, a := range out {
		k := a.Bucket + "|" + a.Op + "|" + a.Fn.String() + "|" + a.Prim.String()
		if seen[k] {
			continue
		}
		seen[k] = true
		ded = append(ded, a)
	}
	return ded
}

// rebase replaces the bottom frame (the one whose callee is top and has no site) by nb.
func rebase(fr *frame, top *ssa.Function, nb *frame) *frame {
	if fr == nil {
		return nb
	}
	if fr.callee == top && fr.site == nil && fr.parent == nil {
		return nb
	}
	c := *fr
	c.parent = rebase(fr.parent, top, nb)
	return &c
}
