package main

import (
	"fmt"
	"go/constant"
	"go/token"
	"go/types"
	"sort"
	"strings"

	"golang.org/x/tools/go/callgraph"
	"golang.org/x/tools/go/ssa"
)

// ---------- call sites ----------

type Site struct {
	Fn     *ssa.Function // enclosing
	Instr  ssa.CallInstruction
	Callee *ssa.Function // static callee or nil
	Method *types.Func   // invoked interface method or nil
	Recv   ssa.Value     // invoke receiver, or method receiver arg for static method calls
}

func (s Site) Pos() token.Pos {
	if s.Instr.Pos().IsValid() {
		return s.Instr.Pos()
	}
	return fnPos(s.Fn)
}
func (s Site) Args() []ssa.Value      { return s.Instr.Common().Args }
func (s Site) Block() *ssa.BasicBlock { return s.Instr.Block() }

// Name of the called thing for matching: "pkgrel.Func", "pkgrel.(Recv).Method" or "iface:pkgrel.Iface.Method"
func (s Site) CalleeName() string {
	if s.Callee != nil {
		o := s.Callee
		if o.Origin() != nil {
			o = o.Origin()
		}
		return qname(o)
	}
	if s.Method != nil {
		return "iface:" + strings.ReplaceAll(s.Method.FullName(), modPath+"/", "")
	}
	if b, ok := s.Instr.Common().Value.(*ssa.Builtin); ok {
		return "builtin:" + b.Name()
	}
	return "dynamic"
}

func sitesOf(fn *ssa.Function) []Site {
	var out []Site
	for _, b := range fn.Blocks {
		for _, in := range b.Instrs {
			ci, ok := in.(ssa.CallInstruction)
			if !ok {
				continue
			}
			cc := ci.Common()
			s := Site{Fn: fn, Instr: ci}
			if cc.IsInvoke() {
				s.Method = cc.Method
				s.Recv = cc.Value
			} else {
				s.Callee = cc.StaticCallee()
				if s.Callee != nil && s.Callee.Signature.Recv() != nil && len(cc.Args) > 0 {
					s.Recv = cc.Args[0]
				}
			}
			out = append(out, s)
		}
	}
	return out
}

// all functions nested in fn (anonymous), including fn
func withAnons(fn *ssa.Function) []*ssa.Function {
	out := []*ssa.Function{fn}
	for _, a := range fn.AnonFuncs {
		out = append(out, withAnons(a)...)
	}
	return out
}

// ---------- call graph reachability ----------

type Reach struct {
	Pred map[*ssa.Function]*ssa.Function
	Via  map[*ssa.Function]token.Pos
}

func (r *Reach) Has(fn *ssa.Function) bool { _, ok := r.Pred[fn]; return ok }
func (r *Reach) Path(fn *ssa.Function) string {
	var parts []string
	for f := fn; f != nil; f = r.Pred[f] {
		parts = append(parts, qname(f))
		if r.Pred[f] == f {
			break
		}
		if len(parts) > 40 {
			break
		}
	}
	for i, j := 0, len(parts)-1; i < j; i, j = i+1, j-1 {
		parts[i], parts[j] = parts[j], parts[i]
	}
	return strings.Join(parts, " → ")
}
func (r *Reach) Funcs() []*ssa.Function {
	var out []*ssa.Function
	for f := range r.Pred {
		out = append(out, f)
	}
	sort.Slice(out, func(i, j int) bool { return out[i].String() < out[j].String() })
	return out
}

// outEdges: resolved callees of fn: callgraph edges + function values handed to body-less callees.
func (p *Prog) outEdges(fn *ssa.Function) []*callgraph.Edge {
	cg := p.CallGraph()
	n := cg.Nodes[fn]
	if n == nil {
		return nil
	}
	return n.Out
}

// funcValuesPassedOut: function values passed as arguments to calls whose callee has no body
// (export-data functions: errgroup.Go, sync.Once.Do, conc pools...). They are considered called there.
func (p *Prog) funcValuesPassedOut(fn *ssa.Function) []*ssa.Function {
	var out []*ssa.Function
	for _, s := range sitesOf(fn) {
		bodyless := false
		if s.Callee != nil {
			bodyless = s.Callee.Blocks == nil
		} else if s.Method != nil {
			// interface method invoked: if no module implementation is resolved by the call graph, treat as body-less
			bodyless = s.Method.Pkg() == nil || !strings.HasPrefix(s.Method.Pkg().Path(), modPath)
		}
		if !bodyless {
			continue
		}
		for _, a := range s.Args() {
			out = append(out, funcValues(a, 0)...)
		}
	}
	return out
}

func funcValues(v ssa.Value, depth int) []*ssa.Function {
	if depth > 4 {
		return nil
	}
	switch x := v.(type) {
	case *ssa.Function:
		return []*ssa.Function{x}
	case *ssa.MakeClosure:
		if f, ok := x.Fn.(*ssa.Function); ok {
			return []*ssa.Function{f}
		}
	case *ssa.ChangeType:
		return funcValues(x.X, depth+1)
	case *ssa.MakeInterface:
		return funcValues(x.X, depth+1)
	case *ssa.Phi:
		var out []*ssa.Function
		for _, e := range x.Edges {
			out = append(out, funcValues(e, depth+1)...)
		}
		return out
	}
	return nil
}

// Reachable computes functions reachable from roots. cut(fn) → do not enter fn.
func (p *Prog) Reachable(roots []*ssa.Function, cut func(caller, callee *ssa.Function) bool) *Reach {
	r := &Reach{Pred: map[*ssa.Function]*ssa.Function{}, Via: map[*ssa.Function]token.Pos{}}
	var q []*ssa.Function
	for _, f := range roots {
		if f == nil {
			continue
		}
		r.Pred[f] = nil
		q = append(q, f)
	}
	for len(q) > 0 {
		f := q[0]
		q = q[1:]
		visit := func(g *ssa.Function, pos token.Pos) {
			if g == nil {
				return
			}
			g = canonGeneric(g)
			if _, ok := r.Pred[g]; ok {
				return
			}
			if cut != nil && cut(f, g) {
				return
			}
			r.Pred[g] = f
			r.Via[g] = pos
			q = append(q, g)
		}
		for _, e := range p.outEdges(f) {
			pos := token.NoPos
			if e.Site != nil {
				pos = e.Site.Pos()
			}
			visit(e.Callee.Func, pos)
		}
		for _, g := range p.funcValuesPassedOut(f) {
			visit(g, fnPos(f))
		}
	}
	return r
}

// callersOf returns static+resolved call sites of fn in module code.
func (p *Prog) callersOf(fn *ssa.Function) []Site {
	cg := p.CallGraph()
	n := cg.Nodes[fn]
	var out []Site
	seen := map[ssa.CallInstruction]bool{}
	wrapSeen := map[*callgraph.Node]bool{}
	var add func(n *callgraph.Node)
	add = func(n *callgraph.Node) {
		if n == nil {
			return
		}
		for _, e := range n.In {
			if e.Site == nil || seen[e.Site] {
				continue
			}
			if !p.AllFuncs[e.Caller.Func] {
				// a bound-method / thunk wrapper (method value passed as a function): its callers are the real call sites
				if f := e.Caller.Func; f != nil && f.Synthetic != "" && (strings.HasSuffix(f.Name(), "$bound") || strings.HasSuffix(f.Name(), "$thunk")) && !wrapSeen[e.Caller] {
					wrapSeen[e.Caller] = true
					add(e.Caller)
				}
				continue
			}
			seen[e.Site] = true
			cc := e.Site.Common()
			s := Site{Fn: e.Caller.Func, Instr: e.Site}
			if cc.IsInvoke() {
				s.Method = cc.Method
				s.Recv = cc.Value
			} else {
				s.Callee = cc.StaticCallee()
			}
			out = append(out, s)
		}
	}
	add(n)
	// instantiations of a generic origin (incl. the self-instantiations used inside generic bodies)
	if p.instIdx == nil {
		p.instIdx = map[*ssa.Function][]*callgraph.Node{}
		for f, nd := range cg.Nodes {
			if f != nil && f.Origin() != nil {
				p.instIdx[f.Origin()] = append(p.instIdx[f.Origin()], nd)
			}
		}
	}
	for _, nd := range p.instIdx[fn] {
		add(nd)
	}
	sort.Slice(out, func(i, j int) bool { return out[i].Pos() < out[j].Pos() })
	return out
}

// ---------- instruction order / dominance ----------

func instrIndex(in ssa.Instruction) int {
	for i, x := range in.Block().Instrs {
		if x == in {
			return i
		}
	}
	return -1
}

// dominatesInstr: a executes before b on every path reaching b (same function).
func dominatesInstr(a, b ssa.Instruction) bool {
	if a.Block() == b.Block() {
		return instrIndex(a) < instrIndex(b)
	}
	return a.Block().Dominates(b.Block())
}

// reachableBlocks from block b (forward), not passing through blocks in stop.
func blocksFrom(b *ssa.BasicBlock, stop map[*ssa.BasicBlock]bool) map[*ssa.BasicBlock]bool {
	seen := map[*ssa.BasicBlock]bool{}
	var q []*ssa.BasicBlock
	for _, s := range b.Succs {
		q = append(q, s)
	}
	for len(q) > 0 {
		x := q[0]
		q = q[1:]
		if seen[x] || stop[x] {
			continue
		}
		seen[x] = true
		q = append(q, x.Succs...)
	}
	return seen
}

// canReach: is there a path from instruction a to instruction b (a executes, later b executes)?
func canReach(a, b ssa.Instruction) bool {
	if a.Block() == b.Block() && instrIndex(a) < instrIndex(b) {
		return true
	}
	return blocksFrom(a.Block(), nil)[b.Block()]
}

// isReturnBlock / normal exits
func exitKind(b *ssa.BasicBlock) string {
	if len(b.Instrs) == 0 {
		return ""
	}
	switch b.Instrs[len(b.Instrs)-1].(type) {
	case *ssa.Return:
		return "return"
	case *ssa.Panic:
		return "panic"
	}
	return ""
}

// ---------- terms (E7) ----------

type termer struct {
	depth    int
	seen     map[ssa.Value]bool
	paramIdx bool // render parameters positionally ($0, $1…) to compare sibling functions
	follow   bool // see through locals that have exactly one store even when their address escapes (formula extraction)
}

func termF(v ssa.Value) string { return (&termer{seen: map[ssa.Value]bool{}, follow: true}).t(v) }

// onlyStore: the unique Store whose address is a (regardless of other referrers).
func onlyStore(a *ssa.Alloc) *ssa.Store {
	var st *ssa.Store
	if refs := a.Referrers(); refs != nil {
		for _, r := range *refs {
			if x, ok := r.(*ssa.Store); ok && x.Addr == ssa.Value(a) {
				if st != nil {
					return nil
				}
				st = x
			}
		}
	}
	return st
}

func termP(v ssa.Value) string { return (&termer{seen: map[ssa.Value]bool{}, paramIdx: true}).t(v) }

func constName(c *ssa.Const) string {
	if c.Value == nil {
		return "nil"
	}
	t := c.Type()
	if n, ok := t.(*types.Named); ok && n.Obj().Pkg() != nil {
		sc := n.Obj().Pkg().Scope()
		var names []string
		for _, nm := range sc.Names() {
			if k, ok := sc.Lookup(nm).(*types.Const); ok && types.Identical(k.Type(), t) && constant.Compare(k.Val(), token.EQL, c.Value) {
				names = append(names, n.Obj().Pkg().Name()+"."+nm)
			}
		}
		if len(names) > 0 {
			sort.Strings(names)
			return names[0]
		}
	}
	if c.Value.Kind() == constant.String {
		return c.Value.ExactString()
	}
	return c.Value.String()
}

func fieldName(t types.Type, idx int) string {
	if p, ok := t.Underlying().(*types.Pointer); ok {
		t = p.Elem()
	}
	if st, ok := t.Underlying().(*types.Struct); ok && idx < st.NumFields() {
		return st.Field(idx).Name()
	}
	return fmt.Sprintf("f%d", idx)
}

func term(v ssa.Value) string { return (&termer{seen: map[ssa.Value]bool{}}).t(v) }

func (tm *termer) t(v ssa.Value) string {
	if v == nil {
		return "<nil>"
	}
	tm.depth++
	defer func() { tm.depth-- }()
	if tm.depth > 14 {
		return "…"
	}
	switch x := v.(type) {
	case *ssa.Const:
		return constName(x)
	case *ssa.Parameter:
		if tm.paramIdx {
			for i, p := range x.Parent().Params {
				if p == x {
					return fmt.Sprintf("$%d", i)
				}
			}
		}
		return baseParamName(x)
	case *ssa.FreeVar:
		return baseFreeVarName(x)
	case *ssa.Global:
		return "&" + x.Pkg.Pkg.Name() + "." + x.Name()
	case *ssa.Function:
		return "func:" + qname(x)
	case *ssa.Builtin:
		return x.Name()
	case *ssa.Alloc:
		// single-store local? render the stored value
		if st := singleStore(x); st != nil && !tm.seen[x] {
			tm.seen[x] = true
			s := "&{" + tm.t(st.Val) + "}"
			delete(tm.seen, x)
			return s
		}
		if tm.follow && !tm.seen[x] {
			if st := onlyStore(x); st != nil {
				tm.seen[x] = true
				s := "&{" + tm.t(st.Val) + "}"
				delete(tm.seen, x)
				return s
			}
		}
		if x.Comment != "" {
			return "&local:" + baseAllocName(x)
		}
		return "&local"
	case *ssa.UnOp:
		switch x.Op {
		case token.MUL:
			s := tm.t(x.X)
			if strings.HasPrefix(s, "&{") && strings.HasSuffix(s, "}") {
				return s[2 : len(s)-1]
			}
			if strings.HasPrefix(s, "&") {
				return s[1:]
			}
			return "*" + s
		case token.NOT:
			return "!" + tm.t(x.X)
		case token.ARROW:
			return "<-" + tm.t(x.X)
		default:
			return x.Op.String() + tm.t(x.X)
		}
	case *ssa.BinOp:
		return "(" + tm.t(x.X) + " " + x.Op.String() + " " + tm.t(x.Y) + ")"
	case *ssa.FieldAddr:
		b := tm.t(x.X)
		b = strings.TrimPrefix(b, "&")
		return "&" + b + "." + fieldName(x.X.Type(), x.Field)
	case *ssa.Field:
		return tm.t(x.X) + "." + fieldName(x.X.Type(), x.Field)
	case *ssa.IndexAddr:
		b := strings.TrimPrefix(tm.t(x.X), "&")
		return "&" + b + "[" + tm.t(x.Index) + "]"
	case *ssa.Index:
		return tm.t(x.X) + "[" + tm.t(x.Index) + "]"
	case *ssa.Lookup:
		return tm.t(x.X) + "[" + tm.t(x.Index) + "]"
	case *ssa.Extract:
		return tm.t(x.Tuple) + "#" + fmt.Sprint(x.Index)
	case *ssa.Call:
		return tm.call(x.Common())
	case *ssa.Phi:
		if tm.seen[x] {
			return "φ↺"
		}
		tm.seen[x] = true
		defer delete(tm.seen, x)
		var es []string
		for _, e := range x.Edges {
			es = append(es, tm.t(e))
		}
		sort.Strings(es)
		es = uniq(es)
		if len(es) == 1 {
			return es[0]
		}
		return "φ(" + strings.Join(es, " | ") + ")"
	case *ssa.Convert:
		return typeShort(x.Type()) + "(" + tm.t(x.X) + ")"
	case *ssa.ChangeType:
		return tm.t(x.X)
	case *ssa.ChangeInterface:
		return tm.t(x.X)
	case *ssa.MakeInterface:
		return tm.t(x.X)
	case *ssa.TypeAssert:
		return tm.t(x.X) + ".(" + typeShort(x.AssertedType) + ")"
	case *ssa.Slice:
		if a, ok := x.X.(*ssa.Alloc); ok && x.Low == nil && x.High == nil {
			if els := arrayLiteral(a); els != nil {
				var ps []string
				for _, e := range els {
					ps = append(ps, tm.t(e))
				}
				return "[" + strings.Join(ps, ", ") + "]"
			}
		}
		s := tm.t(x.X)
		s = strings.TrimPrefix(s, "&")
		lo, hi := "", ""
		if x.Low != nil {
			lo = tm.t(x.Low)
		}
		if x.High != nil {
			hi = tm.t(x.High)
		}
		return s + "[" + lo + ":" + hi + "]"
	case *ssa.MakeClosure:
		return "closure:" + qname(x.Fn.(*ssa.Function))
	case *ssa.MakeSlice:
		return "make(" + typeShort(x.Type()) + ")"
	case *ssa.MakeMap:
		return "make(" + typeShort(x.Type()) + ")"
	case *ssa.MakeChan:
		return "make(" + typeShort(x.Type()) + ")"
	case *ssa.Range:
		return "range(" + tm.t(x.X) + ")"
	case *ssa.Next:
		return "next(" + tm.t(x.Iter) + ")"
	case *ssa.SliceToArrayPointer:
		return tm.t(x.X)
	case *ssa.MultiConvert:
		return tm.t(x.X)
	}
	return fmt.Sprintf("?%T", v)
}

func (tm *termer) call(cc *ssa.CallCommon) string {
	var args []string
	for _, a := range cc.Args {
		args = append(args, tm.t(a))
	}
	if cc.IsInvoke() {
		return tm.t(cc.Value) + "." + cc.Method.Name() + "(" + strings.Join(args, ", ") + ")"
	}
	if f := cc.StaticCallee(); f != nil {
		o := f
		if o.Origin() != nil {
			o = o.Origin()
		}
		if o.Signature.Recv() != nil && len(args) > 0 {
			return args[0] + "." + o.Name() + "(" + strings.Join(args[1:], ", ") + ")"
		}
		nm := o.Name()
		if o.Pkg != nil {
			nm = o.Pkg.Pkg.Name() + "." + nm
		}
		return nm + "(" + strings.Join(args, ", ") + ")"
	}
	return tm.t(cc.Value) + "(" + strings.Join(args, ", ") + ")"
}

func typeShort(t types.Type) string {
	return types.TypeString(t, func(p *types.Package) string { return p.Name() })
}

func uniq(s []string) []string {
	var o []string
	for i, x := range s {
		if i == 0 || x != s[i-1] {
			o = append(o, x)
		}
	}
	return o
}

// singleStore: an Alloc that is stored to exactly once (whole value) and never address-taken otherwise.
func singleStore(a *ssa.Alloc) *ssa.Store {
	var st *ssa.Store
	refs := a.Referrers()
	if refs == nil {
		return nil
	}
	for _, r := range *refs {
		switch x := r.(type) {
		case *ssa.Store:
			if x.Addr == a {
				if st != nil {
					return nil
				}
				st = x
			} else {
				return nil // address escapes via store
			}
		case *ssa.UnOp:
		case *ssa.DebugRef:
		case *ssa.Slice:
		case *ssa.MakeClosure:
			// captured by reference: fine if the closure only reads it
			fn, ok := x.Fn.(*ssa.Function)
			if !ok {
				return nil
			}
			for i, b := range x.Bindings {
				if b != ssa.Value(a) || i >= len(fn.FreeVars) {
					continue
				}
				if rr := fn.FreeVars[i].Referrers(); rr != nil {
					for _, u := range *rr {
						switch u.(type) {
						case *ssa.UnOp, *ssa.DebugRef:
						default:
							return nil
						}
					}
				}
			}
		case *ssa.FieldAddr:
			// read-only field access of a struct local
			if rr := x.Referrers(); rr != nil {
				for _, u := range *rr {
					switch u.(type) {
					case *ssa.UnOp, *ssa.DebugRef:
					default:
						return nil
					}
				}
			}
		default:
			return nil
		}
	}
	return st
}

// ---------- facts (E5) ----------

type Fact struct {
	Cond ssa.Value
	Pos  bool // cond is true
}

func (f Fact) String() string {
	if f.Pos {
		return term(f.Cond)
	}
	return "!" + term(f.Cond)
}

// factsAtBlock: branch conditions that hold on every path reaching b.
func factsAtBlock(b *ssa.BasicBlock) []Fact {
	var out []Fact
	for cur := b; cur != nil; {
		d := cur.Idom()
		if d == nil {
			break
		}
		if len(d.Instrs) > 0 {
			if iff, ok := d.Instrs[len(d.Instrs)-1].(*ssa.If); ok && d.Succs[0] != d.Succs[1] {
				// which successor leads (exclusively) to cur?
				for k, s := range d.Succs {
					if (s == cur || s.Dominates(cur)) && len(s.Preds) == 1 {
						out = append(out, expandFact(Fact{iff.Cond, k == 0}, 0)...)
					}
				}
			}
		}
		cur = d
	}
	return out
}

// expandFact decomposes negations and materialised && / || φ-forms.
func expandFact(f Fact, depth int) []Fact {
	out := []Fact{f}
	if depth > 6 {
		return out
	}
	switch x := f.Cond.(type) {
	case *ssa.UnOp:
		if x.Op == token.NOT {
			return append(out, expandFact(Fact{x.X, !f.Pos}, depth+1)...)
		}
	case *ssa.Phi:
		// a && b materialised: φ(false, ..., b): true ⇒ b true and facts of b's pred block
		// a || b materialised: φ(true, ..., b): false ⇒ b false
		var non []int
		allConst := true
		for i, e := range x.Edges {
			if c, ok := e.(*ssa.Const); ok && c.Value != nil && c.Value.Kind() == constant.Bool {
				if constant.BoolVal(c.Value) == f.Pos {
					allConst = false // a const edge equal to outcome: no info
					non = nil
					break
				}
				continue
			}
			non = append(non, i)
		}
		_ = allConst
		if len(non) == 1 {
			i := non[0]
			out = append(out, expandFact(Fact{x.Edges[i], f.Pos}, depth+1)...)
			pred := x.Block().Preds[i]
			out = append(out, factsAtBlock(pred)...)
			// facts established by pred's own terminating If? pred jumps to φ block unconditionally or by If
			if len(pred.Instrs) > 0 {
				if iff, ok := pred.Instrs[len(pred.Instrs)-1].(*ssa.If); ok {
					_ = iff
				}
			}
		}
	}
	return out
}

func factsAt(in ssa.Instruction) []Fact { return factsAtBlock(in.Block()) }

func factStrings(fs []Fact) []string {
	var o []string
	for _, f := range fs {
		o = append(o, f.String())
	}
	sort.Strings(o)
	return uniq(o)
}

func hasFact(fs []string, sub ...string) bool {
	// "!(" as the first pattern: the fact is a negation; every equivalent spelling of a comparison is tried (equivForms)
	wantNeg := len(sub) > 0 && sub[0] == "!("
	if wantNeg {
		sub = sub[1:]
	}
	for _, f0 := range fs {
		for _, f := range equivForms(f0) {
			if wantNeg && !strings.HasPrefix(f, "!") {
				continue
			}
			if matchOrdered(f, sub) {
				return true
			}
		}
	}
	return false
}

func namedOf(t types.Type) *types.Named {
	for {
		switch x := t.(type) {
		case *types.Pointer:
			t = x.Elem()
		case *types.Alias:
			t = types.Unalias(x)
		case *types.Named:
			return x
		default:
			return nil
		}
	}
}

func isNamed(t types.Type, pkgRel, name string) bool {
	n := namedOf(t)
	if n == nil || n.Obj().Pkg() == nil {
		return false
	}
	o := n.Origin().Obj()
	return o.Name() == name && (o.Pkg().Path() == modPath+"/"+pkgRel || o.Pkg().Path() == pkgRel)
}

func (p *Prog) lookupType(pkgRel, name string) types.Type {
	pk := p.pkg(pkgRel)
	if pk == nil {
		return nil
	}
	o := pk.Types.Scope().Lookup(name)
	if o == nil {
		return nil
	}
	return o.Type()
}

// allInstrs iterates over all instructions of fn.
func allInstrs(fn *ssa.Function, f func(ssa.Instruction)) {
	for _, b := range fn.Blocks {
		for _, in := range b.Instrs {
			f(in)
		}
	}
}

// sortedFuncs returns module functions sorted by name (deterministic iteration).
func (p *Prog) sortedFuncs() []*ssa.Function {
	var out []*ssa.Function
	for f := range p.AllFuncs {
		out = append(out, f)
	}
	sort.Slice(out, func(i, j int) bool {
		a, b := out[i].String(), out[j].String()
		if a != b {
			return a < b
		}
		return fnPos(out[i]) < fnPos(out[j])
	})
	return out
}

// arrayLiteral: elements stored into a local array alloc at constant indices (varargs / composite literal), in index order.
func arrayLiteral(a *ssa.Alloc) []ssa.Value {
	refs := a.Referrers()
	if refs == nil {
		return nil
	}
	els := map[int64]ssa.Value{}
	for _, r := range *refs {
		switch x := r.(type) {
		case *ssa.IndexAddr:
			k, ok := x.Index.(*ssa.Const)
			if !ok || k.Value == nil {
				return nil
			}
			if rr := x.Referrers(); rr != nil {
				for _, u := range *rr {
					if st, ok := u.(*ssa.Store); ok && st.Addr == x {
						els[k.Int64()] = st.Val
					}
				}
			}
		case *ssa.Slice, *ssa.DebugRef:
		default:
			return nil
		}
	}
	if len(els) == 0 {
		return nil
	}
	out := make([]ssa.Value, len(els))
	for i := range out {
		v, ok := els[int64(i)]
		if !ok {
			return nil
		}
		out[i] = v
	}
	return out
}

// returnsOf lists the (de-spilled) result tuples of fn's normal returns. go/ssa spills results into locals when the
// function has defers: `*t0 = v; rundefers; t = *t0; return t` — the stored value is recovered. The synthetic
// recover block is skipped.
func returnsOf(fn *ssa.Function) []*retInfo {
	var out []*retInfo
	for _, b := range fn.Blocks {
		if b == fn.Recover || len(b.Instrs) == 0 {
			continue
		}
		ret, ok := b.Instrs[len(b.Instrs)-1].(*ssa.Return)
		if !ok {
			continue
		}
		ri := &retInfo{Ret: ret, Block: b}
		for _, r := range ret.Results {
			ri.Results = append(ri.Results, unspill(r, b))
		}
		out = append(out, ri)
	}
	return out
}

type retInfo struct {
	Ret     *ssa.Return
	Block   *ssa.BasicBlock
	Results []ssa.Value
}

func unspill(r ssa.Value, b *ssa.BasicBlock) ssa.Value {
	u, ok := r.(*ssa.UnOp)
	if !ok || u.Op != token.MUL || u.Block() != b {
		return r
	}
	a, ok := u.X.(*ssa.Alloc)
	if !ok {
		return r
	}
	// last store to a in block b before u; else unique store in dominating blocks
	var last ssa.Value
	for _, in := range b.Instrs {
		if in == ssa.Instruction(u) {
			break
		}
		if st, ok := in.(*ssa.Store); ok && st.Addr == ssa.Value(a) {
			last = st.Val
		}
	}
	if last != nil {
		return last
	}
	return r
}

// canonGeneric maps an "instantiation" whose type arguments are the generic's own type parameters (the form in which
// generic bodies call sibling generic methods) back to the generic origin, which is the function we analyse.
func canonGeneric(g *ssa.Function) *ssa.Function {
	o := g.Origin()
	if o == nil {
		return g
	}
	for _, ta := range g.TypeArgs() {
		if _, ok := types.Unalias(ta).(*types.TypeParam); !ok {
			return g
		}
	}
	return o
}

// ---------- helper-aware site search (rules must survive "extract helper" / "split function") ----------

// deepSite is a call site found in fn or in a same-package helper reachable from fn; Chain lists the call sites that lead
// from fn down to the function containing Site (empty when Site is in fn or one of its closures).
type deepSite struct {
	Site  Site
	Chain []Site
}

// outer returns the instruction inside the anchor function that stands for this site (the outermost call of the chain).
func (d deepSite) outer() ssa.Instruction {
	if len(d.Chain) > 0 {
		return d.Chain[0].Instr
	}
	return d.Site.Instr
}

func (p *Prog) deepSites(fn *ssa.Function, match func(Site) bool, depth int) []deepSite {
	var out []deepSite
	seen := map[*ssa.Function]bool{}
	var walk func(f *ssa.Function, chain []Site, d int)
	walk = func(f *ssa.Function, chain []Site, d int) {
		if seen[f] {
			return
		}
		seen[f] = true // recursion guard only: a helper called twice yields one chain per call
		defer delete(seen, f)
		for _, g := range withAnons(f) {
			for _, s := range sitesOf(g) {
				if match(s) {
					out = append(out, deepSite{Site: s, Chain: append([]Site{}, chain...)})
				}
				if d < depth && s.Callee != nil && len(s.Callee.Blocks) > 0 && canonGeneric(s.Callee).Pkg != nil && rootOf(fn).Pkg != nil &&
					canonGeneric(s.Callee).Pkg == canonGeneric(rootOf(fn)).Pkg && !match(s) {
					walk(s.Callee, append(append([]Site{}, chain...), s), d+1)
				}
			}
		}
	}
	walk(fn, nil, 0)
	return out
}

// mustHoldDeep: conditions that hold at the site, in the anchor function's terms: the caller-side condition of every call of
// the chain, conjoined with the callee-side conditions with parameters replaced by the argument terms.
func (p *Prog) mustHoldDeep(ds deepSite) dnf {
	d := dnf{conj{}}
	// innermost first: condition at Site within its function, then substitute upwards
	cur := p.mustHoldAt(ds.Site.Instr)
	for i := len(ds.Chain) - 1; i >= 0; i-- {
		call := ds.Chain[i]
		if call.Callee != nil {
			cur = substParams(cur, call.Callee, call.Args())
		}
		cur = dnfAnd(p.mustHoldAt(call.Instr), cur)
	}
	return dnfAnd(d, cur)
}

func nameMatcher(names ...string) func(Site) bool {
	return func(s Site) bool {
		n := s.CalleeName()
		for _, name := range names {
			if n == name || strings.HasSuffix(n, "."+name) || strings.HasSuffix(n, ")."+name) || strings.HasSuffix(n, "/"+name) {
				return true
			}
		}
		return false
	}
}

// termInl renders v like term, but sees through a same-package forwarding
// helper: a component of a multi-result helper call, or a single-result helper
// whose only return is itself a call, is rendered as the helper's returned
// term with the call's arguments substituted for its parameters.
func termInl(v ssa.Value) string {
	ts := termInlAll(v, true)
	if len(ts) == 1 {
		return ts[0]
	}
	return term(v)
}

// termInlAll: one term per return of the same-package helper whose result v is
// (arguments substituted for parameters); {term(v)} if v is not such a call.
// strict: a single-result helper is inlined only if it has one return and
// that return is itself a call (pure forwarding).
func termInlAll(v ssa.Value, strict bool) []string {
	idx := 0
	var call *ssa.Call
	switch x := v.(type) {
	case *ssa.Extract:
		c, ok := x.Tuple.(*ssa.Call)
		if !ok {
			return []string{term(v)}
		}
		call, idx = c, x.Index
	case *ssa.Call:
		call, idx = x, -1
	default:
		return []string{term(v)}
	}
	g := call.Call.StaticCallee()
	if g != nil {
		g = canonGeneric(g)
	}
	if g == nil || len(g.Blocks) == 0 || call.Parent() == nil || pkgRelOf(g) == "" || pkgRelOf(g) != pkgRelOf(rootOf(call.Parent())) {
		return []string{term(v)}
	}
	rets := returnsOf(g)
	if len(rets) == 0 || (strict && len(rets) != 1) {
		return []string{term(v)}
	}
	var out []string
	for _, r := range rets {
		var rv ssa.Value
		if idx < 0 {
			if len(r.Results) != 1 {
				return []string{term(v)}
			}
			rv = r.Results[0]
			if _, ok := rv.(*ssa.Call); !ok && strict {
				return []string{term(v)}
			}
		} else {
			if idx >= len(r.Results) {
				return []string{term(v)}
			}
			rv = r.Results[idx]
		}
		t := termP(rv)
		for i := len(call.Call.Args) - 1; i >= 0; i-- {
			t = strings.ReplaceAll(t, fmt.Sprintf("$%d", i), term(call.Call.Args[i]))
		}
		out = append(out, t)
	}
	return out
}

// deepInstr: an instruction of fn or of a same-package callee (chain = the calls leading to it).
type deepInstr struct {
	In    ssa.Instruction
	Chain []Site
}

func (p *Prog) deepInstrs(fn *ssa.Function, depth int) []deepInstr {
	var out []deepInstr
	onStack := map[*ssa.Function]bool{}
	var walk func(f *ssa.Function, chain []Site, d int)
	walk = func(f *ssa.Function, chain []Site, d int) {
		if onStack[f] {
			return
		}
		onStack[f] = true
		defer delete(onStack, f)
		for _, g := range withAnons(f) {
			allInstrsOne(g, func(in ssa.Instruction) {
				out = append(out, deepInstr{In: in, Chain: chain})
			})
			for _, s := range sitesOf(g) {
				if d < depth && s.Callee != nil && len(s.Callee.Blocks) > 0 && pkgRelOf(s.Callee) != "" && pkgRelOf(s.Callee) == pkgRelOf(fn) {
					walk(s.Callee, append(append([]Site{}, chain...), s), d+1)
				}
			}
		}
	}
	walk(fn, nil, 0)
	return out
}

func allInstrsOne(fn *ssa.Function, f func(ssa.Instruction)) {
	for _, b := range fn.Blocks {
		for _, in := range b.Instrs {
			f(in)
		}
	}
}

// mustHoldChain: like mustHoldDeep for an arbitrary instruction.
func (p *Prog) mustHoldChain(in ssa.Instruction, chain []Site) dnf {
	return p.liftChain(p.mustHoldAt(in), chain)
}

// liftChain: a condition of the innermost function of chain, rewritten into the anchor function's terms and conjoined with
// the conditions of the calls of the chain.
func (p *Prog) liftChain(cur dnf, chain []Site) dnf {
	// an instruction inside a closure: conjoin nothing for the closure boundary (conditions of the enclosing function at
	// the closure's creation are not known to hold when it runs)
	for i := len(chain) - 1; i >= 0; i-- {
		call := chain[i]
		if call.Callee != nil {
			cur = substParams(cur, call.Callee, call.Args())
		}
		cur = dnfAnd(p.mustHoldAt(call.Instr), cur)
	}
	return cur
}

// closureTrueCond: the condition under which the boolean closure created by mc returns true, with its free variables
// replaced by the terms of the values bound at creation.
func (p *Prog) closureTrueCond(mc *ssa.MakeClosure) dnf {
	fn, ok := mc.Fn.(*ssa.Function)
	if !ok || !isBoolResult(fn) {
		return nil
	}
	var d dnf
	for _, ret := range returnsOf(fn) {
		b := &bform{p: p, visited: map[ssa.Value]bool{}}
		rd := b.dnf(ret.Results[0], true, 0)
		d = dnfOr(d, dnfAnd(b.pathCond(ret.Block, nil, fn, 0), rd))
	}
	repl := map[string]string{}
	for i, fv := range fn.FreeVars {
		if i >= len(mc.Bindings) {
			break
		}
		t := strings.TrimPrefix(term(mc.Bindings[i]), "&")
		if strings.HasPrefix(t, "{") && strings.HasSuffix(t, "}") {
			t = t[1 : len(t)-1]
		}
		repl[baseFreeVarName(fv)] = t
	}
	var out dnf
	for _, cj := range d {
		n := conj{}
		for a := range cj {
			// a captured variable is read through its cell: "*name" is the bound variable's value
			for name, r := range repl {
				a = strings.ReplaceAll(a, "*"+name, r)
			}
			n[identRe.ReplaceAllStringFunc(a, func(id string) string {
				if r, ok := repl[id]; ok {
					return r
				}
				return id
			})] = true
		}
		out = append(out, n)
	}
	return out
}

// withFuncValues: fn, its function literals, and the named same-package functions it passes around as values (a closure
// turned into a named function stays in view).
func withFuncValues(fn *ssa.Function) []*ssa.Function {
	out := withAnons(fn)
	seen := map[*ssa.Function]bool{}
	for _, g := range out {
		seen[g] = true
	}
	for _, g := range append([]*ssa.Function{}, out...) {
		allInstrs(g, func(in ssa.Instruction) {
			for _, op := range in.Operands(nil) {
				h, ok := (*op).(*ssa.Function)
				if !ok || seen[h] || len(h.Blocks) == 0 || pkgRelOf(h) != pkgRelOf(fn) {
					continue
				}
				if ci, isCall := in.(ssa.CallInstruction); isCall && ci.Common().Value == ssa.Value(h) {
					continue // a plain call, not a value
				}
				seen[h] = true
				out = append(out, withAnons(h)...)
			}
		})
	}
	return out
}

// structLiteralFields: v is a struct value built by a composite literal — here, or as the single result of a same-package
// constructor (its parameters replaced by the call's argument terms). Returns field name → term of the value the field
// gets; fields the literal does not name get the zero value of their type ("nil", "0", "false", "zero"). nil if v is not
// such a value.
func structLiteralFields(v ssa.Value, depth int) map[string]string {
	if depth > 2 {
		return nil
	}
	switch x := v.(type) {
	case *ssa.UnOp:
		a, ok := x.X.(*ssa.Alloc)
		if !ok || x.Op != token.MUL {
			return nil
		}
		stt, ok := types.Unalias(a.Type().(*types.Pointer).Elem()).Underlying().(*types.Struct)
		if !ok || a.Referrers() == nil {
			return nil
		}
		out := map[string]string{}
		for i := 0; i < stt.NumFields(); i++ {
			switch u := stt.Field(i).Type().Underlying().(type) {
			case *types.Pointer, *types.Interface, *types.Slice, *types.Map, *types.Chan, *types.Signature:
				out[stt.Field(i).Name()] = "nil"
			case *types.Basic:
				if u.Info()&types.IsBoolean != 0 {
					out[stt.Field(i).Name()] = "false"
				} else if u.Info()&types.IsNumeric != 0 {
					out[stt.Field(i).Name()] = "0"
				} else {
					out[stt.Field(i).Name()] = "zero"
				}
			default:
				out[stt.Field(i).Name()] = "zero"
			}
		}
		for _, r := range *a.Referrers() {
			switch y := r.(type) {
			case *ssa.FieldAddr:
				if y.Referrers() == nil {
					continue
				}
				for _, rr := range *y.Referrers() {
					if st, ok := rr.(*ssa.Store); ok && st.Addr == ssa.Value(y) {
						out[stt.Field(y.Field).Name()] = termP(st.Val)
					}
				}
			case *ssa.UnOp, *ssa.DebugRef:
			case *ssa.Store:
				if y.Addr == ssa.Value(a) {
					return nil // copied from another value, not a literal
				}
			default:
				return nil
			}
		}
		return out
	case *ssa.Call:
		g := x.Call.StaticCallee()
		if g == nil {
			return nil
		}
		g = canonGeneric(g)
		if g.Origin() != nil {
			g = g.Origin()
		}
		if len(g.Blocks) == 0 || x.Parent() == nil || pkgRelOf(g) != pkgRelOf(x.Parent()) {
			return nil
		}
		rets := returnsOf(g)
		if len(rets) != 1 || len(rets[0].Results) != 1 {
			return nil
		}
		lf := structLiteralFields(rets[0].Results[0], depth+1)
		for k, t := range lf {
			for i := len(x.Call.Args) - 1; i >= 0; i-- {
				t = strings.ReplaceAll(t, fmt.Sprintf("$%d", i), term(x.Call.Args[i]))
			}
			lf[k] = t
		}
		return lf
	}
	return nil
}

// substTermChain rewrites a term of a helper reached through chain into the anchor function's terms (parameters replaced
// by the argument terms of each call of the chain, innermost first).
func substTermChain(t string, chain []Site) string {
	for i := len(chain) - 1; i >= 0; i-- {
		if chain[i].Callee == nil {
			continue
		}
		d := substParams(dnf{conj{t: true}}, chain[i].Callee, chain[i].Args())
		for a := range d[0] {
			if a != t {
				t = a
				break
			}
		}
	}
	return t
}

// flowsFromCallResult: v is result #idx of the call target — directly, or handed on through φ/conversions/single-store
// locals, through the results of same-package helpers (every return of the helper that does not report an error hands on
// such a value) and through parameters (at every call of the enclosing function).
func (p *Prog) flowsFromCallResult(v ssa.Value, target *ssa.Call, idx, depth int) bool {
	if v == nil || depth > 8 {
		return false
	}
	switch x := v.(type) {
	case *ssa.Extract:
		call, ok := x.Tuple.(*ssa.Call)
		if !ok {
			return false
		}
		if call == target {
			return x.Index == idx
		}
		g := call.Call.StaticCallee()
		if g == nil || len(g.Blocks) == 0 || target.Parent() == nil || pkgRelOf(g) != pkgRelOf(rootOf(target.Parent())) {
			return false
		}
		n := 0
		for _, r := range returnsOf(g) {
			if x.Index >= len(r.Results) {
				return false
			}
			last := r.Results[len(r.Results)-1]
			if last.Type().String() == "error" && !isNilConst(last) && x.Index != len(r.Results)-1 {
				continue // error return: the value is not used by the caller
			}
			n++
			if !p.flowsFromCallResult(r.Results[x.Index], target, idx, depth+1) {
				return false
			}
		}
		return n > 0
	case *ssa.Parameter:
		fn := x.Parent()
		pi := -1
		for i, q := range fn.Params {
			if q == x {
				pi = i
			}
		}
		callers := p.callersOf(fn)
		if pi < 0 || len(callers) == 0 {
			return false
		}
		for _, cs := range callers {
			args := cs.Instr.Common().Args
			if pi >= len(args) || !p.flowsFromCallResult(args[pi], target, idx, depth+1) {
				return false
			}
		}
		return true
	case *ssa.Phi:
		if len(x.Edges) == 0 {
			return false
		}
		for _, e := range x.Edges {
			if !p.flowsFromCallResult(e, target, idx, depth+1) {
				return false
			}
		}
		return true
	case *ssa.ChangeType:
		return p.flowsFromCallResult(x.X, target, idx, depth+1)
	case *ssa.Convert:
		return p.flowsFromCallResult(x.X, target, idx, depth+1)
	case *ssa.UnOp:
		if a, ok := x.X.(*ssa.Alloc); ok && x.Op == token.MUL {
			if st := singleStore(a); st != nil {
				return p.flowsFromCallResult(st.Val, target, idx, depth+1)
			}
		}
	}
	return false
}

// backSlice: the values v is computed from, within its function (operands transitively; a call's result depends on all of
// its arguments and its receiver; a local cell depends on everything stored into it or into a part of it, and on the
// arguments of calls that receive its address).
func backSlice(v ssa.Value) map[ssa.Value]bool {
	seen := map[ssa.Value]bool{}
	var walk func(v ssa.Value, d int)
	walk = func(v ssa.Value, d int) {
		if v == nil || seen[v] || d > 60 {
			return
		}
		seen[v] = true
		switch x := v.(type) {
		case *ssa.Alloc:
			var cell func(a ssa.Value, dd int)
			cell = func(a ssa.Value, dd int) {
				refs := a.Referrers()
				if refs == nil || dd > 4 {
					return
				}
				for _, r := range *refs {
					switch y := r.(type) {
					case *ssa.Store:
						if y.Addr == a {
							walk(y.Val, d+1)
						}
					case *ssa.Slice:
						cell(y, dd+1)
					case *ssa.IndexAddr:
						cell(y, dd+1)
					case *ssa.FieldAddr:
						cell(y, dd+1)
					case ssa.CallInstruction:
						for _, arg := range y.Common().Args {
							if arg != a {
								walk(arg, d+1)
							}
						}
					}
				}
			}
			cell(x, 0)
		case *ssa.Call:
			for _, a := range x.Call.Args {
				walk(a, d+1)
			}
			walk(x.Call.Value, d+1)
		default:
			if in, ok := v.(ssa.Instruction); ok {
				for _, op := range in.Operands(nil) {
					if op != nil && *op != nil {
						walk(*op, d+1)
					}
				}
			}
		}
	}
	walk(v, 0)
	return seen
}
