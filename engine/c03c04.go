package main

import (
	"fmt"
	"go/constant"
	"go/token"
	"go/types"
	"sort"
	"strings"

	"golang.org/x/tools/go/ssa"
)

// rangeSections: the "x.Field" terms of the map/slice values ranged over that feed the arguments of call site s.
func rangeSections(s Site) []string {
	seen := map[ssa.Value]bool{}
	out := map[string]bool{}
	var walk func(v ssa.Value, d int)
	walk = func(v ssa.Value, d int) {
		if v == nil || seen[v] || d > 14 {
			return
		}
		seen[v] = true
		switch x := v.(type) {
		case *ssa.Range:
			t := term(x.X)
			if i := strings.LastIndex(t, "."); i >= 0 {
				t = t[i+1:]
			}
			if j := strings.IndexAny(t, ")#[ "); j >= 0 {
				t = t[:j]
			}
			out[t] = true
			return
		case *ssa.Alloc:
			if refs := x.Referrers(); refs != nil {
				for _, r := range *refs {
					if st, ok := r.(*ssa.Store); ok && st.Addr == x {
						walk(st.Val, d+1)
					}
				}
			}
			return
		case *ssa.Call:
			return // do not cross calls
		}
		if in, ok := v.(ssa.Instruction); ok {
			for _, op := range in.Operands(nil) {
				if *op != nil {
					walk(*op, d+1)
				}
			}
		}
	}
	for _, a := range s.Args() {
		walk(a, 0)
	}
	// index-loop ranges over slices: the slice term appears as IndexAddr base; handled by operands walk only for maps (Range).
	var l []string
	for k := range out {
		l = append(l, k)
	}
	sort.Strings(l)
	return l
}

type attrIndex struct {
	byFn map[*ssa.Function][]Attr
	all  []Attr
}

func (p *Prog) attrIndex(r *resolver, ci *capInfo) *attrIndex {
	ai := &attrIndex{byFn: map[*ssa.Function][]Attr{}}
	ai.all = p.allAttributions(r, ci)
	for _, a := range ai.all {
		ai.byFn[a.Fn] = append(ai.byFn[a.Fn], a)
	}
	return ai
}

// sectionEffects: (bucket, op, section) triples of the direct call sites in fn (and its closures) to attributed accessors.
func sectionEffects(p *Prog, ai *attrIndex, fn *ssa.Function, writeOps bool) map[string]string {
	return sectionEffectsD(p, ai, fn, writeOps, 0)
}

func sectionEffectsD(p *Prog, ai *attrIndex, fn *ssa.Function, writeOps bool, depth int) map[string]string {
	out := map[string]string{} // "bucket|section" -> pos
	for _, f := range withAnons(fn) {
		for _, s := range sitesOf(f) {
			if s.Callee == nil {
				continue
			}
			// a helper of the same receiver/package that walks sections itself (function split): look inside it
			if depth < 2 && s.Callee.Pkg == fn.Pkg && s.Callee != fn && len(s.Callee.Blocks) > 0 && len(rangeSections(s)) == 0 {
				sub := sectionEffectsD(p, ai, s.Callee, writeOps, depth+1)
				named := false
				for k := range sub {
					if !strings.HasSuffix(k, "|*") {
						named = true
					}
				}
				if named {
					for k, v := range sub {
						out[k] = v
					}
					continue
				}
			}
			for _, a := range ai.byFn[s.Callee] {
				isW := a.Op == "Put"
				isD := a.Op == "Delete" || a.Op == "DeleteRange"
				if (writeOps && !isW) || (!writeOps && !isD) {
					continue
				}
				secs := rangeSections(s)
				if len(secs) == 0 {
					secs = []string{"*"}
				}
				for _, sec := range secs {
					out[a.Bucket+"|"+sec] = p.Pos(s.Pos())
				}
			}
		}
	}
	return out
}

func putBuckets(effs []Eff, ops ...string) (map[string]Eff, []Eff) {
	res := map[string]Eff{}
	var unres []Eff
	for _, e := range effs {
		match := false
		for _, o := range ops {
			if e.Op == o {
				match = true
			}
		}
		if !match {
			continue
		}
		real := 0
		for _, b := range e.Buckets {
			if !strings.HasPrefix(b, "?") {
				real++
				if _, ok := res[b]; !ok {
					res[b] = e
				}
			}
		}
		if real == 0 {
			unres = append(unres, e)
		}
	}
	return res, unres
}

var historyBuckets = map[string]bool{
	"ContractStorageHistory": true, "ContractNonceHistory": true, "ContractClassHashHistory": true,
	"DeprecatedContractStorageHistory": true, "DeprecatedContractNonceHistory": true, "DeprecatedContractClassHashHistory": true,
}

func init() {
	register("C03", func(c *Ctx) {
		p := c.P
		c.Explain = "Structural plumbing of the history encodings, decided on SSA + call graph: (sentinel) every caller of a function that may return the 'no log entry — consult the head/zero' sentinels (deprecatedstate.ErrCheckHeadState, state.ErrNoHistoryValue) classifies it; " +
			"(history-pairing) every history bucket × state-diff section that Update logs is un-logged by Revert; (key-shape) history writers and readers build keys from the same bucket, the same operand order and an 8-byte big-endian block suffix; " +
			"(every-entry) each history log/un-log call runs for every entry of the diff section it ranges over (only iteration, error checks and flag parameters may dominate it); (bounded-iterator) every iterator opened on a key prefix is bounded to that prefix (withUpperBound = true) or the loop re-checks bytes.HasPrefix on each key — an unbounded seek lands on the neighbouring key's history when the queried key has no later entry; (gates) historical views pass the retention gate before a reader is built and consult the deployment height before answering. Not decided: the off-by-one semantics of valueAt, i.e. that the value returned is the value as of block n."
		ci := p.caps()
		r := p.newResolver()
		ai := p.attrIndex(r, ci)
		c03Sentinel(c)
		c03Pairing(c, ci, r, ai)
		c03KeyShape(c)
		c03Gates(c)
		c03BoundedIterator(c)
		// every-entry rule
		nu := 0
		for _, sp := range []struct {
			f     fref
			write bool
		}{
			{fref{"core/state", "State", "writeHistory"}, true},
			{fref{"core/state", "State", "deleteHistory"}, false},
			{fref{"core/deprecatedstate", "State", "performStateDeletions"}, false},
			{fref{"core/deprecatedstate", "State", "updateContracts"}, true},
			{fref{"core/deprecatedstate", "State", "updateStorageBuffered"}, true},
			{fref{"pruner", "", "pruneStateHistoryFromUpdate"}, false},
		} {
			fn := p.Func(sp.f.pkg, sp.f.recv, sp.f.name)
			if fn == nil {
				c.und("every-entry", sp.f.recv+"."+sp.f.name, "", "anchor not found")
				continue
			}
			nu += unconditionalLog(c, "every-entry", fn, ai, sp.write)
		}
		c.floor("every-entry", 15)
		_ = nu
	})
	register("C04", func(c *Ctx) {
		p := c.P
		c.Explain = "Revert is the structural inverse of Store at bucket granularity, decided from resolved bucket-effect sets over the call graph: (inverse-buckets) every bucket Put by the Store closure of a backend is Deleted/DeleteRanged/re-Put by its RevertHead closure, and the running-filter window Put is paired with a Delete; " +
			"(reverse-diff) building the reverse diff classifies the 'no log entry' sentinel (shared with C03); (root-auth) Revert authenticates the root before mutating and before success; (one-batch) the RevertHead closures write only through the batch (shared with C05); " +
			"(in-memory-inverse) RunningEventFilter.inner/next are written only by insert/onReorg/ensureInit/UnmarshalBinary; (no-early-success) in the state packages and the block-content helpers no success return sits inside the body of a range loop over the entries being applied or undone — a per-entry step may skip its entry (continue) or fail, but not end the whole pass early. Not decided: observational equality of the values, fork convergence."
		c04NoEarlySuccess(c)
		c04EverySection(c)
		c04ReadAfterDelete(c)
		// (no-underflow) the helpers that store and undo a block compute with block numbers in uint64: `blockNumber-1` and the
		// like must be guarded against block 0 (seeded change C04-I asks the CASM metadata for "the block before" without the
		// guard: at genesis the argument wraps to MaxUint64 and every class looks as if it had been declared earlier)
		c.usubRule("no-underflow", func(fn *ssa.Function) bool {
			return pkgRelOf(fn) == "blockchain/statebackend" && !strings.HasSuffix(p.Pos(fnPos(fn)), "_test.go") && !p.InFixture(fnPos(fn))
		}, nil)
		ci := p.caps()
		r := p.newResolver()
		nilCfg := nilConfigTrieDB(c, "inverse-buckets")
		roots := p.helperClosures(ci, "blockchain/statebackend")
		type pair struct{ store, revert *AtomicRoot }
		pairs := map[string]*pair{}
		for i := range roots {
			rt := &roots[i]
			if rt.Closure == nil || p.InFixture(rt.Site.Pos()) {
				continue
			}
			be := recvName(rt.Outer.Signature.Recv().Type())
			if pairs[be] == nil {
				pairs[be] = &pair{}
			}
			switch rt.Outer.Name() {
			case "Store":
				pairs[be].store = rt
			case "RevertHead":
				pairs[be].revert = rt
			}
		}
		var bes []string
		for k := range pairs {
			bes = append(bes, k)
		}
		sort.Strings(bes)
		n := 0
		for _, be := range bes {
			pr := pairs[be]
			if pr.store == nil || pr.revert == nil {
				c.und("inverse-buckets", be, "", "backend lacks a Store or a RevertHead atomic closure")
				continue
			}
			W, wun := putBuckets(p.effectsFrom(r, ci, pr.store.Closure, atomicCut(c, nilCfg)), "Put")
			R, _ := putBuckets(p.effectsFrom(r, ci, pr.revert.Closure, atomicCut(c, nilCfg)), "Delete", "DeleteRange", "Put")
			D, _ := putBuckets(p.effectsFrom(r, ci, pr.revert.Closure, atomicCut(c, nilCfg)), "Delete", "DeleteRange")
			for _, e := range wun {
				c.und("inverse-buckets", be+":unresolved-put@"+qname(e.Fn), p.Pos(e.Pos), "a Put reachable from Store has a key whose bucket cannot be resolved; path "+e.Path)
			}
			var ws []string
			for b := range W {
				ws = append(ws, b)
			}
			sort.Strings(ws)
			for _, b := range ws {
				n++
				e := W[b]
				// index-like buckets (one key per block / tx / contract instance) must be *deleted*, not merely overwritten
				needDelete := !(strings.HasSuffix(b, "Trie") || b == "ChainHeight" || b == "ContractTrieContract" || b == "ContractTrieStorage" || b == "ClassTrie" ||
					b == "ContractStorage" || b == "ContractNonce" || b == "ContractClassHash" || b == "Contract" || b == "ClassCasmHashMetadata")
				_, inR := R[b]
				_, inD := D[b]
				if (needDelete && inD) || (!needDelete && inR) {
					c.ok("inverse-buckets", be+":"+b, p.Pos(e.Pos), "written by Store ("+qname(e.Fn)+"), undone by RevertHead")
				} else {
					c.viol("inverse-buckets", be+":"+b, p.Pos(e.Pos),
						fmt.Sprintf("bucket %s is written when a block is stored (%s) but no Delete/DeleteRange of that bucket is reachable from %s.RevertHead: revert leaves the entry behind", b, qname(e.Fn), be))
				}
			}
		}
		c.floor("inverse-buckets", 30)
		c.needFixture("inverse-buckets")
		// fixture: a bucket written by a fixture "store" function but not deleted by the fixture "revert" — exercised through c04FixturePair
		c04FixturePair(c, ci, r, nilCfg)

		// reverse-diff = C03 sentinel instances in GetReverseStateDiff
		c03Sentinel(c)
		// root-auth (Revert half)
		rootAuthRevert(c)
		// one-batch: RevertHead closures
		for _, rt := range roots {
			if rt.Closure == nil || p.InFixture(rt.Site.Pos()) || rt.Outer.Name() != "RevertHead" {
				continue
			}
			reach := p.Reachable([]*ssa.Function{rt.Closure}, atomicCut(c, nilCfg))
			bad := 0
			for _, f := range reach.Funcs() {
				for _, l := range p.storeLeaks(ci, f) {
					bad++
					c.viol("one-batch", qname(rt.Outer)+" ⊢ "+qname(f)+" ["+l.Kind+"]", p.Pos(l.Pos), "revert effect bypasses the batch: "+l.What+"; path "+reach.Path(f))
				}
			}
			if bad == 0 {
				c.ok("one-batch", qname(rt.Outer), p.Pos(rt.Site.Pos()), fmt.Sprintf("%d reachable functions, all writes through the batch", len(reach.Pred)))
			}
		}
		c.floor("one-batch", 2)
		// in-memory inverse
		fieldWriters(c, "in-memory-inverse", "core", "RunningEventFilter", []string{"inner", "next"},
			map[string]string{"insert": "forward step", "onReorg": "inverse step", "ensureInit$1": "lazy initialisation", "ensureInit": "lazy initialisation", "UnmarshalBinary": "decoding a snapshot",
				"NewRunningEventFilterHot": "constructor", "NewRunningEventFilterLazy": "constructor"})
	})
}

// fieldWriters: all SSA stores to the given fields of pkg.typ must be in functions of the allow table.
func fieldWriters(c *Ctx, rule, pkg, typ string, fields []string, allow map[string]string) {
	p := c.P
	want := map[string]bool{}
	for _, f := range fields {
		want[f] = true
	}
	n := 0
	for _, fn := range p.sortedFuncs() {
		allInstrs(fn, func(in ssa.Instruction) {
			st, ok := in.(*ssa.Store)
			if !ok {
				return
			}
			fa, ok := st.Addr.(*ssa.FieldAddr)
			if !ok || !isNamed(fa.X.Type(), pkg, typ) {
				return
			}
			fname := fieldName(fa.X.Type(), fa.Field)
			if !want[fname] {
				return
			}
			name := fn.Name()
			if fn.Parent() != nil {
				name = rootOf(fn).Name() + "$" + strings.TrimPrefix(fn.Name(), rootOf(fn).Name()+"$")
				if _, ok := allow[name]; !ok {
					name = rootOf(fn).Name()
				}
			}
			n++
			construct := typ + "." + fname + " ← " + qname(fn)
			if why, ok := allow[name]; ok {
				c.ok(rule, construct, p.Pos(posOf(in, fn)), "allowed writer: "+why)
			} else if _, fresh := fa.X.(*ssa.Alloc); fresh {
				c.ok(rule, construct, p.Pos(posOf(in, fn)), "store into a freshly allocated object (construction)")
			} else {
				c.viol(rule, construct, p.Pos(posOf(in, fn)), fmt.Sprintf("field %s.%s is written outside its owner functions", typ, fname))
			}
		})
	}
	if n == 0 {
		c.und(rule, typ, "", "no store to the listed fields found (renamed?)")
	}
}

func c03Sentinel(c *Ctx) {
	c.sentinelRule("sentinel", SentinelSpec{Pkg: "core/deprecatedstate", Var: "ErrCheckHeadState", Members: []fref{
		{"core/deprecatedstate", "State", "valueAt"},
		{"core/deprecatedstate", "State", "ContractStorageAt"},
		{"core/deprecatedstate", "State", "ContractNonceAt"},
		{"core/deprecatedstate", "State", "ContractClassHashAt"},
	}}, 6)
	c.sentinelRule("sentinel", SentinelSpec{Pkg: "core/state", Var: "ErrNoHistoryValue", Members: []fref{
		{"core/state", "StateReader", "valueAt"},
	}}, 1)
}

func c03Pairing(c *Ctx, ci *capInfo, r *resolver, ai *attrIndex) {
	p := c.P
	// new state: writeHistory vs deleteHistory, per bucket × section
	wh := p.Func("core/state", "State", "writeHistory")
	dh := p.Func("core/state", "State", "deleteHistory")
	if wh == nil || dh == nil {
		c.und("history-pairing", "state.writeHistory/deleteHistory", "", "anchor not found")
	} else {
		W := sectionEffects(p, ai, wh, true)
		R := sectionEffects(p, ai, dh, false)
		var ks []string
		for k := range W {
			ks = append(ks, k)
		}
		sort.Strings(ks)
		for _, k := range ks {
			b := strings.SplitN(k, "|", 2)
			_, ok := R[k]
			if !ok {
				_, ok = R[b[0]+"|*"]
			}
			c.check(ok, "history-pairing", "state:"+k, W[k], "logged by writeHistory, un-logged by deleteHistory",
				fmt.Sprintf("history bucket %s is logged for diff section %s by State.writeHistory but State.deleteHistory has no delete of that bucket in that section: a reverted block leaves a stale history entry", b[0], b[1]))
		}
		if len(W) < 4 {
			c.und("history-pairing", "state:writeHistory", p.Pos(fnPos(wh)), fmt.Sprintf("only %d (bucket,section) pairs recognised in writeHistory, expected ≥4", len(W)))
		}
	}
	// both backends, bucket level over the call graph: Update's history Puts ⊆ Revert's history Deletes
	for _, be := range []string{"core/state", "core/deprecatedstate"} {
		up := p.Func(be, "State", "Update")
		rv := p.Func(be, "State", "Revert")
		if up == nil || rv == nil {
			c.und("history-pairing", be+".State.Update/Revert", "", "anchor not found")
			continue
		}
		cut := atomicCut(c, true)
		W, _ := putBuckets(p.effectsFrom(r, ci, up, cut), "Put")
		D, _ := putBuckets(p.effectsFrom(r, ci, rv, cut), "Delete", "DeleteRange")
		n := 0
		var ks []string
		for b := range W {
			ks = append(ks, b)
		}
		sort.Strings(ks)
		for _, b := range ks {
			if !historyBuckets[b] {
				continue
			}
			n++
			_, ok := D[b]
			c.check(ok, "history-pairing", be+":"+b, p.Pos(W[b].Pos), "history bucket logged by Update and deleted by Revert",
				fmt.Sprintf("history bucket %s is written by %s.State.Update (%s) but never deleted on the Revert path", b, be, qname(W[b].Fn)))
		}
		if n < 3 {
			c.und("history-pairing", be+":history-buckets", p.Pos(fnPos(up)), fmt.Sprintf("only %d history buckets found in Update's effect set, expected 3", n))
		}
	}
	c.floor("history-pairing", 10)
}

// key-shape: for each history bucket: the "AtBlock" writer key helper and the prefix helper in db/schema.go take the same bucket
// and the same leading operands; the block number is appended as 8 bytes big-endian; readers append with binary.BigEndian.AppendUint64.
func c03KeyShape(c *Ctx) {
	p := c.P
	pairs := [][2]string{
		{"ContractStorageHistoryKey", "ContractStorageHistoryAtBlockKey"},
		{"ContractNonceHistoryKey", "ContractNonceHistoryAtBlockKey"},
		{"ContractClassHashHistoryKey", "ContractClassHashHistoryAtBlockKey"},
		{"DeprecatedContractStorageHistoryKey", "DeprecatedContractStorageHistoryAtBlockKey"},
		{"DeprecatedContractNonceHistoryKey", "DeprecatedContractNonceHistoryAtBlockKey"},
		{"DeprecatedContractClassHashHistoryKey", "DeprecatedContractClassHashHistoryAtBlockKey"},
	}
	for _, pr := range pairs {
		pf, wf := p.Func("db", "", pr[0]), p.Func("db", "", pr[1])
		if pf == nil || wf == nil {
			c.und("key-shape", pr[0], "", "key helper not found in db/schema.go")
			continue
		}
		pt, wt := retTerm(pf), retTerm(wf)
		// expected: prefix = B.Key(a, b…) ; writer = B.Key(a, b…, uint64ToBytes(blockNum)[:])
		ok := false
		msg := ""
		if strings.HasSuffix(pt, "])") && strings.HasPrefix(wt, pt[:len(pt)-2]) {
			rest := wt[len(pt)-2:]
			if strings.Contains(rest, fmt.Sprintf("uint64ToBytes($%d)", len(wf.Params)-1)) {
				ok = true
			} else {
				msg = "block suffix is not uint64ToBytes(<last parameter>): " + rest
			}
		} else {
			msg = "writer key " + wt + " does not extend reader prefix " + pt
		}
		c.check(ok, "key-shape", pr[0]+"~"+pr[1], p.Pos(fnPos(wf)), "writer key = reader prefix ++ big-endian block number", msg)
	}
	// uint64ToBytes is big-endian
	if f := p.Func("db", "", "uint64ToBytes"); f != nil {
		be := false
		for _, s := range sitesOf(f) {
			if s.Callee != nil && s.Callee.Name() == "PutUint64" && strings.Contains(s.Callee.String(), "bigEndian") {
				be = true
			}
		}
		c.check(be, "key-shape", "db.uint64ToBytes", p.Pos(fnPos(f)), "block numbers are encoded big-endian (lexicographic = numeric order)", "uint64ToBytes no longer uses binary.BigEndian.PutUint64: history seek/prev logic relies on lexicographic = numeric order")
	} else {
		c.und("key-shape", "db.uint64ToBytes", "", "helper not found")
	}
	// readers: seek keys are AppendUint64(BigEndian) of the prefix
	for _, rd := range []fref{{"core/state", "StateReader", "valueAt"}, {"core/state", "StateReader", "lastUpdatedBlockNumber"}, {"core/deprecatedstate", "State", "valueAt"}} {
		f := p.Func(rd.pkg, rd.recv, rd.name)
		if f == nil {
			c.und("key-shape", rd.recv+"."+rd.name, "", "history reader not found")
			continue
		}
		okr := false
		for _, s := range sitesOf(f) {
			if s.Callee != nil && s.Callee.Name() == "AppendUint64" && strings.Contains(s.Callee.String(), "bigEndian") {
				// first arg must be the prefix parameter
				if len(s.Args()) >= 2 {
					if _, isParam := s.Args()[1].(*ssa.Parameter); isParam {
						okr = true
					}
				}
			}
		}
		c.check(okr, "key-shape", "reader:"+qname(f), p.Pos(fnPos(f)), "seek key = BigEndian.AppendUint64(prefix, block)", "history reader does not build its seek key as BigEndian.AppendUint64(prefix, block)")
	}
	c.floor("key-shape", 10)
}

// retTerm: canonical term of the single returned value of a small function.
func retTerm(f *ssa.Function) string {
	var ts []string
	for _, ret := range returnsOf(f) {
		if len(ret.Results) > 0 {
			ts = append(ts, termP(ret.Results[0]))
		}
	}
	sort.Strings(ts)
	return strings.Join(uniq(ts), " | ")
}

func c03Gates(c *Ctx) {
	p := c.P
	// StateAtBlockNumber (both backends): a pruner.*Retained* call whose error is returned dominates the construction of the history reader
	for _, be := range []string{"stateBackend", "deprecatedStateBackend"} {
		f := p.Func("blockchain/statebackend", be, "StateAtBlockNumber")
		if f == nil {
			c.und("gates", be+".StateAtBlockNumber", "", "anchor not found")
			continue
		}
		var gate *Site
		var ctor *Site
		ss := sitesOf(f)
		for i := range ss {
			s := &ss[i]
			if s.Callee == nil {
				continue
			}
			if pkgRelOf(s.Callee) == "pruner" && strings.Contains(s.Callee.Name(), "Retained") {
				gate = s
			}
			if s.Callee.Name() == "NewStateHistory" || s.Callee.Name() == "NewHistory" {
				ctor = s
			} else if ctor == nil && pkgRelOf(s.Callee) == "blockchain/statebackend" && (findSite(s.Callee, "NewStateHistory") != nil || findSite(s.Callee, "NewHistory") != nil) {
				ctor = s // the reader is built by a helper of the same package: the gate must dominate the helper call
			}
		}
		construct := be + ".StateAtBlockNumber"
		if gate == nil {
			c.viol("gates", construct, p.Pos(fnPos(f)), "historical state is opened without consulting the retention floor (no pruner.*Retained* call)")
			continue
		}
		if ctor == nil {
			c.und("gates", construct, p.Pos(fnPos(f)), "history reader constructor not found")
			continue
		}
		okg := dominatesInstr(gate.Instr, ctor.Instr) && hasFact(factStrings(factsAt(ctor.Instr)), "!(", "Retained", "!= nil")
		c.check(okg, "gates", construct, p.Pos(ctor.Pos()), "retention gate dominates the history reader and its error is returned", "the history reader is built on a path where the retention check's error was not tested")
	}
	// block-scoped views are history readers on every success path (never the live head state)
	var viewOrigin func(v ssa.Value, depth int) (bool, string)
	viewOrigin = func(v ssa.Value, depth int) (bool, string) {
		if depth > 6 {
			return false, "too deep"
		}
		switch x := v.(type) {
		case *ssa.MakeInterface:
			return viewOrigin(x.X, depth+1)
		case *ssa.ChangeInterface:
			return viewOrigin(x.X, depth+1)
		case *ssa.Extract:
			return viewOrigin(x.Tuple, depth+1)
		case *ssa.Alloc:
			if st := singleStore(x); st != nil {
				return viewOrigin(st.Val, depth+1)
			}
			if st := onlyStore(x); st != nil {
				return viewOrigin(st.Val, depth+1)
			}
			return false, "local with several stores"
		case *ssa.Phi:
			for _, e := range x.Edges {
				if ok, why := viewOrigin(e, depth+1); !ok {
					return false, why
				}
			}
			return true, ""
		case *ssa.Call:
			cal := x.Call.StaticCallee()
			if cal == nil {
				return false, "dynamic call"
			}
			if cal.Name() == "NewStateHistory" || cal.Name() == "NewHistory" {
				return true, ""
			}
			if pkgRelOf(cal) == "blockchain/statebackend" && len(cal.Blocks) > 0 {
				for _, ret := range returnsOf(cal) {
					if len(ret.Results) < 1 || (len(ret.Results) > 1 && !isNilConst(ret.Results[len(ret.Results)-1])) {
						continue
					}
					if ok, why := viewOrigin(ret.Results[0], depth+1); !ok {
						return false, "via " + cal.Name() + ": " + why
					}
				}
				return true, ""
			}
			return false, "built by " + qname(cal)
		}
		return false, "built from " + shortTerm(v)
	}
	for _, be := range []string{"stateBackend", "deprecatedStateBackend"} {
		for _, m := range []string{"StateAtBlockNumber", "StateAtBlockHash"} {
			f := p.Func("blockchain/statebackend", be, m)
			if f == nil {
				c.und("gates", be+"."+m+" view", "", "anchor not found")
				continue
			}
			bad := ""
			k := 0
			for _, ret := range returnsOf(f) {
				if len(ret.Results) < 3 {
					continue
				}
				if !isNilConst(ret.Results[2]) {
					// `return b.helper(..)`: the helper's success paths are success paths of this function
					ex, isEx := ret.Results[2].(*ssa.Extract)
					if !isEx {
						continue
					}
					call, isCall := ex.Tuple.(*ssa.Call)
					if !isCall || call.Call.StaticCallee() == nil || pkgRelOf(call.Call.StaticCallee()) != "blockchain/statebackend" {
						continue
					}
				}
				k++
				if ok, why := viewOrigin(ret.Results[0], 0); !ok {
					// the empty state before genesis (zero parent hash) is not block-scoped
					if z, _ := everyDisjunctHas(p.mustHoldAt(ret.Ret), []string{"blockHash.IsZero()"}); z && len(p.mustHoldAt(ret.Ret)) > 0 {
						continue
					}
					bad = why
				}
			}
			c.check(bad == "" && k > 0, "gates", be+"."+m+" returns a history view", p.Pos(fnPos(f)), "every success path returns a reader built by NewStateHistory/NewHistory for the requested block", "a block-scoped state view is not a history reader ("+bad+"): it reads the live head state, so it follows the head after the next store/revert and reports never-deployed contracts as zero values")
		}
	}
	// stateHistory accessors consult the deployment height
	type acc struct {
		pkg, recv, name string
		relaxed         bool
	}
	for _, a := range []acc{
		{"core/deprecatedstate", "stateHistory", "ContractClassHash", false},
		{"core/deprecatedstate", "stateHistory", "ContractNonce", false},
		{"core/deprecatedstate", "stateHistory", "ContractStorage", true},
		{"core/state", "stateHistory", "ContractClassHash", false},
		{"core/state", "stateHistory", "ContractNonce", false},
		{"core/state", "stateHistory", "ContractStorage", true},
	} {
		f := p.Func(a.pkg, a.recv, a.name)
		if f == nil {
			c.und("gates", a.recv+"."+a.name, "", "history accessor not found")
			continue
		}
		reach := p.Reachable([]*ssa.Function{f}, func(caller, callee *ssa.Function) bool { return pkgRelOf(callee) != a.pkg })
		// the probe must actually read the recorded deployment height (new backend: Contract.DeployedHeight; legacy: the
		// ContractDeploymentHeight bucket) — inferring deployment from something else (e.g. a class-hash history entry)
		// misses contracts that have none (the class-less system contracts)
		found := false
		for _, g := range reach.Funcs() {
			allInstrs(g, func(in ssa.Instruction) {
				if fa, ok := in.(*ssa.FieldAddr); ok && fieldName(fa.X.Type(), fa.Field) == "DeployedHeight" {
					found = true
				}
				if fl, ok := in.(*ssa.Field); ok && fieldName(fl.X.Type(), fl.Field) == "DeployedHeight" {
					found = true
				}
			})
			for _, s := range sitesOf(g) {
				if strings.Contains(s.CalleeName(), "ContractDeploymentHeight") || strings.Contains(s.CalleeName(), "DeploymentHeight") {
					found = true
				}
			}
		}
		c.check(found, "gates", a.pkg+"."+a.recv+"."+a.name, p.Pos(fnPos(f)), "consults the contract's deployment height", "historical accessor answers without consulting the contract's deployment height: a contract deployed later would appear to exist")
		// … and on every path that answers: a return that may report success (incl. one that forwards a head read) is
		// dominated by the probe; the only accepted shortcut is the storage accessors' "non-zero value proves a write"
		reachesProbe := func(g *ssa.Function) bool {
			if g == nil || pkgRelOf(g) != a.pkg {
				return false
			}
			r := p.Reachable([]*ssa.Function{g}, func(caller, callee *ssa.Function) bool { return pkgRelOf(callee) != a.pkg })
			for _, h := range r.Funcs() {
				hit := false
				allInstrs(h, func(in ssa.Instruction) {
					if fa, ok := in.(*ssa.FieldAddr); ok && fieldName(fa.X.Type(), fa.Field) == "DeployedHeight" {
						hit = true
					}
					if fl, ok := in.(*ssa.Field); ok && fieldName(fl.X.Type(), fl.Field) == "DeployedHeight" {
						hit = true
					}
				})
				for _, s := range sitesOf(h) {
					if strings.Contains(s.CalleeName(), "DeploymentHeight") {
						hit = true
					}
				}
				if hit {
					return true
				}
			}
			return false
		}
		// a call counts as the probe when it is the probe itself, or a same-package helper every answering return of which is
		// preceded by the probe (`return s.deployedValue(addr, read)` — refactoring C03-R9)
		var alwaysProbes func(g *ssa.Function, depth int) bool
		isProbeCall := func(s Site, self *ssa.Function, depth int) bool {
			if s.Callee == nil || s.Callee == self {
				return false
			}
			if s.Callee.Name() == "checkDeployed" || s.Callee.Name() == "ContractDeployedAt" || (s.Callee.Signature.Results().Len() == 1 && reachesProbe(s.Callee)) {
				return true
			}
			return depth < 2 && pkgRelOf(s.Callee) == a.pkg && alwaysProbes(s.Callee, depth+1)
		}
		alwaysProbes = func(g *ssa.Function, depth int) bool {
			if g == nil || len(g.Blocks) == 0 || !reachesProbe(g) {
				return false
			}
			var ps []ssa.Instruction
			for _, s := range sitesOf(g) {
				if isProbeCall(s, g, depth) {
					ps = append(ps, s.Instr)
				}
			}
			n := 0
			for _, ret := range returnsOf(g) {
				if isErrorReturn(p, ret) {
					continue
				}
				n++
				ok := false
				for _, pr := range ps {
					if dominatesInstr(pr, ret.Ret) {
						ok = true
					}
				}
				if !ok {
					return false
				}
			}
			return n > 0
		}
		var probes []ssa.Instruction
		for _, s := range sitesOf(f) {
			if isProbeCall(s, f, 0) {
				probes = append(probes, s.Instr)
			}
		}
		for i, ret := range returnsOf(f) {
			if isErrorReturn(p, ret) {
				continue
			}
			okp := false
			for _, pr := range probes {
				if dominatesInstr(pr, ret.Ret) {
					okp = true
				}
			}
			why := "passes the deployment probe"
			if !okp && a.relaxed {
				d := p.mustHoldAt(ret.Ret)
				if nz, _ := everyDisjunctHas(d, []string{"^!", ".IsZero()"}); nz && len(d) > 0 {
					okp = true
					why = "a non-zero logged value proves a write at or before the block (reviewed shortcut)"
				}
			}
			c.check(okp, "gates", fmt.Sprintf("%s.%s.%s: answering return #%d", a.pkg, a.recv, a.name, i+1), p.Pos(posOf(ret.Ret, f)), why, "this path answers (or forwards the head value) without the deployment probe: a contract deployed after the requested block is reported with its later state instead of not-found")
		}
	}
	c.floor("gates", 8)
}

func rootAuthRevert(c *Ctx) {
	p := c.P
	for _, be := range []string{"core/state", "core/deprecatedstate"} {
		f := p.Func(be, "State", "Revert")
		if f == nil {
			c.und("root-auth", be+".State.Revert", "", "anchor not found")
			continue
		}
		checkRootAuth(c, "root-auth", f, "NewRoot", "OldRoot")
	}
	c.floor("root-auth", 2)
}

// checkRootAuth: in f (Update/Revert of a State) a comparison of the current commitment with update.<first> dominates every
// mutation (trie update, db write, flush) and a comparison with update.<last> dominates the success exit path's persistence.
func checkRootAuth(c *Ctx, rule string, f *ssa.Function, first, last string) {
	p := c.P
	name := qname(f)
	c.saw(name)
	ss := sitesOf(f)
	// "verification" instruction for a root field = a call (verifyComm / verifyStateUpdateRoot) taking update.<field> as argument,
	// or an Equal call whose argument is update.<field>
	verif := func(field string) []Site {
		var out []Site
		for _, s := range ss {
			nm := s.CalleeName()
			if !(strings.Contains(nm, "verify") || strings.HasSuffix(nm, ".Equal")) {
				continue
			}
			for _, a := range s.Args() {
				if strings.HasSuffix(term(a), "update."+field) {
					out = append(out, s)
				}
			}
		}
		return out
	}
	vf, vl := verif(first), verif(last)
	if len(vf) == 0 {
		c.viol(rule, name+":"+first, p.Pos(fnPos(f)), "no comparison of the current commitment with update."+first+" found")
		return
	}
	if len(vl) == 0 {
		c.viol(rule, name+":"+last, p.Pos(fnPos(f)), "no comparison of the resulting commitment with update."+last+" found")
		return
	}
	// mutations: calls to methods named Update/Put/Delete on tries, flush, updateContracts, commit, purge*, remove*, perform*, Write*/Delete* accessors
	isMut := func(s Site) bool {
		nm := s.CalleeName()
		base := nm[strings.LastIndex(nm, ".")+1:]
		for _, pre := range []string{"flush", "updateContract", "updateClassTrie", "updateDeclaredClasses", "commit", "purge", "remove", "perform", "revertMigrated", "writeHistory", "deleteHistory", "Write", "Delete", "Put", "register", "storage"} {
			if strings.HasPrefix(base, pre) {
				return true
			}
		}
		if base == "Update" && s.Callee != nil && strings.Contains(pkgRelOf(s.Callee), "trie") {
			return true
		}
		return false
	}
	bad := 0
	nm := 0
	for _, s := range ss {
		if !isMut(s) {
			continue
		}
		nm++
		dom := false
		for _, v := range vf {
			if dominatesInstr(v.Instr, s.Instr) {
				dom = true
			}
		}
		if !dom {
			bad++
			c.viol(rule, name+":"+first+"-first ⊢ "+s.CalleeName(), p.Pos(s.Pos()), "state is mutated on a path that has not authenticated the current root against update."+first)
		}
	}
	// persistence (flush / writeHistory / deleteHistory / success return) must be dominated by the last-root check unless skip flag
	for _, s := range ss {
		nmc := s.CalleeName()
		base := nmc[strings.LastIndex(nmc, ".")+1:]
		if base != "flush" {
			continue
		}
		dom := false
		for _, v := range vl {
			if dominatesInstr(v.Instr, s.Instr) || (len(v.Block().Succs) > 0 && v.Block().Dominates(s.Block())) {
				dom = true
			}
		}
		// accepted idiom: the check sits under `if !skipVerifyNewRoot`
		if !dom {
			for _, v := range vl {
				fs := factStrings(factsAt(v.Instr))
				if hasFact(fs, "skipVerify") && canReach(v.Instr, s.Instr) {
					dom = true
				}
			}
		}
		if !dom {
			bad++
			c.viol(rule, name+":"+last+"-before-flush", p.Pos(s.Pos()), "flush is reachable without comparing the resulting commitment with update."+last)
		}
	}
	// the last check must come after the mutations (it re-authenticates the result) — at least one mutation dominates it
	after := false
	for _, v := range vl {
		for _, s := range ss {
			if isMut(s) && dominatesInstr(s.Instr, v.Instr) {
				after = true
			}
		}
	}
	if !after {
		bad++
		c.viol(rule, name+":"+last+"-after-mutation", p.Pos(vl[0].Pos()), "the comparison with update."+last+" does not follow the state mutation (it would compare the old root)")
	}
	if bad == 0 {
		c.ok(rule, name, p.Pos(fnPos(f)), fmt.Sprintf("root checked against update.%s before %d mutation sites and against update.%s after them", first, nm, last))
	}
}

func c04FixturePair(c *Ctx, ci *capInfo, r *resolver, nilCfg bool) {
	p := c.P
	st := p.Func("blockchain/statebackend", "", "zzVerifFixtureC04Store")
	rv := p.Func("blockchain/statebackend", "", "zzVerifFixtureC04Revert")
	if st == nil || rv == nil {
		return
	}
	W, _ := putBuckets(p.effectsFrom(r, ci, st, atomicCut(c, nilCfg)), "Put")
	D, _ := putBuckets(p.effectsFrom(r, ci, rv, atomicCut(c, nilCfg)), "Delete", "DeleteRange")
	for b, e := range W {
		if _, ok := D[b]; !ok {
			c.viol("inverse-buckets", "zzVerifFixture:"+b, p.Pos(e.Pos), "fixture: bucket written but not deleted")
		}
	}
}

// rangeLoopOf: the range-loop header (go/ssa block comment rangeindex.loop / rangeiter.loop) whose body contains b, if any
func rangeLoopOf(b *ssa.BasicBlock) *ssa.BasicBlock {
	for d := b; d != nil; d = d.Idom() {
		if (d.Comment == "rangeindex.loop" || d.Comment == "rangeiter.loop") && d != b {
			// b is in the body if it is dominated by the body successor (Succs[0]) and not by the done successor
			if len(d.Succs) == 2 && (d.Succs[0] == b || d.Succs[0].Dominates(b)) {
				return d
			}
		}
	}
	return nil
}

// c04NoEarlySuccess: see Explain. Reviewed exceptions: function → reason.
var earlySuccessOK = map[string]string{}

func c04NoEarlySuccess(c *Ctx) {
	p := c.P
	n := 0
	for _, fn := range p.sortedFuncs() {
		pr := pkgRelOf(fn)
		if !(pr == "core/deprecatedstate" || pr == "core/state" || pr == "blockchain/statebackend") || fn.Origin() != nil || strings.HasSuffix(p.Pos(fnPos(fn)), "_test.go") {
			continue
		}
		rets := returnsOf(fn)
		if len(rets) == 0 {
			continue
		}
		hasRange := false
		for _, b := range fn.Blocks {
			if b.Comment == "rangeindex.loop" || b.Comment == "rangeiter.loop" {
				hasRange = true
			}
		}
		if !hasRange {
			continue
		}
		res := fn.Signature.Results()
		if res.Len() != 1 || res.At(0).Type().String() != "error" {
			continue // functions that compute a value may legitimately return from a search loop
		}
		n++
		bad := ""
		for _, ret := range rets {
			if !isNilConst(ret.Results[0]) {
				continue
			}
			if h := rangeLoopOf(ret.Ret.Block()); h != nil {
				bad = p.Pos(posOf(ret.Ret, fn))
			}
		}
		if why, ok := earlySuccessOK[qname(fn)]; ok && bad != "" {
			c.ok("no-early-success", qname(fn), bad, "reviewed exception: "+why)
			continue
		}
		c.check(bad == "", "no-early-success", qname(fn), p.Pos(fnPos(fn)), "no `return nil` inside a per-entry range loop", "returns success from inside the loop over the entries at "+bad+": the remaining entries are never processed (e.g. a system contract that is not deployed ends the purge for all later ones)")
	}
	if n < 15 {
		c.und("no-early-success", "state packages", "", fmt.Sprintf("only %d error-returning functions with range loops found", n))
	}
	c.needFixture("no-early-success")
}

// c03BoundedIterator: see Explain.
func c03BoundedIterator(c *Ctx) {
	p := c.P
	n := 0
	for _, fn := range p.sortedFuncs() {
		pr := pkgRelOf(fn)
		if pr == "db" || strings.HasPrefix(pr, "db/") && !strings.HasPrefix(pr, "db/typed") || pr == "grpc" || strings.HasPrefix(pr, "mocks") || fn.Origin() != nil || strings.HasSuffix(p.Pos(fnPos(fn)), "_test.go") {
			continue
		}
		for _, s := range sitesOf(fn) {
			if s.Method == nil || s.Method.Name() != "NewIterator" || len(s.Args()) != 2 {
				continue
			}
			if isNilConst(s.Args()[0]) {
				continue // whole-keyspace scan
			}
			n++
			k, isK := s.Args()[1].(*ssa.Const)
			bounded := isK && k.Value != nil && constant.BoolVal(k.Value)
			if !bounded {
				for _, g := range withAnons(rootOf(fn)) {
					for _, t := range sitesOf(g) {
						if t.CalleeName() == "bytes.HasPrefix" {
							bounded = true
						}
					}
				}
			}
			c.check(bounded, "bounded-iterator", qname(fn)+" → NewIterator", p.Pos(s.Pos()), "bounded to its prefix (or keys re-checked with bytes.HasPrefix)", "an iterator opened on a key prefix is not bounded to it and the keys it yields are not re-checked: a seek past the last entry of the queried key lands on the next key's entries")
		}
	}
	if n < 8 {
		c.und("bounded-iterator", "prefix iterators", "", fmt.Sprintf("only %d prefix iterators found", n))
	}
	c.needFixture("bounded-iterator")
}

// c04EverySection: an undo helper that walks several sections of a state diff reaches every one of its section loops on
// every path that can report success: a success return (nil, or another helper's result) taken before a section loop skips
// that section for blocks that have entries in both.
func c04EverySection(c *Ctx) {
	p := c.P
	n := 0
	for _, fn := range p.sortedFuncs() {
		pr := pkgRelOf(fn)
		if !(pr == "core/deprecatedstate" || pr == "core/state" || pr == "blockchain/statebackend") || fn.Origin() != nil || fn.Parent() != nil || strings.HasSuffix(p.Pos(fnPos(fn)), "_test.go") {
			continue
		}
		nm := strings.ToLower(fn.Name())
		if !(strings.HasPrefix(nm, "revert") || strings.HasPrefix(nm, "delete") || strings.HasPrefix(nm, "purge") || strings.Contains(nm, "deletions") || strings.HasPrefix(nm, "zzveriffixturec04section")) {
			continue
		}
		res := fn.Signature.Results()
		if res.Len() != 1 || res.At(0).Type().String() != "error" {
			continue
		}
		// section loops: range loops whose operand is a field of a StateDiff
		var headers []*ssa.BasicBlock
		for _, b := range fn.Blocks {
			if b.Comment != "rangeiter.loop" && b.Comment != "rangeindex.loop" {
				continue
			}
			isSection := false
			for _, pred := range b.Preds {
				for _, in := range pred.Instrs {
					if rg, ok := in.(*ssa.Range); ok && strings.Contains(termF(rg.X), "StateDiff.") {
						isSection = true
					}
				}
			}
			// rangeindex loops: len(x) computed before
			if isSection {
				headers = append(headers, b)
			}
		}
		// a same-package helper that is handed a section of the diff stands for that section's loop
		for _, s := range sitesOf(fn) {
			if s.Callee == nil || s.Callee.Pkg != fn.Pkg || s.Callee == fn {
				continue
			}
			for _, a := range s.Args() {
				switch a.Type().Underlying().(type) {
				case *types.Map, *types.Slice:
					if strings.Contains(termF(a), "StateDiff.") {
						headers = append(headers, s.Block())
					}
				}
			}
		}
		if len(headers) < 2 {
			continue
		}
		n++
		bad := ""
		for _, ret := range returnsOf(fn) {
			r := ret.Results[0]
			if !isNilConst(r) {
				// an error path: the returned value is known to be non-nil here, or is a freshly made error
				if call, isCall := r.(*ssa.Call); isCall {
					if cal := call.Call.StaticCallee(); cal != nil && cal.Pkg != nil && (cal.Pkg.Pkg.Path() == "fmt" || cal.Pkg.Pkg.Path() == "errors") {
						continue
					}
				}
				d := p.mustHoldAt(ret.Ret)
				if ok, _ := everyDisjunctHas(d, []string{"(" + term(r) + " != nil)"}); ok && len(d) > 0 {
					continue
				}
				if _, isCall := r.(*ssa.Call); !isCall {
					if _, isPhi := r.(*ssa.Phi); !isPhi {
						continue // a named error value that is only ever returned when set
					}
				}
			}
			for _, h := range headers {
				if !h.Dominates(ret.Ret.Block()) {
					bad = p.Pos(posOf(ret.Ret, fn))
				}
			}
		}
		c.check(bad == "", "every-section", qname(fn), p.Pos(fnPos(fn)), "every success path passes all of the function's state-diff section loops", "the return at "+bad+" can report success without having walked every section loop of this undo helper: a block with entries in both sections keeps the entries of the skipped one after its revert")
	}
	if n < 2 {
		c.und("every-section", "undo helpers", "", fmt.Sprintf("only %d multi-section undo helpers found", n))
	}
}

// isErrorReturn: the return reports an error on every path that reaches it — its last result is a freshly built error, or a
// value the path conditions establish to be non-nil. A forwarded callee error (`return g(..)`) is not an error return.
func isErrorReturn(p *Prog, ret *retInfo) bool {
	if len(ret.Results) == 0 {
		return false
	}
	last := ret.Results[len(ret.Results)-1]
	if isNilConst(last) {
		return false
	}
	if definitelyNonNilErr(last) {
		return true
	}
	d := p.mustHoldAt(ret.Ret)
	if len(d) == 0 {
		return false
	}
	ok, _ := everyDisjunctHas(d, []string{term(last) + " != nil"})
	return ok
}

// c04ReadAfterDelete: the helpers that undo a block run with the revert's batch as their writer and — in the legacy backend —
// an indexed view of that same batch as their reader. A step that reads a bucket which an EARLIER step of the same function
// has already deleted through the batch therefore sees nothing (and typically treats "not found" as "nothing to do"): whatever
// it was going to undo from that data stays behind (seeded change C04-H: the L1-message index was derived from the block's
// transactions after they had been deleted). Decided per function of blockchain/statebackend reachable from a RevertHead
// closure: for two distinct top-level steps s1 before s2, Delete/DeleteRange(B) ∈ effects(s1) ∧ Get/Has/Iterate(B) ∈ effects(s2),
// for the buckets B that hold one entry per block keyed by its number (for buckets keyed by class, contract or hash the deleted
// and the read entries may differ — bucket granularity would raise false alarms there: refactoring C04-R9).
// buckets that hold exactly one entry per block, keyed by the block number: inside the undo of one block every access to
// them concerns the same key, so "deleted, then read" means "read what was just deleted"
var c04PerBlockBucket = map[string]bool{"BlockHeadersByNumber": true, "BlockTransactions": true, "StateUpdatesByBlockNumber": true, "BlockCommitments": true,
	"TransactionsByBlockNumberAndIndex": true, "ReceiptsByBlockNumberAndIndex": true}

func c04ReadAfterDelete(c *Ctx) {
	p := c.P
	ci := p.caps()
	r := p.newResolver()
	nilCfg := nilConfigTrieDB(c, "read-after-delete")
	roots := p.helperClosures(ci, "blockchain/statebackend")
	seenFn := map[*ssa.Function]bool{}
	n := 0
	for i := range roots {
		rt := &roots[i]
		if rt.Closure == nil || p.InFixture(rt.Site.Pos()) || rt.Outer.Name() != "RevertHead" {
			continue
		}
		reach := p.Reachable([]*ssa.Function{rt.Closure}, atomicCut(c, nilCfg))
		for _, fn := range reach.Funcs() {
			if seenFn[fn] || pkgRelOf(fn) != "blockchain/statebackend" || len(fn.Blocks) == 0 {
				continue
			}
			seenFn[fn] = true
			effs := p.effectsFrom(r, ci, fn, atomicCut(c, nilCfg))
			type bySite struct {
				del, read map[string]Eff
			}
			sites := map[ssa.Instruction]*bySite{}
			var order []ssa.Instruction
			for _, e := range effs {
				if e.Top == nil || e.Top.Parent() != fn {
					continue
				}
				bs := sites[e.Top]
				if bs == nil {
					bs = &bySite{map[string]Eff{}, map[string]Eff{}}
					sites[e.Top] = bs
					order = append(order, e.Top)
				}
				for _, b := range e.Buckets {
					if strings.HasPrefix(b, "?") {
						continue
					}
					switch e.Op {
					case "Delete", "DeleteRange":
						bs.del[b] = e
					case "Get", "Has", "Iterate":
						bs.read[b] = e
					}
				}
			}
			if len(order) < 2 {
				continue
			}
			n++
			bad := ""
			var badPos token.Pos
			for _, s1 := range order {
				for _, s2 := range order {
					if s1 == s2 || !dominatesInstr(s1, s2) {
						continue
					}
					for b, de := range sites[s1].del {
						if !c04PerBlockBucket[b] {
							continue // keyed by class/contract/hash: the deleted and the read entries may be different ones
						}
						if re, ok := sites[s2].read[b]; ok {
							bad = fmt.Sprintf("bucket %s is read (%s, %s) after an earlier step of %s deleted it through the batch (%s, %s)", b, qname(re.Fn), p.Pos(re.Pos), fn.Name(), qname(de.Fn), p.Pos(de.Pos))
							badPos = s2.Pos()
						}
					}
				}
			}
			if !badPos.IsValid() {
				badPos = fnPos(fn)
			}
			c.check(bad == "", "read-after-delete", qname(fn), p.Pos(badPos), "no step reads a bucket that an earlier step of the same function deleted in the batch", bad+": with the batch as the reader the later step finds nothing and leaves its part of the block behind")
		}
	}
	if n == 0 {
		c.und("read-after-delete", "blockchain/statebackend", "", "no multi-step helper reachable from a RevertHead closure was found")
	}
}
