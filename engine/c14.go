package main

import (
	"fmt"
	"go/token"
	"go/types"
	"os"
	"strings"

	"golang.org/x/tools/go/ssa"
)

func wsFunc(p *Prog, recv, name string) *ssa.Function {
	fs := p.FuncsNamed("consensus/walstore", recv, name)
	for _, f := range fs {
		if f.Origin() == nil {
			return f
		}
	}
	if len(fs) > 0 {
		return fs[0]
	}
	return nil
}

func init() {
	register("C14", func(c *Ctx) {
		c14ReplayOrderAndTemp(c)
		c14OneRecordPerFlush(c)
		_ = c.P
		c.Explain = "Durability orderings of the consensus WAL decided on CFG/SSA of consensus/walstore: (sync-then-ack) the synced offset and committed:true are produced only after waitGroup.Wait() with syncErr == nil; (abort-repairs) both failure arms of appendSync truncate back to the last synced offset before returning; " +
			"(index-after-commit) the live index is mutated only by addLiveEntry/deleteLiveHeight, reached from Flush only on the committed branch and from replay; (watermark-order) Write → Sync → Close → Rename → syncDir with each error returning first, and the watermark is durable before obsolete files are removed; " +
			"(prune-filter-agreement) live path, replay path, SetWALEntry and DeleteWALEntries apply the same height ≤ prunedUpToHeight filter and the watermark only grows; (tail-tolerance) only the newest log tolerates a torn tail, and tail repair truncates at the offset reported with the read error; (repair-before-create) no new writer while a tail repair is pending. " +
			"Not decided: the contents recovered from each crash image (byte-level torn tails, Pebble's record format, fsync semantics)."
		c14SyncThenAck(c)
		c14IndexAfterCommit(c)
		c14Watermark(c)
		c14PruneFilter(c)
		c14Tail(c)
		c14FreshWALNumber(c)
		c14CleanupAndSeq(c)
	})
}

func c14SyncThenAck(c *Ctx) {
	p := c.P
	f := wsFunc(p, "walWriter", "appendSync")
	if f == nil {
		c.und("sync-then-ack", "walWriter.appendSync", "", "anchor not found")
		return
	}
	c.saw(qname(f))
	// the wait for the fsync: sync.WaitGroup.Wait here, or inside a same-package helper that waits and returns the sync error
	var wait *Site
	syncErrPat := []string{"syncErr", "!= nil"}
	for _, ds := range p.deepSites(f, nameMatcher("Wait"), 2) {
		ds := ds
		if len(ds.Chain) == 0 {
			wait = &ds.Site
			break
		}
		h := ds.Chain[0].Callee
		if h != nil && h.Signature.Results().Len() == 1 && h.Signature.Results().At(0).Type().String() == "error" {
			always := true
			for _, r := range returnsOf(ds.Site.Instr.Parent()) {
				if !dominatesInstr(ds.Site.Instr, r.Ret) {
					always = false
				}
			}
			if always && len(ds.Chain) == 1 {
				wait = &ds.Chain[0]
				syncErrPat = []string{"." + h.Name() + "()", "!= nil"}
				break
			}
		}
	}
	write := findSite(f, "WriteRecord")
	if wait == nil || write == nil {
		c.viol("sync-then-ack", "walWriter.appendSync", p.Pos(fnPos(f)), "appendSync does not write a record and wait for its sync")
		return
	}
	// stores to currentWALSyncedOffset anywhere in the package
	n := 0
	for _, fn := range p.sortedFuncs() {
		if pkgRelOf(fn) != "consensus/walstore" || fn.Origin() != nil {
			continue
		}
		allInstrs(fn, func(in ssa.Instruction) {
			st, ok := in.(*ssa.Store)
			if !ok {
				return
			}
			fa, ok := st.Addr.(*ssa.FieldAddr)
			if !ok || !isNamed(fa.X.Type(), "consensus/walstore", "walWriter") || fieldName(fa.X.Type(), fa.Field) != "currentWALSyncedOffset" {
				return
			}
			if _, fresh := fa.X.(*ssa.Alloc); fresh {
				return
			}
			n++
			construct := "currentWALSyncedOffset ← " + qname(fn)
			if k, isC := st.Val.(*ssa.Const); isC && k.Value != nil && k.Int64() == 0 {
				c.ok("sync-then-ack", construct+" (=0)", p.Pos(posOf(in, fn)), "reset to 0 with a fresh/closed writer")
				return
			}
			if fn != f {
				c.viol("sync-then-ack", construct, p.Pos(posOf(in, fn)), "the synced offset is advanced outside appendSync")
				return
			}
			d := p.mustHoldAt(in)
			okSync, miss := everyDisjunctHas(d, append([]string{"^!"}, syncErrPat...))
			okDom := dominatesInstr(wait.Instr, in)
			okVal := strings.Contains(term(st.Val), "WriteRecord(")
			c.check(okSync && okDom && okVal, "sync-then-ack", construct, p.Pos(posOf(in, fn)), "advanced to WriteRecord's offset only after Wait() with syncErr == nil",
				fmt.Sprintf("the synced offset is advanced before the record is known to be durable (after Wait: %v, under syncErr==nil: %v %s, value from WriteRecord: %v)", okDom, okSync, miss, okVal))
		})
	}
	if n < 2 {
		c.und("sync-then-ack", "currentWALSyncedOffset", "", "stores to the synced offset not found")
	}
	// committed:true result
	for _, ret := range returnsOf(f) {
		rt := term(ret.Results[0])
		if !strings.Contains(rt, "true") {
			continue
		}
		d := p.mustHoldAt(ret.Ret)
		ok1, miss := everyDisjunctHas(d, append([]string{"^!"}, syncErrPat...))
		c.check(ok1 && dominatesInstr(wait.Instr, ret.Ret), "sync-then-ack", "appendSync returns committed", p.Pos(posOf(ret.Ret, f)), "committed:true only after a successful sync",
			"appendSync can acknowledge (committed:true) without a completed, error-free sync: "+miss)
	}
	// abort-repairs: every return under a WriteRecord/sync failure is preceded by abortUncommitted
	na := 0
	for _, ret := range returnsOf(f) {
		d := p.mustHoldAt(ret.Ret)
		failing := ""
		if ok, _ := everyDisjunctHas(d, []string{"WriteRecord(", "!= nil"}); ok && len(d) > 0 {
			failing = "WriteRecord failed"
		}
		if ok, _ := everyDisjunctHas(d, syncErrPat); ok && len(d) > 0 {
			failing = "sync failed"
		}
		if failing == "" {
			continue
		}
		na++
		has := false
		// directly, or inside a same-package helper (on each of its paths) whose call dominates the return
		for _, ds := range p.deepSites(f, nameMatcher("abortUncommitted"), 2) {
			if !dominatesInstr(ds.outer(), ret.Ret) {
				continue
			}
			always := true
			if len(ds.Chain) > 0 {
				inner := append(append([]Site{}, ds.Chain[1:]...), ds.Site)
				for _, is := range inner {
					for _, r := range returnsOf(is.Instr.Parent()) {
						if !dominatesInstr(is.Instr, r.Ret) {
							always = false
						}
					}
				}
			}
			if always {
				has = true
			}
		}
		c.check(has, "abort-repairs", "appendSync: "+failing, p.Pos(posOf(ret.Ret, f)), "tail truncated back to the last synced offset before the error is returned",
			"a failed append returns without abortUncommitted(): the unsynced bytes stay in the log and may be replayed after restart")
	}
	if na < 2 {
		c.und("abort-repairs", "appendSync", p.Pos(fnPos(f)), fmt.Sprintf("only %d failure returns recognised", na))
	}
	if ab := wsFunc(p, "walWriter", "abortUncommitted"); ab != nil {
		// role-based: abortUncommitted reaches the truncation primitive (repairWALTail) — directly or through same-package
		// helpers — whenever there is an open writer, with the last synced offset as the cut point
		ok := false
		for _, ds := range p.deepSites(ab, nameMatcher("repairWALTail"), 3) {
			if len(ds.Site.Args()) < 2 {
				continue
			}
			// the offset argument, followed up the chain of helper parameters
			v := ds.Site.Args()[1]
			for i := len(ds.Chain) - 1; i >= 0 && v != nil; i-- {
				prm, isParam := v.(*ssa.Parameter)
				if !isParam {
					break
				}
				var nv ssa.Value
				for k, q := range prm.Parent().Params {
					if q == prm && k < len(ds.Chain[i].Args()) {
						nv = ds.Chain[i].Args()[k]
					}
				}
				v = nv
			}
			if v == nil || !strings.HasSuffix(term(v), "currentWALSyncedOffset") {
				continue
			}
			// nothing but the presence of a writer (and the outcome of closing it, both outcomes) gates the repair
			d := p.mustHoldDeep(ds)
			gated, closeOK := false, false
			for _, cj := range d {
				bare := ""
				okClose := true
				for a := range cj {
					switch {
					case a == "true" || strings.Contains(a, ".writer == nil") || strings.Contains(a, ".writer != nil"):
					case strings.Contains(a, "closeCurrent()") || strings.Contains(a, ".Close()"):
						// !(close == nil) / (close != nil): the failed-close arm
						for _, f := range equivForms(a) {
							if strings.HasPrefix(f, "(") && strings.Contains(f, "closeCurrent() != nil") {
								okClose = false
							}
						}
					case identRe.FindString(a) == a:
						bare = a // a boolean parameter; its argument must be the constant true (atom "true" of the same disjunct)
					default:
						gated = true
					}
				}
				if bare != "" && !cj["true"] {
					gated = true
				}
				if okClose {
					closeOK = true
				}
			}
			if len(d) > 0 && !gated && closeOK {
				ok = true
			}
		}
		c.check(ok, "abort-repairs", "abortUncommitted → closeAndRepairCurrent(syncedOffset, force)", p.Pos(fnPos(ab)), "forces a truncation to the last synced offset", "abortUncommitted no longer forces a repair to currentWALSyncedOffset")
	} else {
		c.und("abort-repairs", "abortUncommitted", "", "anchor not found")
	}
	// repair-before-create
	if ew := wsFunc(p, "walWriter", "ensureWriter"); ew != nil {
		s := findSite(ew, "Create")
		if s == nil {
			c.und("repair-before-create", "ensureWriter", p.Pos(fnPos(ew)), "manager.Create call not found")
		} else {
			ok, miss := everyDisjunctHas(p.mustHoldAt(s.Instr), []string{"^!", "w.repairRequired"})
			c.check(ok, "repair-before-create", "ensureWriter → manager.Create", p.Pos(s.Pos()), "no new WAL file while a tail repair is pending", "a new WAL writer can be created although the previous tail repair failed: "+miss)
		}
	} else {
		c.und("repair-before-create", "ensureWriter", "", "anchor not found")
	}
}

func c14IndexAfterCommit(c *Ctx) {
	p := c.P
	// who mutates the live index maps
	n := 0
	for _, fn := range p.sortedFuncs() {
		if pkgRelOf(fn) != "consensus/walstore" || fn.Origin() != nil {
			continue
		}
		allInstrs(fn, func(in ssa.Instruction) {
			var target ssa.Value
			switch x := in.(type) {
			case *ssa.MapUpdate:
				target = x.Map
			case *ssa.Call:
				if b, ok := x.Call.Value.(*ssa.Builtin); ok && (b.Name() == "delete" || b.Name() == "clear") && len(x.Call.Args) > 0 {
					target = x.Call.Args[0]
				}
			}
			if target == nil {
				return
			}
			t := term(target)
			if !strings.HasSuffix(t, ".entriesByHeight") {
				return
			}
			n++
			okw := rootOf(fn).Name() == "addLiveEntry" || rootOf(fn).Name() == "deleteLiveHeight"
			c.check(okw, "index-after-commit", "entriesByHeight ← "+qname(fn), p.Pos(posOf(in, fn)), "live index mutated only by addLiveEntry/deleteLiveHeight", "the live index is mutated outside addLiveEntry/deleteLiveHeight")
		})
	}
	if n < 2 {
		c.und("index-after-commit", "entriesByHeight", "", "index mutations not found")
	}
	fl := c14FlushBody(p)
	if fl == nil {
		c.und("index-after-commit", "flushLocked", "", "anchor not found")
		return
	}
	up := findSite(fl, "updateIndexesFromCommittedRecords")
	var upDeep *deepSite
	if up == nil {
		if dss := p.deepSites(fl, nameMatcher("updateIndexesFromCommittedRecords"), 2); len(dss) > 0 && len(dss[0].Chain) > 0 {
			upDeep = &dss[0]
		}
	}
	if up == nil && upDeep == nil {
		c.viol("index-after-commit", "flushLocked → updateIndexes", p.Pos(fnPos(fl)), "flush no longer updates the live index from the committed records")
	} else if upDeep != nil {
		// the post-commit steps were moved into a helper: judged with the helper's call in place of the update
		d := p.mustHoldDeep(*upDeep)
		ok, miss := everyDisjunctHas(d, []string{"$.committed"}, []string{"^!", "appendSync(", "!= nil"})
		app := findSite(fl, "appendSync")
		outer := upDeep.Chain[0]
		c.check(ok && app != nil && dominatesInstr(app.Instr, outer.Instr), "index-after-commit", "flushLocked → updateIndexesFromCommittedRecords", p.Pos(outer.Pos()),
			"index updated only after appendSync succeeded or reported committed", "the live index is updated on a path where the batch was not committed: "+miss)
	} else {
		d := p.mustHoldAt(up.Instr)
		ok, miss := everyDisjunctHas(d, []string{"$.committed"}, []string{"^!", "appendSync(", "!= nil"})
		app := findSite(fl, "appendSync")
		c.check(ok && app != nil && dominatesInstr(app.Instr, up.Instr), "index-after-commit", "flushLocked → updateIndexesFromCommittedRecords", p.Pos(up.Pos()),
			"index updated only after appendSync succeeded or reported committed", "the live index is updated on a path where the batch was not committed: "+miss)
	}
	// callers of the index mutators
	for _, mut := range []string{"addLiveEntry", "deleteLiveHeight", "updateIndexesFromCommittedRecords", "pruneLiveEntriesUpTo"} {
		f := wsFunc(p, "tendermintWALStore", mut)
		if f == nil {
			c.und("index-after-commit", mut, "", "anchor not found")
			continue
		}
		allow := map[string]map[string]bool{
			"addLiveEntry":                      {"updateIndexesFromCommittedRecords": true, "applyEncodedRecord": true},
			"deleteLiveHeight":                  {"pruneLiveEntriesUpTo": true},
			"updateIndexesFromCommittedRecords": {"flushLocked": true},
			"pruneLiveEntriesUpTo":              {"updateIndexesFromCommittedRecords": true, "applyEncodedRecord": true},
		}[mut]
		for _, s := range p.callersOf(f) {
			if s.Fn.Origin() != nil {
				continue
			}
			nm := rootOf(s.Fn).Name()
			c.check(allow[nm] || p.calledOnlyFromAny(s.Fn, allow, 0), "index-after-commit", mut+" ← "+nm, p.Pos(s.Pos()), "called from the committed path / replay", mut+" is called from "+nm+", outside the committed-flush and replay paths")
		}
	}
	c.floor("index-after-commit", 8)
}

func c14Watermark(c *Ctx) {
	p := c.P
	f := wsFunc(p, "", "writePruneWatermark")
	if f == nil {
		c.und("watermark-order", "writePruneWatermark", "", "anchor not found")
		return
	}
	// the five steps are looked for in writePruneWatermark and its same-package helpers; steps that live in the same
	// function are ordered by dominance and branch facts, a step in a helper precedes a step in its caller when the
	// helper call dominates it and the caller proceeds only on the helper's success (nil error), in which case the
	// helper's success condition is conjoined
	get := func(name string) *deepSite {
		ds := p.deepSites(f, nameMatcher(name), 2)
		if len(ds) == 0 {
			return nil
		}
		return &ds[0]
	}
	dwr, dsy, dcl, drn, dsd := get("Write"), get("Sync"), get("Close"), get("Rename"), get("syncDir")
	if dwr == nil || dsy == nil || dcl == nil || drn == nil || dsd == nil {
		c.viol("watermark-order", "writePruneWatermark", p.Pos(fnPos(f)), "one of Write/Sync/Close/Rename/syncDir is missing")
		return
	}
	wr, sy, cl, rn, sd := &dwr.Site, &dsy.Site, &dcl.Site, &drn.Site, &dsd.Site
	sameFn := func(a, b *Site) bool { return a.Instr.Parent() == b.Instr.Parent() }
	if !sameFn(wr, sy) || !sameFn(wr, cl) || !sameFn(rn, sd) {
		c.und("watermark-order", "writePruneWatermark", p.Pos(fnPos(f)), "write/sync/close or rename/syncDir are spread over several functions in a way this rule does not follow")
		return
	}
	c.check(dominatesInstr(wr.Instr, sy.Instr) && hasFact(factStrings(factsAt(sy.Instr)), "Write(", "== nil"), "watermark-order", "Write → Sync", p.Pos(sy.Pos()), "file synced after a successful write", "the temp watermark is not synced after (and only after) a successful write")
	c.check(dominatesInstr(sy.Instr, cl.Instr) || dominatesInstr(wr.Instr, cl.Instr), "watermark-order", "Sync → Close", p.Pos(cl.Pos()), "closed after sync", "temp watermark closed before it was written")
	d := p.mustHoldAt(rn.Instr)
	okR := false
	if sameFn(cl, rn) {
		okR = dominatesInstr(cl.Instr, rn.Instr)
	} else if len(dcl.Chain) == len(drn.Chain)+1 && dcl.Chain[len(dcl.Chain)-1].Instr.Parent() == rn.Instr.Parent() {
		hc := dcl.Chain[len(dcl.Chain)-1]
		okH, _ := everyDisjunctHas(d, []string{"^!", hc.Callee.Name() + "(", "!= nil"})
		okR = dominatesInstr(hc.Instr, rn.Instr) && okH
		// success condition of the helper: the conditions of its nil-error returns
		var succ dnf
		for _, r := range returnsOf(cl.Instr.Parent()) {
			if len(r.Results) > 0 && isNilConst(r.Results[len(r.Results)-1]) {
				succ = dnfOr(succ, p.mustHoldAt(r.Ret))
			}
		}
		d = dnfAnd(d, succ)
		okR = okR && len(succ) > 0
	}
	// rename only when neither the write/sync error nor the close error is set
	noWriteErr, mw := everyDisjunctHas(d, []string{"^!", "φ(", "!= nil"}, []string{"^!", "Write(", "!= nil"}, []string{"^!", "Sync()", "!= nil"})
	noCloseErr, mc := everyDisjunctHas(d, []string{"^!", "Close()", "!= nil"})
	c.check(okR && noWriteErr && noCloseErr, "watermark-order", "Close → Rename", p.Pos(rn.Pos()), "renamed into place only after write, sync and close all succeeded",
		"the temp watermark can replace the real one although write/sync/close failed: "+mw+" "+mc)
	c.check(dominatesInstr(rn.Instr, sd.Instr) && hasFact(factStrings(factsAt(sd.Instr)), "!(", "Rename(", "!= nil"), "watermark-order", "Rename → syncDir", p.Pos(sd.Pos()), "directory synced after a successful rename", "the directory is not synced after the rename")
	// removeObsoleteWALFiles: watermark durable before files are removed
	if ro := wsFunc(p, "tendermintWALStore", "removeObsoleteWALFiles"); ro != nil {
		var wm, cu *Site
		if ds := p.deepSites(ro, nameMatcher("writePruneWatermark"), 2); len(ds) > 0 {
			wm = &ds[0].Site
		}
		if ds := p.deepSites(ro, nameMatcher("cleanupObsoleteWALs"), 2); len(ds) > 0 {
			cu = &ds[0].Site
		}
		ok := wm != nil && cu != nil && wm.Instr.Parent() == cu.Instr.Parent() && dominatesInstr(wm.Instr, cu.Instr) && hasFact(factStrings(factsAt(cu.Instr)), "!(", "writePruneWatermark(", "!= nil")
		pos := p.Pos(fnPos(ro))
		if cu != nil {
			pos = p.Pos(cu.Pos())
		}
		c.check(ok, "watermark-order", "writePruneWatermark → cleanupObsoleteWALs", pos, "obsolete WAL files are removed only after the watermark is durable", "obsolete WAL files can be removed before the prune watermark is durable: a crash would revive pruned entries")
		if wm != nil && len(wm.Args()) >= 2 {
			wf, excl := c14WatermarkField(p)
			want := "s." + wf
			if excl {
				want = "(s." + wf + " - 1)"
			}
			c.check(wf != "" && strings.HasSuffix(term(wm.Args()[1]), want), "watermark-order", "watermark value", p.Pos(wm.Pos()), "the persisted watermark is the highest pruned height ("+want+")", "the persisted watermark is "+term(wm.Args()[1])+", not the highest pruned height "+want)
		}
	} else {
		c.und("watermark-order", "removeObsoleteWALFiles", "", "anchor not found")
	}
	c.floor("watermark-order", 5)
}

func c14PruneFilter(c *Ctx) {
	p := c.P
	// the watermark is identified by role: the one Height-typed field of the store; its design — inclusive ("highest pruned
	// height", filter h <= W) or exclusive ("first live height", filter h < W) — is read off the store in pruneLiveEntriesUpTo
	wf, excl := c14WatermarkField(p)
	if wf == "" {
		c.und("prune-filter-agreement", "tendermintWALStore watermark", "", "the store's Height-typed watermark field / its update in pruneLiveEntriesUpTo was not recognised")
		return
	}
	cmp := " <= s." + wf
	if excl {
		cmp = " < s." + wf
	}
	// (zero-watermark) a store that has never pruned keeps everything: with an inclusive watermark the zero value of the field
	// reads as "pruned through height 0" and every entry of height 0 is dropped silently although Flush succeeds (defect F22);
	// an inclusive design is accepted only when the filter is additionally guarded by a "has pruned" flag of the store
	if !excl {
		guarded := true
		for _, fnn := range []string{"SetWALEntry", "applyEncodedRecord", "updateIndexesFromCommittedRecords"} {
			f := wsFunc(p, "tendermintWALStore", fnn)
			if f == nil {
				continue
			}
			allInstrs(f, func(in ssa.Instruction) {
				b, ok := in.(*ssa.BinOp)
				if !ok || b.Op != token.LEQ || !strings.HasSuffix(term(b.Y), "s."+wf) {
					return
				}
				flag := false
				for _, fct := range factsAt(in) {
					if u, isU := fct.Cond.(*ssa.UnOp); isU && strings.HasSuffix(u.Type().String(), "bool") && strings.HasPrefix(term(u), "s.") && !strings.HasSuffix(term(u), "closed") {
						flag = true
					}
				}
				if !flag {
					guarded = false
				}
			})
		}
		c.check(guarded, "zero-watermark", "tendermintWALStore."+wf, "", "a store that never pruned drops nothing", "the prune filter is `height <= "+wf+"` and the zero value of "+wf+" means both \"nothing pruned\" and \"pruned through height 0\": on a fresh store every entry of height 0 is discarded by SetWALEntry although Flush reports success, and nothing of that height can be recovered")
	} else {
		c.ok("zero-watermark", "tendermintWALStore."+wf, "", "exclusive watermark: its zero value filters no height")
	}
	// … and the same at open (F31): whether anything was pruned is decided by the existence of the watermark file, never by
	// the stored height being greater than zero — no branch of the constructor path compares the loaded height with 0
	{
		ctor := wsFunc(p, "", "NewTendermintWALStore")
		nz := 0
		if ctor != nil {
			for _, g := range samePkgScope(ctor, 2) {
				var loaded []ssa.Value
				for _, s2 := range sitesOf(g) {
					if s2.Callee != nil && s2.Callee.Name() == "loadPruneWatermark" {
						if v, ok := s2.Instr.(ssa.Value); ok {
							if refs := v.Referrers(); refs != nil {
								for _, r := range *refs {
									if ex, ok := r.(*ssa.Extract); ok && ex.Index == 0 {
										loaded = append(loaded, ex)
									}
								}
							}
						}
					}
				}
				for _, lv := range loaded {
					nz++
					bad := ""
					allInstrsOne(g, func(in ssa.Instruction) {
						iff, ok := in.(*ssa.If)
						if !ok {
							return
						}
						b, ok := iff.Cond.(*ssa.BinOp)
						if !ok {
							return
						}
						isZero := func(v ssa.Value) bool { k, ok := constUint(stripConv(v)); return ok && k == 0 }
						if (stripConv(b.X) == lv && isZero(b.Y)) || (stripConv(b.Y) == lv && isZero(b.X)) {
							bad = p.Pos(posOf(in, g))
						}
					})
					c.check(bad == "", "zero-watermark", "open: stored watermark 0 is a pruned height", p.Pos(fnPos(g)), "the loaded height is never compared with 0 to decide whether anything was pruned", "the constructor path branches on the stored watermark being 0 ("+bad+"): \"pruned through height 0\" is read as \"nothing pruned\" after a restart and entries of the pruned height 0 are accepted (or revived) again")
				}
			}
		}
		if nz == 0 {
			c.und("zero-watermark", "NewTendermintWALStore", "", "the load of the prune watermark on the constructor path was not found")
		}
	}
	for _, sp := range []struct{ fn, callee string }{
		{"updateIndexesFromCommittedRecords", "addLiveEntry"},
		{"applyEncodedRecord", "addLiveEntry"},
	} {
		f := wsFunc(p, "tendermintWALStore", sp.fn)
		if f == nil {
			c.und("prune-filter-agreement", sp.fn, "", "anchor not found")
			continue
		}
		dss := p.deepSites(f, nameMatcher(sp.callee), 2)
		if len(dss) == 0 {
			c.viol("prune-filter-agreement", sp.fn, p.Pos(fnPos(f)), sp.fn+" no longer adds live entries")
			continue
		}
		s := dss[0].Site
		ok, miss := true, ""
		for _, ds := range dss {
			if o, m := everyDisjunctHas(p.mustHoldDeep(ds), []string{"^!", "GetHeight()" + cmp}); !o {
				ok, miss, s = false, m, ds.Site
			}
		}
		c.check(ok, "prune-filter-agreement", sp.fn+" → addLiveEntry", p.Pos(s.Pos()), "entries at or below the watermark are skipped", "entries at or below the prune watermark are no longer filtered: "+miss)
	}
	// SetWALEntry / DeleteWALEntries append only above the watermark
	for _, sp := range []struct{ fn, pat string }{{"SetWALEntry", "GetHeight()" + cmp}, {"DeleteWALEntries", "height" + cmp}} {
		f := wsFunc(p, "tendermintWALStore", sp.fn)
		if f == nil {
			c.und("prune-filter-agreement", sp.fn, "", "anchor not found")
			continue
		}
		n := 0
		allInstrs(f, func(in ssa.Instruction) {
			st, ok := in.(*ssa.Store)
			if !ok || !strings.HasSuffix(term(st.Addr), "s.pendingRecords") {
				return
			}
			n++
			ok2, miss := everyDisjunctHas(p.mustHoldAt(in), []string{"^!", sp.pat})
			c.check(ok2, "prune-filter-agreement", sp.fn+" → pendingRecords", p.Pos(posOf(in, f)), "nothing at or below the watermark is queued", "a record at or below the prune watermark can be queued: "+miss)
		})
		if n == 0 {
			c.und("prune-filter-agreement", sp.fn, p.Pos(fnPos(f)), "append to pendingRecords not found")
		}
		// … and the watermark is the *only* reason to drop an entry while reporting success: every success return of SetWALEntry
		// that did not queue the record lies under `height < watermark`. Seeded change C13-L folds the test into a helper that
		// also refuses heights 65536 or more above the watermark — whose zero value means "nothing pruned yet": a validator that
		// starts with an empty WAL at chain height ≥ 65536 logs nothing for its first height and contradicts itself after a crash.
		if sp.fn == "SetWALEntry" {
			var queue ssa.Instruction
			allInstrs(f, func(in ssa.Instruction) {
				if st, ok := in.(*ssa.Store); ok && strings.HasSuffix(term(st.Addr), "s.pendingRecords") {
					queue = in
				}
			})
			// judged at the queueing step itself, whatever the shape of the returns: what stands in front of it is nothing but
			// "not closed", "encoded without error" and "not below the watermark" (possibly inside a boolean helper) — any other
			// condition is a second reason to drop an entry while reporting success
			if queue != nil {
				var extra []string
				for _, cj := range p.mustHoldAt(queue) {
					for _, a := range cj.list() {
						core := strings.TrimPrefix(a, "!")
						switch {
						case strings.Contains(a, "closed"), strings.HasSuffix(core, "!= nil)"), strings.HasSuffix(core, "== nil)"):
						case strings.HasPrefix(a, "!") && strings.Contains(a, sp.pat):
						case strings.HasPrefix(a, "!") && strings.HasSuffix(core, " < "+wfTerm(sp.pat)+")") && !strings.ContainsAny(strings.TrimSuffix(core, " < "+wfTerm(sp.pat)+")"), "+-*/%"):
							// the same comparison inside a helper, on the helper's own parameter
						case !strings.HasPrefix(a, "!") && strings.HasSuffix(core, " >= "+wfTerm(sp.pat)+")") && !strings.ContainsAny(strings.TrimSuffix(core, " >= "+wfTerm(sp.pat)+")"), "+-*/%"):
						case strings.Contains(a, "GetHeight() >= "+wfTerm(sp.pat)) && !strings.HasPrefix(a, "!"):
						case c14IsNotBelowWatermark(a, wfTerm(sp.pat)):
							// any spelling of "height ≥ watermark" on a plain height (mirrored operands, negated complement)
						case !strings.ContainsAny(core, "<>=") || (strings.HasPrefix(core, "s.") && strings.HasSuffix(core, ")") && !strings.Contains(core, " ")):
							// a boolean helper call atom: its inlined conditions are judged by the other cases
						default:
							extra = append(extra, a)
						}
					}
				}
				extra = uniq(extra)
				c.check(len(extra) == 0, "prune-filter-agreement", "SetWALEntry: dropped only below the watermark", p.Pos(posOf(queue, f)), "an entry is queued unless the store is closed, the entry cannot be encoded, or its height is below the watermark", "SetWALEntry queues the entry only under a further condition ("+clip(strings.Join(extra, "; "), 220)+"): an entry of a live height is silently dropped while success is reported")
			}
		}
	}
	// watermark only grows
	if f := wsFunc(p, "tendermintWALStore", "pruneLiveEntriesUpTo"); f != nil {
		n := 0
		allInstrs(f, func(in ssa.Instruction) {
			st, ok := in.(*ssa.Store)
			if !ok || !strings.HasSuffix(term(st.Addr), "s."+wf) {
				return
			}
			n++
			ok2, miss := everyDisjunctHas(p.mustHoldAt(in), []string{"^!", "height" + cmp})
			c.check(ok2, "prune-filter-agreement", wf+" monotone", p.Pos(posOf(in, f)), "watermark only raised", "the in-memory prune watermark can be lowered: "+miss)
		})
		if n == 0 {
			c.und("prune-filter-agreement", "pruneLiveEntriesUpTo", p.Pos(fnPos(f)), "store to "+wf+" not found")
		}
	}
	// other writers of prunedUpToHeight
	for _, fn := range p.sortedFuncs() {
		if pkgRelOf(fn) != "consensus/walstore" || fn.Origin() != nil {
			continue
		}
		allInstrs(fn, func(in ssa.Instruction) {
			st, ok := in.(*ssa.Store)
			if !ok {
				return
			}
			fa, ok := st.Addr.(*ssa.FieldAddr)
			if !ok || fieldName(fa.X.Type(), fa.Field) != wf || !isNamed(fa.X.Type(), "consensus/walstore", "tendermintWALStore") {
				return
			}
			if _, fresh := fa.X.(*ssa.Alloc); fresh {
				return
			}
			nm := rootOf(fn).Name()
			c.check(nm == "pruneLiveEntriesUpTo", "prune-filter-agreement", wf+" ← "+nm, p.Pos(posOf(in, fn)), "owner", wf+" is written outside pruneLiveEntriesUpTo")
		})
	}
	c.floor("prune-filter-agreement", 6)
}

// c14WatermarkField: the Height-typed field of tendermintWALStore and whether it is kept exclusive (stored as height+1).
func c14WatermarkField(p *Prog) (string, bool) {
	t := p.lookupType("consensus/walstore", "tendermintWALStore")
	if t == nil {
		return "", false
	}
	st, ok := t.Underlying().(*types.Struct)
	if !ok {
		return "", false
	}
	name := ""
	for i := 0; i < st.NumFields(); i++ {
		if strings.HasSuffix(st.Field(i).Type().String(), "consensus/types.Height") {
			if name != "" {
				return "", false
			}
			name = st.Field(i).Name()
		}
	}
	f := wsFunc(p, "tendermintWALStore", "pruneLiveEntriesUpTo")
	if name == "" || f == nil {
		return "", false
	}
	excl, found := false, false
	allInstrs(f, func(in ssa.Instruction) {
		if s, ok := in.(*ssa.Store); ok && strings.HasSuffix(term(s.Addr), "s."+name) {
			found = true
			if b, isB := s.Val.(*ssa.BinOp); isB && b.Op == token.ADD {
				if k, isK := b.Y.(*ssa.Const); isK && k.Value != nil && k.Int64() == 1 {
					excl = true
				}
			}
		}
	})
	if !found {
		return "", false
	}
	return name, excl
}

func c14Tail(c *Ctx) {
	p := c.P
	if f := wsFunc(p, "tendermintWALStore", "loadExistingEntries"); f != nil {
		s := findSite(f, "loadLogicalLog")
		ok := false
		if s != nil {
			t := term(s.Args()[len(s.Args())-1])
			ok = strings.Contains(t, "== (len(logs) - 1)")
		}
		c.check(ok, "tail-tolerance", "loadExistingEntries: tolerateTail only for the newest log", p.Pos(fnPos(f)), "tolerateTail = (i == len(logs)-1)", "torn tails are tolerated for logs other than the newest one")
	} else {
		c.und("tail-tolerance", "loadExistingEntries", "", "anchor not found")
	}
	if f := wsFunc(p, "tendermintWALStore", "loadLogicalLog"); f != nil {
		// a nil return under an invalid-record error requires tolerateTail
		n := 0
		for _, ret := range returnsOf(f) {
			if !isNilConst(ret.Results[0]) {
				continue
			}
			d := p.mustHoldAt(ret.Ret)
			if ok, _ := everyDisjunctHas(d, []string{"IsInvalidRecord("}); ok && len(d) > 0 {
				n++
				ok2, miss := everyDisjunctHas(d, []string{"tolerateTail"})
				c.check(ok2, "tail-tolerance", "loadLogicalLog: invalid record ⇒ tolerateTail", p.Pos(posOf(ret.Ret, f)), "an invalid record ends replay quietly only in the newest log", "an invalid record is swallowed without tolerateTail: "+miss)
			}
		}
		if n == 0 {
			c.und("tail-tolerance", "loadLogicalLog", p.Pos(fnPos(f)), "the tolerated-tail return was not recognised")
		}
	} else {
		c.und("tail-tolerance", "loadLogicalLog", "", "anchor not found")
	}
	if f := wsFunc(p, "", "recoverLatestWALTail"); f != nil {
		n := 0
		for _, s := range sitesOf(f) {
			nm := s.CalleeName()
			if !(strings.HasSuffix(nm, "repairWALTail") || strings.HasSuffix(nm, "repairWALTailIfLonger")) {
				continue
			}
			n++
			off := term(s.Args()[1])
			ok := strings.Contains(off, "NextRecord()#1") && strings.HasSuffix(off, ".Physical")
			if !ok && strings.HasSuffix(off, ".Physical") {
				// the scan may live in a same-package helper that returns the offset together with the read error
				// (`scanToWALTail(reader)`): every return of the helper must hand back the offset of the failing NextRecord()
				v := s.Args()[1]
				for d := 0; d < 6; d++ {
					switch x := v.(type) {
					case *ssa.Field:
						v = x.X
						continue
					case *ssa.UnOp:
						v = x.X
						continue
					case *ssa.FieldAddr:
						v = x.X
						continue
					case *ssa.Alloc:
						if st := singleStore(x); st != nil {
							v = st.Val
							continue
						}
					}
					break
				}
				if ex, isEx := v.(*ssa.Extract); isEx {
					if call, isCall := ex.Tuple.(*ssa.Call); isCall {
						if g := call.Call.StaticCallee(); g != nil && len(g.Blocks) > 0 && pkgRelOf(g) == pkgRelOf(f) {
							all, k := true, 0
							for _, r := range returnsOf(g) {
								if ex.Index >= len(r.Results) {
									all = false
									continue
								}
								k++
								if !strings.Contains(term(r.Results[ex.Index]), "NextRecord()#1") {
									all = false
								}
							}
							ok = all && k > 0
						}
					}
				}
			}
			c.check(ok, "tail-tolerance", "recoverLatestWALTail → "+nm[strings.LastIndex(nm, ".")+1:], p.Pos(s.Pos()), "truncates at the offset reported together with the read error", "tail repair truncates at "+off+" instead of the offset returned with the failing NextRecord(): flushed records before the torn one could be cut off")
		}
		if n < 2 {
			c.und("tail-tolerance", "recoverLatestWALTail", p.Pos(fnPos(f)), "repair calls not found")
		}
		// a torn record is repaired on every path: each return under IsInvalidRecord(err) is the result of the repair call (a torn
		// first record left in place is tolerated only while the file is the newest one — after the next flush every start fails)
		k := 0
		for _, ret := range returnsOf(f) {
			d := p.mustHoldAt(ret.Ret)
			if inv, _ := everyDisjunctHas(d, []string{"IsInvalidRecord("}); !inv || len(d) == 0 {
				continue
			}
			if neg, _ := everyDisjunctHas(d, []string{"^!", "IsInvalidRecord("}); neg {
				continue
			}
			k++
			okr := false
			if len(ret.Results) == 1 {
				if call, isCall := ret.Results[0].(*ssa.Call); isCall && call.Call.StaticCallee() != nil && strings.HasPrefix(call.Call.StaticCallee().Name(), "repairWALTail") {
					okr = true
				}
			}
			if !okr {
				for _, s := range sitesOf(f) {
					if strings.HasSuffix(s.CalleeName(), "repairWALTail") && dominatesInstr(s.Instr, ret.Ret) {
						okr = true
					}
				}
			}
			c.check(okr, "tail-tolerance", fmt.Sprintf("recoverLatestWALTail: invalid record ⇒ repaired (return #%d)", k), p.Pos(posOf(ret.Ret, f)), "a torn record always leads to the truncating repair", "a torn record is left in the file on this path: it is tolerated only while the file is the newest log; after the next flush every start fails on it")
		}
		if k == 0 {
			c.und("tail-tolerance", "recoverLatestWALTail: invalid record arm", p.Pos(fnPos(f)), "no return under IsInvalidRecord(err) found")
		}
	} else {
		c.und("tail-tolerance", "recoverLatestWALTail", "", "anchor not found")
	}
	c.floor("tail-tolerance", 4)
}

// c14FreshWALNumber: the number given to a newly created WAL file is larger than the number of every log file found on
// disk (running maximum of log.Num+1), so creating it can never truncate a surviving file.
func c14FreshWALNumber(c *Ctx) {
	p := c.P
	f := p.Func("consensus/walstore", "", "nextWALNum")
	if f == nil {
		c.und("fresh-wal-number", "nextWALNum", "", "anchor not found")
		return
	}
	c.saw(qname(f))
	ok := false
	why := "the result is not a running maximum over the logs' numbers"
	for _, ret := range returnsOf(f) {
		ph, isPhi := ret.Results[0].(*ssa.Phi)
		if !isPhi {
			why = "the result is " + term(ret.Results[0]) + ", not a running maximum over the logs' numbers"
			continue
		}
		for _, e := range ph.Edges { // next = max(next, log.Num+1)
			if call, isCall := e.(*ssa.Call); isCall {
				if bi, isBi := call.Call.Value.(*ssa.Builtin); isBi && bi.Name() == "max" {
					hasPhi, hasNum := false, false
					for _, a := range call.Call.Args {
						if a == ssa.Value(ph) {
							hasPhi = true
						}
						if strings.Contains(term(a), ".Num + 1") {
							hasNum = true
						}
					}
					if hasPhi && hasNum {
						ok = true
					}
				}
			}
		}
		for i, e := range ph.Edges {
			b, isB := e.(*ssa.BinOp)
			if !isB || b.Op != token.ADD {
				continue
			}
			k, isK := constUint(b.Y)
			if !isK || k != 1 || !strings.HasSuffix(term(b.X), ".Num") {
				continue
			}
			// the edge is taken only under e > φ
			pred := ph.Block().Preds[i]
			for _, fct := range factsAtBlock(pred) {
				if cb, isC := fct.Cond.(*ssa.BinOp); isC && fct.Pos {
					if (cb.Op == token.GTR && cb.X == ssa.Value(b) && cb.Y == ssa.Value(ph)) || (cb.Op == token.LSS && cb.Y == ssa.Value(b) && cb.X == ssa.Value(ph)) {
						ok = true
					}
				}
			}
		}
	}
	c.check(ok, "fresh-wal-number", "nextWALNum", p.Pos(fnPos(f)), "max over all found logs of (log.Num + 1)", "the next WAL number is not derived from the largest existing log number ("+why+"): after a cleanup that removed a prefix of the files the new writer's number collides with a surviving file and creating it truncates flushed entries")
	// the writer advances its number after each successful create
	if ew := wsFunc(p, "walWriter", "ensureWriter"); ew != nil {
		cr := findSite(ew, "Create")
		adv := false
		allInstrs(ew, func(in ssa.Instruction) {
			if st, isSt := in.(*ssa.Store); isSt {
				if fa, isFa := st.Addr.(*ssa.FieldAddr); isFa && fieldName(fa.X.Type(), fa.Field) == "nextWALNum" && strings.Contains(term(st.Val), "nextWALNum + 1") {
					if cr != nil && dominatesInstr(cr.Instr, in) {
						adv = true
					}
				}
			}
		})
		c.check(cr != nil && strings.HasSuffix(term(cr.Args()[len(cr.Args())-2]), "nextWALNum") || adv, "fresh-wal-number", "ensureWriter", p.Pos(fnPos(ew)), "creates the file numbered nextWALNum and advances the number", "ensureWriter no longer creates the file at nextWALNum / advances it")
	}
}

// c14CleanupAndSeq: (min-over-all-refs) the smallest WAL file number still needed is taken over every referenced file of
// every live height (future-height messages are logged ahead of time, so "first file of the next height" is not enough);
// (seq-per-record) every record of a committed batch — prune markers included — consumes a batch sequence number: Pebble's
// WAL reader drops a record whose number does not exceed the last one seen, so a batch that reuses a number is lost on reopen.
func c14CleanupAndSeq(c *Ctx) {
	p := c.P
	if f := wsFunc(p, "tendermintWALStore", "cleanupObsoleteWALs"); f != nil {
		usesRefs, ranges := false, false
		for _, g := range withAnons(f) {
			allInstrs(g, func(in ssa.Instruction) {
				if fa, ok := in.(*ssa.FieldAddr); ok && fieldName(fa.X.Type(), fa.Field) == "walHeightRefs" {
					usesRefs = true
				}
				if _, ok := in.(*ssa.Range); ok {
					ranges = true
				}
			})
		}
		obs := findSite(f, "obsolete")
		c.check(usesRefs && ranges && obs != nil, "min-over-all-refs", "cleanupObsoleteWALs", p.Pos(fnPos(f)), "the lower bound handed to obsolete() is minimised over all of walHeightRefs", "cleanupObsoleteWALs no longer walks every referenced WAL file (walHeightRefs) when computing the oldest file still needed: files holding flushed entries of a height that is not the next one (messages logged ahead of their height) are deleted")
	} else {
		c.und("min-over-all-refs", "cleanupObsoleteWALs", "", "anchor not found")
	}
	if f := c14FlushBody(p); f != nil {
		n := 0
		var scopeInstrs []ssa.Instruction
		for _, g := range samePkgScope(f, 1) {
			allInstrs(g, func(in ssa.Instruction) { scopeInstrs = append(scopeInstrs, in) })
		}
		for _, in := range scopeInstrs {
			st, ok := in.(*ssa.Store)
			if !ok {
				continue
			}
			fa, ok := st.Addr.(*ssa.FieldAddr)
			if !ok || fieldName(fa.X.Type(), fa.Field) != "nextBatchSeqNum" {
				continue
			}
			n++
			t := term(st.Val)
			b, isB := st.Val.(*ssa.BinOp)
			ok2 := isB && b.Op == token.ADD && strings.HasSuffix(term(b.X), "nextBatchSeqNum") && !strings.Contains(term(b.Y), " - ") && strings.Contains(termF(b.Y), "len(")
			c.check(ok2, "seq-per-record", "flushLocked: nextBatchSeqNum", p.Pos(posOf(in, in.Parent())), "advanced by the number of records of the batch", "the batch sequence number advances by "+t+" instead of by the number of records written: a later batch reuses a sequence number and Pebble's WAL reader silently drops it on reopen")
		}
		if n == 0 {
			c.und("seq-per-record", "flushLocked", p.Pos(fnPos(f)), "store to nextBatchSeqNum not found")
		}
		// … and on every path on which the batch reached the log: from the append, each return that is not the
		// "error ∧ not committed" arm passes the store (a later failure — cleanup, watermark — must not leave the counter behind:
		// the next batch would reuse the numbers and be dropped by the reader on reopen)
		var app ssa.Instruction
		for _, s := range sitesOf(f) {
			if strings.HasSuffix(s.CalleeName(), "appendSync") {
				app = s.Instr
			}
		}
		if app == nil {
			c.und("seq-per-record", "flushLocked: append", p.Pos(fnPos(f)), "appendSync call not found")
		} else {
			pass := map[*ssa.BasicBlock]bool{}
			allInstrs(f, func(in ssa.Instruction) {
				if st, ok := in.(*ssa.Store); ok {
					if fa, ok := st.Addr.(*ssa.FieldAddr); ok && fieldName(fa.X.Type(), fa.Field) == "nextBatchSeqNum" {
						pass[in.Block()] = true
					}
				}
			})
			// same-package helpers that always advance the counter
			for _, s := range sitesOf(f) {
				if s.Callee != nil && pkgRelOf(s.Callee) == pkgRelOf(f) && len(s.Callee.Blocks) > 0 {
					always := false
					hp := map[*ssa.BasicBlock]bool{}
					allInstrsOne(s.Callee, func(in ssa.Instruction) {
						if st, ok := in.(*ssa.Store); ok {
							if fa, ok := st.Addr.(*ssa.FieldAddr); ok && fieldName(fa.X.Type(), fa.Field) == "nextBatchSeqNum" {
								hp[in.Block()] = true
							}
						}
					})
					if len(hp) > 0 {
						always = true
						seen := map[*ssa.BasicBlock]bool{}
						q := []*ssa.BasicBlock{s.Callee.Blocks[0]}
						for len(q) > 0 {
							b := q[0]
							q = q[1:]
							if seen[b] || hp[b] {
								continue
							}
							seen[b] = true
							if exitKind(b) == "return" {
								always = false
							}
							q = append(q, b.Succs...)
						}
					}
					if always {
						pass[s.Block()] = true
					}
				}
			}
			bad := ""
			seen := map[*ssa.BasicBlock]bool{}
			var q []*ssa.BasicBlock
			if pass[app.Block()] {
				// store in the block of the append itself (after it): everything passes
			} else {
				q = append(q, app.Block().Succs...)
			}
			for len(q) > 0 {
				b := q[0]
				q = q[1:]
				if seen[b] || pass[b] {
					continue
				}
				seen[b] = true
				if exitKind(b) == "return" {
					ret := b.Instrs[len(b.Instrs)-1]
					d := p.mustHoldAt(ret)
					if nc, _ := everyDisjunctHas(d, []string{"^!", ".committed"}); nc && len(d) > 0 {
						continue // the batch did not reach the log
					}
					bad = p.Pos(posOf(ret, f))
				}
				q = append(q, b.Succs...)
			}
			c.check(bad == "", "seq-per-record", "flushLocked: counter advanced whenever the batch was appended", p.Pos(app.Pos()), "every return after a committed append passes the store to nextBatchSeqNum", "the return at "+bad+" is reached after the batch was appended to the log without advancing nextBatchSeqNum: the next batch reuses its sequence numbers and Pebble's WAL reader drops it on reopen")
		}
	} else {
		c.und("seq-per-record", "flushLocked", "", "anchor not found")
	}
}

// c14ReplayOrderAndTemp: two shape conditions of recovery found through seeded changes C13-N and C14-N.
// (replay-order) what LoadAllEntries hands to the replay is the log order: no function of the store sorts a slice of WAL
// entries (only the list of heights may be sorted) — grouping a height's entries by round makes the replay see a late
// round-0 prevote before the round skip it followed, lock on it and contradict the votes sent before the crash.
// (temp-never-read) the watermark's temporary file is written and renamed, never read: every os.ReadFile/Open of the store
// reads a path that does not derive from the ".tmp" name — a torn temp file left by a crash during the very first watermark
// write would otherwise stop the validator from starting (strict validation) or be trusted (lax validation).
func c14ReplayOrderAndTemp(c *Ctx) {
	p := c.P
	nSort, nRead := 0, 0
	for _, fn := range p.sortedFuncs() {
		if pkgRelOf(fn) != "consensus/walstore" || fn.Origin() != nil || strings.HasSuffix(p.Pos(fnPos(fn)), "_test.go") {
			continue
		}
		for _, g := range withAnons(fn) {
			for _, s := range sitesOf(g) {
				if s.Callee == nil {
					continue
				}
				cal := s.Callee
				if cal.Origin() != nil {
					cal = cal.Origin()
				}
				if cal.Pkg == nil {
					continue
				}
				pk := cal.Pkg.Pkg.Path()
				if (pk == "slices" || pk == "sort") && strings.HasPrefix(cal.Name(), "Sort") || pk == "sort" && (cal.Name() == "Slice" || cal.Name() == "SliceStable" || cal.Name() == "Stable") {
					nSort++
					args := s.Args()
					bad := len(args) > 0 && strings.Contains(args[0].Type().String(), "wal.Entry")
					c.check(!bad, "replay-order", qname(fn)+": "+pk+"."+cal.Name(), p.Pos(s.Pos()), "only heights are sorted; entries keep the order in which they were logged", "the store sorts a slice of WAL entries: the replay no longer sees the messages in the order in which they were processed before the crash (a late vote of an earlier round is replayed before the round skip it arrived after)")
				}
				if pk == "os" && (cal.Name() == "ReadFile" || cal.Name() == "Open" || cal.Name() == "OpenFile") && len(s.Args()) > 0 {
					// OpenFile for writing the temp file is the writer's business
					if cal.Name() == "OpenFile" && len(s.Args()) >= 2 {
						if k, ok := s.Args()[1].(*ssa.Const); ok && k.Value != nil && k.Int64()&int64(os.O_WRONLY|os.O_RDWR|os.O_CREATE) != 0 {
							continue // opened for writing: that is the writer creating the temp file
						}
					}
					nRead++
					tmp := false
					var scan func(v ssa.Value, d int)
					scan = func(v ssa.Value, d int) {
						for x := range backSlice(v) {
							if k, ok := x.(*ssa.Const); ok && k.Value != nil && strings.Contains(k.Value.ExactString(), ".tmp") {
								tmp = true
							}
							// a path handed in as a parameter: what the callers pass
							if pa, ok := x.(*ssa.Parameter); ok && d < 2 && pa.Parent() != nil {
								for i, q := range pa.Parent().Params {
									if q != pa {
										continue
									}
									for _, cs := range p.callersOf(pa.Parent()) {
										if a := cs.Args(); i < len(a) {
											scan(a[i], d+1)
										}
									}
								}
							}
						}
					}
					scan(s.Args()[0], 0)
					c.check(!tmp, "temp-never-read", qname(fn)+": os."+cal.Name(), p.Pos(s.Pos()), "no read of the watermark's temporary file", "the store reads the watermark's temporary file: after a crash during a watermark write that file can be torn — recovery must ignore it (the renamed file, or none, is the truth)")
				}
			}
		}
	}
	if nSort == 0 {
		c.ok("replay-order", "consensus/walstore", "", "no sort call in the store")
	}
	if nRead == 0 {
		c.und("temp-never-read", "consensus/walstore", "", "no file read found in the store (watermark loader renamed?)")
	}
}

// wfTerm: the watermark operand of a comparison pattern such as " < s.firstLiveHeight".
func wfTerm(pat string) string {
	if i := strings.LastIndex(pat, " "); i >= 0 {
		return strings.TrimSuffix(pat[i+1:], ")")
	}
	return pat
}

// c14IsNotBelowWatermark: atom a says "h ≥ wf" for some arithmetic-free h, in any of the spellings
// !(h < wf), (h >= wf), (wf <= h), !(wf > h).
func c14IsNotBelowWatermark(a, wf string) bool {
	neg := strings.HasPrefix(a, "!")
	core := strings.TrimPrefix(a, "!")
	if !strings.HasPrefix(core, "(") || !strings.HasSuffix(core, ")") {
		return false
	}
	core = core[1 : len(core)-1]
	for _, op := range []string{" <= ", " >= ", " < ", " > "} {
		i := strings.Index(core, op)
		if i < 0 {
			continue
		}
		l, r := core[:i], core[i+len(op):]
		var h string
		wfLeft := false
		switch {
		case l == wf:
			h, wfLeft = r, true
		case r == wf:
			h = l
		default:
			return false
		}
		if strings.ContainsAny(h, "+-*/%") {
			return false
		}
		o := strings.TrimSpace(op)
		// normalise to a relation between h and wf
		if wfLeft { // wf o h  ⇒  h o' wf
			o = map[string]string{"<=": ">=", ">=": "<=", "<": ">", ">": "<"}[o]
		}
		if neg {
			o = map[string]string{"<=": ">", ">=": "<", "<": ">=", ">": "<="}[o]
		}
		return o == ">="
	}
	return false
}

// c14FlushBody: the function that holds the flush's commit step — flushLocked itself, or the piece of it (a same-package
// function only flushLocked reaches) that contains the appendSync call when the flush was split up.
func c14FlushBody(p *Prog) *ssa.Function {
	fl := wsFunc(p, "tendermintWALStore", "flushLocked")
	if fl == nil || findSite(fl, "appendSync") != nil {
		return fl
	}
	for _, g := range samePkgScope(fl, 2) {
		if g != fl && findSite(g, "appendSync") != nil && p.calledOnlyFrom(g, "flushLocked", 0) {
			return g
		}
	}
	return fl
}

// c14OneRecordPerFlush: (one-record-per-flush) a flush is all-or-nothing because its pending records go to the log as ONE
// physical batch: on the flush path the appendSync call is executed at most once per flush — it does not sit in a loop, and
// a helper that contains it is not called from a loop of the flush. Seeded change C14-L splits flushes of more than 4096
// records into several log records "to keep the encode buffer small": a crash between two physical writes leaves a partial
// batch, and an fsync failure on a later chunk makes Flush report failure while the earlier chunks are durable.
func c14OneRecordPerFlush(c *Ctx) {
	p := c.P
	fl := wsFunc(p, "tendermintWALStore", "flushLocked")
	if fl == nil {
		c.und("one-record-per-flush", "flushLocked", "", "anchor not found")
		return
	}
	n := 0
	for _, ds := range p.deepSites(fl, nameMatcher("appendSync"), 2) {
		n++
		bad := ""
		if inSameLoop(ds.Site.Block(), ds.Site.Block()) {
			bad = "appendSync is called in a loop at " + p.Pos(ds.Site.Pos())
		}
		for _, cs := range ds.Chain {
			if inSameLoop(cs.Block(), cs.Block()) {
				bad = "the helper that appends is called in a loop at " + p.Pos(cs.Pos())
			}
		}
		c.check(bad == "", "one-record-per-flush", "flushLocked → appendSync", p.Pos(ds.Site.Pos()), "one physical batch per flush", "a flush writes its records as several physical batches ("+bad+"): the flush is no longer all-or-nothing across a crash or an fsync failure between two of them")
	}
	if n == 0 {
		c.und("one-record-per-flush", "flushLocked", p.Pos(fnPos(fl)), "appendSync not reached from flushLocked")
	}
}
