package main

import (
	"fmt"
	"go/types"
	"sort"
	"strings"

	"golang.org/x/tools/go/ssa"
)

func drvFunc(p *Prog, name string) *ssa.Function {
	fs := p.FuncsNamed("consensus/driver", "Driver", name)
	for _, f := range fs {
		if f.Origin() == nil {
			return f
		}
	}
	if len(fs) > 0 {
		return fs[0]
	}
	return nil
}

func isBroadcastInvoke(s Site) bool {
	return s.Method != nil && s.Method.Name() == "Broadcast" && s.Method.Pkg() != nil && strings.HasSuffix(s.Method.Pkg().Path(), "consensus/p2p")
}

func init() {
	register("C13", func(c *Ctx) {
		p := c.P
		c.Explain = "Write-ahead discipline of the consensus driver, decided on CFG/SSA: (flush-before-visible) in Driver.execute every broadcast and the commit are reachable only through the WAL flush of the same loop iteration, except on the branch isReplaying ∨ ¬action.RequiresWALFlush(); " +
			"(visible-requires-flush) every action type whose arm reaches a broadcaster or the commit listener answers RequiresWALFlush() with constant true; (who-broadcasts) consensus broadcasters and the WAL store's SetWALEntry/Flush/DeleteWALEntries are invoked only by the driver; " +
			"(log-first) every action list that contains a vote/proposal/start-round begins with the WriteWAL of the triggering input, and the vote counter records each message before any early return; (commit-order) OnCommit(success) → DeleteWALEntries → Flush; (replay-exhaustive) ProcessWAL and the record envelope cover every wal.Entry type; " +
			"(replay-determinism) replay re-derives nothing from a non-logged non-deterministic source. Not decided: equality of the recovered consensus state, timers, what survives a crash (C14)."
		var visible []Site
		// pass 1: per driver function, its directly visible effects and its flush (own, or in a same-package helper)
		type drvInfo struct {
			vis, lifted  []Site
			flush, hsite *Site
			liftedUp     bool
		}
		infos := map[*ssa.Function]*drvInfo{}
		var order []*ssa.Function
		for _, ex := range p.sortedFuncs() {
			if pkgRelOf(ex) != "consensus/driver" || ex.Origin() != nil {
				continue
			}
			di := &drvInfo{}
			ss := sitesOf(ex)
			for i := range ss {
				s := &ss[i]
				if s.Method != nil && s.Method.Name() == "Flush" && di.flush == nil {
					di.flush = s
				}
				if isBroadcastInvoke(*s) || (strings.HasSuffix(s.CalleeName(), ").commit") && (ex.Name() == "execute" || p.calledOnlyFrom(ex, "execute", 0))) {
					di.vis = append(di.vis, *s)
				}
			}
			infos[ex] = di
			order = append(order, ex)
		}
		// the flush may have been moved into a same-package helper (one that performs no visible effect itself)
		for _, ex := range order {
			di := infos[ex]
			if di.flush != nil {
				continue
			}
			ss := sitesOf(ex)
			for i := range ss {
				g := ss[i].Callee
				if g == nil {
					continue
				}
				gi := infos[canonGeneric(g)]
				if gi == nil || gi.flush == nil || gi.hsite != nil || len(gi.vis) > 0 || di.hsite != nil {
					continue
				}
				// a flush helper is called ahead of the effects it covers, not in one of their arms
				ahead := len(di.vis) > 0
				for _, v := range di.vis {
					if !dominatesInstr(ss[i].Instr, v.Instr) {
						ahead = false
					}
				}
				if !ahead {
					continue
				}
				di.flush, di.hsite = gi.flush, &ss[i]
			}
		}
		// pass 2: a function that performs visible effects without flushing itself hands the obligation to its callers:
		// the call to it is a visible effect of the caller (two levels at most)
		for round := 0; round < 2; round++ {
			for _, ex := range order {
				di := infos[ex]
				if di.liftedUp || di.flush != nil || len(di.vis)+len(di.lifted) == 0 {
					continue
				}
				callers := p.callersOf(ex)
				if len(callers) == 0 {
					continue
				}
				all := true
				for _, cs := range callers {
					if infos[canonGeneric(rootOf(cs.Fn))] == nil {
						all = false
					}
				}
				if !all {
					continue
				}
				for _, cs := range callers {
					ci := infos[canonGeneric(rootOf(cs.Fn))]
					ci.lifted = append(ci.lifted, cs)
				}
				di.liftedUp = true
			}
		}
		for _, ex := range order {
			di := infos[ex]
			if !p.InFixture(fnPos(ex)) {
				visible = append(visible, di.vis...)
			}
			if di.liftedUp {
				// its effects are covered where it is called: one obligation per effect, decided at the call sites
				for _, v := range di.vis {
					construct := qname(ex) + " → " + v.CalleeName()
					if isBroadcastInvoke(v) {
						construct = qname(ex) + " → " + typeShort(v.Recv.Type()) + ".Broadcast(" + typeShort(v.Args()[len(v.Args())-1].Type()) + ")"
					}
					c.ok("flush-before-visible", construct, p.Pos(v.Pos()), "performed by a helper without a flush of its own: every call of the helper is checked as a visible effect of its caller")
				}
				continue
			}
			if len(di.vis)+len(di.lifted) == 0 {
				continue
			}
			c.saw(qname(ex))
			c13FlushRule(c, ex, di.flush, di.hsite, append(append([]Site{}, di.vis...), di.lifted...))
		}
		if len(visible) < 4 {
			c.und("flush-before-visible", "Driver.execute:visible", "", fmt.Sprintf("only %d visible effects found (expected 3 broadcasts + commit)", len(visible)))
		}
		c.floor("flush-before-visible", 6)
		c.needFixture("flush-before-visible")

		// visible-requires-flush
		for _, v := range visible {
			ta := armTypeAssert(v)
			if ta == nil {
				c.und("visible-requires-flush", v.CalleeName(), p.Pos(v.Pos()), "cannot find the type-switch arm of this effect")
				continue
			}
			n := namedOf(ta.AssertedType)
			if n == nil {
				c.und("visible-requires-flush", v.CalleeName(), p.Pos(v.Pos()), "arm type is not a named action")
				continue
			}
			m := requiresFlushConst(p, n)
			c.check(m == "true", "visible-requires-flush", "actions."+n.Obj().Name()+".RequiresWALFlush", p.Pos(v.Pos()), "constant true",
				"action "+n.Obj().Name()+" is executed as a peer-visible effect but RequiresWALFlush() returns "+m)
		}
		c.floor("visible-requires-flush", 4)

		// who-broadcasts
		nb := 0
		for _, fn := range p.sortedFuncs() {
			if fn.Origin() != nil {
				continue
			}
			for _, s := range sitesOf(fn) {
				if isBroadcastInvoke(s) {
					nb++
					okb := pkgRelOf(fn) == "consensus/driver" && (rootOf(fn).Name() == "execute" || p.calledOnlyFrom(fn, "execute", 0))
					// p2p package's own plumbing (buffered broadcasters wrapping each other) is allowed
					if strings.HasPrefix(pkgRelOf(fn), "consensus/p2p") {
						okb = true
					}
					c.check(okb || p.InFixture(s.Pos()) && false, "who-broadcasts", "Broadcast ← "+qname(fn), p.Pos(s.Pos()), "called from Driver.execute", "a consensus message is broadcast outside Driver.execute (no WAL flush discipline there)")
				}
				if s.Method != nil && (s.Method.Name() == "SetWALEntry" || s.Method.Name() == "DeleteWALEntries" || (s.Method.Name() == "Flush" && strings.Contains(typeShort(s.Recv.Type()), "WALStore"))) {
					okw := pkgRelOf(fn) == "consensus/driver"
					c.check(okw, "who-broadcasts", "WALStore."+s.Method.Name()+" ← "+qname(fn), p.Pos(s.Pos()), "WAL is driven only by the driver", "the consensus WAL is written/pruned outside the driver")
				}
			}
		}
		c.floor("who-broadcasts", 6)

		c13LogFirst(c)
		c13WALEntryByValue(c)
		c13CommitOrder(c)
		c13ReplayExhaustive(c)
		c13ReplayDeterminism(c)
	})
}

// armTypeAssert: the type assertion (type-switch arm) whose result feeds the visible call's message/argument.
func armTypeAssert(v Site) *ssa.TypeAssert {
	var find func(x ssa.Value, d int) *ssa.TypeAssert
	find = func(x ssa.Value, d int) *ssa.TypeAssert {
		if d > 5 || x == nil {
			return nil
		}
		switch y := x.(type) {
		case *ssa.TypeAssert:
			return y
		case *ssa.Extract:
			return find(y.Tuple, d+1)
		case *ssa.ChangeType:
			return find(y.X, d+1)
		case *ssa.Convert:
			return find(y.X, d+1)
		case *ssa.UnOp:
			return find(y.X, d+1)
		}
		return nil
	}
	args := v.Args()
	for i := len(args) - 1; i >= 0; i-- {
		if ta := find(args[i], 0); ta != nil {
			return ta
		}
	}
	return nil
}

// requiresFlushConst: "true"/"false"/"non-constant" for (*T).RequiresWALFlush of action type n.
func requiresFlushConst(p *Prog, n *types.Named) string {
	pk := p.pkg("consensus/types/actions")
	if pk == nil {
		return "unknown"
	}
	for _, fn := range p.FuncsNamed("consensus/types/actions", n.Obj().Name(), "RequiresWALFlush") {
		if fn.Origin() != nil {
			continue
		}
		res := map[string]bool{}
		for _, ret := range returnsOf(fn) {
			res[term(ret.Results[0])] = true
		}
		if len(res) == 1 {
			for k := range res {
				return k
			}
		}
		return "non-constant"
	}
	return "unknown"
}

func c13LogFirst(c *Ctx) {
	p := c.P
	n := 0
	for _, fn := range p.sortedFuncs() {
		if pkgRelOf(fn) != "consensus/tendermint" || fn.Origin() != nil {
			continue
		}
		allInstrs(fn, func(in ssa.Instruction) {
			a, ok := in.(*ssa.Alloc)
			if !ok {
				return
			}
			arr, ok := a.Type().Underlying().(*types.Pointer)
			if !ok {
				return
			}
			at, ok := arr.Elem().Underlying().(*types.Array)
			if !ok || !strings.Contains(typeShort(at.Elem()), "actions.Action") {
				return
			}
			els := arrayLiteral(a)
			if els == nil {
				return
			}
			kinds := make([]string, len(els))
			visible := false
			for i, e := range els {
				e = stripIface(e)
				kinds[i] = typeShort(e.Type())
				if call, ok := e.(*ssa.Call); ok {
					nm := ""
					if f := call.Call.StaticCallee(); f != nil {
						nm = f.Name()
					}
					kinds[i] = "call " + nm
					if strings.HasPrefix(nm, "setStepAndSend") || nm == "startRound" || nm == "sendProposal" {
						visible = true
					}
				}
				if strings.Contains(kinds[i], "actions.Broadcast") || strings.Contains(kinds[i], "actions.Commit") {
					visible = true
				}
			}
			if !visible {
				return
			}
			n++
			okf := strings.Contains(kinds[0], "actions.WriteWAL")
			c.check(okf, "log-first", qname(fn)+": ["+strings.Join(kinds, ", ")+"]", p.Pos(posOf(in, fn)), "action list starts with the WriteWAL of its cause",
				"an action list with a peer-visible effect does not begin with the WriteWAL entry of the input that caused it")
		})
	}
	if n < 4 {
		c.und("log-first", "tendermint action lists", "", fmt.Sprintf("only %d action-list literals with visible effects found, expected ≥4", n))
	}
	// processMessage: WriteWAL first, and processLoop gets that list
	if f := tmFunc(p, "processMessage"); f != nil {
		site := findSite(f, "processLoop")
		okp := false
		if site != nil && len(site.Args()) >= 2 {
			if sl, ok := site.Args()[1].(*ssa.Slice); ok {
				if a, ok := sl.X.(*ssa.Alloc); ok {
					if els := arrayLiteral(a); len(els) > 0 && c13IsWriteWAL(els[0]) {
						okp = true
					}
				}
			}
		}
		c.check(okp, "log-first", "processMessage → processLoop", p.Pos(fnPos(f)), "rule actions are appended after the WriteWAL of the message", "processMessage does not hand processLoop a list that starts with the message's WriteWAL entry")
		// every message that was recorded in the vote counter is logged, whatever its height: each return carries the WriteWAL
		walList := func(v ssa.Value) bool {
			if sl, ok := v.(*ssa.Slice); ok {
				if a, ok := sl.X.(*ssa.Alloc); ok {
					if els := arrayLiteral(a); len(els) > 0 && c13IsWriteWAL(els[0]) {
						return true
					}
				}
			}
			return false
		}
		okr := true
		for _, ret := range returnsOf(f) {
			r := ret.Results[0]
			switch x := r.(type) {
			case *ssa.Call:
				if x.Call.StaticCallee() == nil || canonGeneric(x.Call.StaticCallee()).Name() != "processLoop" || len(x.Call.Args) < 2 || !walList(x.Call.Args[1]) {
					okr = false
				}
			default:
				if !walList(r) {
					okr = false
				}
			}
		}
		c.check(okr, "log-first", "processMessage: every return carries the WriteWAL", p.Pos(fnPos(f)), "a message recorded in the vote counter is logged even when it belongs to another height", "processMessage can return without the WriteWAL entry of the message (e.g. for a message of a future height): the message is acted on when its height starts, but after a crash the replay lacks it and the recovered validator contradicts its earlier vote")
	} else {
		c.und("log-first", "processMessage", "", "anchor not found")
	}
	// the vote counter records the message before any early return (needed so that replay of messages logged ahead of their
	// height's Start reconstructs the same buffers)
	for _, pm := range []struct{ fn, add string }{{"ProcessProposal", "AddProposal"}, {"ProcessPrevote", "AddPrevote"}, {"ProcessPrecommit", "AddPrecommit"}} {
		f := tmFunc(p, pm.fn)
		if f == nil {
			c.und("log-first", pm.fn, "", "anchor not found")
			continue
		}
		site := findSite(f, pm.add)
		c.check(site != nil && site.Block() == f.Blocks[0], "log-first", pm.fn+": "+pm.add+" unconditional", p.Pos(fnPos(f)),
			"the message is recorded in the vote counter before any early return", "the message is no longer recorded unconditionally: replayed messages that precede their height's Start entry would be dropped")
		// counted ⇒ logged: an empty action list (no WriteWAL) is returned only for a message the counter refused (duplicate) or
		// before the height has started (the message is logged when it is re-processed at the start of its height). Seeded change
		// C13-K returns nil for a counted prevote of an earlier round: it can complete the quorum of line 28, the validator
		// prevotes on it, crashes, and the replay — which lacks the vote — prevotes nil for the same height and round.
		for _, r := range returnsOf(f) {
			if len(r.Results) != 1 || !isNilConst(r.Results[0]) {
				continue
			}
			d := p.mustHoldAt(r.Ret)
			ok, miss := everyDisjunctHas(d, []string{"^!", pm.add + "("}, []string{"^!", "isHeightStarted"})
			c.check(ok, "log-first", pm.fn+": nothing returned only for uncounted messages", p.Pos(posOf(r.Ret, f)), "an empty action list only when the counter refused the message or the height has not started",
				"a message that the vote counter accepted is answered with an empty action list — it is counted but never written to the WAL ("+clip(miss, 200)+"): rules evaluated later rest on a vote the replay will not see")
		}
	}
	c.floor("log-first", 8)
}

func c13CommitOrder(c *Ctx) {
	p := c.P
	f := drvFunc(p, "commit")
	if f == nil {
		c.und("commit-order", "Driver.commit", "", "anchor not found")
		return
	}
	var on, del, fl *Site
	ss := sitesOf(f)
	for i := range ss {
		s := &ss[i]
		if s.Method == nil {
			continue
		}
		switch s.Method.Name() {
		case "OnCommit":
			on = s
		case "DeleteWALEntries":
			del = s
		case "Flush":
			fl = s
		}
	}
	if on == nil || del == nil || fl == nil {
		c.viol("commit-order", "Driver.commit", p.Pos(fnPos(f)), "commit does not perform OnCommit, DeleteWALEntries and Flush")
		return
	}
	d := p.mustHoldAt(del.Instr)
	ok1, miss := everyDisjunctHas(d, []string{"OnCommit("})
	c.check(ok1 && dominatesInstr(on.Instr, del.Instr), "commit-order", "Driver.commit: OnCommit(success) → DeleteWALEntries", p.Pos(del.Pos()), "the WAL is pruned only after the value was delivered", "the WAL of the height is pruned although OnCommit did not succeed: "+miss)
	ok2 := dominatesInstr(del.Instr, fl.Instr) && hasFact(factStrings(factsAt(fl.Instr)), "!(", "DeleteWALEntries", "!= nil")
	c.check(ok2, "commit-order", "Driver.commit: DeleteWALEntries → Flush", p.Pos(fl.Pos()), "prune is flushed after it succeeded", "the flush does not follow a successful DeleteWALEntries")
}

func c13ReplayExhaustive(c *Ctx) {
	p := c.P
	pk := p.pkg("consensus/types/wal")
	if pk == nil {
		c.und("replay-exhaustive", "package wal", "", "not found")
		return
	}
	var entryTypes []string
	sc := pk.Types.Scope()
	for _, nm := range sc.Names() {
		tn, ok := sc.Lookup(nm).(*types.TypeName)
		if !ok {
			continue
		}
		n, ok := tn.Type().(*types.Named)
		if !ok {
			continue
		}
		if _, isI := n.Underlying().(*types.Interface); isI {
			continue
		}
		for i := 0; i < n.NumMethods(); i++ {
			if n.Method(i).Name() == "GetHeight" {
				entryTypes = append(entryTypes, nm)
			}
		}
	}
	sort.Strings(entryTypes)
	if len(entryTypes) < 5 {
		c.und("replay-exhaustive", "wal entry types", "", fmt.Sprintf("only %d entry types found", len(entryTypes)))
	}
	for _, target := range []struct{ pkg, recv, fn string }{{"consensus/tendermint", "stateMachine", "ProcessWAL"}, {"consensus/walstore", "walRecordEnvelope", "setEntry"}} {
		var f *ssa.Function
		for _, x := range p.FuncsNamed(target.pkg, target.recv, target.fn) {
			if x.Origin() == nil {
				f = x
			}
		}
		if f == nil {
			c.und("replay-exhaustive", target.fn, "", "anchor not found")
			continue
		}
		asserted := map[string]bool{}
		allInstrs(f, func(in ssa.Instruction) {
			if ta, ok := in.(*ssa.TypeAssert); ok {
				if n := namedOf(ta.AssertedType); n != nil {
					asserted[n.Obj().Name()] = true
				}
			}
		})
		for _, et := range entryTypes {
			c.check(asserted[et], "replay-exhaustive", target.fn+" handles wal."+et, p.Pos(fnPos(f)), "entry type has an arm", "WAL entry type wal."+et+" has no arm in "+target.fn+": such entries would be lost or panic on replay")
		}
	}
	c.floor("replay-exhaustive", 10)
}

func c13ReplayDeterminism(c *Ctx) {
	p := c.P
	pw := tmFunc(p, "ProcessWAL")
	if pw == nil {
		c.und("replay-determinism", "ProcessWAL", "", "anchor not found")
		return
	}
	reach := p.Reachable([]*ssa.Function{pw}, func(caller, callee *ssa.Function) bool {
		return !strings.HasPrefix(pkgRelOf(callee), "consensus/")
	})
	n := 0
	for _, f := range reach.Funcs() {
		for _, s := range sitesOf(f) {
			nondet := ""
			if s.Method != nil && s.Method.Name() == "Value" && strings.Contains(typeShort(s.Recv.Type()), "Application") {
				nondet = "Application.Value()"
			}
			if s.Callee != nil && s.Callee.Pkg != nil && s.Callee.Pkg.Pkg.Path() == "time" && s.Callee.Name() == "Now" {
				nondet = "time.Now()"
			}
			if s.Callee != nil && s.Callee.Pkg != nil && strings.HasPrefix(s.Callee.Pkg.Pkg.Path(), "math/rand") {
				nondet = "rand"
			}
			if nondet == "" {
				continue
			}
			n++
			// accepted only if the value is written to the WAL by the same function before it is used in an action
			logged := false
			for _, s2 := range sitesOf(f) {
				_ = s2
			}
			allInstrs(f, func(in ssa.Instruction) {
				if a, ok := in.(*ssa.Alloc); ok && strings.Contains(typeShort(a.Type()), "actions.WriteWAL") {
					logged = true
				}
			})
			// identified by what is re-evaluated on replay, not by the function that happens to hold the call (a refactoring that
			// moves the call must not turn the known finding into a new alarm)
			construct := "replay (ProcessWAL) ⇒ " + nondet
			if logged {
				c.ok("replay-determinism", construct, p.Pos(s.Pos()), "value is logged by the same function")
			} else {
				c.viol("replay-determinism", construct, p.Pos(s.Pos()),
					"in "+qname(f)+", reachable from ProcessWAL (replay): "+nondet+" is re-evaluated on replay and its result is not logged, so the recovered validator can propose/prevote a different value than before the crash; path "+reach.Path(f))
			}
		}
	}
	if n == 0 {
		c.ok("replay-determinism", "ProcessWAL", p.Pos(fnPos(pw)), fmt.Sprintf("no non-logged non-deterministic source among %d functions reachable from replay", len(reach.Pred)))
	}
}

// c13SkipEdges: the edges of fn on which the flush may legitimately be skipped
// (isReplaying true, RequiresWALFlush() false) and the value asked RequiresWALFlush.
func c13SkipEdges(fn *ssa.Function, isRep func(ssa.Value) bool) (map[[2]int]bool, ssa.Value) {
	skip := map[[2]int]bool{}
	var flushRecv ssa.Value
	for _, b := range fn.Blocks {
		iff, ok := b.Instrs[len(b.Instrs)-1].(*ssa.If)
		if !ok {
			continue
		}
		if isRep(iff.Cond) {
			skip[[2]int{b.Index, b.Succs[0].Index}] = true
		}
		if call, ok := iff.Cond.(*ssa.Call); ok && call.Call.IsInvoke() && call.Call.Method.Name() == "RequiresWALFlush" {
			skip[[2]int{b.Index, b.Succs[1].Index}] = true
			flushRecv = call.Call.Value
		}
	}
	return skip, flushRecv
}

func resultTestedForNil(in ssa.Instruction) bool {
	v, ok := in.(ssa.Value)
	if !ok {
		return false
	}
	if refs := v.Referrers(); refs != nil {
		for _, r := range *refs {
			if b, ok := r.(*ssa.BinOp); ok && (isNilConst(b.X) || isNilConst(b.Y)) {
				return true
			}
		}
	}
	return false
}

// hsite != nil: the flush lives in the same-package helper called at hsite; the
// helper is checked with the same skip rule (its early returns may only be
// taken when replaying or when the action needs no flush), and in ex the
// helper call then plays the part of the flush.
func c13FlushRule(c *Ctx, ex *ssa.Function, flush *Site, hsite *Site, visible []Site) {
	p := c.P
	if flush == nil {
		c.viol("flush-before-visible", qname(ex)+":flush", p.Pos(fnPos(ex)), qname(ex)+" never flushes the WAL")
	} else {
		skip, flushRecv := c13SkipEdges(ex, func(v ssa.Value) bool { return term(v) == "isReplaying" })
		realFlush := flush
		if hsite != nil {
			h := canonGeneric(hsite.Callee)
			hskip, hrecv := c13SkipEdges(h, func(v ssa.Value) bool {
				for i, prm := range h.Params {
					if ssa.Value(prm) == v && i < len(hsite.Args()) {
						return term(hsite.Args()[i]) == "isReplaying"
					}
				}
				return false
			})
			for i, prm := range h.Params {
				if hrecv != nil && ssa.Value(prm) == hrecv && i < len(hsite.Args()) {
					flushRecv = hsite.Args()[i]
					if mi, ok := flushRecv.(*ssa.MakeInterface); ok {
						flushRecv = mi.X
					}
				}
			}
			bypassH := false
			for _, r := range returnsOf(h) {
				if r.Block != flush.Block() && !flush.Block().Dominates(r.Block) && reachableAvoiding(h, r.Block, flush.Block(), hskip) {
					bypassH = true
				}
			}
			c.check(!bypassH, "flush-before-visible", qname(ex)+" → "+qname(h)+":helper", p.Pos(flush.Pos()),
				"the flush helper returns without flushing only when replaying / the action needs no flush",
				"the flush helper can return without d.db.Flush() other than via isReplaying / !RequiresWALFlush()")
			c.check(resultTestedForNil(flush.Instr), "flush-before-visible", qname(h)+":flush-error", p.Pos(flush.Pos()), "flush error is tested", "the error of d.db.Flush() is ignored: a failed flush would still let the action out")
			flush = hsite
		}
		_ = realFlush
		// the flush error must be checked: the block after flush on err != nil returns
		for _, v := range visible {
			construct := qname(ex) + " → " + v.CalleeName()
			if isBroadcastInvoke(v) {
				construct = qname(ex) + " → " + typeShort(v.Recv.Type()) + ".Broadcast(" + typeShort(v.Args()[len(v.Args())-1].Type()) + ")"
			}
			bypass := reachableAvoiding(ex, v.Block(), flush.Block(), skip)
			errChecked := hasFact(factStrings(factsAtBlock(v.Block())), "Flush()", "!= nil") || !flush.Block().Dominates(v.Block())
			_ = errChecked
			c.check(!bypass, "flush-before-visible", construct, p.Pos(v.Pos()),
				"reachable only after the per-action WAL flush (or when replaying / the action needs no flush)",
				"a peer-visible effect can be performed without the WAL flush that covers its cause (path avoids d.db.Flush() other than via isReplaying / !RequiresWALFlush())")
			// same action value: the switch operand of this arm is the value asked RequiresWALFlush
			if flushRecv != nil {
				ta := armTypeAssert(v)
				if ta != nil {
					c.check(ta.X == flushRecv, "flush-before-visible", construct+":same-action", p.Pos(v.Pos()), "the action dispatched is the action asked for RequiresWALFlush", "RequiresWALFlush is asked of a different value than the action being executed")
				}
			}
		}
		// the flush must be inside the loop: it must be reachable from itself
		c.check(blocksFrom(flush.Block(), nil)[flush.Block()], "flush-before-visible", qname(ex)+":flush-per-action", p.Pos(flush.Pos()),
			"the flush is evaluated per action (inside the loop), i.e. after the WriteWAL entries that precede the action in the list", "the WAL flush is not inside the per-action loop: WriteWAL entries of the same batch would still be buffered when later actions become visible")
		// flush error returns
		fs := resultTestedForNil(flush.Instr)
		c.check(fs, "flush-before-visible", qname(ex)+":flush-error", p.Pos(flush.Pos()), "flush error is tested", "the error of d.db.Flush() is ignored: a failed flush would still let the action out")
	}
}

// c13WALEntryByValue: the entry handed to a WriteWAL action is a message the caller owns or a fresh copy — never a pointer
// into the state machine's own mutable state. The driver reads the entry only after the state machine returned; by then a
// field such as the height may have moved on (the same call can commit the height), and what is logged is not what
// happened (defect F25: Start(h+1) logged instead of Start(h)).
func c13WALEntryByValue(c *Ctx) {
	p := c.P
	n := 0
	for _, fn := range p.sortedFuncs() {
		if pkgRelOf(fn) != "consensus/tendermint" || fn.Origin() != nil || len(fn.Blocks) == 0 || strings.HasSuffix(p.Pos(fnPos(fn)), "_test.go") {
			continue
		}
		allInstrsOne(fn, func(in ssa.Instruction) {
			st, ok := in.(*ssa.Store)
			if !ok {
				return
			}
			fa, ok := st.Addr.(*ssa.FieldAddr)
			if !ok || fieldName(fa.X.Type(), fa.Field) != "Entry" || !strings.Contains(fa.X.Type().String(), "actions.WriteWAL") {
				return
			}
			n++
			v := st.Val
			for d := 0; d < 8; d++ {
				switch x := v.(type) {
				case *ssa.MakeInterface:
					v = x.X
					continue
				case *ssa.ChangeType:
					v = x.X
					continue
				case *ssa.Convert:
					v = x.X
					continue
				case *ssa.ChangeInterface:
					v = x.X
					continue
				}
				break
			}
			bad := ""
			if f2, isFA := v.(*ssa.FieldAddr); isFA {
				// &x.f: a pointer into an existing object — accepted only for a local (fresh) object
				base := ssa.Value(f2)
				for {
					if g, ok := base.(*ssa.FieldAddr); ok {
						base = g.X
						continue
					}
					break
				}
				if _, fresh := base.(*ssa.Alloc); !fresh {
					bad = term(v)
				}
			}
			c.check(bad == "", "wal-entry-by-value", qname(fn)+": WriteWAL.Entry", p.Pos(posOf(in, fn)), "the logged entry is a message or a fresh copy", "the WAL entry is "+bad+", a pointer into the state machine's live state: the driver reads it after the call returned, when the field may already have changed")
		})
	}
	if n < 3 {
		c.und("wal-entry-by-value", "consensus/tendermint", "", fmt.Sprintf("only %d WriteWAL entries found", n))
	}
}

// c13IsWriteWAL: v is a WriteWAL action — the literal itself, or the result of a same-package constructor helper whose every
// return is one.
func c13IsWriteWAL(v ssa.Value) bool {
	w := stripIface(v)
	if strings.Contains(typeShort(w.Type()), "actions.WriteWAL") {
		return true
	}
	call, ok := w.(*ssa.Call)
	if !ok || call.Call.StaticCallee() == nil || len(call.Call.StaticCallee().Blocks) == 0 {
		return false
	}
	h := call.Call.StaticCallee()
	if call.Parent() == nil || pkgRelOf(h) != pkgRelOf(call.Parent()) {
		return false
	}
	return c13ReturnsWriteWAL(h, 0)
}

func c13ReturnsWriteWAL(h *ssa.Function, depth int) bool {
	if h == nil || len(h.Blocks) == 0 || depth > 3 {
		return false
	}
	nRet, okAll := 0, true
	allInstrsOne(h, func(in ssa.Instruction) {
		ret, isRet := in.(*ssa.Return)
		if !isRet {
			return
		}
		nRet++
		if len(ret.Results) != 1 {
			okAll = false
			return
		}
		w := ret.Results[0]
		for d := 0; d < 6; d++ {
			switch y := w.(type) {
			case *ssa.ChangeType:
				w = y.X
			case *ssa.ChangeInterface:
				w = y.X
			case *ssa.MakeInterface:
				w = y.X
			case *ssa.Convert:
				w = y.X
			case *ssa.MultiConvert:
				w = y.X
			}
		}
		if strings.Contains(typeShort(w.Type()), "actions.WriteWAL") {
			return
		}
		// instantiation wrappers forward to the generic body
		if c2, ok := w.(*ssa.Call); ok && c13ReturnsWriteWAL(c2.Call.StaticCallee(), depth+1) {
			return
		}
		okAll = false
	})
	return nRet > 0 && okAll
}
