package main

import (
	"fmt"
	"go/token"

	"golang.org/x/tools/go/ssa"
)

// E9: sentinel-error discipline.

type fref struct{ pkg, recv, name string }

type SentinelSpec struct {
	Pkg, Var string
	Members  []fref // origin + thin wrappers that are documented to return the sentinel
}

func (p *Prog) global(pkgRel, name string) *ssa.Global {
	pk := p.pkg(pkgRel)
	if pk == nil {
		return nil
	}
	sp := p.SSA.Package(pk.Types)
	if sp == nil {
		return nil
	}
	g, _ := sp.Members[name].(*ssa.Global)
	return g
}

// flowsFrom: does value v derive from src through φ, extracts, interface conversions and single-store locals?
func flowsFrom(v, src ssa.Value, depth int) bool {
	if v == src {
		return true
	}
	if depth > 8 || v == nil {
		return false
	}
	switch x := v.(type) {
	case *ssa.Phi:
		for _, e := range x.Edges {
			if flowsFrom(e, src, depth+1) {
				return true
			}
		}
	case *ssa.ChangeInterface:
		return flowsFrom(x.X, src, depth+1)
	case *ssa.MakeInterface:
		return flowsFrom(x.X, src, depth+1)
	case *ssa.UnOp:
		if x.Op == token.MUL {
			if a, ok := x.X.(*ssa.Alloc); ok {
				if refs := a.Referrers(); refs != nil {
					for _, r := range *refs {
						if st, ok := r.(*ssa.Store); ok && st.Addr == a && flowsFrom(st.Val, src, depth+1) {
							return true
						}
					}
				}
			}
		}
	}
	return false
}

// errResultOf: the error-typed result value(s) of a call.
func errResultOf(call *ssa.Call) []ssa.Value {
	sig := call.Common().Signature()
	n := sig.Results().Len()
	if n == 0 {
		return nil
	}
	if n == 1 {
		if isErrorType(sig.Results().At(0).Type()) {
			return []ssa.Value{call}
		}
		return nil
	}
	var out []ssa.Value
	if refs := call.Referrers(); refs != nil {
		for _, r := range *refs {
			if ex, ok := r.(*ssa.Extract); ok && isErrorType(sig.Results().At(ex.Index).Type()) {
				out = append(out, ex)
			}
		}
	}
	return out
}

func isErrorType(t interface{ String() string }) bool { return t.String() == "error" }

// classifies: fn contains errors.Is(x, g) or x ==/!= g with x derived from errv.
func classifies(fn *ssa.Function, errv ssa.Value, g *ssa.Global) bool {
	found := false
	isG := func(v ssa.Value) bool {
		u, ok := v.(*ssa.UnOp)
		return ok && u.Op == token.MUL && u.X == ssa.Value(g)
	}
	for _, f := range withAnons(fn) {
		allInstrs(f, func(in ssa.Instruction) {
			switch x := in.(type) {
			case *ssa.Call:
				cal := x.Call.StaticCallee()
				if cal != nil && cal.Pkg != nil && cal.Pkg.Pkg.Path() == "errors" && (cal.Name() == "Is") && len(x.Call.Args) == 2 {
					if isG(x.Call.Args[1]) && flowsFrom(x.Call.Args[0], errv, 0) {
						found = true
					}
				}
			case *ssa.BinOp:
				if (x.Op == token.EQL || x.Op == token.NEQ) && ((isG(x.Y) && flowsFrom(x.X, errv, 0)) || (isG(x.X) && flowsFrom(x.Y, errv, 0))) {
					found = true
				}
			}
		})
	}
	return found
}

func (c *Ctx) sentinelRule(rule string, spec SentinelSpec, minSites int) {
	p := c.P
	g := p.global(spec.Pkg, spec.Var)
	if g == nil {
		c.und(rule, spec.Pkg+"."+spec.Var, "", "sentinel variable not found")
		return
	}
	members := map[*ssa.Function]bool{}
	for _, m := range spec.Members {
		fs := p.FuncsNamed(m.pkg, m.recv, m.name)
		if len(fs) == 0 {
			c.und(rule, spec.Var+":"+m.recv+"."+m.name, "", "table member not found (renamed?) — re-confirm the set of functions that may return "+spec.Var)
			continue
		}
		for _, f := range fs {
			members[f] = true
		}
	}
	// sanity: any function that *produces* the sentinel (loads it for something else than a comparison) must be a member
	for _, fn := range p.sortedFuncs() {
		produces := false
		allInstrs(fn, func(in ssa.Instruction) {
			u, ok := in.(*ssa.UnOp)
			if !ok || u.Op != token.MUL || u.X != ssa.Value(g) {
				return
			}
			if refs := u.Referrers(); refs != nil {
				for _, r := range *refs {
					switch y := r.(type) {
					case *ssa.BinOp:
					case *ssa.Call:
						cal := y.Call.StaticCallee()
						if cal != nil && cal.Pkg != nil && cal.Pkg.Pkg.Path() == "errors" && (cal.Name() == "Is" || cal.Name() == "As") {
							continue
						}
						produces = true
					case *ssa.DebugRef:
					default:
						produces = true
					}
				}
			}
		})
		if produces && !members[fn] && !members[rootOf(fn)] {
			c.und(rule, spec.Var+" produced by "+qname(fn), p.Pos(fnPos(fn)), "a function outside the table produces the sentinel; add it to the table after reading it")
		}
	}
	n := 0
	for m := range members {
		for _, s := range p.callersOf(m) {
			if members[s.Fn] || members[rootOf(s.Fn)] {
				continue
			}
			call, ok := s.Instr.(*ssa.Call)
			if !ok {
				continue
			}
			n++
			c.saw(qname(s.Fn))
			construct := qname(s.Fn) + " ← " + qname(m)
			evs := errResultOf(call)
			if len(evs) == 0 {
				c.viol(rule, construct, p.Pos(s.Pos()), "error result of a call that may return "+spec.Var+" is discarded")
				continue
			}
			okc := false
			for _, ev := range evs {
				if classifies(rootOf(s.Fn), ev, g) {
					okc = true
				}
			}
			if okc {
				c.ok(rule, construct, p.Pos(s.Pos()), "classifies "+spec.Var+" with errors.Is/== before using the result")
			} else {
				c.viol(rule, construct, p.Pos(s.Pos()),
					fmt.Sprintf("call may return the sentinel %s.%s (\"no log entry: consult the head / zero\") but the caller never classifies it; sibling callers do (contradiction rule)", spec.Pkg, spec.Var))
			}
		}
	}
	if n < minSites {
		c.und(rule, spec.Var+":callsites", "", fmt.Sprintf("only %d call sites of sentinel-returning functions found, expected ≥ %d", n, minSites))
	}
}
