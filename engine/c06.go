package main

import (
	"fmt"
	"go/constant"
	"go/token"
	"strconv"
	"strings"

	"golang.org/x/tools/go/ssa"
)

// postDominatesSuccess: every path from instruction `from` to a normal return passes through `must`.
func everyPathPasses(fn *ssa.Function, from ssa.Instruction, must ssa.Instruction) bool {
	// a call deferred on every path before `from` runs on every exit after it (also on panic)
	if _, isDefer := must.(*ssa.Defer); isDefer && dominatesInstr(must, from) {
		return true
	}
	if from.Block() == must.Block() {
		if instrIndex(from) < instrIndex(must) {
			return true
		}
		// `must` precedes `from` in the same block: a return at the end of this very block is reached without passing it
		if exitKind(from.Block()) == "return" {
			return false
		}
	}
	// DFS from from.Block()'s successors avoiding must.Block(); if a return block is reachable → false
	seen := map[*ssa.BasicBlock]bool{}
	var q []*ssa.BasicBlock
	q = append(q, from.Block().Succs...)
	for len(q) > 0 {
		b := q[0]
		q = q[1:]
		if seen[b] || b == must.Block() {
			continue
		}
		seen[b] = true
		if exitKind(b) == "return" {
			return false
		}
		q = append(q, b.Succs...)
	}
	return true
}

func init() {
	register("C06", func(c *Ctx) {
		p := c.P
		c.Explain = "Safety half of sync, decided on call graph + CFG/SSA of sync/sync.go: (who-stores) only the sync store task extends the chain through Blockchain.Store, only sync (and the offline db tool) shortens it, Finalise is used only by the builder/genesis; (verify-dominates-store) the store task is created only on the err == nil branch of SanityCheckNewHeight, for the very block that was checked and with the commitments that check returned, and Store receives exactly those values; " +
			"(notify) newHeads.Send(block) is on the Store-succeeded path, no return lies between success and Send, it is the only producer on that feed and sends the stored block; the reorg feed is sent only there, under currReorg != nil, and then reset; (revert-compare) a local block at or below the last possibly valid height is reverted only after it was compared with the source; (reorg-range) a new reorg range is started only when none is pending. " +
			"Not decided: convergence to the source's chain, liveness, schedule-dependent reorg ranges."
		syncFn := func(name string) *ssa.Function { return p.Func("sync", "Synchronizer", name) }

		c06SourcePassthrough(c)
		c06FetchedAfterRevert(c)
		// (no-underflow) heights are uint64: `remoteHeight - 1` and the like in the reorg walk-back must be guarded against 0 —
		// a wrapped "last possibly valid height" makes the revert task ask the source for heights it does not have and give up,
		// on every retry (defect F28: the source's chain is a single, different block 0).
		// reviewed exception, identified by role rather than by the function it sits in: `<block number> - 2` handed straight to
		// revertTask as its bound after a parent mismatch. It wraps only for block 0 or 1, when the local head is block 0 or absent;
		// the wrapped bound reads "compare every local block with the source", and the source can answer for height 0 (unlike
		// F28, where the local head is above the source's).
		exc := map[string]string{}
		for _, fn := range p.sortedFuncs() {
			if pkgRelOf(fn) != "sync" || fn.Origin() != nil {
				continue
			}
			for _, bo := range unsignedSubs(fn) {
				k, isK := constUint(stripConv(bo.Y))
				if !isK || k != 2 {
					continue
				}
				onlyRevert := false
				if refs := bo.Referrers(); refs != nil {
					for _, r := range *refs {
						if call, ok := r.(ssa.CallInstruction); ok {
							if cal := call.Common().StaticCallee(); cal != nil && cal.Name() == "revertTask" {
								onlyRevert = true
							}
						}
					}
				}
				if onlyRevert {
					exc[fmt.Sprintf("%s: %s - %s", qname(fn), shortTerm(bo.X), shortTerm(bo.Y))] = "reviewed: the bound handed to revertTask after a parent mismatch; a wrapped value only occurs for block 0/1 and means 'compare every local block with the source'"
				}
			}
		}
		c.usubRule("no-underflow", func(fn *ssa.Function) bool {
			return pkgRelOf(fn) == "sync" && !strings.HasSuffix(p.Pos(fnPos(fn)), "_test.go") && !p.InFixture(fnPos(fn))
		}, exc)

		// who-stores
		type who struct {
			recv, name string
			allow      map[string]string
		}
		for _, w := range []who{
			{"Blockchain", "Store", map[string]string{"(*sync.Synchronizer).storeTask": "the sync store task"}},
			{"Blockchain", "RevertHead", map[string]string{"(*sync.Synchronizer).revertHead": "sync reorg handling", "cmd/juno.dbRevert": "offline db tool"}},
			{"Blockchain", "Finalise", map[string]string{"(*builder.Builder).Finalise": "block builder (sequencer)", "(*blockchain.Blockchain).StoreGenesis": "genesis"}},
			{"Blockchain", "StoreGenesis", map[string]string{"genesis": "", "node": "", "cmd/juno": "", "sequencer": "", "builder": ""}},
		} {
			f := p.Func("blockchain", w.recv, w.name)
			if f == nil {
				c.und("who-stores", "Blockchain."+w.name, "", "anchor not found")
				continue
			}
			n := 0
			for _, s := range p.callersOf(f) {
				caller := rootOf(s.Fn)
				cn := qname(caller)
				if strings.HasPrefix(pkgRelOf(caller), "mocks") || strings.HasSuffix(pkgRelOf(caller), "testutils") {
					continue
				}
				n++
				_, ok := w.allow[cn]
				if !ok {
					// package-level allowance
					for k := range w.allow {
						if !strings.Contains(k, ".") && strings.HasPrefix(pkgRelOf(caller), k) {
							ok = true
						}
					}
				}
				if !ok && w.name == "RevertHead" && pkgRelOf(caller) == "cmd/juno" {
					ok = true
				}
				c.check(ok, "who-stores", "Blockchain."+w.name+" ← "+cn, p.Pos(s.Pos()), "sanctioned caller", "Blockchain."+w.name+" is called from "+cn+": blocks can enter/leave the chain outside the verified sync path")
			}
			if n == 0 && w.name != "StoreGenesis" {
				c.und("who-stores", "Blockchain."+w.name, p.Pos(fnPos(f)), "no caller found")
			}
		}
		// direct StateBackend.Store only from Blockchain.Store
		for _, fn := range p.sortedFuncs() {
			for _, s := range sitesOf(fn) {
				if s.Method != nil && (s.Method.Name() == "Store" || s.Method.Name() == "RevertHead" || s.Method.Name() == "Finalise") && strings.Contains(typeShort(s.Recv.Type()), "StateBackend") {
					ok := pkgRelOf(fn) == "blockchain" && rootOf(fn).Name() == s.Method.Name()
					c.check(ok, "who-stores", "StateBackend."+s.Method.Name()+" ← "+qname(fn), p.Pos(s.Pos()), "only through the Blockchain method of the same name", "the state backend is driven directly, bypassing Blockchain."+s.Method.Name())
				}
			}
		}
		c.floor("who-stores", 6)

		// verify-dominates-store
		vt, st := syncFn("verifierTask"), syncFn("storeTask")
		if vt == nil || st == nil {
			c.und("verify-dominates-store", "verifierTask/storeTask", "", "anchor not found")
		} else {
			c.saw(qname(vt))
			san := findSite(vt, "SanityCheckNewHeight")
			if san == nil {
				c.viol("verify-dominates-store", "verifierTask", p.Pos(fnPos(vt)), "verifierTask does not call SanityCheckNewHeight")
			} else {
				// checked the fields of the committedBlock parameter
				at := termsOf(san.Args())
				okArgs := len(at) == 4 && at[1] == "committedBlock.Block" && at[2] == "committedBlock.StateUpdate" && at[3] == "committedBlock.NewClasses"
				c.check(okArgs, "verify-dominates-store", "verifierTask: SanityCheckNewHeight(committedBlock.*)", p.Pos(san.Pos()), "the block, state update and classes of the fetched block are what is verified", "SanityCheckNewHeight is not given committedBlock.Block/StateUpdate/NewClasses: "+strings.Join(at, ", "))
				// every caller of storeTask
				n := 0
				for _, s := range p.callersOf(st) {
					n++
					okc := rootOf(s.Fn) == vt && s.Fn != vt
					if !okc {
						c.viol("verify-dominates-store", "storeTask ← "+qname(s.Fn), p.Pos(s.Pos()), "storeTask is invoked outside the closure verifierTask returns after a successful check")
						continue
					}
					// the closure is created only under err == nil of SanityCheckNewHeight
					var mk *ssa.MakeClosure
					allInstrs(vt, func(in ssa.Instruction) {
						if m, ok := in.(*ssa.MakeClosure); ok && m.Fn == ssa.Value(s.Fn) {
							mk = m
						}
					})
					if mk == nil {
						c.und("verify-dominates-store", "storeTask closure", p.Pos(s.Pos()), "closure creation not found")
						continue
					}
					d := p.mustHoldAt(mk)
					ok1, miss := everyDisjunctHas(d, []string{"^!", "SanityCheckNewHeight(", "#1 != nil"})
					c.check(ok1 && dominatesInstr(san.Instr, mk), "verify-dominates-store", "verifierTask: store closure only after a successful check", p.Pos(posOf(mk, vt)),
						"created on the err == nil branch", "the store task can be scheduled although SanityCheckNewHeight failed or was not run: "+miss)
					// values handed to storeTask: committedBlock (same parameter) and commitments = result #0 of the check
					sa := s.Args() // s, ctx, committedBlock, resetStreams, commitments
					okv := len(sa) == 5
					if okv {
						cb := closureBinding(mk, s.Fn, sa[2])
						cm := closureBinding(mk, s.Fn, sa[4])
						okv = cb == ssa.Value(vt.Params[2]) && cm != nil && strings.Contains(term(cm), "SanityCheckNewHeight(") && strings.HasSuffix(term(cm), "#0")
					}
					c.check(okv, "verify-dominates-store", "verifierTask: storeTask(committedBlock, commitments)", p.Pos(s.Pos()), "the verified block and the commitments returned by the check are what is stored",
						"storeTask does not receive the verified block together with the commitments returned by SanityCheckNewHeight")
				}
				if n == 0 {
					c.und("verify-dominates-store", "storeTask callers", "", "no caller of storeTask found")
				}
			}
			// storeTask hands exactly those values to Store
			store := findSite(st, "Store")
			for _, s := range findSites(st, "Store") {
				if s.Callee != nil && s.Callee.Signature.Recv() != nil && isNamed(s.Callee.Signature.Recv().Type(), "blockchain", "Blockchain") {
					store = &s
					break
				}
			}
			if store == nil {
				c.viol("verify-dominates-store", "storeTask → Blockchain.Store", p.Pos(fnPos(st)), "storeTask does not call Blockchain.Store")
			} else {
				at := termsOf(store.Args())
				ok := len(at) == 5 && at[1] == "committedBlock.Block" && at[2] == "commitments" && at[3] == "committedBlock.StateUpdate" && at[4] == "committedBlock.NewClasses"
				c.check(ok, "verify-dominates-store", "storeTask → Blockchain.Store(args)", p.Pos(store.Pos()), "Store receives the verified block/update/classes and the verified commitments", "Store is called with "+strings.Join(at, ", "))
			}
		}
		c.floor("verify-dominates-store", 4)

		// notify
		if st != nil {
			var store *Site
			for _, s := range sitesOf(st) {
				if s.Callee != nil && s.Callee.Name() == "Store" && s.Callee.Signature.Recv() != nil && isNamed(s.Callee.Signature.Recv().Type(), "blockchain", "Blockchain") {
					ss := s
					store = &ss
				}
			}
			// the announcement may live in a helper that storeTask calls after the store ("afterStore": refactoring C06-R14)
			headsDeep := p.deepSites(st, func(s Site) bool {
				return strings.HasSuffix(s.CalleeName(), ".Send") && len(s.Args()) > 0 && strings.HasSuffix(term(s.Args()[0]), "s.newHeads")
			}, 2)
			var heads []Site
			for _, ds := range headsDeep {
				heads = append(heads, ds.Site)
			}
			// the reorg notification may live in a helper of storeTask (extract-function refactoring)
			reorgDeep := p.deepSites(st, func(s Site) bool {
				return strings.HasSuffix(s.CalleeName(), ".Send") && len(s.Args()) > 0 && strings.HasSuffix(term(s.Args()[0]), "s.reorgFeed")
			}, 2)
			var reorgs []deepSite
			reorgs = append(reorgs, reorgDeep...)
			if store == nil || len(heads) != 1 {
				c.viol("notify", "storeTask: newHeads.Send", p.Pos(fnPos(st)), fmt.Sprintf("expected exactly one newHeads.Send after Blockchain.Store (found %d)", len(heads)))
			} else {
				h := heads[0]
				hd := headsDeep[0]
				hOuter := hd.outer() // the instruction of storeTask that stands for the announcement
				d := p.mustHoldDeep(hd)
				ok1, miss := everyDisjunctHas(d, []string{"^!", ".Store(", "!= nil"})
				c.check(ok1 && dominatesInstr(store.Instr, hOuter), "notify", "storeTask: newHeads.Send only after Store succeeded", p.Pos(h.Pos()), "on the err == nil branch of Store", "a new head can be announced although Store failed or did not run: "+miss)
				// no return between success and Send: from the success successor every path to return passes Send
				var succ ssa.Instruction
				if v, ok := store.Instr.(ssa.Value); ok {
					if refs := v.Referrers(); refs != nil {
						for _, r := range *refs {
							if b, ok := r.(*ssa.BinOp); ok && (isNilConst(b.X) || isNilConst(b.Y)) {
								// the If using b
								if rr := b.Referrers(); rr != nil {
									for _, u := range *rr {
										if iff, ok := u.(*ssa.If); ok {
											idx := 1 // != nil: false branch is success
											if b.Op.String() == "==" {
												idx = 0
											}
											sb := iff.Block().Succs[idx]
											if len(sb.Instrs) > 0 {
												succ = sb.Instrs[0]
											}
										}
									}
								}
							}
						}
					}
				}
				okp := succ != nil && (succ.Block() == hOuter.Block() || everyPathPasses(st, succ, hOuter) || succ.Block().Dominates(hOuter.Block()) && everyPathPassesFromBlock(succ.Block(), hOuter.Block()))
				if okp && len(hd.Chain) > 0 {
					// inside the helper: every path from its entry to a return passes the Send
					g := h.Instr.Parent()
					okp = len(g.Blocks) > 0 && len(g.Blocks[0].Instrs) > 0 && (g.Blocks[0] == h.Block() || everyPathPassesFromBlock(g.Blocks[0], h.Block()))
				}
				c.check(okp, "notify", "storeTask: every stored block is announced", p.Pos(h.Pos()), "no return between Store success and newHeads.Send", "a path from the successful Store to a return skips newHeads.Send: a stored block would not be announced")
				announced := ""
				if len(h.Args()) > 1 {
					announced = substTermChain(term(h.Args()[1]), hd.Chain)
				}
				c.check(announced == "committedBlock.Block" && store != nil && term(store.Args()[1]) == "committedBlock.Block", "notify", "storeTask: announced block = stored block", p.Pos(h.Pos()), "same value", "the announced block is not the stored block")
			}
			for _, r := range reorgs {
				d := p.mustHoldDeep(r)
				ok1, miss := everyDisjunctHas(d, []string{"s.currReorg != nil"}, []string{"^!", "s.currReorg == nil"})
				ok2, _ := everyDisjunctHas(d, []string{"^!", ".Store(", "!= nil"})
				reset := false
				allInstrs(r.Site.Instr.Parent(), func(in ssa.Instruction) {
					if stv, ok := in.(*ssa.Store); ok && strings.HasSuffix(term(stv.Addr), "s.currReorg") && isNilConst(stv.Val) && dominatesInstr(r.Site.Instr, in) {
						reset = true
					}
				})
				c.check(ok1 && ok2 && reset, "notify", "storeTask: reorgFeed.Send", p.Pos(r.Site.Pos()), "sent after a successful Store under currReorg != nil, then reset", "reorg notification is not (only) sent for a pending reorg after the first successful store, or is not reset afterwards: "+miss)
			}
			if len(reorgs) != 1 {
				c.viol("notify", "storeTask: reorgFeed.Send count", p.Pos(fnPos(st)), fmt.Sprintf("expected exactly one reorgFeed.Send, found %d", len(reorgs)))
			}
		}
		// only producers
		for _, fn := range p.sortedFuncs() {
			if pkgRelOf(fn) != "sync" {
				continue
			}
			for _, s := range sitesOf(fn) {
				if strings.HasSuffix(s.CalleeName(), ".Send") && len(s.Args()) > 0 {
					rt := term(s.Args()[0])
					for _, feed := range []string{"newHeads", "reorgFeed"} {
						if strings.HasSuffix(rt, "s."+feed) {
							c.check(p.calledOnlyFrom(fn, "storeTask", 0) && fn.Parent() == nil, "notify", feed+".Send ← "+qname(fn), p.Pos(s.Pos()), "only storeTask produces on this feed", feed+" has a second producer: notifications could be emitted out of storage order")
						}
					}
				}
			}
		}
		c.floor("notify", 6)

		// revert-compare
		if rt := syncFn("revertTask"); rt != nil {
			// every call of revertHead made by revertTask, directly or through a same-package helper
			rhs := p.deepSites(rt, nameMatcher("revertHead"), 2)
			if len(rhs) == 0 {
				c.viol("revert-compare", "revertTask", p.Pos(fnPos(rt)), "revertTask does not call revertHead")
			} else {
				ok, miss, pos := true, "", p.Pos(rhs[0].Site.Pos())
				for _, ds := range rhs {
					o, m := everyDisjunctHas(p.mustHoldDeep(ds), []string{"^!", "Number <= lastPossiblyValidHeight"}, []string{"^!", "Hash == ", "Hash)"})
					if !o {
						ok, miss, pos = false, m, p.Pos(ds.Site.Pos())
					}
				}
				c.check(ok, "revert-compare", "revertTask → revertHead", pos, "a block at or below the last possibly valid height is reverted only if its hash differs from the source's", "a local block at or below lastPossiblyValidHeight can be reverted without having been compared with the source: "+miss)
			}
		} else {
			c.und("revert-compare", "revertTask", "", "anchor not found")
		}
		// reorg-range
		if rh := syncFn("revertHead"); rh != nil {
			n := 0
			allInstrs(rh, func(in ssa.Instruction) {
				stv, ok := in.(*ssa.Store)
				if !ok || !strings.HasSuffix(term(stv.Addr), "s.currReorg") {
					return
				}
				n++
				d := p.mustHoldAt(in)
				ok1, miss := everyDisjunctHas(d, []string{"s.currReorg == nil"})
				c.check(ok1, "reorg-range", "revertHead: new range only when none is pending", p.Pos(posOf(in, rh)), "currReorg replaced only under currReorg == nil", "a pending reorg range can be overwritten (blocks reverted earlier would never be reported): "+miss)
			})
			// extension updates the start fields
			ext := 0
			allInstrs(rh, func(in ssa.Instruction) {
				if stv, ok := in.(*ssa.Store); ok {
					t := term(stv.Addr)
					if strings.HasSuffix(t, "s.currReorg.StartBlockNum") || strings.HasSuffix(t, "s.currReorg.StartBlockHash") {
						ext++
					}
				}
			})
			c.check(n == 1 && ext == 2, "reorg-range", "revertHead: range is extended downwards", p.Pos(fnPos(rh)), "start hash/number follow the reverted head", fmt.Sprintf("reorg range bookkeeping changed (new-range stores %d, start-field stores %d)", n, ext))
		} else {
			c.und("reorg-range", "revertHead", "", "anchor not found")
		}
		// succession
		c02SuccessionFirst(c, "succession")
		c06RevertOnStoreStream(c)
		c06ReorgSignalIdentity(c)
		c06FeedUniqueIDs(c)
	})
}

func everyPathPassesFromBlock(from, must *ssa.BasicBlock) bool {
	seen := map[*ssa.BasicBlock]bool{}
	q := []*ssa.BasicBlock{from}
	for len(q) > 0 {
		b := q[0]
		q = q[1:]
		if seen[b] || b == must {
			continue
		}
		seen[b] = true
		if exitKind(b) == "return" {
			return false
		}
		q = append(q, b.Succs...)
	}
	return true
}

// closureBinding: the value bound in mk for the free variable that `use` (a value inside closure fn) loads.
func closureBinding(mk *ssa.MakeClosure, fn *ssa.Function, use ssa.Value) ssa.Value {
	// use is typically `*fv` (load of a captured variable's address) or fv itself
	var fv *ssa.FreeVar
	switch x := use.(type) {
	case *ssa.FreeVar:
		fv = x
	case *ssa.UnOp:
		fv, _ = x.X.(*ssa.FreeVar)
	}
	if fv == nil {
		return nil
	}
	for i, f := range fn.FreeVars {
		if f == fv && i < len(mk.Bindings) {
			b := mk.Bindings[i]
			// captured by reference: binding is an Alloc holding the parameter / value
			if a, ok := b.(*ssa.Alloc); ok {
				if st := singleStore(a); st != nil {
					return st.Val
				}
				// parameters spilled to allocs have one store at entry plus loads
				if refs := a.Referrers(); refs != nil {
					var val ssa.Value
					cnt := 0
					for _, r := range *refs {
						if s, ok := r.(*ssa.Store); ok && s.Addr == ssa.Value(a) {
							val = s.Val
							cnt++
						}
					}
					if cnt == 1 {
						return val
					}
				}
			}
			return b
		}
	}
	return nil
}

// c02SuccessionFirst: in the Store closure of both backends verifyBlockSuccession dominates every write and state mutation.
func c02SuccessionFirst(c *Ctx, rule string) {
	p := c.P
	ci := p.caps()
	n := 0
	for _, r := range p.helperClosures(ci, "blockchain/statebackend") {
		if r.Closure == nil || p.InFixture(r.Site.Pos()) || r.Outer.Name() != "Store" {
			continue
		}
		n++
		construct := qname(r.Outer)
		v := findSite(r.Closure, "verifyBlockSuccession")
		if v == nil {
			c.viol(rule, construct, p.Pos(r.Site.Pos()), "the Store closure does not check block succession (parent hash / number against the head)")
			continue
		}
		bad := ""
		for _, s := range sitesOf(r.Closure) {
			if s.Instr == v.Instr {
				continue
			}
			nm := s.CalleeName()
			if strings.HasPrefix(nm, "builtin:") {
				continue
			}
			if !dominatesInstr(v.Instr, s.Instr) {
				bad = nm
			}
		}
		d := dnf{}
		for _, s := range sitesOf(r.Closure) {
			if strings.Contains(s.CalleeName(), "Update") || strings.Contains(s.CalleeName(), "writeBlockContent") {
				d = dnfOr(d, p.mustHoldAt(s.Instr))
			}
		}
		ok, miss := everyDisjunctHas(d, []string{"^!", "verifyBlockSuccession(", "!= nil"})
		c.check(bad == "" && ok && len(d) > 0, rule, construct, p.Pos(v.Pos()), "succession is checked first and its error returned before any state mutation or write",
			"block succession is not verified before "+bad+" / its error is not returned first: "+miss)
	}
	if n < 2 {
		c.und(rule, "statebackend Store closures", "", fmt.Sprintf("only %d Store closures found", n))
	}
	// what the succession check establishes: success ⇒ number == head+1 (0 on an empty chain) ∧ parent hash == head hash
	if f := p.Func("blockchain/statebackend", "", "verifyBlockSuccession"); f != nil {
		k := 0
		for _, ret := range returnsOf(f) {
			if !isNilConst(ret.Results[0]) {
				continue
			}
			k++
			d := p.mustHoldAt(ret.Ret)
			// expected number = φ(<number read from the head through reader> + 1 | 0); any spelling of the comparison
			okNum, m1 := everyDisjunctHas(d, []string{"φ((", "(reader)", " + 1) | 0) == block.Header.Number)"})
			if !okNum {
				// the expected number may be computed by a same-package helper (`expectedSuccessor(reader)`): decide on the set
				// of values the compared operand can take — exactly {0, <head number read through reader> + 1}
				okNum = c06ExpectedNumberAlts(f)
			}
			okPar, m2 := everyDisjunctHas(d, []string{"block.Header.ParentHash.Equal("}, []string{".Equal(block.Header.ParentHash)"})
			c.check(okNum && okPar, rule, "verifyBlockSuccession accepts", p.Pos(posOf(ret.Ret, f)), "only a block numbered head+1 (0 on an empty chain) whose parent hash is the head's hash",
				"a block that does not extend the head can pass the succession check (a stale or forged lower-numbered block is then judged by parent hash only — the syncer takes the mismatch for a reorg and reverts canonical blocks, or the block is stored below the head): "+m1+" "+m2)
		}
		if k == 0 {
			c.und(rule, "verifyBlockSuccession", p.Pos(fnPos(f)), "no success return found")
		}
	} else {
		c.und(rule, "verifyBlockSuccession", "", "anchor not found")
	}
}

// calledOnlyFrom: every (transitive, depth ≤ 3) caller of fn is rootName or a function that is itself only called from it.
func (p *Prog) calledOnlyFrom(fn *ssa.Function, rootName string, depth int) bool {
	if rootOf(fn).Name() == rootName {
		return true
	}
	if depth > 3 {
		return false
	}
	callers := p.callersOf(rootOf(fn))
	if len(callers) == 0 {
		return false
	}
	for _, s := range callers {
		if !p.calledOnlyFrom(s.Instr.Parent(), rootName, depth+1) {
			return false
		}
	}
	return true
}

// calledOnlyFromAny: every call chain into fn (at most 3 levels up) starts in one of the named functions.
func (p *Prog) calledOnlyFromAny(fn *ssa.Function, roots map[string]bool, depth int) bool {
	if roots[rootOf(fn).Name()] {
		return true
	}
	if depth > 3 {
		return false
	}
	callers := p.callersOf(rootOf(fn))
	if len(callers) == 0 {
		return false
	}
	for _, s := range callers {
		if !p.calledOnlyFromAny(s.Instr.Parent(), roots, depth+1) {
			return false
		}
	}
	return true
}

// c06RevertOnStoreStream: reverts are serialised with stores. revertTask is entered only from storeTask (which runs as a
// callback of the verifier stream) or from a callback handed to that stream with Go — never directly from the fetcher's
// callback, where it would run concurrently with the tail of the store of the same block (reorg{N} before newHead(N), and
// unsynchronised access to the reorg bookkeeping).
func c06RevertOnStoreStream(c *Ctx) {
	p := c.P
	rt := p.Func("sync", "Synchronizer", "revertTask")
	if rt == nil {
		c.und("revert-on-store-stream", "Synchronizer.revertTask", "", "anchor not found")
		return
	}
	var passed func(g *ssa.Function, depth int) bool
	passed = func(g *ssa.Function, depth int) bool {
		par := g.Parent()
		if par == nil || depth > 4 {
			return false
		}
		ok := false
		allInstrs(par, func(in ssa.Instruction) {
			mc, isMc := in.(*ssa.MakeClosure)
			if !isMc || mc.Fn != ssa.Value(g) {
				return
			}
			var follow func(v ssa.Value, d int)
			follow = func(v ssa.Value, d int) {
				if d > 3 || v.Referrers() == nil {
					return
				}
				for _, r := range *v.Referrers() {
					switch x := r.(type) {
					case ssa.CallInstruction:
						if f := x.Common().StaticCallee(); f != nil && strings.HasSuffix(qname(f), "stream.Stream).Go") {
							ok = true
						}
					case *ssa.Return:
						if passed(par, depth+1) {
							ok = true
						}
					case *ssa.MakeInterface:
						follow(x, d+1)
					case *ssa.ChangeType:
						follow(x, d+1)
					}
				}
			}
			follow(mc, 0)
		})
		return ok
	}
	n := 0
	for _, s := range p.callersOf(rt) {
		fn := s.Instr.Parent()
		n++
		ok := rootOf(fn).Name() == "storeTask" || passed(fn, 0) || p.calledOnlyFrom(fn, "storeTask", 0)
		c.check(ok, "revert-on-store-stream", "revertTask ← "+qname(fn), p.Pos(s.Pos()), "called from storeTask or from a callback handed to the verifier stream", "revertTask is called directly from "+qname(fn)+", outside the stream that serialises stores: the revert can overtake the store of the same block (reorg notification before the new-head notification of a block that is already reverted; unsynchronised reorg bookkeeping)")
	}
	if n < 2 {
		c.und("revert-on-store-stream", "revertTask callers", "", fmt.Sprintf("only %d callers found", n))
	}
}

// c06ExpectedNumberAlts: in verifyBlockSuccession the operand compared with block.Number takes exactly the values
// {0, X + 1} where X is read from the head through the reader — also when it is produced by a same-package helper.
func c06ExpectedNumberAlts(f *ssa.Function) bool {
	var alts func(v ssa.Value, inCallee bool, depth int) []string
	alts = func(v ssa.Value, inCallee bool, depth int) []string {
		if depth > 6 {
			return []string{"?"}
		}
		switch x := v.(type) {
		case *ssa.Phi:
			var out []string
			for _, e := range x.Edges {
				out = append(out, alts(e, inCallee, depth+1)...)
			}
			return out
		case *ssa.Extract:
			call, ok := x.Tuple.(*ssa.Call)
			if !ok {
				break
			}
			g := call.Call.StaticCallee()
			if g == nil || len(g.Blocks) == 0 || pkgRelOf(g) != pkgRelOf(f) {
				break
			}
			var out []string
			for _, r := range returnsOf(g) {
				if x.Index >= len(r.Results) {
					return []string{"?"}
				}
				last := r.Results[len(r.Results)-1]
				if last.Type().String() == "error" && !isNilConst(last) {
					continue // error return: the caller does not use the value
				}
				for _, a := range alts(r.Results[x.Index], true, depth+1) {
					for i := len(call.Call.Args) - 1; i >= 0; i-- {
						a = strings.ReplaceAll(a, fmt.Sprintf("$%d", i), term(call.Call.Args[i]))
					}
					out = append(out, a)
				}
			}
			return out
		}
		if inCallee {
			return []string{termP(v)}
		}
		return []string{term(v)}
	}
	ok := false
	allInstrs(f, func(in ssa.Instruction) {
		b, isB := in.(*ssa.BinOp)
		if !isB || (b.Op != token.EQL && b.Op != token.NEQ) {
			return
		}
		var other ssa.Value
		switch {
		case strings.HasSuffix(term(b.X), "block.Header.Number") || strings.HasSuffix(term(b.X), "block.Number"):
			other = b.Y
		case strings.HasSuffix(term(b.Y), "block.Header.Number") || strings.HasSuffix(term(b.Y), "block.Number"):
			other = b.X
		default:
			return
		}
		zero, succ, rest := 0, 0, 0
		for _, a := range uniq(alts(other, false, 0)) {
			switch {
			case a == "0":
				zero++
			case strings.HasPrefix(a, "(") && strings.HasSuffix(a, " + 1)") && strings.Contains(a, "reader"):
				succ++
			default:
				rest++
			}
		}
		if zero == 1 && succ == 1 && rest == 0 {
			ok = true
		}
	})
	return ok
}

// c06ReorgSignalIdentity: the syncer starts a revert when Blockchain.Store fails with ErrParentDoesNotMatchHead
// (errors.Is in storeTask). Every function between the place the sentinel is produced and that test must hand the error on
// with its identity: returned as is, or wrapped with %w. A wrap with %v/%s (seeded change C06-J: "say which block") turns a
// parent mismatch into an ordinary store failure — the orphaned head is never reverted and the node never converges.
func c06ReorgSignalIdentity(c *Ctx) {
	p := c.P
	store := p.Func("blockchain", "Blockchain", "Store")
	if store == nil {
		c.und("reorg-signal-identity", "Blockchain.Store", "", "anchor not found")
		return
	}
	reach := p.Reachable([]*ssa.Function{store}, func(caller, callee *ssa.Function) bool {
		pr := pkgRelOf(callee)
		return pr != "blockchain" && pr != "blockchain/statebackend" && pr != "db" && !strings.HasPrefix(pr, "db/")
	})
	n := 0
	for _, fn := range reach.Funcs() {
		if pr := pkgRelOf(fn); pr != "blockchain" && pr != "blockchain/statebackend" {
			continue // the database helpers are only traversed to reach the closures they run
		}
		for _, g := range withAnons(fn) {
			for _, s := range sitesOf(g) {
				if s.CalleeName() != "fmt.Errorf" || len(s.Args()) < 2 {
					continue
				}
				k, ok := s.Args()[0].(*ssa.Const)
				if !ok || k.Value == nil {
					continue
				}
				format := constant.StringVal(k.Value)
				// error-typed operands handed to Errorf (the variadic slice literal)
				errArgs := 0
				if sl, isSl := s.Args()[1].(*ssa.Slice); isSl {
					if a, isA := sl.X.(*ssa.Alloc); isA {
						for _, e := range arrayLiteral(a) {
							v := e
							switch x := v.(type) {
							case *ssa.MakeInterface:
								v = x.X
							case *ssa.ChangeInterface:
								v = x.X
							}
							if v != nil && v.Type().String() == "error" {
								errArgs++
							}
						}
					}
				}
				if errArgs == 0 {
					continue
				}
				n++
				c.check(strings.Count(format, "%w") >= errArgs, "reorg-signal-identity", qname(g)+": fmt.Errorf("+strconv.Quote(format)+")", p.Pos(s.Pos()), "errors are wrapped with %w", "an error on the path of Blockchain.Store is re-created with "+strconv.Quote(format)+" (no %w for it): errors.Is(err, ErrParentDoesNotMatchHead) in the syncer no longer recognises a parent mismatch and no revert is started")
			}
		}
	}
	// the plain pass-through of Blockchain.Store itself
	okPass := false
	for _, ret := range returnsOf(store) {
		last := ret.Results[len(ret.Results)-1]
		if call, isCall := last.(*ssa.Call); isCall && (call.Call.IsInvoke() && call.Call.Method.Name() == "Store") {
			okPass = true
		}
		if ex, isEx := last.(*ssa.Extract); isEx {
			if call, isCall := ex.Tuple.(*ssa.Call); isCall && call.Call.IsInvoke() && call.Call.Method.Name() == "Store" {
				okPass = true
			}
		}
	}
	if okPass {
		c.ok("reorg-signal-identity", "Blockchain.Store", p.Pos(fnPos(store)), "returns the backend's error as is")
	} else if n == 0 {
		c.und("reorg-signal-identity", "Blockchain.Store", p.Pos(fnPos(store)), "neither a pass-through of the backend's error nor a %w wrap was recognised")
	}
}

// c06FeedUniqueIDs: a subscription's key in the feed's subscriber map comes from a counter of the feed that is advanced on
// every subscribe — never from something that can repeat (the number of live subscribers: seeded change C06-I). A repeated
// key overwrites a live subscriber's entry: its channel stays open but Send never reaches it again, so a new-heads / reorg
// subscriber silently misses stored blocks.
func c06FeedUniqueIDs(c *Ctx) {
	p := c.P
	var f *ssa.Function
	for _, fn := range p.FuncsNamed("feed", "Feed", "subscribe") {
		if fn.Origin() == nil {
			f = fn
		}
	}
	if f == nil {
		c.und("feed-unique-ids", "feed.Feed.subscribe", "", "anchor not found")
		return
	}
	var idVal ssa.Value
	allInstrsOne(f, func(in ssa.Instruction) {
		if st, ok := in.(*ssa.Store); ok {
			if fa, ok := st.Addr.(*ssa.FieldAddr); ok && fieldName(fa.X.Type(), fa.Field) == "id" {
				idVal = st.Val
			}
		}
	})
	if idVal == nil {
		c.und("feed-unique-ids", "feed.Feed.subscribe", p.Pos(fnPos(f)), "the subscription id assignment was not found")
		return
	}
	ok, why := false, "the id is "+term(idVal)
	if ld, isLd := idVal.(*ssa.UnOp); isLd && ld.Op == token.MUL {
		if fa, isFA := ld.X.(*ssa.FieldAddr); isFA && len(f.Params) > 0 && fa.X == ssa.Value(f.Params[0]) {
			ctr := fieldName(fa.X.Type(), fa.Field)
			allInstrsOne(f, func(in ssa.Instruction) {
				st, isSt := in.(*ssa.Store)
				if !isSt {
					return
				}
				fa2, isFA2 := st.Addr.(*ssa.FieldAddr)
				if !isFA2 || fa2.X != fa.X || fa2.Field != fa.Field {
					return
				}
				if b, isB := st.Val.(*ssa.BinOp); isB && b.Op == token.ADD {
					if k, isK := b.Y.(*ssa.Const); isK && k.Value != nil && k.Int64() >= 1 {
						ok = true
					}
				}
			})
			if !ok {
				why = "the counter " + ctr + " is not advanced in subscribe"
			}
		}
	}
	c.check(ok, "feed-unique-ids", "feed.Feed.subscribe", p.Pos(fnPos(f)), "the id is read from a counter of the feed that subscribe advances", why+": ids can repeat while an older subscription with the same id is still live, and its entry in the subscriber map is overwritten")
}

// c06SourcePassthrough: (source-passthrough) what the feeder data source reports as the source's latest header / block is what
// the gateway answered to *this* request: every header or block returned on a success path of its methods is computed from
// the result of a gateway call made in the same invocation. Seeded change C06-K remembers the highest head ever seen and
// returns it when the gateway answers with a lower one ("lagging replica"): after a reorg to a shorter fork the reorg
// detector keeps comparing against the orphaned head and the node never converges to the source's chain.
func c06SourcePassthrough(c *Ctx) {
	p := c.P
	n := 0
	for _, name := range []string{"BlockHeaderLatest", "BlockByNumber"} {
		f := p.Func("sync", "feederGatewayDataSource", name)
		if f == nil {
			c.und("source-passthrough", "feederGatewayDataSource."+name, "", "anchor not found")
			continue
		}
		// gateway calls: invokes on the receiver's StarknetData collaborator
		gw := map[ssa.Value]bool{}
		for _, g := range withAnons(f) {
			for _, s := range sitesOf(g) {
				if s.Method != nil && s.Recv != nil && strings.Contains(s.Recv.Type().String(), "starknetdata.StarknetData") {
					if v, ok := s.Instr.(ssa.Value); ok {
						gw[v] = true
					}
				}
			}
		}
		if len(gw) == 0 {
			c.und("source-passthrough", "feederGatewayDataSource."+name, p.Pos(fnPos(f)), "no call of the gateway found")
			continue
		}
		for _, r := range returnsOf(f) {
			if len(r.Results) < 2 || !isNilConst(r.Results[len(r.Results)-1]) {
				continue
			}
			n++
			sl := backSlice(r.Results[0])
			ok := false
			for v := range sl {
				if gw[v] {
					ok = true
				}
			}
			// and it does not come from the object's own memory: no load/call on a field of the receiver other than the collaborators
			mem := ""
			for v := range sl {
				if fa, isFA := v.(*ssa.FieldAddr); isFA && len(f.Params) > 0 && fa.X == ssa.Value(f.Params[0]) {
					fn := fieldName(fa.X.Type(), fa.Field)
					ft := fa.Type().String()
					if !strings.Contains(ft, "starknetdata.StarknetData") && !strings.Contains(ft, "blockchain.Blockchain") {
						mem = fn
					}
				}
			}
			c.check(ok && mem == "", "source-passthrough", "feederGatewayDataSource."+name+" success return", p.Pos(posOf(r.Ret, f)), "the value returned was computed from the gateway's answer to this request",
				"the data source returns a value that does not come from the gateway's answer to this request"+map[bool]string{true: " (it reads its own field " + mem + ")", false: ""}[mem != ""]+": a remembered head outlives a reorg of the source to a shorter fork — the reorg check compares against a block the source no longer has")
		}
	}
	if n == 0 {
		c.und("source-passthrough", "feederGatewayDataSource", "", "no success return found")
	}
}

// c06FetchedAfterRevert: (pipeline-only) a block enters verification (and from there the store task) only through the fetch
// pipeline: verifierTask is called only from the literal that fetcherTask hands to the verifier stream. What the data source
// downloads for a block depends on the head at fetch time (class definitions the head already has are left out); a block kept
// from before a revert and pushed through verifierTask afterwards was fetched against a head that no longer exists. Seeded
// change C04-K re-uses the block fetched for the fork-point check: a Cairo-0 class declared on both forks is missing after the
// reorg although head and state root match a node that synced the new fork only.
func c06FetchedAfterRevert(c *Ctx) {
	p := c.P
	vt := p.Func("sync", "Synchronizer", "verifierTask")
	ft := p.Func("sync", "Synchronizer", "fetcherTask")
	if vt == nil || ft == nil {
		c.und("pipeline-only", "Synchronizer.verifierTask", "", "anchor not found")
		return
	}
	n := 0
	for _, s := range p.callersOf(vt) {
		if strings.HasSuffix(p.Pos(s.Pos()), "_test.go") {
			continue
		}
		n++
		caller := rootOf(s.Fn)
		c.check(caller == ft || p.calledOnlyFromAny(caller, map[string]bool{"fetcherTask": true}, 0), "pipeline-only", "verifierTask ← "+qname(caller), p.Pos(s.Pos()), "blocks are verified only as they come out of the fetch pipeline",
			"verifierTask is called from "+qname(caller)+" with a block that did not come out of the fetch pipeline at this point: what was downloaded for it (which class definitions) was decided against an earlier head")
	}
	if n == 0 {
		c.und("pipeline-only", "verifierTask callers", "", "no caller found")
	}
}
