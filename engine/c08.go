package main

import (
	"fmt"
	"go/types"
	"sort"
	"strings"

	"golang.org/x/tools/go/ssa"
)

var blockIDPreds = []string{"IsPreConfirmed", "IsPending", "IsLatest", "IsHash", "IsNumber", "IsL1Accepted"}

func predOf(s Site) string {
	if s.Callee == nil || s.Callee.Signature.Recv() == nil {
		return ""
	}
	if rn := recvName(s.Callee.Signature.Recv().Type()); rn != "BlockID" && rn != "SubscriptionBlockID" {
		return ""
	}
	for _, pn := range blockIDPreds {
		if s.Callee.Name() == pn {
			return pn
		}
	}
	return ""
}

var blockIDConstOf = map[string]string{"IsPreConfirmed": "preConfirmed", "IsPending": "pending", "IsLatest": "latest", "IsHash": "hash", "IsNumber": "number", "IsL1Accepted": "l1Accepted"}

// kindAlt / kindNegAlt: the two spellings in which a resolver establishes (excludes) an identifier kind — the predicate
// method `id.IsX()` and the comparison `id.Type() == x` of a `switch id.Type()`.
func kindAlt(pn string) [][]string {
	return [][]string{{"." + pn + "()"}, {".Type() == ", "." + blockIDConstOf[pn] + ")"}}
}

func kindNegAlt(pn string) [][]string {
	return [][]string{{"^!", "." + pn + "()"}, {"^!", ".Type() == ", "." + blockIDConstOf[pn] + ")"}}
}

// typeSwitchKinds: the identifier kinds a function distinguishes by comparing `id.Type()` with the kind constants.
func typeSwitchKinds(g *ssa.Function) map[string]bool {
	out := map[string]bool{}
	allInstrs(g, func(in ssa.Instruction) {
		bo, ok := in.(*ssa.BinOp)
		if !ok {
			return
		}
		for _, pair := range [][2]ssa.Value{{bo.X, bo.Y}, {bo.Y, bo.X}} {
			k, isConst := pair[1].(*ssa.Const)
			call, isCall := pair[0].(*ssa.Call)
			if !isConst || !isCall {
				continue
			}
			cal := call.Call.StaticCallee()
			if cal == nil || cal.Name() != "Type" || cal.Signature.Recv() == nil {
				continue
			}
			if rn := recvName(cal.Signature.Recv().Type()); rn != "BlockID" && rn != "SubscriptionBlockID" {
				continue
			}
			cn := constName(k)
			for pn, c := range blockIDConstOf {
				if cn == c || strings.HasSuffix(cn, "."+c) {
					out[pn] = true
				}
			}
		}
	})
	return out
}

func readerFamily(m string) string {
	switch {
	case m == "Head" || m == "HeadsHeader" || m == "HeadState":
		return "latest"
	case strings.HasSuffix(m, "ByHash") || m == "StateAtBlockHash":
		return "hash"
	case (strings.HasSuffix(m, "ByNumber") || m == "StateAtBlockNumber") && !strings.Contains(m, "L1HandlerTxnHash"):
		return "number"
	}
	return ""
}

func init() {
	register("C08", func(c *Ctx) {
		p := c.P
		c.Explain = "The question asked of the chain is the right one for every block-identifier kind, in all three served RPC versions, decided on SSA with must-hold DNF: (resolver-siblings) in every function that dispatches on BlockID predicates, head accessors are reached only under IsLatest, by-hash accessors only under IsHash, by-number accessors only under IsNumber / IsL1Accepted (with the number from l1AcceptedBlockNumber) / the default arm after all other kinds were excluded; (blockid-exhaustive) each resolver distinguishes every kind its version has; " +
			"(not-found) resolvers classify db.ErrKeyNotFound / ErrPreConfirmedNotFound before wrapping an error as internal; (finality) isL1Verified is l1 ≠ {} ∧ l1.BlockNumber ≥ n and l1_accepted resolves to min(L1 head, height) in every version; (tx-exhaustive) type switches over core.Transaction / core.ClassDefinition in rpc and adapters cover every implementation; (tables) method tables of the three versions agree on parameter names unless listed; (cache-coherence) every cache-typed field of the chain object and its state backends is invalidated by RevertHead. " +
			"Not decided: JSON shaping, values returned, behaviour after reverts (data), version agreement of payloads."
		nres := 0
		for _, ver := range []string{"rpc/v8", "rpc/v9", "rpc/v10"} {
			kinds := map[string]bool{}
			for _, fn := range p.sortedFuncs() {
				if pkgRelOf(fn) != ver || fn.Origin() != nil || fn.Parent() != nil {
					continue
				}
				preds := map[string]bool{}
				for _, g := range withAnons(fn) {
					for _, s := range sitesOf(g) {
						if pn := predOf(s); pn != "" {
							preds[pn] = true
							kinds[pn] = true
						}
					}
					for pn := range typeSwitchKinds(g) {
						preds[pn] = true
						kinds[pn] = true
					}
				}
				if len(preds) < 2 {
					continue
				}
				nres++
				c.saw(qname(fn))
				for _, g := range withAnons(fn) {
					for _, s := range sitesOf(g) {
						if s.Method == nil {
							continue
						}
						rt := typeShort(s.Recv.Type())
						if !strings.HasSuffix(rt, "blockchain.Reader") {
							continue
						}
						fam := readerFamily(s.Method.Name())
						if fam == "" {
							continue
						}
						d := p.mustHoldAt(s.Instr)
						construct := fmt.Sprintf("%s → Reader.%s", qname(fn), s.Method.Name())
						var ok bool
						var miss string
						switch fam {
						case "latest":
							alts := append(kindAlt("IsLatest"), []string{" == nil)"})
							if ver == "rpc/v8" {
								// v8's `pending` is emulated as an empty block on top of the head (Handler.Pending →
								// MakeEmptyPendingForParent): its state and parent data are the head's
								alts = append(alts, kindAlt("IsPending")...)
							}
							ok, miss = everyDisjunctHas(d, alts...)
						case "hash":
							ok, miss = everyDisjunctHas(d, kindAlt("IsHash")...)
						case "number":
							at := termF(s.Args()[len(s.Args())-1])
							switch {
							case strings.Contains(at, "Height()"):
								ok, miss = everyDisjunctHas(d, kindAlt("IsLatest")...)
							case strings.Contains(at, "BlockNumberByHash("):
								ok, miss = everyDisjunctHas(d, kindAlt("IsHash")...)
							case strings.Contains(at, "l1AcceptedBlockNumber()") || strings.Contains(at, "L1Head()"):
								ok, miss = everyDisjunctHas(d, kindAlt("IsL1Accepted")...)
							default:
								ok, miss = everyDisjunctHas(d, kindAlt("IsNumber")...)
								if !ok {
									miss += " (number " + at + ")"
								}
							}
							if !ok && strings.Contains(at, ".Number()") {
								// default arm: every other predicate used by this resolver is negated on the path
								ok = true
								for pn := range preds {
									if pn == "IsNumber" {
										continue
									}
									if o, _ := everyDisjunctHas(d, kindNegAlt(pn)...); !o {
										ok = false
									}
								}
							}
						}
						c.check(ok, "resolver-siblings", construct, p.Pos(s.Pos()), "reader method matches the identifier kind on every path", "chain accessor of the '"+fam+"' family is reached on a path that did not establish that identifier kind: "+miss)
					}
				}
			}
			// exhaustiveness per version: resolvers with ≥4 predicates must cover all kinds of the version
			var all []string
			for k := range kinds {
				all = append(all, k)
			}
			sort.Strings(all)
			for _, fn := range p.sortedFuncs() {
				if pkgRelOf(fn) != ver || fn.Parent() != nil {
					continue
				}
				preds := map[string]bool{}
				usesNumber := false
				for _, g := range withAnons(fn) {
					for _, s := range sitesOf(g) {
						if pn := predOf(s); pn != "" {
							preds[pn] = true
						}
						if s.Callee != nil && s.Callee.Name() == "Number" && s.Callee.Signature.Recv() != nil && recvName(s.Callee.Signature.Recv().Type()) == "BlockID" {
							usesNumber = true
						}
					}
					for pn := range typeSwitchKinds(g) {
						preds[pn] = true
					}
				}
				if len(preds) < 3 {
					continue
				}
				var missing []string
				for _, k := range all {
					if !preds[k] && !(k == "IsNumber" && usesNumber) {
						missing = append(missing, k)
					}
				}
				c.check(len(missing) == 0, "blockid-exhaustive", qname(fn), p.Pos(fnPos(fn)), "every identifier kind of this API version is distinguished", "resolver does not distinguish "+strings.Join(missing, ", ")+": such identifiers fall into another kind's arm")
			}
		}
		if nres < 12 {
			c.und("resolver-siblings", "rpc resolvers", "", fmt.Sprintf("only %d resolver functions found", nres))
		}
		c.floor("resolver-siblings", 28)
		c.needFixture("resolver-siblings")

		// not-found: in the three canonical resolvers of each version the internal-error wrap is on the !ErrKeyNotFound path
		for _, ver := range []string{"rpc/v8", "rpc/v9", "rpc/v10"} {
			for _, name := range []string{"blockByID", "blockHeaderByID", "stateByBlockID"} {
				f := p.Func(ver, "Handler", name)
				if f == nil {
					c.und("not-found", ver+"."+name, "", "resolver not found")
					continue
				}
				k := 0
				wraps := p.deepSites(f, func(s Site) bool {
					if !strings.HasSuffix(s.CalleeName(), "Error).CloneWithData") || !strings.Contains(term(s.Args()[0]), "ErrInternal") {
						return false
					}
					return stripIface(s.Args()[len(s.Args())-1]).Type().String() == "error"
				}, 2)
				for _, ds := range wraps {
					k++
					ok, miss := everyDisjunctHas(p.mustHoldDeep(ds), []string{"^!", "errors.Is(", "ErrKeyNotFound"})
					c.check(ok, "not-found", ver+"."+name+": internal error only after not-found was excluded", p.Pos(ds.Site.Pos()), "db.ErrKeyNotFound is classified first", "an error from the chain is wrapped as internal without first classifying db.ErrKeyNotFound (unknown blocks would be reported as internal errors): "+miss)
				}
				if k == 0 {
					c.und("not-found", ver+"."+name, p.Pos(fnPos(f)), "internal-error wrap not found")
				}
				// the not-found arm returns ErrBlockNotFound (in the resolver or in the helper it delegates the classification to)
				okn := false
				var scan func(g *ssa.Function, d int)
				scan = func(g *ssa.Function, d int) {
					for _, ret := range returnsOf(g) {
						if len(ret.Results) > 0 && strings.HasSuffix(term(ret.Results[len(ret.Results)-1]), "ErrBlockNotFound") {
							okn = true
						}
					}
					if d < 2 {
						for _, s := range sitesOf(g) {
							if s.Callee != nil && s.Callee.Pkg == f.Pkg && s.Callee != g && len(s.Callee.Blocks) > 0 {
								scan(s.Callee, d+1)
							}
						}
					}
				}
				scan(f, 0)
				c.check(okn, "not-found", ver+"."+name+": BLOCK_NOT_FOUND", p.Pos(fnPos(f)), "unknown block → ErrBlockNotFound", "the resolver no longer returns ErrBlockNotFound")
			}
		}
		// finality
		for _, ver := range []string{"rpc/v8", "rpc/v9", "rpc/v10"} {
			// anchored by role, not by name: the package-level predicate (block number, L1 head) → bool
			var fin *ssa.Function
			for _, g := range p.sortedFuncs() {
				if pkgRelOf(g) != ver || g.Parent() != nil || g.Origin() != nil || g.Signature.Recv() != nil || len(g.Params) != 2 || g.Signature.Results().Len() != 1 || g.Signature.Results().At(0).Type().String() != "bool" {
					continue
				}
				t0, t1 := typeShort(g.Params[0].Type()), typeShort(g.Params[1].Type())
				if (t0 == "uint64" && strings.HasSuffix(t1, "core.L1Head")) || (t1 == "uint64" && strings.HasSuffix(t0, "core.L1Head")) {
					fin = g
				}
			}
			if f := fin; f != nil {
				var d dnf
				for _, ret := range returnsOf(f) {
					b := &bform{p: p, visited: map[ssa.Value]bool{}}
					rd := b.dnf(ret.Results[0], true, 0)
					d = dnfOr(d, dnfAnd(b.pathCond(ret.Block, nil, f, 0), rd))
				}
				// name-independent: the comparison is between the head's BlockNumber field and the other (uint64) parameter
				ok1, m1 := everyDisjunctHas(d, []string{".BlockNumber >= "}, []string{"^!", ".BlockNumber < "})
				ok2, m2 := everyDisjunctHas(d, []string{"^!", " == nil)"}, []string{" != nil)"}, []string{"^!", " == "}, []string{" != "})
				c.check(ok1 && ok2 && len(d) > 0, "finality", ver+".isL1Verified", p.Pos(fnPos(f)), "true only if an L1 head exists and its block number ≥ n", "isL1Verified changed: "+m1+m2)
			} else {
				c.und("finality", ver+".isL1Verified", "", "anchor not found")
			}
			if ver == "rpc/v8" {
				continue
			}
			if f := p.Func(ver, "Handler", "l1AcceptedBlockNumber"); f != nil {
				ok := false
				for _, ret := range returnsOf(f) {
					if isNilConst(ret.Results[1]) {
						t := termF(ret.Results[0])
						ok = strings.HasPrefix(t, "min(") && strings.Contains(t, "BlockNumber") && strings.Contains(t, "Height()")
					}
				}
				c.check(ok, "finality", ver+".l1AcceptedBlockNumber", p.Pos(fnPos(f)), "min(L1 head block number, chain height)", "l1_accepted no longer resolves to min(L1 head, local height): an L1 head ahead of the local chain would resolve to a block the node does not hold")
			} else {
				c.und("finality", ver+".l1AcceptedBlockNumber", "", "anchor not found")
			}
		}
		// tx-exhaustive
		c08TypeSwitches(c)
		txIndexEveryEntry(c, "index-every-tx")
		c08CacheCoherence(c)
		l1HandlerIndexEveryEntry(c, "index-every-tx")
		c.needFixture("index-every-tx")
		// tables: cross-version parameter agreement
		c08Tables(c)
	})
}

func c08TypeSwitches(c *Ctx) {
	p := c.P
	txTypes := []string{"DeclareTransaction", "DeployTransaction", "InvokeTransaction", "L1HandlerTransaction", "DeployAccountTransaction"}
	clsTypes := []string{"DeprecatedCairoClass", "SierraClass"}
	n := 0
	for _, fn := range p.sortedFuncs() {
		pr := pkgRelOf(fn)
		if !strings.HasPrefix(pr, "rpc/") || fn.Origin() != nil {
			continue
		}
		if _, exc := partialSwitchOK[fn.Name()]; exc {
			continue
		}
		byVal := map[ssa.Value]map[string]bool{}
		allInstrs(fn, func(in ssa.Instruction) {
			ta, ok := in.(*ssa.TypeAssert)
			if !ok || !ta.CommaOk {
				return
			}
			it := typeShort(ta.X.Type())
			if it != "core.Transaction" && it != "core.ClassDefinition" {
				return
			}
			nt := namedOf(ta.AssertedType)
			if nt == nil {
				return
			}
			if byVal[ta.X] == nil {
				byVal[ta.X] = map[string]bool{}
			}
			byVal[ta.X][nt.Obj().Name()] = true
		})
		for v, set := range byVal {
			if len(set) < 3 && typeShort(v.Type()) == "core.Transaction" {
				continue // single-type probes, not a switch
			}
			if len(set) < 2 {
				continue
			}
			n++
			want := txTypes
			if typeShort(v.Type()) == "core.ClassDefinition" {
				want = clsTypes
			}
			var missing []string
			for _, w := range want {
				if !set[w] {
					missing = append(missing, w)
				}
			}
			c.check(len(missing) == 0, "tx-exhaustive", qname(fn)+" switch on "+typeShort(v.Type()), p.Pos(fnPos(fn)), "every implementation has an arm", "type switch lacks an arm for "+strings.Join(missing, ", "))
		}
	}
	if n < 10 {
		c.und("tx-exhaustive", "rpc/adapters type switches", "", fmt.Sprintf("only %d found", n))
	}
}

// read-path type switches that are partial by design (reviewed)
var partialSwitchOK = map[string]string{
	"AdaptReceipt":                "only deploy, deploy-account and L1-handler receipts carry extra fields; other kinds use the common part",
	"AdaptBroadcastedTransaction": "write path (incoming transactions), not a read of the chain; deploy transactions cannot be broadcast",
}

// accepted cross-version parameter differences: method → reason
var tableExceptions = map[string]string{}

func c08Tables(c *Ctx) {
	p := c.P
	by := map[string]map[string][]string{} // method → table → params
	for _, m := range methodTables(p) {
		if !strings.HasPrefix(m.Table, "rpc.MethodsV0_") || m.Name == "" {
			continue
		}
		if by[m.Name] == nil {
			by[m.Name] = map[string][]string{}
		}
		ps := make([]string, len(m.Params))
		for i := range m.Params {
			ps[i] = m.Params[i]
			if m.Optional[i] {
				ps[i] += "?"
			}
		}
		by[m.Name][m.Table] = ps
	}
	var names []string
	for n := range by {
		names = append(names, n)
	}
	sort.Strings(names)
	k := 0
	for _, n := range names {
		tabs := by[n]
		if len(tabs) < 2 {
			continue
		}
		k++
		var ref []string
		same := true
		first := true
		var desc []string
		var ts []string
		for t := range tabs {
			ts = append(ts, t)
		}
		sort.Strings(ts)
		for _, t := range ts {
			desc = append(desc, t[len("rpc.Methods"):]+"("+strings.Join(tabs[t], ",")+")")
			if first {
				ref = tabs[t]
				first = false
				continue
			}
			a, b := ref, tabs[t]
			if len(a) > len(b) {
				a, b = b, a
			}
			for i := range a {
				if a[i] != b[i] {
					same = false
				}
			}
			for _, extra := range b[len(a):] {
				if !strings.HasSuffix(extra, "?") {
					same = false
				}
			}
			if len(tabs[t]) > len(ref) {
				ref = tabs[t]
			}
		}
		if why, ok := tableExceptions[n]; ok && !same {
			c.ok("tables", n, "", "accepted difference: "+why)
			continue
		}
		c.check(same, "tables", n, "", "shared parameters agree in name, order and optionality; versions differ only by optional trailing parameters", "parameter lists differ between versions: "+strings.Join(desc, " vs "))
	}
	if k < 20 {
		c.und("tables", "rpc method tables", "", fmt.Sprintf("only %d shared methods found", k))
	}
}

// txIndexEveryEntry: the tx-hash → (block, index) entry is written / deleted for every transaction of the block:
// the Put/Delete site inside the per-transaction loop is guarded by nothing except error checks and loop control.
func txIndexEveryEntry(c *Ctx, rule string) {
	p := c.P
	n := 0
	for _, fn := range p.sortedFuncs() {
		if fn.Origin() != nil || fn.Parent() != nil || strings.HasSuffix(p.Pos(fnPos(fn)), "_test.go") {
			continue
		}
		for _, g := range withAnons(fn) {
			for _, s := range sitesOf(g) {
				if s.Callee == nil || (s.Callee.Name() != "Put" && s.Callee.Name() != "Delete") || len(s.Args()) == 0 {
					continue
				}
				if !strings.Contains(term(s.Args()[0]), "TransactionBlockNumbersAndIndicesByHashBucket") {
					continue
				}
				n++
				var bad []string
				for _, cj := range p.mustHoldAt(s.Instr) {
					for _, a := range cj.list() {
						if strings.HasSuffix(a, " == nil)") || strings.HasSuffix(a, " != nil)") || strings.Contains(a, "jump$") || strings.Contains(a, "range") || strings.Contains(a, "len(") {
							continue
						}
						bad = append(bad, a)
					}
				}
				bad = uniq(bad)
				c.check(len(bad) == 0, rule, qname(fn)+" → tx-hash index "+s.Callee.Name(), p.Pos(s.Pos()), "unconditional per transaction (only error checks and loop control guard it)", "the tx-hash index entry is written/removed only for some transactions — guarded by "+strings.Join(bad, "; ")+": a transaction whose entry is skipped stays resolvable by hash after its block was reverted (or is unresolvable after it was stored)")
			}
		}
	}
	if n < 6 {
		c.und(rule, "tx-hash index writers", "", fmt.Sprintf("only %d Put/Delete sites on TransactionBlockNumbersAndIndicesByHashBucket found", n))
	}
}

// c08CacheCoherence: every cache-typed field of the chain object and its state backends is invalidated by RevertHead.
// (Answers served from a cache that survives a revert describe blocks the node no longer holds.)
func c08CacheCoherence(c *Ctx) {
	p := c.P
	isCacheType := func(t types.Type) bool {
		s := t.String()
		if _, isMap := t.Underlying().(*types.Map); isMap {
			return true
		}
		if strings.Contains(s, "Class") && !strings.Contains(s, "Block") {
			return false // content-addressed data (class definitions by class hash) cannot go stale through a reorg
		}
		return strings.Contains(s, "lru.") || strings.Contains(s, "Cache") || strings.Contains(s, "sync.Map")
	}
	// rpkg/rtyp/rfn: the method that undoes a block for this owner (default: the owner's own RevertHead)
	owners := []struct{ pkg, typ, rpkg, rtyp, rfn string }{
		{"blockchain", "Blockchain", "", "", ""}, {"blockchain/statebackend", "stateBackend", "", "", ""}, {"blockchain/statebackend", "deprecatedStateBackend", "", "", ""},
		{"core/state", "StateDB", "core/state", "State", "Revert"}, // lives across reverts: shared by every State opened on it
		{"blockchain", "zzVerifFixtureC08Chain", "", "", ""}}
	n := 0
	for _, o := range owners {
		t := p.lookupType(o.pkg, o.typ)
		if t == nil {
			if !strings.HasPrefix(o.typ, "zzVerif") {
				c.und("cache-coherence", o.pkg+"."+o.typ, "", "type not found")
			}
			continue
		}
		st, ok := t.Underlying().(*types.Struct)
		if !ok {
			continue
		}
		rv := p.Func(o.pkg, o.typ, "RevertHead")
		if o.rfn != "" {
			rv = p.Func(o.rpkg, o.rtyp, o.rfn)
		}
		for i := 0; i < st.NumFields(); i++ {
			f := st.Field(i)
			if !isCacheType(f.Type()) {
				// content-addressed caches cannot go stale through a reorg, but they can still run ahead of the database
				if ts := f.Type().String(); (strings.Contains(ts, "lru.") || strings.Contains(ts, "Cache")) && !strings.HasPrefix(o.typ, "zzVerif") {
					c08FillAfterSuccess(c, o.pkg, o.typ, f.Name())
				}
				continue
			}
			n++
			construct := o.typ + "." + f.Name()
			if rv == nil {
				c.viol("cache-coherence", construct, p.Pos(f.Pos()), "the owner of a cache has no RevertHead method that could invalidate it")
				continue
			}
			// whole invalidation on every path: some call that drops the whole cache (Reset / Purge / Clear / clear(m) / a fresh
			// value stored into the field) lies on every path from the entry of the revert to each of its returns — directly or
			// inside a same-package helper that itself does so on every path. Evicting selected keys is not accepted: whether the
			// evicted keys cover every entry the revert makes stale is a value question (seeded changes C03-G, C08-G, C09-H all
			// evict the wrong or too few keys and keep a conditional whole reset on some error path).
			ok := c08AlwaysResets(p, rv, f.Name(), 0, map[*ssa.Function]bool{})
			selective := ""
			if !ok {
				for _, g := range append(p.Reachable([]*ssa.Function{rv}, func(caller, callee *ssa.Function) bool { return pkgRelOf(callee) != pkgRelOf(rv) }).Funcs(), withAnons(rv)...) {
					for _, s2 := range sitesOf(g) {
						if c08TouchesField(s2, f.Name(), []string{"Remove", "Delete", "delete", "Reset", "Purge", "Clear", "clear"}) {
							selective = " (only a selective or conditional eviction was found at " + p.Pos(s2.Pos()) + ")"
						}
					}
				}
			}
			ft := f.Type()
			if pt, isPtr := ft.(*types.Pointer); isPtr {
				ft = pt.Elem()
			}
			if nt, isNamed := ft.(*types.Named); isNamed {
				c08ResetComplete(c, nt, construct)
			}
			if !strings.HasPrefix(o.typ, "zzVerif") {
				c08FillAfterSuccess(c, o.pkg, o.typ, f.Name())
			}
			c.check(ok, "cache-coherence", construct, p.Pos(f.Pos()), "dropped as a whole on every path of the revert", "a cache held by the chain object is not dropped as a whole on every path of the revert"+selective+": entries filled before a reorg keep answering for blocks the node no longer holds (a reverted hash keeps resolving to its old height)")
		}
	}
	if n < 1 {
		c.und("cache-coherence", "chain caches", "", "no cache-typed field found (cachedFilters renamed?)")
	}
	c.needFixture("cache-coherence")
	c08AtomicCheckThenStore(c)
	c08SharedErrorImmutable(c)
	c08PrefilledSliceComplete(c)
}

// l1HandlerIndexEveryEntry: the message-hash → tx-hash entry is written / removed for every L1 handler transaction of the
// block: inside the per-transaction loop the call is guarded by the type test (and error checks) only, never by a property
// of the handler (nonce, calldata …) — MessageHash supports nonce-less legacy handlers, and a skipped handler is stored and
// served by every transaction accessor but cannot be found by its L1 message.
func l1HandlerIndexEveryEntry(c *Ctx, rule string) {
	p := c.P
	n := 0
	for _, fn := range p.sortedFuncs() {
		if fn.Origin() != nil || fn.Parent() != nil || strings.HasSuffix(p.Pos(fnPos(fn)), "_test.go") || strings.HasPrefix(pkgRelOf(fn), "migration/deprecated") {
			continue
		}
		for _, g := range withAnons(fn) {
			for _, s := range sitesOf(g) {
				if s.Callee == nil || (s.Callee.Name() != "WriteL1HandlerTxnHashByMsgHash" && s.Callee.Name() != "DeleteL1HandlerTxnHashByMsgHash") {
					continue
				}
				if !inSameLoop(s.Block(), s.Block()) && g.Parent() == nil {
					continue // single-entry helper
				}
				n++
				var bad []string
				for _, cj := range p.mustHoldAt(s.Instr) {
					for _, a := range cj.list() {
						if strings.Contains(a, "L1HandlerTransaction)#0.") || strings.Contains(a, "L1HandlerTransaction)#0)") && strings.Contains(a, "len(") {
							bad = append(bad, a)
						}
					}
				}
				bad = uniq(bad)
				c.check(len(bad) == 0, rule, qname(fn)+" → "+s.Callee.Name(), p.Pos(s.Pos()), "guarded by the type test and error checks only", "the L1-message index entry is written/removed only for handlers with "+strings.Join(bad, "; ")+": a handler skipped here is stored and returned by every accessor but cannot be resolved by its L1 message hash")
			}
		}
	}
	if n < 2 {
		c.und(rule, "L1 handler index writers", "", fmt.Sprintf("only %d looped Write/DeleteL1HandlerTxnHashByMsgHash sites found", n))
	}
}

// c08TouchesField: the call's receiver or an argument is (a load of) the field named fld, and the callee is one of names.
func c08TouchesField(s Site, fld string, names []string) bool {
	nm := ""
	if s.Callee != nil {
		nm = s.Callee.Name()
	} else if s.Method != nil {
		nm = s.Method.Name()
	} else if b, isB := s.Instr.Common().Value.(*ssa.Builtin); isB {
		nm = b.Name()
	}
	hit := false
	for _, n := range names {
		if n == nm {
			hit = true
		}
	}
	if !hit {
		return false
	}
	for _, a := range s.Args() {
		if at := term(a); strings.HasSuffix(at, "."+fld) || strings.HasSuffix(at, "."+fld+")") || strings.HasSuffix(at, "&"+fld) {
			return true
		}
	}
	if s.Recv != nil && strings.HasSuffix(term(s.Recv), "."+fld) {
		return true
	}
	return false
}

// c08AlwaysResets: every path from fn's entry to a return passes a whole reset of the cache field fld.
func c08AlwaysResets(p *Prog, fn *ssa.Function, fld string, depth int, busy map[*ssa.Function]bool) bool {
	if fn == nil || len(fn.Blocks) == 0 || depth > 3 || busy[fn] {
		return false
	}
	busy[fn] = true
	defer delete(busy, fn)
	pass := map[*ssa.BasicBlock]bool{}
	for _, s := range sitesOf(fn) {
		if c08TouchesField(s, fld, []string{"Reset", "Purge", "Clear", "clear"}) && len(s.Args()) <= 1 {
			pass[s.Block()] = true
			continue
		}
		if s.Callee != nil && pkgRelOf(s.Callee) == pkgRelOf(fn) && s.Callee != fn {
			if c08AlwaysResets(p, s.Callee, fld, depth+1, busy) {
				pass[s.Block()] = true
			}
		}
	}
	// a fresh value stored into the field
	allInstrsOne(fn, func(in ssa.Instruction) {
		if st, ok := in.(*ssa.Store); ok {
			if fa, ok := st.Addr.(*ssa.FieldAddr); ok && fieldName(fa.X.Type(), fa.Field) == fld {
				switch v := st.Val.(type) {
				case *ssa.MakeMap:
					pass[in.Block()] = true
				case *ssa.Call:
					if cal := v.Call.StaticCallee(); cal != nil && (strings.HasPrefix(cal.Name(), "New") || strings.HasPrefix(cal.Name(), "new")) {
						pass[in.Block()] = true
					}
				}
			}
		}
	})
	if len(pass) == 0 {
		return false
	}
	seen := map[*ssa.BasicBlock]bool{}
	q := []*ssa.BasicBlock{fn.Blocks[0]}
	for len(q) > 0 {
		b := q[0]
		q = q[1:]
		if seen[b] || pass[b] {
			continue
		}
		seen[b] = true
		if exitKind(b) == "return" {
			return false
		}
		q = append(q, b.Succs...)
	}
	return true
}

// c08AtomicCheckThenStore: an in-memory mirror of recorded chain data kept in a sync/atomic holder is filled lazily only with
// CompareAndSwap: `if x.Load() == nil { v := read(); x.Store(v) }` is a check-then-act race — a writer that publishes a newer
// value between the reader's database read and its Store is overwritten with the older one, and every later answer (finality
// status, l1_accepted) derives from the stale mirror (seeded change C08-H). Decided for the chain object's packages: no
// Store on an atomic field is control-dependent on a Load of the same field in the same function.
func c08AtomicCheckThenStore(c *Ctx) {
	p := c.P
	isAtomic := func(t types.Type) bool {
		if pt, ok := t.Underlying().(*types.Pointer); ok {
			t = pt.Elem()
		}
		return strings.HasPrefix(t.String(), "sync/atomic.")
	}
	scope := map[string]bool{"blockchain": true, "blockchain/statebackend": true, "sync/preconfirmed": true, "pruner": true, "core": true, "core/state": true}
	n := 0
	for _, fn := range p.sortedFuncs() {
		if !scope[pkgRelOf(fn)] || len(fn.Blocks) == 0 || strings.HasSuffix(p.Pos(fnPos(fn)), "_test.go") {
			continue
		}
		var loads, stores []Site
		for _, s := range sitesOf(fn) {
			if s.Callee == nil || s.Callee.Signature.Recv() == nil || !isAtomic(s.Callee.Signature.Recv().Type()) || len(s.Args()) == 0 {
				continue
			}
			switch s.Callee.Name() {
			case "Load":
				loads = append(loads, s)
			case "Store":
				stores = append(stores, s)
			}
		}
		for _, st := range stores {
			n++
			fld := term(st.Args()[0])
			bad := ""
			for _, ld := range loads {
				if term(ld.Args()[0]) != fld {
					continue
				}
				call, ok := ld.Instr.(*ssa.Call)
				if !ok {
					continue
				}
				// the store is control-dependent on a branch whose condition derives from the load
				for _, fct := range factsAt(st.Instr) {
					if valueDerivesFrom(fct.Cond, call, 0) {
						bad = p.Pos(ld.Pos())
					}
				}
			}
			// mirror-after-write: in a function that also writes to the database (an error-returning core.Write*/Put/Delete call),
			// the in-memory mirror is updated only after that write succeeded (seeded change C08-N stores the new L1 head into an
			// atomic mirror before core.WriteL1Head: on a write fault every reader is served a head that was never recorded)
			for _, w := range sitesOf(fn) {
				wn := ""
				if w.Callee != nil {
					wn = w.Callee.Name()
				} else if w.Method != nil {
					wn = w.Method.Name()
				}
				isWrite := (w.Callee != nil && pkgRelOf(w.Callee) == "core" && strings.HasPrefix(wn, "Write")) || ((wn == "Put" || wn == "Delete") && w.Recv != nil && strings.Contains(w.Recv.Type().String(), "db."))
				if !isWrite {
					continue
				}
				sig := w.Instr.Common().Signature()
				if sig == nil || sig.Results().Len() == 0 || sig.Results().At(sig.Results().Len()-1).Type().String() != "error" {
					continue
				}
				wv, isVal := w.Instr.(ssa.Value)
				okm := false
				if isVal && dominatesInstr(w.Instr, st.Instr) {
					et := term(wv)
					if o, _ := everyDisjunctHas(p.mustHoldAt(st.Instr), []string{"^!", et, "!= nil"}, []string{et + " == nil"}); o {
						okm = true
					}
				}
				c.check(okm, "atomic-check-then-store", qname(fn)+": "+fld+".Store after "+wn, p.Pos(st.Pos()), "the in-memory mirror is updated after the database write succeeded", "the in-memory mirror "+fld+" is updated in a function that writes the same fact to the database ("+wn+") but not after that write has succeeded: when the write fails, readers are served a value the node never recorded (and lose it on restart)")
			}
			c.check(bad == "", "atomic-check-then-store", qname(fn)+": "+fld+".Store", p.Pos(st.Pos()), "not conditional on a Load of the same holder", "Store on "+fld+" is executed under a condition computed from "+fld+".Load() ("+bad+"): check-then-act — a concurrent writer's newer value is overwritten by the value this path read earlier; use CompareAndSwap")
		}
	}
	_ = n
	c.needFixture("atomic-check-then-store")
}

func valueDerivesFrom(v ssa.Value, src ssa.Value, d int) bool {
	if v == nil || d > 8 {
		return false
	}
	if v == src {
		return true
	}
	switch x := v.(type) {
	case *ssa.BinOp:
		return valueDerivesFrom(x.X, src, d+1) || valueDerivesFrom(x.Y, src, d+1)
	case *ssa.UnOp:
		return valueDerivesFrom(x.X, src, d+1)
	case *ssa.Phi:
		for _, e := range x.Edges {
			if valueDerivesFrom(e, src, d+1) {
				return true
			}
		}
	case *ssa.Convert:
		return valueDerivesFrom(x.X, src, d+1)
	case *ssa.ChangeType:
		return valueDerivesFrom(x.X, src, d+1)
	case *ssa.Call:
		for _, a := range x.Call.Args {
			if valueDerivesFrom(a, src, d+1) {
				return true
			}
		}
	}
	return false
}

// c08SharedErrorImmutable: the protocol error values of the RPC layer (rpccore.Err…, package-level *jsonrpc.Error) are shared
// by every handler of every API version. A handler that adapts an error for its own reply must build a new value
// (CloneWithData, a literal): a store through a *jsonrpc.Error it did not create rewrites the shared value for the whole
// process — seeded change C08-J turns every later CLASS_HASH_NOT_FOUND of v0.8/v0.9/v0.10 into CONTRACT_NOT_FOUND after one
// getClassAt on a contract whose class definition is missing.
func c08SharedErrorImmutable(c *Ctx) {
	p := c.P
	n, bad := 0, 0
	for _, fn := range p.sortedFuncs() {
		pr := pkgRelOf(fn)
		if !(strings.HasPrefix(pr, "rpc") || pr == "jsonrpc") || fn.Origin() != nil || len(fn.Blocks) == 0 || strings.HasSuffix(p.Pos(fnPos(fn)), "_test.go") {
			continue
		}
		allInstrsOne(fn, func(in ssa.Instruction) {
			st, ok := in.(*ssa.Store)
			if !ok {
				return
			}
			fa, ok := st.Addr.(*ssa.FieldAddr)
			if !ok || !isNamed(fa.X.Type(), "jsonrpc", "Error") {
				return
			}
			n++
			fresh := false
			switch x := fa.X.(type) {
			case *ssa.Alloc:
				fresh = true
			case *ssa.Call:
				if cal := x.Call.StaticCallee(); cal != nil && (strings.HasPrefix(cal.Name(), "Clone") || strings.HasPrefix(cal.Name(), "Err") || strings.HasPrefix(cal.Name(), "New") || strings.HasPrefix(cal.Name(), "new")) {
					fresh = true
				}
			case *ssa.Parameter:
				// a method of Error mutating its receiver copy (CloneWithData works on a copy): receiver only
				fresh = fn.Signature.Recv() != nil && x == fn.Params[0] && false
			}
			if !fresh {
				bad++
				c.viol("shared-error-immutable", qname(fn)+": "+term(st.Addr), p.Pos(posOf(in, fn)), "a field of a *jsonrpc.Error that this function did not create is overwritten: the protocol error values are shared package-level pointers, the change is visible to every later request of every API version")
			}
		})
	}
	if bad == 0 {
		c.ok("shared-error-immutable", "rpc, jsonrpc", "", fmt.Sprintf("%d stores to jsonrpc.Error fields, all on values created in the storing function", n))
	}
}

// c08PrefilledSliceComplete: a response list that is allocated with its final LENGTH (make([]T, n)) and filled by a running
// index must be filled on every iteration: when the store is skipped for some entries (a filter), the untouched tail keeps
// zero values and the reply contains fabricated entries ({"address":"0x0","class_hash":"0x0"} — seeded change C08-I). A
// filtered list is built with append on a zero-length slice, or re-sliced to the number of entries written.
func c08PrefilledSliceComplete(c *Ctx) {
	p := c.P
	n := 0
	for _, fn := range p.sortedFuncs() {
		pr := pkgRelOf(fn)
		if !strings.HasPrefix(pr, "rpc/") || fn.Origin() != nil || len(fn.Blocks) == 0 || strings.HasSuffix(p.Pos(fnPos(fn)), "_test.go") {
			continue
		}
		allInstrsOne(fn, func(in ssa.Instruction) {
			ms, ok := in.(*ssa.MakeSlice)
			if !ok {
				return
			}
			if k, isK := ms.Len.(*ssa.Const); isK && k.Value != nil && k.Int64() == 0 {
				return
			}
			refs := ms.Referrers()
			if refs == nil {
				return
			}
			var stores []ssa.Instruction
			resliced := false
			for _, r := range *refs {
				switch x := r.(type) {
				case *ssa.IndexAddr:
					if _, isPhi := x.Index.(*ssa.Phi); !isPhi {
						continue // range index or constant: one slot per iteration by construction
					}
					if rr := x.Referrers(); rr != nil {
						for _, u := range *rr {
							if st, isSt := u.(*ssa.Store); isSt && st.Addr == ssa.Value(x) && inSameLoop(st.Block(), st.Block()) {
								stores = append(stores, st)
							}
						}
					}
				case *ssa.Slice:
					if x.High != nil {
						resliced = true
					}
				}
			}
			if len(stores) == 0 {
				return
			}
			n++
			bad := ""
			for _, st := range stores {
				for _, fct := range factsAt(st) {
					if allowedLoopFact(fct) {
						continue
					}
					// conditions of enclosing code outside the loop do not skip iterations
					if iff := fct.Cond; iff != nil {
						if inst, isInst := iff.(ssa.Instruction); isInst {
							if !inSameLoop(inst.Block(), st.Block()) {
								continue
							}
							// a condition decided before the list was allocated (an enclosing loop's filter) selects whether
							// the list exists at all, not which of its slots are filled
							if inst.Block().Dominates(ms.Block()) {
								continue
							}
						}
					}
					bad = fct.String()
				}
			}
			c.check(bad == "" || resliced, "prefilled-slice-complete", qname(fn)+": "+term(ms), p.Pos(posOf(ms, fn)), "every iteration fills its slot (or the list is re-sliced to what was written)", "a list allocated with its final length is filled only under "+bad+" and never re-sliced: skipped entries stay zero values in the reply")
		})
	}
	if n == 0 {
		c.und("prefilled-slice-complete", "rpc", "", "no index-filled preallocated list found")
	}
}

// c08ResetComplete: (cache-coherence, reset-complete clause) a module-defined cache object that the chain drops on revert
// through its own Reset/Purge/Clear method must forget *everything* it remembers: every field of the cache type that one of
// its methods writes after construction is also written (or purged) by the drop method. Seeded change C05-K adds a memo of
// the running bloom window (runningCopy/runningNext, keyed by "next block") to AggregatedBloomFilterCache and leaves
// Reset() — which RevertHead does call — purging the LRU only: after a reorg back to the same height the pre-reorg window
// keeps answering event queries.
func c08ResetComplete(c *Ctx, t *types.Named, construct string) {
	c08ResetCompleteAs(c, t, "cache-coherence", construct)
}

func c08ResetCompleteAs(c *Ctx, t *types.Named, rule, construct string) {
	p := c.P
	st, ok := t.Underlying().(*types.Struct)
	if !ok || t.Obj().Pkg() == nil || !strings.HasPrefix(t.Obj().Pkg().Path(), modPath) {
		return
	}
	var drops []*ssa.Function
	written := map[string]string{} // field → first writer (post-construction)
	for _, fn := range p.sortedFuncs() {
		if fn.Signature.Recv() == nil || fn.Origin() != nil || p.InFixture(fnPos(fn)) {
			continue
		}
		rt := fn.Signature.Recv().Type()
		if pt, isPtr := rt.(*types.Pointer); isPtr {
			rt = pt.Elem()
		}
		if !sameNamedOrigin(rt, t) {
			continue
		}
		switch fn.Name() {
		case "Reset", "Purge", "Clear":
			drops = append(drops, fn)
			continue
		}
		// builders (return the receiver's type) configure the object before it is shared
		if res := fn.Signature.Results(); res.Len() == 1 {
			r0 := res.At(0).Type()
			if pt, isPtr := r0.(*types.Pointer); isPtr {
				r0 = pt.Elem()
			}
			if sameNamedOrigin(r0, t) {
				continue
			}
		}
		for _, g := range withAnons(fn) {
			allInstrsOne(g, func(in ssa.Instruction) {
				if s, ok := in.(*ssa.Store); ok {
					if fa, ok := s.Addr.(*ssa.FieldAddr); ok && isNamedT(fa.X.Type(), t) {
						if _, injected := s.Val.(*ssa.Parameter); injected {
							return // a setter hands a collaborator in (WithFallback): configuration, not something remembered
						}
						fld := fieldName(fa.X.Type(), fa.Field)
						if _, seen := written[fld]; !seen {
							written[fld] = qname(fn) + " @" + p.Pos(posOf(in, g))
						}
					}
				}
			})
		}
	}
	if len(drops) == 0 {
		return
	}
	for i := 0; i < st.NumFields(); i++ {
		fld := st.Field(i).Name()
		w, isWritten := written[fld]
		if !isWritten {
			continue
		}
		handled := false
		for _, d := range drops {
			for _, g := range withAnons(d) {
				allInstrsOne(g, func(in ssa.Instruction) {
					if s, ok := in.(*ssa.Store); ok {
						if fa, ok := s.Addr.(*ssa.FieldAddr); ok && fieldName(fa.X.Type(), fa.Field) == fld {
							handled = true
						}
					}
				})
				for _, s := range sitesOf(g) {
					if c08TouchesField(s, fld, []string{"Reset", "Purge", "Clear", "clear", "Store"}) {
						handled = true
					}
				}
			}
		}
		c.check(handled, rule, construct+": "+t.Obj().Name()+"."+fld+" forgotten by "+drops[0].Name()+"()", p.Pos(st.Field(i).Pos()), "what the cache object remembers in this field is dropped by its "+drops[0].Name()+"()",
			"the cache object's "+drops[0].Name()+"() — which the revert relies on — leaves field "+fld+" (written by "+w+") untouched: whatever is memoised there survives a reorg (a memo keyed by a height or a counter is re-used when the chain comes back to the same height with different blocks)")
	}
}

func isNamedT(t types.Type, want *types.Named) bool {
	if pt, ok := t.(*types.Pointer); ok {
		t = pt.Elem()
	}
	return sameNamedOrigin(t, want)
}

// sameNamedOrigin: t is want, or an instantiation of the same generic type.
func sameNamedOrigin(t types.Type, want *types.Named) bool {
	if types.Identical(t, want) {
		return true
	}
	nt, ok := t.(*types.Named)
	return ok && nt.Origin() == want.Origin()
}

// c08FillAfterSuccess: (cache-coherence, fill-after-success clause) an entry is put into a cache of the chain object only on
// paths where every fallible step that precedes it in the same function has succeeded: for each error-returning call that
// dominates the fill, the path condition of the fill contains `err == nil` for that call. Seeded change C08-L warms a
// hash→number cache in Store with `err := backend.Store(..); cache.Add(hash, number); return err`: a refused block leaves
// its hash resolvable, and by-hash reads later answer with the canonical block of that height.
func c08FillAfterSuccess(c *Ctx, ownerPkg, ownerTyp, fld string) {
	p := c.P
	for _, fn := range p.sortedFuncs() {
		if pkgRelOf(fn) != ownerPkg || fn.Origin() != nil || strings.HasSuffix(p.Pos(fnPos(fn)), "_test.go") {
			continue
		}
		for _, g := range withAnons(fn) {
			for _, s := range sitesOf(g) {
				if !c08TouchesField(s, fld, []string{"Add", "Put", "Set", "Store", "ContainsOrAdd", "PeekOrAdd"}) {
					continue
				}
				// no fill while the data is only *staged*: a function that writes through a batch / writer handed to it cannot know
				// whether that batch will be committed (Simulate discards it, a commit can fail). Seeded change C03-K keeps a
				// decoded-class cache "in step" from writeClass(w, …): a class declared by a proposal that is never finalised is
				// served by every later reader.
				staged := ""
				for _, k := range sitesOf(g) {
					nmk := ""
					if k.Callee != nil {
						nmk = k.Callee.Name()
					} else if k.Method != nil {
						nmk = k.Method.Name()
					}
					for _, a := range k.Args() {
						ts := a.Type().String()
						if (strings.HasSuffix(ts, "db.KeyValueWriter") || strings.HasSuffix(ts, "db.Batch") || strings.HasSuffix(ts, "db.IndexedBatch")) && k.Instr != s.Instr {
							staged = nmk
						}
					}
					if k.Recv != nil {
						ts := k.Recv.Type().String()
						if (strings.HasSuffix(ts, "db.KeyValueWriter") || strings.HasSuffix(ts, "db.Batch") || strings.HasSuffix(ts, "db.IndexedBatch")) && (nmk == "Put" || nmk == "Delete" || nmk == "DeleteRange") {
							staged = nmk
						}
					}
				}
				c.check(staged == "", "cache-coherence", ownerTyp+"."+fld+" filled while staging in "+qname(fn), p.Pos(s.Pos()), "the cache is not filled by code that only stages writes in a batch",
					"the cache is filled in a function that stages writes through a batch/writer it was handed ("+staged+"): when that batch is discarded (a simulated proposal, a failed commit) the cache keeps an entry the database never received")
				d := p.mustHoldAt(s.Instr)
				var unchecked []string
				for _, k := range sitesOf(g) {
					kv, isVal := k.Instr.(ssa.Value)
					if !isVal || k.Instr == s.Instr || !dominatesInstr(k.Instr, s.Instr) {
						continue
					}
					sig := k.Instr.Common().Signature()
					if sig == nil || sig.Results().Len() == 0 || sig.Results().At(sig.Results().Len()-1).Type().String() != "error" {
						continue
					}
					// the error value: the call itself (single result) or its last component
					var ev ssa.Value = kv
					if sig.Results().Len() > 1 {
						ev = nil
						if refs := kv.Referrers(); refs != nil {
							for _, r := range *refs {
								if ex, ok := r.(*ssa.Extract); ok && ex.Index == sig.Results().Len()-1 {
									ev = ex
								}
							}
						}
					}
					if ev == nil {
						continue // error discarded: not this rule's business
					}
					et := term(ev)
					if ok, _ := everyDisjunctHas(d, []string{"^!", et, "!= nil"}, []string{et + " == nil"}); !ok {
						unchecked = append(unchecked, k.CalleeName())
					}
				}
				c.check(len(unchecked) == 0, "cache-coherence", ownerTyp+"."+fld+" filled in "+qname(fn), p.Pos(s.Pos()), "the cache is filled only after the fallible steps before it succeeded",
					"an entry is added to the cache although the error of "+strings.Join(uniq(unchecked), ", ")+" has not been checked on this path: when that step fails (a refused block, a failed read) the cache remembers something the node does not hold")
			}
		}
	}
}
