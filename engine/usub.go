package main

import (
	"fmt"
	"go/constant"
	"go/token"
	"go/types"
	"strings"

	"golang.org/x/tools/go/ssa"
)

// E12: guarded unsigned subtraction. Every uint* subtraction a-b in scope must be dominated by a fact implying a ≥ b.

func isUnsigned(t types.Type) bool {
	b, ok := t.Underlying().(*types.Basic)
	return ok && b.Info()&types.IsUnsigned != 0
}

func constUint(v ssa.Value) (uint64, bool) {
	k, ok := v.(*ssa.Const)
	if !ok || k.Value == nil || k.Value.Kind() != constant.Int {
		return 0, false
	}
	u, exact := constant.Uint64Val(k.Value)
	return u, exact
}

// stripConv removes value-preserving integer widenings (uint8→uint64, int const) for term comparison.
func stripConv(v ssa.Value) ssa.Value {
	for {
		switch x := v.(type) {
		case *ssa.Convert:
			if isUnsigned(x.X.Type()) && isUnsigned(x.Type()) {
				// widening only
				if sizeofBasic(x.X.Type()) <= sizeofBasic(x.Type()) {
					v = x.X
					continue
				}
			}
			return v
		case *ssa.ChangeType:
			v = x.X
		default:
			return v
		}
	}
}

func sizeofBasic(t types.Type) int {
	b, ok := t.Underlying().(*types.Basic)
	if !ok {
		return 0
	}
	switch b.Kind() {
	case types.Uint8:
		return 1
	case types.Uint16:
		return 2
	case types.Uint32:
		return 4
	case types.Uint64, types.Uint, types.Uintptr:
		return 8
	}
	return 0
}

func sameVal(a, b ssa.Value) bool {
	a, b = stripConv(a), stripConv(b)
	if a == b {
		return true
	}
	if structEq(a, b, 0) {
		return true
	}
	ca, oka := constUint(a)
	cb, okb := constUint(b)
	if oka && okb {
		return ca == cb
	}
	if oka || okb {
		return false
	}
	ta, tb := term(a), term(b)
	if strings.Contains(ta, "…") || strings.Contains(ta, "?") || strings.Contains(ta, "φ") {
		return false
	}
	return ta == tb
}

// geFact: does fact f imply a ≥ b ?
func geFact(f Fact, a, b ssa.Value) bool {
	cb, bConst := constUint(stripConv(b))
	return geFactM(f, func(v ssa.Value) bool { return sameVal(v, a) }, func(v ssa.Value) bool { return sameVal(v, b) }, cb, bConst)
}

func geFactM(f Fact, isA, isB func(ssa.Value) bool, cb uint64, bConst bool) bool {
	bo, ok := f.Cond.(*ssa.BinOp)
	if !ok {
		return false
	}
	op := bo.Op
	x, y := bo.X, bo.Y
	if !f.Pos {
		switch op {
		case token.LSS:
			op = token.GEQ
		case token.LEQ:
			op = token.GTR
		case token.GTR:
			op = token.LEQ
		case token.GEQ:
			op = token.LSS
		case token.EQL:
			op = token.NEQ
		case token.NEQ:
			op = token.EQL
		default:
			return false
		}
	}
	// normalise to x OP y with OP in {>=, >, ==, !=}
	switch op {
	case token.LSS:
		x, y, op = y, x, token.GTR
	case token.LEQ:
		x, y, op = y, x, token.GEQ
	}
	switch op {
	case token.GEQ, token.GTR:
		if isA(x) {
			if isB(y) {
				return true
			}
			// a >= k / a > k with constants
			if ky, ok := constUint(stripConv(y)); ok && bConst {
				if op == token.GEQ {
					return ky >= cb
				}
				return ky+1 >= cb
			}
			// a > y (any unsigned y) ⇒ a ≥ 1
			if op == token.GTR && bConst && cb <= 1 && isUnsigned(y.Type()) {
				return true
			}
		}
	case token.EQL:
		if (isA(x) && isB(y)) || (isB(x) && isA(y)) {
			return true
		}
		if isA(x) && bConst {
			if ky, ok := constUint(stripConv(y)); ok {
				return ky >= cb
			}
		}
	case token.NEQ:
		// a != 0 ⇒ a ≥ 1
		if bConst && cb <= 1 {
			if isA(x) {
				if ky, ok := constUint(stripConv(y)); ok && ky == 0 {
					return true
				}
			}
			if isA(y) {
				if kx, ok := constUint(stripConv(x)); ok && kx == 0 {
					return true
				}
			}
		}
	}
	return false
}

// monotoneFrom: v is a loop counter initialised to init and only incremented.
func monotoneFrom(v ssa.Value, init ssa.Value, depth int) bool {
	if depth > 6 {
		return false
	}
	v = stripConv(v)
	if sameVal(v, init) {
		return true
	}
	phi, ok := v.(*ssa.Phi)
	if !ok {
		// v = w + k
		if bo, ok := v.(*ssa.BinOp); ok && bo.Op == token.ADD {
			return monotoneFrom(bo.X, init, depth+1) || monotoneFrom(bo.Y, init, depth+1)
		}
		return false
	}
	for _, e := range phi.Edges {
		e = stripConv(e)
		if e == ssa.Value(phi) {
			continue
		}
		if sameVal(e, init) {
			continue
		}
		if bo, ok := e.(*ssa.BinOp); ok && bo.Op == token.ADD && (stripConv(bo.X) == ssa.Value(phi) || stripConv(bo.Y) == ssa.Value(phi)) {
			continue
		}
		if inner, ok := e.(*ssa.Phi); ok && inner != phi {
			if monotoneFrom(inner, init, depth+1) {
				continue
			}
			// nested loop φ that itself only contains phi and phi+k
			okInner := true
			for _, ie := range inner.Edges {
				ie = stripConv(ie)
				if ie == ssa.Value(phi) || ie == ssa.Value(inner) {
					continue
				}
				if bo, ok := ie.(*ssa.BinOp); ok && bo.Op == token.ADD && (stripConv(bo.X) == ssa.Value(phi) || stripConv(bo.X) == ssa.Value(inner)) {
					continue
				}
				okInner = false
			}
			if okInner {
				continue
			}
		}
		return false
	}
	return true
}

// resultGeParam: on every non-error return of callee, result[ridx] ≥ param pidx.
func resultGeParam(callee *ssa.Function, ridx int, pidx int) bool {
	if callee == nil || callee.Blocks == nil || pidx >= len(callee.Params) {
		return false
	}
	par := callee.Params[pidx]
	n := 0
	for _, ri := range returnsOf(callee) {
		b := ri.Block
		ret := ri
		if ridx >= len(ret.Results) {
			continue
		}
		// skip returns on a definitely-failing path: some dominating fact `err != nil` where err is returned as last result
		if len(ret.Results) > 1 {
			last := ret.Results[len(ret.Results)-1]
			if last.Type().String() == "error" {
				failing := definitelyNonNilErr(last)
				for _, f := range factsAtBlock(b) {
					if bo, ok := f.Cond.(*ssa.BinOp); ok && f.Pos && bo.Op == token.NEQ && isNilConst(bo.Y) && flowsFrom(last, bo.X, 0) {
						failing = true
					}
				}
				if failing {
					continue
				}
			}
		}
		n++
		if !monotoneFrom(ret.Results[ridx], par, 0) {
			return false
		}
	}
	return n > 0
}

type usubResult struct {
	ok  bool
	why string
}

// decideSub decides one unsigned subtraction.
func decideSub(p *Prog, fn *ssa.Function, bo *ssa.BinOp) usubResult {
	a, b := bo.X, bo.Y
	if cb, ok := constUint(stripConv(b)); ok && cb == 0 {
		return usubResult{true, "b is the constant 0"}
	}
	if ca, ok := constUint(stripConv(a)); ok {
		if cb, ok2 := constUint(stripConv(b)); ok2 && ca >= cb {
			return usubResult{true, "constants"}
		}
	}
	if sameVal(a, b) {
		return usubResult{true, "a - a"}
	}
	// a - a%k ; a - min(a, …)
	if rb, ok := stripConv(b).(*ssa.BinOp); ok && rb.Op == token.REM && sameVal(rb.X, a) {
		return usubResult{true, "a - a%k"}
	}
	// a - (y % a): the remainder is smaller than the modulus
	if rb, ok := stripConv(b).(*ssa.BinOp); ok && rb.Op == token.REM && sameVal(rb.Y, a) {
		return usubResult{true, "a - (y % a)"}
	}
	if rb, ok := stripConv(b).(*ssa.BinOp); ok && rb.Op == token.AND && (sameVal(rb.X, a) || sameVal(rb.Y, a)) {
		return usubResult{true, "a - (a&m)"}
	}
	if call, ok := stripConv(b).(*ssa.Call); ok {
		if bi, ok := call.Call.Value.(*ssa.Builtin); ok && bi.Name() == "min" {
			for _, arg := range call.Call.Args {
				if sameVal(arg, a) {
					return usubResult{true, "a - min(a, …)"}
				}
			}
		}
	}
	// max(x, b') - b with b ≤ b'
	if call, ok := stripConv(a).(*ssa.Call); ok {
		if bi, ok := call.Call.Value.(*ssa.Builtin); ok && bi.Name() == "max" {
			for _, arg := range call.Call.Args {
				if sameVal(arg, b) {
					return usubResult{true, "max(…, b) - b"}
				}
				if ka, ok := constUint(stripConv(arg)); ok {
					if kb, ok := constUint(stripConv(b)); ok && ka >= kb {
						return usubResult{true, "max(…, k) - k'"}
					}
				}
			}
		}
		// len(x)/cap(x) - len(y) handled by facts below
	}
	// (x + k) - k' with constants k ≥ k' (assuming x + k does not overflow)
	if ab, ok := stripConv(a).(*ssa.BinOp); ok && ab.Op == token.ADD {
		if kb, ok := constUint(stripConv(b)); ok {
			for _, side := range []ssa.Value{ab.X, ab.Y} {
				if ka, ok := constUint(stripConv(side)); ok && ka >= kb {
					return usubResult{true, "(x + k) - k' with k ≥ k'"}
				}
			}
		}
	}
	// a = x + b  or a = b + x
	if ab, ok := stripConv(a).(*ssa.BinOp); ok && ab.Op == token.ADD && (sameVal(ab.X, b) || sameVal(ab.Y, b)) {
		return usubResult{true, "(x + b) - b"}
	}
	// dominating facts
	for _, f := range factsAt(bo) {
		if geFact(f, a, b) {
			return usubResult{true, "dominated by " + f.String()}
		}
	}
	// facts through intermediate: a ≥ m (fact) and m ≥ b: b = m - k or constants — one step for `x - c` under `x > c`-style handled above.
	// monotone counter
	if monotoneFrom(a, b, 0) {
		return usubResult{true, "a is a counter initialised to b and only incremented"}
	}
	// a is the result of a callee that returns ≥ its parameter, which is bound to b
	av := stripConv(a)
	ridx := 0
	var call *ssa.Call
	if ex, ok := av.(*ssa.Extract); ok {
		ridx = ex.Index
		call, _ = ex.Tuple.(*ssa.Call)
	} else {
		call, _ = av.(*ssa.Call)
	}
	if call != nil {
		if cal := call.Call.StaticCallee(); cal != nil {
			for i, arg := range call.Call.Args {
				if sameVal(arg, b) && resultGeParam(cal, ridx, i) {
					return usubResult{true, fmt.Sprintf("a = %s(…) which returns a value ≥ its parameter #%d (= b) on every non-error return", cal.Name(), i)}
				}
			}
		}
	}
	// facts established through inlined boolean helpers (contains(), …): compare canonical terms in every disjunct
	{
		A, B := strings.TrimPrefix(term(stripConv(a)), "&"), strings.TrimPrefix(term(stripConv(b)), "&")
		if !strings.Contains(A, "φ") && !strings.Contains(B, "φ") {
			d := p.mustHoldAt(bo)
			forms := [][]string{{"(" + A + " >= " + B + ")"}, {"(" + A + " > " + B + ")"}, {"(" + B + " <= " + A + ")"}, {"(" + B + " < " + A + ")"},
				{"^!", "(" + A + " < " + B + ")"}, {"^!", "(" + B + " > " + A + ")"}}
			if ok, _ := everyDisjunctHas(d, forms...); ok && len(d) > 0 && !(len(d) == 1 && len(d[0]) == 0) {
				return usubResult{true, "implied by an inlined boolean helper on every path (" + A + " ≥ " + B + ")"}
			}
		}
	}
	// alignment: a > f (fact) with a and f both k-aligned and b == k  ⇒ a ≥ k
	if kb, ok := constUint(stripConv(b)); ok && kb > 0 && alignedTo(a, kb, 0) {
		for _, f := range factsAt(bo) {
			if fb, ok := f.Cond.(*ssa.BinOp); ok {
				// a > y or !(a <= y)
				gt := (f.Pos && fb.Op == token.GTR && sameVal(fb.X, a)) || (!f.Pos && fb.Op == token.LEQ && sameVal(fb.X, a)) ||
					(f.Pos && fb.Op == token.LSS && sameVal(fb.Y, a)) || (!f.Pos && fb.Op == token.GEQ && sameVal(fb.Y, a))
				if gt {
					other := fb.Y
					if sameVal(fb.Y, a) {
						other = fb.X
					}
					if alignedTo(other, kb, 0) {
						return usubResult{true, fmt.Sprintf("a and %s are both multiples of %d and a > it", shortTerm(other), kb)}
					}
				}
			}
		}
	}
	// caller preconditions: a and b are parameters (or constants): every call site must establish a ≥ b
	if r := callerPrecondition(p, fn, a, b, 0); r.ok {
		return r
	}
	// b is a φ / min-like of values each ≤ a: φ(k1, k2…) with a-guard per edge is out of the fragment
	return usubResult{false, "no dominating fact implies a ≥ b (a=" + term(a) + ", b=" + term(b) + ")"}
}

// unsignedSubs enumerates unsigned subtractions in fn.
func unsignedSubs(fn *ssa.Function) []*ssa.BinOp {
	var out []*ssa.BinOp
	allInstrs(fn, func(in ssa.Instruction) {
		if bo, ok := in.(*ssa.BinOp); ok && bo.Op == token.SUB && isUnsigned(bo.Type()) {
			out = append(out, bo)
		}
	})
	return out
}

// usubRule applies E12 to every function selected by sel. exceptions: construct → reason.
func (c *Ctx) usubRule(rule string, sel func(fn *ssa.Function) bool, exceptions map[string]string) int {
	p := c.P
	n := 0
	for _, fn := range p.sortedFuncs() {
		if fn.Synthetic != "" || !sel(fn) {
			continue
		}
		if fn.Origin() != nil { // analyse generic origins once
			continue
		}
		subs := unsignedSubs(fn)
		for i, bo := range subs {
			n++
			c.saw(qname(fn))
			construct := fmt.Sprintf("%s: %s - %s", qname(fn), shortTerm(bo.X), shortTerm(bo.Y))
			_ = i
			if why, ok := exceptions[construct]; ok {
				c.ok(rule, construct, p.Pos(posOf(bo, fn)), "exception: "+why)
				continue
			}
			r := decideSub(p, fn, bo)
			if r.ok {
				c.ok(rule, construct, p.Pos(posOf(bo, fn)), r.why)
			} else {
				c.und(rule, construct, p.Pos(posOf(bo, fn)), "unsigned subtraction may wrap: "+r.why)
			}
		}
	}
	return n
}

func shortTerm(v ssa.Value) string {
	t := term(v)
	if len(t) > 70 {
		t = t[:70] + "…"
	}
	return t
}

// alignedTo: v is a multiple of k by construction: x - x%k, φ of aligned values, aligned ± k, constant multiple.
func alignedTo(v ssa.Value, k uint64, depth int) bool {
	if depth > 6 {
		return false
	}
	v = stripConv(v)
	if c, ok := constUint(v); ok {
		return c%k == 0
	}
	switch x := v.(type) {
	case *ssa.BinOp:
		switch x.Op {
		case token.SUB:
			if rb, ok := stripConv(x.Y).(*ssa.BinOp); ok && rb.Op == token.REM && sameVal(rb.X, x.X) {
				if kk, ok := constUint(stripConv(rb.Y)); ok && kk%k == 0 {
					return true
				}
			}
			return alignedTo(x.X, k, depth+1) && alignedTo(x.Y, k, depth+1)
		case token.ADD:
			return alignedTo(x.X, k, depth+1) && alignedTo(x.Y, k, depth+1)
		case token.MUL:
			return alignedTo(x.X, k, depth+1) || alignedTo(x.Y, k, depth+1)
		}
	case *ssa.Phi:
		for _, e := range x.Edges {
			e = stripConv(e)
			if e == ssa.Value(x) {
				continue
			}
			// e = φ ± k
			if eb, ok := e.(*ssa.BinOp); ok && (eb.Op == token.SUB || eb.Op == token.ADD) && stripConv(eb.X) == ssa.Value(x) {
				if kk, ok := constUint(stripConv(eb.Y)); ok && kk%k == 0 {
					continue
				}
			}
			if !alignedTo(e, k, depth+1) {
				return false
			}
		}
		return true
	}
	return false
}

// paramPath: v is a parameter, or a chain of field loads rooted at a parameter → (param index, ".f.g")
func paramPath(fn *ssa.Function, v ssa.Value) (int, string, bool) {
	v = stripConv(v)
	suffix := ""
	for d := 0; d < 6; d++ {
		switch x := v.(type) {
		case *ssa.Parameter:
			for i, q := range fn.Params {
				if q == x {
					return i, suffix, true
				}
			}
			return -1, "", false
		case *ssa.UnOp:
			if x.Op != token.MUL {
				return -1, "", false
			}
			fa, ok := x.X.(*ssa.FieldAddr)
			if !ok {
				return -1, "", false
			}
			suffix = "." + fieldName(fa.X.Type(), fa.Field) + suffix
			v = fa.X
		case *ssa.Field:
			suffix = "." + fieldName(x.X.Type(), x.Field) + suffix
			v = x.X
		default:
			return -1, "", false
		}
	}
	return -1, "", false
}

// callerPrecondition: a, b are parameters / field paths of parameters / constants of fn; each caller establishes
// arg_a ≥ arg_b by a dominating fact (or, recursively, by its own callers; depth ≤ 2).
func callerPrecondition(p *Prog, fn *ssa.Function, a, b ssa.Value, depth int) usubResult {
	if depth > 2 {
		return usubResult{}
	}
	ka, ca := constUint(stripConv(a))
	kb, cb := constUint(stripConv(b))
	ia, sa, pa := paramPath(fn, a)
	ib, sb, pb := paramPath(fn, b)
	if !(pa || ca) || !(pb || cb) || (ca && cb) {
		return usubResult{}
	}
	callers := p.callersOf(fn)
	n := 0
	for _, s := range callers {
		if p.InFixture(s.Pos()) {
			continue
		}
		args := s.Args()
		argAt := func(i int) ssa.Value {
			if s.Method != nil {
				if i == 0 {
					return s.Recv
				}
				i--
			}
			if i >= 0 && i < len(args) {
				return args[i]
			}
			return nil
		}
		matcher := func(isParam bool, i int, suffix string, isConst bool, k uint64) func(ssa.Value) bool {
			if isConst {
				return func(v ssa.Value) bool { c, ok := constUint(stripConv(v)); return ok && c == k }
			}
			av := argAt(i)
			if av == nil {
				return func(ssa.Value) bool { return false }
			}
			if suffix == "" {
				return func(v ssa.Value) bool { return sameVal(v, av) }
			}
			want := strings.TrimPrefix(term(av), "&") + suffix
			return func(v ssa.Value) bool { return term(stripConv(v)) == want }
		}
		isA := matcher(pa, ia, sa, ca, ka)
		isB := matcher(pb, ib, sb, cb, kb)
		okc := false
		for _, f := range factsAt(s.Instr) {
			if geFactM(f, isA, isB, kb, cb) {
				okc = true
			}
		}
		if !okc && pa && pb && sa == "" && sb == "" {
			aa, bb := argAt(ia), argAt(ib)
			if aa != nil && bb != nil {
				if sameVal(aa, bb) || monotoneFrom(aa, bb, 0) {
					okc = true
				} else if r := callerPrecondition(p, s.Fn, aa, bb, depth+1); r.ok {
					okc = true
				} else if r := decideArgs(p, s, aa, bb); r {
					okc = true
				}
			}
		}
		if !okc {
			return usubResult{}
		}
		n++
	}
	if n == 0 {
		return usubResult{}
	}
	return usubResult{true, fmt.Sprintf("precondition a ≥ b established at all %d call sites of %s", n, fn.Name())}
}

// decideArgs: constant arguments or a ≥ b visible from the argument expressions themselves (min/max forms).
func decideArgs(p *Prog, s Site, aa, bb ssa.Value) bool {
	if ka, ok := constUint(stripConv(aa)); ok {
		if kb, ok := constUint(stripConv(bb)); ok {
			return ka >= kb
		}
	}
	return false
}

// structEq: structural equality of two SSA values that denote the same computation over identical leaves
// (go/ssa performs no common-subexpression elimination, so `to+1` appears once per occurrence).
func structEq(a, b ssa.Value, depth int) bool {
	a, b = stripConv(a), stripConv(b)
	if a == b {
		return true
	}
	if depth > 5 {
		return false
	}
	switch x := a.(type) {
	case *ssa.Const:
		y, ok := b.(*ssa.Const)
		if !ok || x.Value == nil || y.Value == nil {
			return false
		}
		return constant.Compare(x.Value, token.EQL, y.Value)
	case *ssa.BinOp:
		y, ok := b.(*ssa.BinOp)
		return ok && x.Op == y.Op && structEq(x.X, y.X, depth+1) && structEq(x.Y, y.Y, depth+1)
	case *ssa.UnOp:
		y, ok := b.(*ssa.UnOp)
		if !ok || x.Op != y.Op {
			return false
		}
		if x.Op == token.MUL {
			fx, ok1 := x.X.(*ssa.FieldAddr)
			fy, ok2 := y.X.(*ssa.FieldAddr)
			if ok1 && ok2 {
				return fx.Field == fy.Field && structEq(fx.X, fy.X, depth+1)
			}
			return x.X == y.X
		}
		return structEq(x.X, y.X, depth+1)
	case *ssa.Convert:
		y, ok := b.(*ssa.Convert)
		return ok && types.Identical(x.Type(), y.Type()) && structEq(x.X, y.X, depth+1)
	}
	return false
}

// definitelyNonNilErr: v is a freshly built error (fmt.Errorf / errors.New, or a concrete value boxed into the interface).
func definitelyNonNilErr(v ssa.Value) bool {
	switch x := v.(type) {
	case *ssa.Call:
		if cal := x.Call.StaticCallee(); cal != nil && cal.Pkg != nil {
			pp, n := cal.Pkg.Pkg.Path(), cal.Name()
			return (pp == "fmt" && n == "Errorf") || (pp == "errors" && n == "New")
		}
	case *ssa.MakeInterface:
		return true
	}
	return false
}
