package main

import (
	"fmt"
	"go/token"
	"sort"
	"strings"

	"golang.org/x/tools/go/ssa"
)

var blockBuckets = map[string]bool{
	"BlockHeadersByNumber": true, "BlockHeaderNumbersByHash": true, "BlockCommitments": true, "BlockTransactions": true,
	"StateUpdatesByBlockNumber": true, "TransactionBlockNumbersAndIndicesByHash": true, "L1HandlerTxnHashByMsgHash": true,
	"ChainHeight":                      true,
	"DeprecatedContractStorageHistory": true, "DeprecatedContractNonceHistory": true, "DeprecatedContractClassHashHistory": true,
	"ContractStorageHistory": true, "ContractNonceHistory": true, "ContractClassHashHistory": true,
}

// reachableAvoiding: can `to` be reached from fn's entry without entering block `avoid` and without taking skipEdge (from→to pairs)?
func reachableAvoiding(fn *ssa.Function, to, avoid *ssa.BasicBlock, skip map[[2]int]bool) bool {
	seen := map[*ssa.BasicBlock]bool{}
	q := []*ssa.BasicBlock{fn.Blocks[0]}
	for len(q) > 0 {
		b := q[0]
		q = q[1:]
		if seen[b] || b == avoid {
			continue
		}
		seen[b] = true
		if b == to {
			return true
		}
		for _, s := range b.Succs {
			if skip[[2]int{b.Index, s.Index}] {
				continue
			}
			q = append(q, s)
		}
	}
	return false
}

func findSite(fn *ssa.Function, name string) *Site {
	for _, f := range withAnons(fn) {
		ss := sitesOf(f)
		for i := range ss {
			n := ss[i].CalleeName()
			if n == name || strings.HasSuffix(n, "."+name) || strings.HasSuffix(n, ")."+name) || strings.HasSuffix(n, "/"+name) {
				return &ss[i]
			}
		}
	}
	return nil
}

func findSites(fn *ssa.Function, name string) []Site {
	var out []Site
	for _, s := range sitesOf(fn) {
		n := s.CalleeName()
		if n == name || strings.HasSuffix(n, "."+name) || strings.HasSuffix(n, ")."+name) || strings.HasSuffix(n, "/"+name) {
			out = append(out, s)
		}
	}
	return out
}

func init() {
	register("C16", func(c *Ctx) {
		p := c.P
		c.Explain = "Structural safety conditions of pruning decided on SSA/CFG + resolved bucket effects: (no-underflow) every uint64 subtraction in pruner/ and the history-prune migrator is dominated by a fact implying a ≥ b (guards, max/min/modulo idioms, monotone counters, caller preconditions); " +
			"(floor-first) the in-memory retention floor is raised before PruneUpto deletes anything, with the same bound; (monotone-floor) the floor is only written by a CAS in raiseTo under `floor+1 > cur`; (floor-terms) prune bounds are head−retained under the L1-confirmed guards and the time floor can only lower them; " +
			"(carve-outs) header deletion stops BlockHashLag short, the hash→number entry of end−1 is kept; (who-deletes) block/history buckets are deleted only by revert, the pruner and migrations; (resume-safe) the multi-commit phase of PruneUpto never deletes a bucket it (or the resume probe) reads; (gates) shared with C03. " +
			"Not decided: integrity of retained blocks under arbitrary interleavings or a crash between prune batches beyond the phase rule; min-age timing."
		ci := p.caps()
		r := p.newResolver()
		ai := p.attrIndex(r, ci)

		// no-underflow
		exc := map[string]string{
			"(*migration/historyprunner.Migrator).runRestorer: chainHeight - oldestBlockKept":        "progress readout only (keeperWindow for the logger); oldestBlockKept ≤ pivot ≤ chainHeight at pin time and the chain only grows",
			"(*migration/historyprunner.Migrator).runRestorer: m.restorerProgress - oldestBlockKept": "progress readout only; preceded by m.restorerProgress = max(oldestBlockKept, m.restorerProgress)",
			"(*migration/historyprunner.Migrator).runStager: chainHeight - oldestBlockKept":          "progress readout only (keeperWindow for the logger)",
			"(*migration/historyprunner.Migrator).runStager: m.stagerProgress - oldestBlockKept":     "progress readout only; preceded by m.stagerProgress = max(oldestBlockKept, m.stagerProgress)",
		}
		n := c.usubRule("no-underflow", func(fn *ssa.Function) bool {
			pr := pkgRelOf(fn)
			return pr == "pruner" || pr == "migration/historyprunner"
		}, exc)
		_ = n
		// lockstep exception is keyed by prefix (φ terms are long)
		for i := range c.Obs {
			o := &c.Obs[i]
			if o.Status == UNDECIDED && strings.HasPrefix(o.Construct, "pruner.rebuildRunningEventFilter: φ((((latest - (latest % 8192)) + 8192) - 1)") {
				o.Status = OK
				o.Msg = "exception: lastStoredFilterRangeEnd moves in lockstep with rangeStartAligned (= it + 8191), whose decrement is proven by the alignment idiom in the same loop"
			}
		}
		c.floor("no-underflow", 20)
		c.needFixture("no-underflow")
		c16CancelAndGates(c)
		c16MarkerWithHistory(c)
		c16InitOneView(c)
		c16BloomWindowAndScratch(c)

		// floor-first
		if pu := p.Func("pruner", "Pruner", "pruneUpto"); pu == nil {
			c.und("floor-first", "Pruner.pruneUpto", "", "anchor not found")
		} else {
			// the raise may sit in a same-package helper (with the bound == 0 guard moved along)
			var raiseDS *deepSite
			if dss := p.deepSites(pu, nameMatcher("raiseTo"), 2); len(dss) > 0 {
				raiseDS = &dss[0]
			}
			prune := findSite(pu, "PruneUpto")
			if raiseDS == nil || prune == nil {
				c.viol("floor-first", "(*pruner.Pruner).pruneUpto", p.Pos(fnPos(pu)), "pruneUpto does not both raise the retention floor and call PruneUpto")
			} else {
				raise := &raiseDS.Site
				outer := raise
				if len(raiseDS.Chain) > 0 {
					outer = &raiseDS.Chain[0]
				}
				// edges on which the bound is 0 (nothing below it exists) may skip the raise
				skip := map[[2]int]bool{}
				for _, b := range pu.Blocks {
					if iff, ok := b.Instrs[len(b.Instrs)-1].(*ssa.If); ok {
						t := term(iff.Cond)
						if strings.Contains(t, " > 0)") && len(prune.Args()) > 2 && strings.Contains(t, term(prune.Args()[2])) {
							skip[[2]int{b.Index, b.Succs[1].Index}] = true
						}
					}
				}
				bypass := reachableAvoiding(pu, prune.Block(), outer.Block(), skip) && outer.Block() != prune.Block()
				// inside the helper(s): a return that avoids raiseTo is taken only when the bound is 0
				helperOK := true
				if len(raiseDS.Chain) > 0 {
					h := raise.Instr.Parent()
					for _, r := range returnsOf(h) {
						if dominatesInstr(raise.Instr, r.Ret) {
							continue
						}
						d := p.mustHoldAt(r.Ret)
						if o, _ := everyDisjunctHas(d, []string{" == 0)"}, []string{"^!", " > 0)"}); !o || len(d) == 0 {
							helperOK = false
						}
					}
				}
				rt := ""
				if len(raise.Args()) >= 2 {
					rt = substTermChain(term(raise.Args()[1]), raiseDS.Chain)
				}
				argOK := len(prune.Args()) > 2 && rt == "("+term(prune.Args()[2])+" - 1)"
				c.check(!bypass && helperOK && dominatesOrSameBefore(outer, prune), "floor-first", "(*pruner.Pruner).pruneUpto:order", p.Pos(prune.Pos()),
					"raiseTo is on every path to PruneUpto (except bound == 0)", "PruneUpto can be reached without raising the retention floor first: readers could open a state whose history is being deleted")
				c.check(argOK, "floor-first", "(*pruner.Pruner).pruneUpto:bound", p.Pos(raise.Pos()),
					"floor raised to bound−1 for PruneUpto(bound)", "the floor is not raised to (prune bound − 1): "+rt+" vs "+fmt.Sprint(termsOf(prune.Args())))
			}
		}
		c.floor("floor-first", 2)

		// monotone-floor
		nmf := 0
		for _, fn := range p.sortedFuncs() {
			for _, s := range sitesOf(fn) {
				if s.Callee == nil || s.Callee.Signature.Recv() == nil || !strings.Contains(s.Callee.Signature.Recv().Type().String(), "atomic.Uint64") {
					continue
				}
				fa, ok := s.Recv.(*ssa.FieldAddr)
				if !ok || !isNamed(fa.X.Type(), "pruner", "RetentionFloor") {
					continue
				}
				nm := s.Callee.Name()
				if nm == "Load" {
					continue
				}
				nmf++
				construct := "RetentionFloor.state." + nm + " ← " + qname(fn)
				if nm != "CompareAndSwap" || fn.Name() != "raiseTo" {
					c.viol("monotone-floor", construct, p.Pos(s.Pos()), "the retention floor may only be written by the compare-and-swap in raiseTo")
					continue
				}
				args := s.Args() // recv, old, new
				fs := factStrings(factsAt(s.Instr))
				newT := term(args[2])
				okm := false
				for _, f := range fs {
					if f == "!("+newT+" <= "+term(args[1])+")" || f == "("+newT+" > "+term(args[1])+")" {
						okm = true
					}
				}
				c.check(okm, "monotone-floor", construct, p.Pos(s.Pos()), "CAS(cur, floor+1) only under floor+1 > cur", "the CAS that publishes the floor is not guarded by new > current: the floor could be lowered; facts: "+strings.Join(fs, "; "))
			}
		}
		if nmf == 0 {
			c.und("monotone-floor", "RetentionFloor.state", "", "no writer of the floor found")
		}

		// floor-terms
		c16FloorTerms(c)
		// carve-outs
		c16CarveOuts(c)
		// who-deletes
		allowDel := func(fn *ssa.Function) (bool, string) {
			pr := pkgRelOf(fn)
			switch {
			case pr == "pruner":
				return true, "the pruner"
			case strings.HasPrefix(pr, "migration"):
				return true, "schema migration"
			case pr == "blockchain/statebackend" && rootOf(fn).Name() == "deleteBlockContent":
				return true, "revert of the head block"
			case pr == "core" && strings.HasPrefix(rootOf(fn).Name(), "Delete"):
				return true, "accessor (callers checked below)"
			case pr == "core/state" && (strings.HasPrefix(rootOf(fn).Name(), "Delete")):
				return true, "accessor of the state package (history un-logging on revert)"
			case pr == "core/deprecatedstate":
				return true, "legacy state revert"
			}
			return false, ""
		}
		nd := 0
		seenDel := map[string]bool{}
		for _, a := range ai.all {
			if !(a.Op == "Delete" || a.Op == "DeleteRange") || !blockBuckets[a.Bucket] {
				continue
			}
			a.Fn = rootOf(a.Fn)
			key := a.Bucket + " ← " + qname(a.Fn)
			if seenDel[key] {
				continue
			}
			seenDel[key] = true
			nd++
			ok, why := allowDel(a.Fn)
			c.check(ok, "who-deletes", key, p.Pos(a.Pos), "deleter is "+why, "block/history bucket "+a.Bucket+" is deleted by a function outside revert/pruner/migrations")
			// callers of accessor-level deleters
			if ok && strings.HasPrefix(why, "accessor") {
				for _, s := range p.callersOf(a.Fn) {
					cpr := pkgRelOf(s.Fn)
					okc := cpr == "pruner" || strings.HasPrefix(cpr, "migration") || cpr == "blockchain/statebackend" || cpr == "core" || cpr == "core/state" || cpr == "core/deprecatedstate" || p.InFixture(s.Pos())
					k2 := a.Bucket + " ← " + qname(a.Fn) + " ← " + qname(rootOf(s.Fn))
					if seenDel[k2] {
						continue
					}
					seenDel[k2] = true
					c.check(okc, "who-deletes", k2, p.Pos(s.Pos()), "caller in revert/pruner/migration/state packages", "deleter accessor of bucket "+a.Bucket+" is called from package "+cpr)
				}
			}
		}
		c.floor("who-deletes", 20)

		// resume-safe
		c16ResumeSafe(c, "resume-safe", ci, r)
		// resume: PruneUpto starts at OldestRetainedBlock
		if pu := p.Func("pruner", "", "PruneUpto"); pu != nil {
			ph := findSite(pu, "pruneHashKeyedUpto")
			okr := false
			if ph != nil && len(ph.Args()) > 2 {
				okr = strings.HasPrefix(term(ph.Args()[2]), "pruner.OldestRetainedBlock(")
			}
			c.check(okr, "resume", "pruner.PruneUpto:start", p.Pos(fnPos(pu)), "the per-block sweep starts at OldestRetainedBlock (where the previous call stopped)", "PruneUpto's sweep does not start at OldestRetainedBlock(database)")
		} else {
			c.und("resume", "pruner.PruneUpto", "", "anchor not found")
		}
		// gates
		c03Gates(c)
	})
}

func termsOf(vs []ssa.Value) []string {
	var o []string
	for _, v := range vs {
		o = append(o, term(v))
	}
	return o
}

func dominatesOrSameBefore(a, b *Site) bool {
	if a.Block() == b.Block() {
		return instrIndex(a.Instr) < instrIndex(b.Instr)
	}
	return canReach(a.Instr, b.Instr)
}

func c16FloorTerms(c *Ctx) {
	p := c.P
	type spec struct {
		fn     string
		facts  [][]string // each: substrings that some fact must contain
		bound  string     // substring the bound term must contain
		reason string
	}
	for _, sp := range []spec{
		{"onNewBlock", [][]string{{"!(", ".BlockNumber <= block", "Number"}, {"!(", "Number < p.numRetainedBlocks"}}, "Number - p.numRetainedBlocks", "prune only L1-confirmed blocks, bound = head − retained"},
		{"onNewL1Head", [][]string{{"!(", "l1Head.BlockNumber >= "}, {"!(", "l1Head.BlockNumber < p.numRetainedBlocks"}}, "l1Head.BlockNumber - p.numRetainedBlocks", "prune only below the chain height, bound = l1Head − retained"},
	} {
		fn := p.Func("pruner", "Pruner", sp.fn)
		if fn == nil {
			c.und("floor-terms", "Pruner."+sp.fn, "", "anchor not found")
			continue
		}
		site := findSite(fn, "pruneUpto")
		if site == nil {
			c.und("floor-terms", "Pruner."+sp.fn, p.Pos(fnPos(fn)), "call to pruneUpto not found")
			continue
		}
		fs := factStrings(factsAt(site.Instr))
		miss := ""
		for _, want := range sp.facts {
			if !hasFact(fs, want...) {
				miss = strings.Join(want, "…")
			}
		}
		// the bound is the block-count floor (head − retained), possibly lowered by min(…) — directly, through a φ, a
		// local, or a same-package helper that returns its floor parameter or min(…, parameter)
		bt := term(site.Args()[2])
		okb := c16BoundOK(site.Args()[2], sp.bound, 0)
		c.check(miss == "" && okb, "floor-terms", "(*pruner.Pruner)."+sp.fn, p.Pos(site.Pos()), sp.reason,
			fmt.Sprintf("prune bound/guards changed: missing guard %q or bound %s lacks %q; facts: %s", miss, bt, sp.bound, strings.Join(fs, "; ")))
	}
	// applyTimeFloor never raises the bound
	if fn := p.Func("pruner", "Pruner", "applyTimeFloor"); fn != nil {
		ok := true
		for _, ret := range returnsOf(fn) {
			v := ret.Results[0]
			if v == ssa.Value(fn.Params[1]) {
				// the time floor is left out only when min-age retention is switched off (seeded change C16-K also leaves it out
				// while the sampled height is 0 — on a young chain whose block 0 is itself younger than the minimum age, 0 is a
				// legitimate sample and blocks younger than the minimum age get pruned)
				pn := term(fn.Params[1])
				if o, m := everyDisjunctHas(p.mustHoldAt(ret.Ret), []string{"minAge == 0"}, []string{pn, " < "}, []string{pn, " <= "}, []string{pn, " > "}, []string{pn, " >= "}); !o {
					c.viol("floor-terms", "(*pruner.Pruner).applyTimeFloor: time floor skipped", p.Pos(posOf(ret.Ret, fn)), "the block-count floor is returned without the min-age clause although min-age retention is not switched off on this path ("+clip(m, 160)+"): blocks younger than the configured minimum age can be pruned")
				}
				continue
			}
			if call, isCall := v.(*ssa.Call); isCall {
				if b, isB := call.Call.Value.(*ssa.Builtin); isB && b.Name() == "min" {
					has := false
					for _, a := range call.Call.Args {
						if a == ssa.Value(fn.Params[1]) {
							has = true
						}
					}
					if has {
						continue
					}
				}
			}
			// min written as a comparison: another value is returned only on a path that compared it with the block-count floor
			{
				pn, vt := term(fn.Params[1]), term(v)
				if o, _ := everyDisjunctHas(p.mustHoldAt(ret.Ret), []string{vt + " < " + pn}, []string{vt + " <= " + pn}, []string{"^!", pn + " < " + vt}, []string{"^!", pn + " <= " + vt}, []string{pn + " > " + vt}, []string{pn + " >= " + vt}, []string{"^!", vt + " > " + pn}, []string{"^!", vt + " >= " + pn}); o && vt != "" {
					continue
				}
			}
			ok = false
		}
		c.check(ok, "floor-terms", "(*pruner.Pruner).applyTimeFloor", p.Pos(fnPos(fn)), "returns standardFloor or min(…, standardFloor)", "applyTimeFloor can return a bound above the block-count floor: retained-by-count blocks would be pruned")
	} else {
		// the helper was inlined: the shape of the bound is decided at the two call sites above (c16BoundOK)
		c.ok("floor-terms", "(*pruner.Pruner).applyTimeFloor", "", "no such helper; the time floor is applied inline and checked at the prune sites")
	}
	// one-shot migration: pivot = min(L1 head, chain height)
	if fn := p.Func("migration/historyprunner", "Migrator", "Migrate"); fn != nil {
		site := findSite(fn, "retentionFloorWithMinAge")
		if site == nil {
			c.und("floor-terms", "historyprunner.Migrate:pivot", p.Pos(fnPos(fn)), "call to retentionFloorWithMinAge not found")
		} else {
			pt := term(site.Args()[len(site.Args())-1])
			ok := false
			if call, isCall := stripConv(site.Args()[len(site.Args())-1]).(*ssa.Call); isCall {
				if b, isB := call.Call.Value.(*ssa.Builtin); isB && b.Name() == "min" {
					hasL1, hasH := false, false
					for _, a := range call.Call.Args {
						at := term(a)
						if strings.HasSuffix(at, ".BlockNumber") {
							if u, isU := a.(*ssa.UnOp); isU {
								if fa, isFA := u.X.(*ssa.FieldAddr); isFA && isNamed(fa.X.Type(), "core", "L1Head") {
									hasL1 = true
								}
							}
						}
						if strings.Contains(at, "GetChainHeight(") {
							hasH = true
						}
					}
					ok = hasL1 && hasH
				}
			}
			c.check(ok, "floor-terms", "(*migration/historyprunner.Migrator).Migrate:pivot", p.Pos(site.Pos()), "pivot = min(L1 head, chain height)",
				"the migration's retention pivot is "+pt+", not min(L1 head number, chain height): with the L1 head ahead of the local chain it prunes blocks the configuration retains")
		}
	} else {
		c.und("floor-terms", "historyprunner.Migrate", "", "anchor not found")
	}
	c.floor("floor-terms", 4)
}

func c16CarveOuts(c *Ctx) {
	p := c.P
	if fn := p.Func("pruner", "", "PruneBlockDataUpto"); fn != nil {
		// the DeleteRange on blockHeadersRange must not take rangeEndExclusive itself as upper bound
		found := false
		for _, s := range sitesOf(fn) {
			if !strings.Contains(s.CalleeName(), "DeleteRange") {
				continue
			}
			rt := ""
			if len(s.Args()) > 0 {
				rt = term(s.Args()[0])
			}
			if !strings.Contains(rt, "blockHeadersRange") {
				continue
			}
			found = true
			end := term(s.Args()[len(s.Args())-1])
			ok := strings.Contains(end, "rangeEndExclusive - ") && strings.Contains(end, "0") && !strings.HasSuffix(end, "rangeEndExclusive")
			c.check(ok, "carve-outs", "pruner.PruneBlockDataUpto:headers", p.Pos(s.Pos()), "header range delete ends at φ(0, end − BlockHashLag)", "headers are range-deleted up to "+end+": the get_block_hash syscall window [end−lag, end) must be kept")
		}
		if !found {
			c.und("carve-outs", "pruner.PruneBlockDataUpto:headers", p.Pos(fnPos(fn)), "header DeleteRange not found")
		}
	} else {
		c.und("carve-outs", "pruner.PruneBlockDataUpto", "", "anchor not found")
	}
	if fn := p.Func("pruner", "", "pruneHashKeyedUpto"); fn != nil {
		n := 0
		for _, ds := range p.deepSites(fn, nameMatcher("DeleteBlockHeaderNumberByHash"), 2) {
			s := ds.Site
			at := term(s.Args()[1])
			if !strings.Contains(at, "BlockHash") { // the start-1 cleanup deletes the hash of an already-pruned block
				continue
			}
			n++
			d := p.mustHoldDeep(ds)
			ok, miss := everyDisjunctHas(d, []string{" != (endExclusive - 1))"}, []string{"^!", " == (endExclusive - 1))"}, []string{"^!", "((endExclusive - 1) == "}, []string{"((endExclusive - 1) != "})
			c.check(ok, "carve-outs", "pruner.pruneHashKeyedUpto:hash→number", p.Pos(s.Pos()), "hash→number of end−1 is kept", "the hash→number mapping of block end−1 is no longer skipped: StateAtBlockHash(end.parentHash) would fail: "+miss)
		}
		if n == 0 {
			c.und("carve-outs", "pruner.pruneHashKeyedUpto:hash→number", p.Pos(fnPos(fn)), "per-block hash→number delete not found")
		}
	} else {
		c.und("carve-outs", "pruner.pruneHashKeyedUpto", "", "anchor not found")
	}
	c.floor("carve-outs", 2)
}

// c16ResumeSafe: pruneHashKeyedUpto commits several batches; what it deletes must be disjoint from what it reads
// to drive itself and from what OldestRetainedBlock (the resume probe) reads.
func c16ResumeSafe(c *Ctx, rule string, ci *capInfo, r *resolver) {
	p := c.P
	ph := p.Func("pruner", "", "pruneHashKeyedUpto")
	or := p.Func("pruner", "", "OldestRetainedBlock")
	if ph == nil || or == nil {
		c.und(rule, "pruner.pruneHashKeyedUpto", "", "anchor not found")
		return
	}
	cut := atomicCut(c, true)
	effs := p.effectsFrom(r, ci, ph, cut)
	reads, _ := putBuckets(effs, "Get", "Has", "Iterate")
	dels, _ := putBuckets(effs, "Delete", "DeleteRange")
	probe, _ := putBuckets(p.effectsFrom(r, ci, or, cut), "Get", "Has", "Iterate")
	probeOnly := map[string]bool{}
	for b, e := range probe {
		if _, also := reads[b]; !also {
			probeOnly[b] = true
		}
		reads[b] = e
	}
	var ks []string
	for b := range dels {
		ks = append(ks, b)
	}
	sort.Strings(ks)
	if len(ks) < 3 || len(reads) < 3 {
		c.und(rule, "pruner.pruneHashKeyedUpto:effects", p.Pos(fnPos(ph)), fmt.Sprintf("effect sets too small (reads %d, deletes %d)", len(reads), len(ks)))
	}
	for _, b := range ks {
		_, clash := reads[b]
		if clash && probeOnly[b] {
			// The bucket the resume probe scans is the sweep's progress marker. Deleting it for the blocks already processed,
			// in the same batch as their history, moves the resume point past them atomically (C16/marker-with-history
			// checks exactly that pairing); the phase itself never reads it.
			c.ok(rule, "pruneHashKeyedUpto deletes "+b, p.Pos(dels[b].Pos), "progress marker of the resume probe, deleted together with the processed blocks' history (see marker-with-history); not read by the phase itself")
			continue
		}
		c.check(!clash, rule, "pruneHashKeyedUpto deletes "+b, p.Pos(dels[b].Pos), "bucket is not read by the multi-commit phase nor by the resume probe",
			fmt.Sprintf("the multi-commit phase of PruneUpto deletes bucket %s (%s) which the phase itself or OldestRetainedBlock reads (%s): after a crash between commits the resumed prune cannot find the data it needs", b, qname(dels[b].Fn), qname(reads[b].Fn)))
	}
}

// c16CancelAndGates: (cancel-before-effects) a cancellation check inside a pruning loop that reports how far it got sits
// before the iteration's deletions — checked after them, `break` skips the loop's post statement and the block just pruned
// is reported (and re-derived after a restart) as still retained; (state-gate-only) resolvers for state queries apply the
// state-retention test only: state is kept one block below the oldest retained block (the carve-out), which the
// block-retention gate rejects.
func c16CancelAndGates(c *Ctx) {
	p := c.P
	n := 0
	for _, fn := range p.sortedFuncs() {
		if pkgRelOf(fn) != "pruner" || fn.Origin() != nil || strings.HasSuffix(p.Pos(fnPos(fn)), "_test.go") {
			continue
		}
		ss := sitesOf(fn)
		for _, s := range ss {
			if !(s.Method != nil && s.Method.Name() == "Err" && strings.HasSuffix(typeShort(s.Recv.Type()), "context.Context")) {
				continue
			}
			if !inSameLoop(s.Block(), s.Block()) {
				continue
			}
			n++
			bad := ""
			for _, t := range ss {
				nm := ""
				if t.Callee != nil {
					nm = t.Callee.Name()
				} else if t.Method != nil {
					nm = t.Method.Name()
				}
				effect := strings.HasPrefix(nm, "Delete") || strings.HasPrefix(nm, "delete") || strings.HasPrefix(nm, "prune") || nm == "Write" || nm == "DeleteRange"
				if !effect || !inSameLoop(t.Block(), s.Block()) {
					continue
				}
				if !dominatesInstr(s.Instr, t.Instr) {
					bad = nm + " at " + p.Pos(t.Pos())
				}
			}
			c.check(bad == "", "cancel-before-effects", qname(fn)+": ctx.Err() in loop", p.Pos(s.Pos()), "the cancellation check precedes the iteration's deletions", "the cancellation check comes after "+bad+" of the same iteration: on cancellation the block just pruned is not counted, the sweep reports it as retained and the floor re-derived from disk advertises a damaged block")
		}
	}
	if n < 1 {
		c.und("cancel-before-effects", "pruner loops", "", "no cancellation check inside a pruning loop found")
	}
	k := 0
	for _, fn := range p.sortedFuncs() {
		if pkgRelOf(fn) != "pruner" || fn.Origin() != nil || fn.Parent() != nil || !strings.Contains(fn.Name(), "StateRetained") {
			continue
		}
		k++
		bad := ""
		reach := p.Reachable([]*ssa.Function{fn}, func(caller, callee *ssa.Function) bool { return pkgRelOf(callee) != "pruner" })
		for _, g := range reach.Funcs() {
			if g != fn && (g.Name() == "RequireRetained" || g.Name() == "OldestRetainedBlock") {
				bad = g.Name()
			}
		}
		c.check(bad == "", "state-gate-only", qname(fn), p.Pos(fnPos(fn)), "applies the state-retention test only", "a state-scoped resolver applies the block-retention gate ("+bad+"): state one block below the oldest retained block (kept on purpose, with its hash→number entry) is reported as pruned when asked for by hash")
	}
	if k < 3 {
		c.und("state-gate-only", "pruner *StateRetained* resolvers", "", fmt.Sprintf("only %d found", k))
	}
}

// c16MarkerWithHistory: the retention floor is re-derived at start-up from the block commitments. Every commit of the
// multi-batch sweep that deletes per-block history therefore also range-deletes the commitments of the blocks processed so
// far — otherwise a crash between two batches leaves the floor advertising blocks whose history is gone (F16).
func c16MarkerWithHistory(c *Ctx) {
	p := c.P
	f := p.Func("pruner", "", "pruneHashKeyedUpto")
	if f == nil {
		c.und("marker-with-history", "pruner.pruneHashKeyedUpto", "", "anchor not found")
		return
	}
	c.saw(qname(f))
	// sites of the function, of its local closures (a "delete the marker, then write" closure shared by the commits) and of
	// same-package helpers it calls (a method of a small batch-rotation type: refactoring C16-R10)
	isMark := func(s Site) bool {
		if !(s.Callee != nil && s.Callee.Name() == "DeleteRange" || s.Method != nil && s.Method.Name() == "DeleteRange") {
			return false
		}
		all := ""
		for _, a := range s.Args() {
			all += termF(a) + " "
		}
		if s.Recv != nil {
			all += termF(s.Recv)
		}
		return strings.Contains(all, "blockCommitmentsRange")
	}
	isWrite := func(s Site) bool {
		return s.Method != nil && s.Method.Name() == "Write" && strings.HasSuffix(typeShort(s.Recv.Type()), "db.Batch")
	}
	marks := p.deepSites(f, isMark, 2)
	writes := p.deepSites(f, isWrite, 2)
	n := 0
	inHelper := false
	for _, w := range writes {
		n++
		s := w.Site
		if s.Instr.Parent() != f {
			inHelper = true
		}
		ok := false
		for _, md := range marks {
			m := md.Site
			if m.Instr.Parent() != s.Instr.Parent() {
				continue
			}
			if dominatesInstr(m.Instr, s.Instr) && m.Block() == s.Block() || dominatesInstr(m.Instr, s.Instr) && !inSameLoop(m.Block(), m.Block()) && !inSameLoop(s.Block(), s.Block()) {
				ok = true
			}
			// inside the loop: the marker delete of the same iteration (same rotation branch) dominates the write
			if inSameLoop(m.Block(), s.Block()) && dominatesInstr(m.Instr, s.Instr) {
				ok = true
			}
		}
		c.check(ok, "marker-with-history", fmt.Sprintf("pruneHashKeyedUpto: batch commit #%d", n), p.Pos(s.Pos()), "the commit also range-deletes the block commitments of the blocks processed so far", "a batch of the sweep is committed without deleting the block commitments of the blocks whose history it removes: after a crash the floor re-derived from the commitments admits state queries for blocks whose history is already gone")
	}
	if n < 2 && !(inHelper && n == 1) {
		c.und("marker-with-history", "pruneHashKeyedUpto", p.Pos(fnPos(f)), fmt.Sprintf("only %d batch commits found", n))
	}
	// … up to and including the block whose history the current iteration has just deleted: a marker delete that runs inside
	// the sweep loop after the per-block deletions must end (exclusively) above the loop's block number, i.e. at counter + k,
	// k ≥ 1 — ending at the counter itself leaves the commitment of the block just pruned (seeded change C16-G).
	// the per-block deletions may sit in a same-package helper called from the loop (refactoring C05-R4)
	var perBlockSites []ssa.Instruction
	for _, ds := range p.deepSites(f, nameMatcher("pruneStateHistoryFromUpdate", "deleteTransactionHashReverseLookups"), 2) {
		perBlockSites = append(perBlockSites, ds.outer())
	}
	perBlock := func(in ssa.Instruction) bool {
		for _, s := range perBlockSites {
			if s.Parent() == in.Parent() && inSameLoop(s.Block(), in.Block()) && dominatesInstr(s, in) {
				return true
			}
		}
		return false
	}
	endOK := func(v ssa.Value) (bool, string) {
		b, ok := v.(*ssa.BinOp)
		if !ok || b.Op != token.ADD {
			return false, term(v)
		}
		k, isK := b.Y.(*ssa.Const)
		switch x := b.X.(type) {
		case *ssa.Phi, *ssa.Parameter:
		case *ssa.UnOp:
			if x.Op != token.MUL {
				return false, term(v) // counter kept in a named result / captured variable is a load
			}
		default:
			return false, term(v)
		}
		return isK && k.Value != nil && k.Int64() >= 1, term(v)
	}
	paramIdx := func(g *ssa.Function, v ssa.Value) int {
		pa, ok := v.(*ssa.Parameter)
		if !ok {
			return -1
		}
		for i, q := range g.Params {
			if q == pa {
				return i
			}
		}
		return -1
	}
	nm := 0
	for _, md := range marks {
		m := md.Site
		args := m.Args()
		if len(args) == 0 {
			continue
		}
		end := args[len(args)-1]
		g := m.Instr.Parent()
		if g == f {
			if !inSameLoop(m.Block(), m.Block()) || !perBlock(m.Instr) {
				continue
			}
			nm++
			ok, t := endOK(end)
			c.check(ok, "marker-with-history", fmt.Sprintf("pruneHashKeyedUpto: in-loop marker bound #%d", nm), p.Pos(m.Pos()), "ends above the block just pruned (counter + k)", "the commitments are deleted only below "+t+" although the history of the loop's current block was already deleted in this batch: after a crash behind this batch that block is advertised as retained")
			continue
		}
		// inside a local closure or a helper: the bound is (derived from) a parameter; judge every in-loop call
		var calls []Site
		if len(md.Chain) > 0 {
			calls = []Site{md.Chain[0]}
			if len(md.Chain) > 1 {
				continue // deeper than one helper level: out of the fragment (the commit pairing above still applies)
			}
		} else {
			for _, s := range sitesOf(f) {
				if s.Callee == g {
					calls = append(calls, s)
				}
			}
		}
		for _, s := range calls {
			if s.Instr.Parent() != f || !inSameLoop(s.Block(), s.Block()) || !perBlock(s.Instr) {
				continue
			}
			nm++
			var ok bool
			var t string
			if idx := paramIdx(g, end); idx >= 0 && idx < len(s.Args()) {
				ok, t = endOK(s.Args()[idx]) // bound passed in: the argument must already be counter + k
			} else if b, isB := end.(*ssa.BinOp); isB && paramIdx(g, b.X) >= 0 {
				ok, t = endOK(end) // helper adds the +k to its parameter
			} else {
				ok, t = false, term(end)
			}
			c.check(ok, "marker-with-history", fmt.Sprintf("pruneHashKeyedUpto: in-loop marker bound #%d", nm), p.Pos(s.Pos()), "ends above the block just pruned (counter + k)", "the commitments are deleted only below "+t+" although the history of the loop's current block was already deleted in this batch: after a crash behind this batch that block is advertised as retained")
		}
	}
	if nm == 0 {
		c.und("marker-with-history", "pruneHashKeyedUpto: in-loop marker bound", p.Pos(fnPos(f)), "no marker delete inside the sweep loop was recognised")
	}
}

// c16BloomWindowAndScratch: (bloom-window-floor) pruning keeps the aggregated bloom filter of the window the floor falls
// into: the first window kept starts at floor − floor % 8192 (aligned down from the floor itself); (scratch-wiped-last) the
// history-pruning migration wipes its scratch namespace only in its final clean-up — between the restorer's wipe of the live
// history and the end of the restore, the scratch copy is the only copy of the retained blocks' history.
func c16BloomWindowAndScratch(c *Ctx) {
	p := c.P
	if f := p.Func("pruner", "", "pruneAggregatedBloomFiltersUpto"); f != nil {
		n := 0
		var last *Site
		for _, s := range sitesOf(f) {
			s := s
			if strings.HasSuffix(s.CalleeName(), "AggregatedBloomFilterKey") {
				n++
				last = &s
			}
		}
		ok := false
		why := "end key not found"
		if last != nil {
			from := stripConv(last.Args()[0])
			if b, isB := from.(*ssa.BinOp); isB && b.Op == token.SUB {
				if rb, isR := stripConv(b.Y).(*ssa.BinOp); isR && rb.Op == token.REM && sameVal(rb.X, b.X) {
					if _, isPar := stripConv(b.X).(*ssa.Parameter); isPar {
						k, _ := constUint(stripConv(rb.Y))
						ok = k == winN
					}
				}
			}
			why = term(last.Args()[0])
		}
		c.check(ok && n >= 2, "bloom-window-floor", "pruneAggregatedBloomFiltersUpto: first window kept", p.Pos(fnPos(f)), "starts at end − end % 8192 (the window containing the floor is kept)", "the range delete of aggregated bloom filters ends at "+why+" instead of the floor aligned down to its window: for an unaligned floor the filter of the floor's own window is deleted although its blocks are retained, and event queries over them fail")
	} else {
		c.und("bloom-window-floor", "pruner.pruneAggregatedBloomFiltersUpto", "", "anchor not found")
	}
	ws := p.Func("migration/historyprunner", "", "wipeScratchSpace")
	if ws == nil {
		c.und("scratch-wiped-last", "historyprunner.wipeScratchSpace", "", "anchor not found")
		return
	}
	n := 0
	for _, s := range p.callersOf(ws) {
		fn := rootOf(s.Instr.Parent())
		n++
		// allowed: the final clean-up step only (after the restorer ran): the caller must also be the one that reports
		// completion — identified as the function that calls runRestorer before it, or a function only reachable after it
		okc := false
		if fn.Name() == "runRestorer" {
			// inside the restorer: only once the restore pipeline finished the whole range without error
			d := p.mustHoldAt(s.Instr)
			o1, _ := everyDisjunctHas(d, []string{"^!", " <= chainHeight)"}, []string{" > chainHeight)"})
			o2, _ := everyDisjunctHas(d, []string{"^!", ".Err != nil)"}, []string{"^!", "#1 != nil)"}, []string{"^!", " != nil)"})
			okc = o1 && o2
		}
		c.check(okc, "scratch-wiped-last", "wipeScratchSpace ← "+qname(fn), p.Pos(s.Pos()), "only inside the restorer, after it restored the whole range without error", "the scratch namespace is wiped from "+qname(fn)+", before the restore is known to be complete: after a non-graceful abort in the restore phase the scratch copy is the only copy of the retained history, and a fresh start deletes it")
	}
	if n == 0 {
		c.und("scratch-wiped-last", "wipeScratchSpace callers", "", "no caller found")
	}
}

// c16BoundOK: v never exceeds the block-count floor: it is `X − retained` (term contains want), min(…) of such a value, a
// φ / local of such values, or the result of a same-package helper that returns its floor parameter or min(…, parameter).
func c16BoundOK(v ssa.Value, want string, depth int) bool {
	if depth > 5 || v == nil {
		return false
	}
	switch x := stripConv(v).(type) {
	case *ssa.BinOp:
		return x.Op == token.SUB && strings.Contains(term(x), want)
	case *ssa.Phi:
		for _, e := range x.Edges {
			if !c16BoundOK(e, want, depth+1) {
				return false
			}
		}
		return len(x.Edges) > 0
	case *ssa.UnOp:
		if a, ok := x.X.(*ssa.Alloc); ok && x.Op == token.MUL && a.Referrers() != nil {
			n := 0
			for _, r := range *a.Referrers() {
				if st, ok := r.(*ssa.Store); ok && st.Addr == ssa.Value(a) {
					n++
					if !c16BoundOK(st.Val, want, depth+1) {
						return false
					}
				}
			}
			return n > 0
		}
	case *ssa.Call:
		if b, ok := x.Call.Value.(*ssa.Builtin); ok && b.Name() == "min" {
			for _, a := range x.Call.Args {
				if c16BoundOK(a, want, depth+1) {
					return true
				}
			}
			return false
		}
		g := x.Call.StaticCallee()
		if g == nil || len(g.Blocks) == 0 || x.Parent() == nil || pkgRelOf(g) != pkgRelOf(x.Parent()) {
			return false
		}
		rets := returnsOf(g)
		for _, r := range rets {
			if len(r.Results) == 1 && c16RetOK(r.Results[0], g, x.Call.Args, want, depth+1) {
				continue
			}
			// min written as a comparison: some other value is returned on a path that compared it with a parameter whose
			// argument is the accepted bound (the value returned is then at most that bound, whichever way the test went)
			okCmp := false
			if len(r.Results) == 1 {
				rv := stripConv(r.Results[0])
				for _, f := range factsAt(r.Ret) {
					b, isB := f.Cond.(*ssa.BinOp)
					if !isB || (b.Op != token.LSS && b.Op != token.LEQ && b.Op != token.GTR && b.Op != token.GEQ) {
						continue
					}
					var other ssa.Value
					if stripConv(b.X) == rv {
						other = stripConv(b.Y)
					} else if stripConv(b.Y) == rv {
						other = stripConv(b.X)
					}
					if prm, isP := other.(*ssa.Parameter); isP {
						for k, gp := range g.Params {
							if gp == prm && k < len(x.Call.Args) && c16BoundOK(x.Call.Args[k], want, depth+1) {
								// the returned value must be the smaller one on this path
								smaller := (b.Op == token.LSS || b.Op == token.LEQ) == (stripConv(b.X) == rv) == f.Pos
								if smaller {
									okCmp = true
								}
							}
						}
					}
				}
			}
			if !okCmp {
				return false
			}
		}
		return len(rets) > 0
	}
	return false
}

func c16RetOK(rv ssa.Value, g *ssa.Function, args []ssa.Value, want string, depth int) bool {
	if depth > 6 {
		return false
	}
	argOf := func(v ssa.Value) ssa.Value {
		for k, prm := range g.Params {
			if ssa.Value(prm) == v && k < len(args) {
				return args[k]
			}
		}
		return nil
	}
	switch y := stripConv(rv).(type) {
	case *ssa.Parameter:
		return c16BoundOK(argOf(y), want, depth+1)
	case *ssa.Phi:
		for _, e := range y.Edges {
			if !c16RetOK(e, g, args, want, depth+1) {
				return false
			}
		}
		return len(y.Edges) > 0
	case *ssa.Call:
		if b, ok := y.Call.Value.(*ssa.Builtin); ok && b.Name() == "min" {
			for _, a := range y.Call.Args {
				if c16RetOK(a, g, args, want, depth+1) {
					return true
				}
			}
			return false
		}
		// a nested helper: its arguments are expressed in g's parameters
		h := y.Call.StaticCallee()
		if h == nil || len(h.Blocks) == 0 || pkgRelOf(h) != pkgRelOf(g) {
			return false
		}
		for _, r := range returnsOf(h) {
			if len(r.Results) != 1 {
				return false
			}
			switch z := stripConv(r.Results[0]).(type) {
			case *ssa.Parameter:
				ok := false
				for k, prm := range h.Params {
					if prm == z && k < len(y.Call.Args) && c16RetOK(y.Call.Args[k], g, args, want, depth+1) {
						ok = true
					}
				}
				if !ok {
					return false
				}
			case *ssa.Call:
				b, isB := z.Call.Value.(*ssa.Builtin)
				if !isB || b.Name() != "min" {
					return false
				}
				ok := false
				for _, a := range z.Call.Args {
					if prm, isP := a.(*ssa.Parameter); isP {
						for k, q := range h.Params {
							if q == prm && k < len(y.Call.Args) && c16RetOK(y.Call.Args[k], g, args, want, depth+1) {
								ok = true
							}
						}
					}
				}
				if !ok {
					return false
				}
			default:
				return false
			}
		}
		return true
	case *ssa.BinOp:
		// the floor computed inside the helper from its own parameters (head.Number − retained)
		if y.Op != token.SUB {
			return false
		}
		t := termP(y)
		for k := len(args) - 1; k >= 0; k-- {
			t = strings.ReplaceAll(t, fmt.Sprintf("$%d", k), term(args[k]))
		}
		return strings.Contains(t, want)
	}
	return false
}

// c16InitOneView: the pruning node's start-up initialisation of the running event filter reads the chain height, the retention
// floor, the stored filter AND every header of the range it walks from ONE database snapshot. The floor is only meaningful
// for the view it was read from: if the header walk reads the live database instead (seeded change C16-I releases the snapshot
// early "to not pin pebble"), a prune that advances the floor in between deletes headers the walk was clamped to, the
// initialisation fails, and — being stored under a sync.Once — every later Store, RevertHead and events query fails with it.
func c16InitOneView(c *Ctx) {
	p := c.P
	f := p.Func("pruner", "", "InitializeRunningEventFilter")
	if f == nil {
		c.und("init-one-view", "pruner.InitializeRunningEventFilter", "", "anchor not found")
		return
	}
	var snap *ssa.Call
	for _, s := range sitesOf(f) {
		if s.Method != nil && s.Method.Name() == "NewSnapshot" {
			snap, _ = s.Instr.(*ssa.Call)
		}
	}
	if snap == nil {
		c.viol("init-one-view", "InitializeRunningEventFilter: snapshot", p.Pos(fnPos(f)), "the initialisation no longer reads from a database snapshot")
		return
	}
	fromSnap := func(v ssa.Value) bool {
		for d := 0; v != nil && d < 6; d++ {
			if v == ssa.Value(snap) {
				return true
			}
			switch x := v.(type) {
			case *ssa.ChangeInterface:
				v = x.X
			case *ssa.MakeInterface:
				v = x.X
			case *ssa.ChangeType:
				v = x.X
			case *ssa.UnOp:
				a, isA := x.X.(*ssa.Alloc)
				if !isA {
					return false
				}
				st := singleStore(a)
				if st == nil {
					return false
				}
				v = st.Val
			default:
				return false
			}
		}
		return false
	}
	n := 0
	var reads []ssa.Instruction
	for _, s := range sitesOf(f) {
		if s.Callee == nil || s.Instr == ssa.Instruction(snap) {
			continue
		}
		sig := s.Callee.Signature
		args := s.Args()
		off := 0
		if sig.Recv() != nil {
			off = 1
		}
		for i := 0; i < sig.Params().Len() && i+off < len(args); i++ {
			if !strings.HasSuffix(sig.Params().At(i).Type().String(), "juno/db.KeyValueReader") {
				continue
			}
			n++
			reads = append(reads, s.Instr)
			c.check(fromSnap(args[i+off]), "init-one-view", fmt.Sprintf("InitializeRunningEventFilter → %s (reader)", s.Callee.Name()), p.Pos(s.Pos()), "reads through the snapshot taken at the start", "this read goes through "+term(args[i+off])+", not through the snapshot the retention floor was read from: a concurrent prune can delete what the floor promised")
		}
	}
	// the snapshot stays open while it is read: its Close is deferred, or no explicit Close precedes a read
	for _, s := range sitesOf(f) {
		if s.Method == nil || s.Method.Name() != "Close" || !fromSnap(s.Recv) {
			continue
		}
		if _, isDefer := s.Instr.(*ssa.Defer); isDefer {
			continue
		}
		bad := false
		for _, r := range reads {
			if dominatesInstr(s.Instr, r) {
				bad = true
			}
		}
		c.check(!bad, "init-one-view", "InitializeRunningEventFilter: snapshot released", p.Pos(s.Pos()), "released after the last read", "the snapshot is closed before reads that go through it")
	}
	if n < 4 {
		c.und("init-one-view", "InitializeRunningEventFilter", p.Pos(fnPos(f)), fmt.Sprintf("only %d reader-taking calls found", n))
	}
}
