package main

import (
	"fmt"
	"go/token"
	"go/types"
	"strings"

	"golang.org/x/tools/go/ssa"
)

func init() {
	register("C15", func(c *Ctx) {
		p := c.P
		c.Explain = "Agreement of the sibling database backends on conventions visible in code shape: (not-found-translation) every Has/Get of DB, batch and snapshot in db/pebble and db/pebblev2 classifies pebble.ErrNotFound (Has → (false,nil), Get → db.ErrKeyNotFound); (helper-contract) shared with C05; (upper-bound) every NewIterator applies dbutils.UpperBound(prefix) iff withUpperBound; " +
			"(interface-complete) every backend type implements the db interfaces it is used as; (buffer-batch) BufferBatch.Flush replays every buffered key, deleting nil values; (batch-view) the in-memory batch never reads the committed database without consulting its own pending writes first; (single-section) every reader method of the in-memory database takes the read lock exactly once (one consistent view per call). " +
			"Not decided: behavioural equivalence of iterators, range deletes, snapshot isolation and batch ordering across backends (differential, run-time questions)."
		// not-found-translation
		n := 0
		for _, pk := range []string{"db/pebble", "db/pebblev2"} {
			for _, recv := range []string{"DB", "batch", "snapshot"} {
				for _, m := range []string{"Has", "Get"} {
					f := p.Func(pk, recv, m)
					if f == nil {
						c.und("not-found-translation", pk+"."+recv+"."+m, "", "method not found")
						continue
					}
					n++
					c.saw(qname(f))
					construct := pk + "." + recv + "." + m
					// underlying Get
					var under *ssa.Call
					for _, s := range sitesOf(f) {
						if s.Callee != nil && s.Callee.Name() == "Get" && s.Callee.Pkg != nil && strings.Contains(s.Callee.Pkg.Pkg.Path(), "cockroachdb/pebble") {
							if call, ok := s.Instr.(*ssa.Call); ok {
								under = call
							}
						}
					}
					if under == nil {
						c.und("not-found-translation", construct, p.Pos(fnPos(f)), "underlying pebble Get not found")
						continue
					}
					// a return under errors.Is(err, pebble.ErrNotFound)
					ok := false
					for _, ret := range returnsOf(f) {
						d := p.mustHoldAt(ret.Ret)
						if yes, _ := everyDisjunctHas(d, []string{"errors.Is(", "ErrNotFound"}); !yes || len(d) == 0 {
							continue
						}
						last := term(ret.Results[len(ret.Results)-1])
						if m == "Has" {
							ok = isNilConst(ret.Results[1]) && term(ret.Results[0]) == "false"
						} else {
							ok = strings.HasSuffix(last, "db.ErrKeyNotFound")
						}
					}
					want := map[string]string{"Has": "(false, nil)", "Get": "db.ErrKeyNotFound"}[m]
					c.check(ok, "not-found-translation", construct, p.Pos(fnPos(f)), "absent key → "+want, "pebble.ErrNotFound is not translated to "+want+": callers see a backend-specific error for an absent key (memory backend returns "+want+")")
				}
			}
		}
		c.floor("not-found-translation", 12)
		c.needFixture("not-found-translation")
		c15Fixture(c)
		c15Iterators(c)

		// helper-contract
		ci := p.caps()
		for nm := range ci.storeImpl {
			for _, mname := range []string{"Write", "Update"} {
				fn := p.SSA.LookupMethod(types.NewPointer(nm), nm.Obj().Pkg(), mname)
				if fn != nil && fn.Blocks != nil {
					checkHelperContract(c, fn)
				}
			}
		}
		// upper-bound
		nu := 0
		for _, fn := range p.sortedFuncs() {
			pr := pkgRelOf(fn)
			if !(strings.HasPrefix(pr, "db/pebble") || pr == "db/memory") || fn.Name() != "NewIterator" || fn.Signature.Recv() == nil {
				continue
			}
			// the bound may be computed here or in a same-package options helper
			ub := p.deepSites(fn, func(s Site) bool { return strings.HasSuffix(s.CalleeName(), "dbutils.UpperBound") }, 2)
			if len(ub) == 0 {
				// delegating implementations (memory batch builds a temp DB and delegates)
				deleg := false
				for _, s := range sitesOf(fn) {
					if strings.HasSuffix(s.CalleeName(), ".NewIterator") && len(s.Args()) >= 3 {
						if _, isParam := s.Args()[len(s.Args())-1].(*ssa.Parameter); isParam {
							deleg = true
						}
					}
				}
				nu++
				c.check(deleg, "upper-bound", qname(fn), p.Pos(fnPos(fn)), "delegates with withUpperBound passed through", "NewIterator neither applies dbutils.UpperBound nor delegates the withUpperBound flag")
				continue
			}
			for _, ds := range ub {
				s := ds.Site
				nu++
				d := p.mustHoldDeep(ds)
				ok, miss := everyDisjunctHas(d, []string{"withUpperBound"})
				argOK := false
				if len(s.Args()) > 0 {
					// the argument is the prefix parameter of NewIterator (passed down the helper chain unchanged)
					v := s.Args()[0]
					for i := len(ds.Chain) - 1; i >= 0 && v != nil; i-- {
						prm, isParam := v.(*ssa.Parameter)
						v = nil
						if isParam {
							for k, q := range prm.Parent().Params {
								if q == prm && k < len(ds.Chain[i].Args()) {
									v = ds.Chain[i].Args()[k]
								}
							}
						}
					}
					if prm, isParam := v.(*ssa.Parameter); isParam && prm.Parent() == fn {
						argOK = true
					}
				}
				c.check(ok && argOK, "upper-bound", qname(fn), p.Pos(s.Pos()), "UpperBound(prefix) only under withUpperBound", "the iterator's upper bound is not dbutils.UpperBound(<prefix parameter>) guarded by withUpperBound: "+miss)
			}
		}
		if nu < 6 {
			c.und("upper-bound", "NewIterator implementations", "", fmt.Sprintf("only %d found", nu))
		}
		c15UpperBoundTruncated(c)
		c15PebbleBatch(c)
		// interface-complete
		get := func(n string) *types.Interface {
			t := p.lookupType("db", n)
			if t == nil {
				return nil
			}
			i, _ := t.Underlying().(*types.Interface)
			return i
		}
		for _, row := range []struct{ pkg, typ, iface string }{
			{"db/memory", "Database", "KeyValueStore"}, {"db/pebble", "DB", "KeyValueStore"}, {"db/pebblev2", "DB", "KeyValueStore"}, {"db/remote", "DB", "KeyValueStore"},
			{"db/memory", "batch", "IndexedBatch"}, {"db/pebble", "batch", "IndexedBatch"}, {"db/pebblev2", "batch", "IndexedBatch"},
			{"db/memory", "Database", "Snapshot"}, {"db/pebble", "snapshot", "Snapshot"}, {"db/pebblev2", "snapshot", "Snapshot"},
			{"db/memory", "iterator", "Iterator"}, {"db/pebble", "iterator", "Iterator"}, {"db/pebblev2", "iterator", "Iterator"},
			{"db", "BufferBatch", "Batch"}, {"db", "SyncBatch", "IndexedBatch"},
		} {
			t := p.lookupType(row.pkg, row.typ)
			i := get(row.iface)
			ok := t != nil && i != nil && (types.Implements(types.NewPointer(t), i) || types.Implements(t, i))
			c.check(ok, "interface-complete", row.pkg+"."+row.typ+" implements db."+row.iface, "", "method set complete", row.pkg+"."+row.typ+" no longer implements db."+row.iface)
		}
		// buffer-batch
		if f := p.Func("db", "BufferBatch", "Flush"); f != nil {
			put, del := findSite(f, "Put"), findSite(f, "Delete")
			if put == nil || del == nil {
				// the replay may sit in a same-package method Flush delegates to
				for _, h := range samePkgScope(f, 2) {
					if pp, dl := findSite(h, "Put"), findSite(h, "Delete"); pp != nil && dl != nil {
						put, del = pp, dl
					}
				}
			}
			ok := put != nil && del != nil
			if ok {
				dd := p.mustHoldAt(del.Instr)
				dp := p.mustHoldAt(put.Instr)
				o1, _ := everyDisjunctHas(dd, []string{"== nil"})
				o2, _ := everyDisjunctHas(dp, []string{"^!", "== nil"}, []string{"!= nil"})
				ok = o1 && o2
			}
			c.check(ok, "buffer-batch", "db.BufferBatch.Flush", p.Pos(fnPos(f)), "nil value → Delete, otherwise Put", "BufferBatch.Flush no longer replays buffered deletes as Delete and writes as Put")
		} else {
			c.und("buffer-batch", "db.BufferBatch.Flush", "", "anchor not found")
		}
		// batch-view (memory)
		nb := 0
		for _, m := range []string{"Get", "Has", "DeleteRange", "NewIterator"} {
			f := p.Func("db/memory", "batch", m)
			if f == nil {
				c.und("batch-view", "memory.batch."+m, "", "anchor not found")
				continue
			}
			// reads of the committed database: index into b.db.db, or reader calls on b.db
			var reads, scans []ssa.Instruction
			allInstrs(f, func(in ssa.Instruction) {
				switch x := in.(type) {
				case *ssa.Lookup:
					if strings.HasSuffix(term(x.X), "b.db.db") {
						reads = append(reads, in)
					}
				case *ssa.Range:
					// a scan of the committed map (seeded change C15-L collects the keys of a range delete this way)
					if strings.HasSuffix(term(x.X), "b.db.db") {
						scans = append(scans, in)
					}
				case *ssa.Call:
					if cal := x.Call.StaticCallee(); cal != nil && cal.Signature.Recv() != nil && isNamed(cal.Signature.Recv().Type(), "db/memory", "Database") {
						if (cal.Name() == "Get" || cal.Name() == "Has" || cal.Name() == "NewIterator") && len(x.Call.Args) > 0 && strings.HasSuffix(term(x.Call.Args[0]), "b.db") {
							reads = append(reads, in)
						}
					}
				}
			})
			for _, sc := range scans {
				nb++
				// a scan sees committed keys only; it is a view of the batch only if the same method also walks its pending writes
				merged := false
				allInstrs(f, func(in ssa.Instruction) {
					switch x := in.(type) {
					case *ssa.Range:
						if strings.HasSuffix(term(x.X), "b.writeMap") {
							merged = true
						}
					case *ssa.Lookup:
						if strings.HasSuffix(term(x.X), "b.writeMap") {
							merged = true
						}
					}
				})
				c.check(merged, "batch-view", "memory.batch."+m+" (scan)", p.Pos(posOf(sc, f)), "the scan of the committed map is merged with the batch's pending writes", "the in-memory batch scans the committed database's map without looking at its own pending writes: a key Put earlier in the same batch is invisible to the scan (a covering DeleteRange leaves it behind, unlike Pebble)")
			}
			if len(reads) == 0 && len(scans) == 0 {
				nb++
				c.ok("batch-view", "memory.batch."+m, p.Pos(fnPos(f)), "does not read the committed database directly (uses the batch's own view)")
				continue
			}
			for _, r := range reads {
				nb++
				// dominated by a lookup in b.writeMap whose `ok` is false
				ok, miss := everyDisjunctHas(p.mustHoldAt(r), []string{"^!", "b.writeMap[", "#1"})
				c.check(ok, "batch-view", "memory.batch."+m, p.Pos(posOf(r, f)), "committed data is read only after the batch's own pending writes were consulted", "the in-memory batch reads the committed database without consulting its pending writes: a Put/Delete earlier in the same batch is invisible ("+miss+")")
			}
		}
		if nb < 4 {
			c.und("batch-view", "memory.batch", "", "reader methods not recognised")
		}
		// single-section (memory.Database readers)
		for _, m := range []string{"Get", "Has", "NewIterator"} {
			f := p.Func("db/memory", "Database", m)
			if f == nil {
				c.und("single-section", "memory.Database."+m, "", "anchor not found")
				continue
			}
			nl := 0
			for _, s := range sitesOf(f) {
				if _, isDefer := s.Instr.(*ssa.Defer); isDefer {
					continue
				}
				if s.Callee != nil && (s.Callee.Name() == "RLock" || s.Callee.Name() == "Lock") {
					nl++
				}
			}
			c.check(nl == 1, "single-section", "memory.Database."+m, p.Pos(fnPos(f)), "one critical section per read", fmt.Sprintf("the reader takes the lock %d times: a concurrent batch commit can land between the sections and the reader observes a half-applied batch", nl))
		}
	})
}

// c15Fixture: positive control — a Has that forgets the translation (fixture file in db/pebblev2).
func c15Fixture(c *Ctx) {
	p := c.P
	f := p.Func("db/pebblev2", "snapshot", "zzVerifFixtureC15Has")
	if f == nil {
		return
	}
	ok := false
	for _, ret := range returnsOf(f) {
		d := p.mustHoldAt(ret.Ret)
		if yes, _ := everyDisjunctHas(d, []string{"errors.Is(", "ErrNotFound"}); yes && len(d) > 0 {
			ok = true
		}
	}
	c.check(ok, "not-found-translation", "zzVerifFixture snapshot.Has", p.Pos(fnPos(f)), "", "fixture: no translation")
}

// c15Iterators: (unpositioned-first) the Pebble-backed iterators forward Next/Prev to the native iterator only once they
// have been positioned; before that both mean First() — the documented contract the in-memory backend implements (native
// Pebble treats Prev on a fresh iterator as "go to last"). (batch-records-unconditionally) a batch records Put/Delete
// without looking at the current contents: what a write means is decided when the batch commits, as in Pebble.
func c15Iterators(c *Ctx) {
	p := c.P
	n := 0
	for _, pk := range []string{"db/pebble", "db/pebblev2"} {
		for _, m := range []string{"Next", "Prev"} {
			f := p.Func(pk, "iterator", m)
			if f == nil {
				c.und("unpositioned-first", pk+".iterator."+m, "", "anchor not found")
				continue
			}
			n++
			var native *Site
			for _, s := range sitesOf(f) {
				s := s
				if (s.Callee != nil && s.Callee.Name() == m || s.Method != nil && s.Method.Name() == m) && strings.Contains(term(s.Args()[0]), ".iter") {
					native = &s
				}
			}
			if native == nil {
				c.viol("unpositioned-first", pk+".iterator."+m, p.Pos(fnPos(f)), "no longer forwards to the native iterator")
				continue
			}
			ok, miss := everyDisjunctHas(p.mustHoldAt(native.Instr), []string{"$.positioned"})
			first := findSite(f, "First")
			c.check(ok && first != nil, "unpositioned-first", pk+".iterator."+m, p.Pos(native.Pos()), "native "+m+" only after the iterator was positioned; First() before", "the wrapper forwards "+m+"() to the native iterator although it was never positioned: backends disagree (Pebble's Prev on a fresh iterator goes to the last key, the contract and the memory backend go to the first): "+miss)
		}
	}
	for _, m := range []string{"Put", "Delete"} {
		f := p.Func("db/memory", "batch", m)
		if f == nil {
			c.und("batch-records-unconditionally", "memory.batch."+m, "", "anchor not found")
			continue
		}
		n++
		bad := ""
		for _, s := range sitesOf(f) {
			nm := ""
			if s.Callee != nil {
				nm = s.Callee.Name()
			} else if s.Method != nil {
				nm = s.Method.Name()
			}
			switch nm {
			case "Has", "Get", "NewIterator", "get", "has":
				bad = nm
			}
		}
		c.check(bad == "", "batch-records-unconditionally", "memory.batch."+m, p.Pos(fnPos(f)), "recorded without reading current contents", "the batch decides at recording time, from the current contents ("+bad+"), whether to record the operation: a delete of a key that another writer creates before the batch commits is lost, unlike Pebble's tombstone")
	}
	if n < 6 {
		c.und("unpositioned-first", "db iterators", "", fmt.Sprintf("only %d anchors found", n))
	}
}

// c15UpperBoundTruncated: the exclusive upper bound of a prefix scan is the prefix cut after its last byte that is not 0xff,
// with that byte incremented — the returned slice ENDS at the incremented byte. A bound that keeps the bytes after it
// ("add one with carry": [1,255] → [2,0]) is larger than the shortest successor [2], so a scan bounded by it also returns
// the key [2] itself, which does not have the prefix. Pebble-backed scans use the bound with no further filtering, the
// in-memory backend re-checks the prefix and hides the difference (seeded changes C15-E and C15-H, written independently).
// Decided on the SSA of dbutils.UpperBound: every non-nil result r has exactly the length idx+1, where idx is the index of the
// element store `r[idx] = r[idx] + 1` (r made/sliced with length idx+1, or idx = len(r)-1).
func c15UpperBoundTruncated(c *Ctx) {
	p := c.P
	f := p.Func("db/dbutils", "", "UpperBound")
	if f == nil {
		c.und("upper-bound-truncated", "dbutils.UpperBound", "", "anchor not found")
		return
	}
	n := 0
	for _, ret := range returnsOf(f) {
		if len(ret.Results) != 1 || isNilConst(ret.Results[0]) {
			continue
		}
		n++
		r := ret.Results[0]
		// the increment store into r
		var idx ssa.Value
		allInstrsOne(f, func(in ssa.Instruction) {
			st, ok := in.(*ssa.Store)
			if !ok {
				return
			}
			ia, ok := st.Addr.(*ssa.IndexAddr)
			if !ok || ia.X != r {
				return
			}
			b, ok := st.Val.(*ssa.BinOp)
			if !ok || b.Op != token.ADD {
				return
			}
			if k, isK := b.Y.(*ssa.Const); !isK || k.Value == nil || k.Int64() != 1 {
				return
			}
			if dominatesInstr(in, ret.Ret) {
				idx = ia.Index
			}
		})
		construct := fmt.Sprintf("dbutils.UpperBound: result #%d", n)
		if idx == nil {
			c.und("upper-bound-truncated", construct, p.Pos(posOf(ret.Ret, f)), "the increment of the bound's last byte was not recognised for the returned slice "+term(r))
			continue
		}
		it := term(idx)
		ok := false
		how := ""
		switch x := r.(type) {
		case *ssa.MakeSlice:
			ok = term(x.Len) == "("+it+" + 1)"
			how = "make([]byte, " + term(x.Len) + ")"
		case *ssa.Slice:
			ok = x.High != nil && term(x.High) == "("+it+" + 1)"
			how = term(r)
		default:
			how = term(r)
		}
		if !ok && (it == "(len("+term(r)+") - 1)") {
			ok = true
		}
		c.check(ok, "upper-bound-truncated", construct, p.Pos(posOf(ret.Ret, f)), "the bound ends at the incremented byte (length = index + 1)", "the returned bound "+how+" is not cut after the incremented byte (index "+it+"): for a prefix ending in 0xff it keeps trailing bytes, is larger than the shortest successor, and a bounded scan returns a key outside the prefix")
	}
	if n == 0 {
		c.und("upper-bound-truncated", "dbutils.UpperBound", p.Pos(fnPos(f)), "no non-nil result found")
	}
}

// c15PebbleBatch: the Pebble-backed batch is one unit of atomicity with its own read view. (commit-only-in-write) the
// underlying pebble batch is committed/applied only by the batch's Write method — a Put or Delete that commits on its own
// ("spill" when the batch grows, seeded change C05-J) splits what the callers treat as one atomic unit; (batch-view) the
// batch's readers (Get/Has/NewIterator) read through the underlying indexed pebble batch, never through the database the
// batch belongs to — a shortcut to the database's iterator (seeded change C15-J: when the tracked size is 0) ignores the
// batch's own pending range deletes.
func c15PebbleBatch(c *Ctx) {
	p := c.P
	for _, pkg := range []string{"db/pebble", "db/pebblev2"} {
		nw := 0
		for _, fn := range p.sortedFuncs() {
			if pkgRelOf(fn) != pkg || fn.Signature.Recv() == nil || recvName(fn.Signature.Recv().Type()) != "batch" || len(fn.Blocks) == 0 {
				continue
			}
			// a method that only Write calls is a part of Write (Write split into Write + commitAndClose)
			if fn.Name() != "Write" && p.calledOnlyFromAny(fn, map[string]bool{"Write": true}, 0) {
				continue
			}
			reach := p.Reachable([]*ssa.Function{fn}, func(caller, callee *ssa.Function) bool { return pkgRelOf(callee) != pkg })
			for _, g := range reach.Funcs() {
				for _, s := range sitesOf(g) {
					nm := s.CalleeName()
					isPebble := strings.Contains(nm, "cockroachdb/pebble")
					if isPebble && (strings.HasSuffix(nm, "Batch).Commit") || strings.HasSuffix(nm, "Batch).Apply") || strings.HasSuffix(nm, "DB).Apply")) && fn.Name() != "Write" {
						c.viol("batch-commit-only-in-write", pkg+".batch."+fn.Name(), p.Pos(s.Pos()), "the pebble batch is committed from "+fn.Name()+" (via "+reach.Path(g)+"): the batch no longer is one atomic unit — what was buffered so far becomes durable although the caller may still fail and drop the batch")
					}
					if isPebble && strings.HasSuffix(nm, "Batch).Commit") && fn.Name() == "Write" {
						nw++
					}
				}
			}
			// batch-view
			switch fn.Name() {
			case "Get", "Has", "NewIterator":
				bad := ""
				for _, g := range reach.Funcs() {
					for _, s := range sitesOf(g) {
						if s.Callee != nil && s.Callee.Signature.Recv() != nil && pkgRelOf(s.Callee) == pkg && recvName(s.Callee.Signature.Recv().Type()) == "DB" {
							switch s.Callee.Name() {
							case "Get", "Has", "NewIterator", "NewSnapshot":
								bad = s.Callee.Name()
							}
						}
						if nm := s.CalleeName(); strings.Contains(nm, "cockroachdb/pebble") && (strings.HasSuffix(nm, "DB).NewIter") || strings.HasSuffix(nm, "DB).Get")) {
							bad = nm
						}
					}
				}
				c.check(bad == "", "batch-view", pkg+".batch."+fn.Name(), p.Pos(fnPos(fn)), "reads through the underlying indexed batch", "the batch's "+fn.Name()+" reads the database directly ("+bad+"): writes and range deletes pending in the batch are invisible to it")
			}
		}
		if nw == 0 {
			c.und("batch-commit-only-in-write", pkg+".batch.Write", "", "the commit of the underlying batch was not found")
		} else {
			c.ok("batch-commit-only-in-write", pkg+".batch", "", "the underlying batch is committed only by Write")
		}
	}
}
