package main

import (
	"fmt"
	"go/types"
	"sort"
	"strings"

	"golang.org/x/tools/go/ssa"
)

// memoKeyRule: (memo-key) a look-aside memo — a function that looks a key up in a long-lived container (a map or cache
// held in a field of its receiver or in a package-level variable), and on a miss computes a value and files it under the
// same key — must key the container by everything the computed value depends on: every parameter of the function that the
// stored value is computed from also takes part in the key. A memo keyed by less replays the answer computed for one input
// for another one. Seeded changes: C12-L (voting power remembered per address although it is asked per (height, address) —
// early votes for the next height are weighed with this height's power), C02-K (Sierra program/ABI digests remembered under the
// *claimed* class hash — the claim the digest is there to verify), C19-K (rejected signatures remembered per (key, signature)
// without the signed fields). The receiver itself and context.Context parameters are not inputs in this sense.
func memoKeyRule(c *Ctx, rule string, inScope func(pkgRel string) bool) int {
	p := c.P
	n := 0
	longLived := func(v ssa.Value, fn *ssa.Function) (string, bool) {
		// the container value: a load of a field of a parameter (receiver) / of a global, or a field address handed as receiver
		root := v
		for d := 0; root != nil && d < 6; d++ {
			switch x := root.(type) {
			case *ssa.UnOp:
				root = x.X
				continue
			case *ssa.FieldAddr:
				if _, isPar := x.X.(*ssa.Parameter); isPar {
					return term(v), true
				}
				if u, isLoad := x.X.(*ssa.UnOp); isLoad {
					if _, isG := u.X.(*ssa.Global); isG {
						return term(v), true
					}
					if fa2, isFA := u.X.(*ssa.FieldAddr); isFA {
						if _, isPar := fa2.X.(*ssa.Parameter); isPar {
							return term(v), true
						}
					}
				}
				return "", false
			case *ssa.Global:
				return term(v), true
			case *ssa.MakeInterface:
				root = x.X
				continue
			}
			break
		}
		return "", false
	}
	type look struct {
		cont string
		key  ssa.Value
		pos  ssa.Instruction
	}
	for _, fn := range p.sortedFuncs() {
		if fn.Origin() != nil || !inScope(pkgRelOf(fn)) || strings.HasSuffix(p.Pos(fnPos(fn)), "_test.go") || p.InFixture(fnPos(fn)) && !strings.Contains(fn.Name(), "zzVerifFixtureMemo") {
			continue
		}
		var looks []look
		type fill struct {
			cont     string
			key, val ssa.Value
			pos      ssa.Instruction
		}
		var fills []fill
		allInstrsOne(fn, func(in ssa.Instruction) {
			switch x := in.(type) {
			case *ssa.Lookup:
				if ct, ok := longLived(x.X, fn); ok {
					looks = append(looks, look{ct, x.Index, in})
				}
			case *ssa.MapUpdate:
				if ct, ok := longLived(x.Map, fn); ok {
					fills = append(fills, fill{ct, x.Key, x.Value, in})
				}
			}
		})
		for _, s := range sitesOf(fn) {
			nm := ""
			if s.Callee != nil && s.Callee.Signature.Recv() != nil {
				nm = s.Callee.Name()
			} else if s.Method != nil {
				nm = s.Method.Name()
			}
			if nm == "" || s.Recv == nil {
				continue
			}
			ct, ok := longLived(s.Recv, fn)
			if !ok {
				continue
			}
			args := s.Args()
			if s.Callee != nil { // static method call: receiver is args[0]
				args = args[1:]
			}
			switch nm {
			case "Get", "Peek", "Load", "Contains":
				if len(args) >= 1 {
					looks = append(looks, look{ct, args[0], s.Instr})
				}
			case "Add", "Set", "Put", "Store", "ContainsOrAdd", "PeekOrAdd", "LoadOrStore":
				if len(args) >= 2 {
					fills = append(fills, fill{ct, args[0], args[1], s.Instr})
				} else if len(args) == 1 {
					fills = append(fills, fill{ct, args[0], nil, s.Instr}) // a set: the membership itself is the verdict
				}
			}
		}
		if len(looks) == 0 || len(fills) == 0 {
			continue
		}
		// parameters that count as inputs
		inputs := map[ssa.Value]string{}
		for i, pa := range fn.Params {
			if i == 0 && fn.Signature.Recv() != nil {
				continue
			}
			if strings.HasSuffix(pa.Type().String(), "context.Context") {
				continue
			}
			inputs[pa] = pa.Name()
		}
		for _, fl := range fills {
			var lk *look
			for i := range looks {
				if looks[i].cont == fl.cont {
					lk = &looks[i]
				}
			}
			if lk == nil {
				continue
			}
			// (1) look-aside shape: the looked-up answer is handed back (flows into a result) or steers a return
			var lv ssa.Value
			if v, ok := lk.pos.(ssa.Value); ok {
				lv = v
			}
			hit := false
			hitConds := map[ssa.Value]bool{}
			for _, r := range returnsOf(fn) {
				uses := false
				for _, res := range r.Results {
					if lv == nil {
						continue
					}
					sl := backSlice(res)
					if !sl[lv] {
						continue
					}
					// through the value component, not only through the found-flag
					viaValue := false
					if refs := lv.Referrers(); refs != nil {
						for _, rr := range *refs {
							if ex, ok := rr.(*ssa.Extract); ok {
								if ex.Index == 0 && sl[ex] {
									viaValue = true
								}
							} else if vv, ok := rr.(ssa.Value); ok && sl[vv] {
								viaValue = true
							}
						}
					}
					if _, isTuple := lv.Type().(*types.Tuple); !isTuple {
						viaValue = true
					}
					if viaValue {
						uses = true
					}
				}
				if fl.val == nil { // a pure set: membership itself is the verdict, it steers the return
					for _, f := range factsAt(r.Ret) {
						sl := backSlice(f.Cond)
						if lv != nil && sl[lv] {
							uses = true
						}
					}
				}
				if uses {
					hit = true
					for _, f := range factsAt(r.Ret) {
						// only a test made after the look-up (on the way to handing the remembered answer back) can account for
						// an input; tests that precede the look-up apply to hits and misses alike
						if ci, isInstr := f.Cond.(ssa.Instruction); isInstr {
							if !dominatesInstr(lk.pos, ci) {
								continue
							}
						} else {
							// a bare parameter used as a condition: counts when the same return is also conditioned on the look-up
							also := false
							for _, f2 := range factsAt(r.Ret) {
								if lv != nil && backSlice(f2.Cond)[lv] {
									also = true
								}
							}
							if !also {
								continue
							}
						}
						sl := backSlice(f.Cond)
						for v := range sl {
							hitConds[v] = true
						}
					}
				}
			}
			if !hit {
				continue
			}
			// (2) the remembered value is computed here (a registry that files its argument is not a memo)
			if fl.val != nil {
				computed := false
				ks := backSlice(fl.key)
				for v := range backSlice(fl.val) {
					if _, isCall := v.(*ssa.Call); isCall && !ks[v] {
						computed = true
					}
				}
				if !computed {
					continue
				}
			}
			n++
			keyIn := map[ssa.Value]bool{}
			for v := range hitConds { // an input the hit decision itself looks at is accounted for
				if _, ok := inputs[v]; ok {
					keyIn[v] = true
				}
			}
			for v := range backSlice(fl.key) {
				if _, ok := inputs[v]; ok {
					keyIn[v] = true
				}
			}
			for v := range backSlice(lk.key) {
				if _, ok := inputs[v]; ok {
					keyIn[v] = true
				}
			}
			var missing []string
			// what the remembered answer depends on: the stored value; for a pure set (no value) everything that steers the fill
			dep := map[ssa.Value]bool{}
			if fl.val != nil {
				dep = backSlice(fl.val)
			} else {
				for _, cj := range p.mustHoldAt(fl.pos) {
					_ = cj
				}
				// conditions controlling the fill: operands of the dominating branches
				for _, f := range factsAt(fl.pos) {
					for v := range backSlice(f.Cond) {
						dep[v] = true
					}
				}
			}
			for v := range dep {
				if nm, ok := inputs[v]; ok && !keyIn[v] {
					missing = append(missing, nm)
				}
			}
			sort.Strings(missing)
			c.saw(qname(fn))
			c.check(len(missing) == 0, rule, fmt.Sprintf("%s: memo in %s", qname(fn), fl.cont), p.Pos(posOf(fl.pos, fn)), "the memo is keyed by every input the remembered value is computed from",
				"the value remembered in "+fl.cont+" is computed from "+strings.Join(missing, ", ")+", which is not part of the key it is filed and looked up under: the answer computed for one "+strings.Join(missing, "/")+" is replayed for another")
		}
	}
	return n
}
