package main

import (
	"reflect"
	"testing"
)

func TestEquivForms(t *testing.T) {
	for _, tc := range []struct {
		in   string
		want []string
	}{
		{"!(a.GetHeight() <= s.w)", []string{"!(a.GetHeight() <= s.w)", "(a.GetHeight() > s.w)", "!(s.w >= a.GetHeight())", "(s.w < a.GetHeight())"}},
		{"(x == nil)", []string{"(x == nil)", "!(x != nil)", "(nil == x)", "!(nil != x)"}},
		{"isReplaying", []string{"isReplaying"}},
		{"!f(a < b)", []string{"!f(a < b)"}},
		{"((a + 1) > (b[i < j]))", []string{"((a + 1) > (b[i < j]))", "!((a + 1) <= (b[i < j]))", "((b[i < j]) < (a + 1))", "!((b[i < j]) >= (a + 1))"}},
		{"(a) && (b)", []string{"(a) && (b)"}},
	} {
		delete(equivCache, tc.in)
		if got := equivForms(tc.in); !reflect.DeepEqual(got, tc.want) {
			t.Errorf("equivForms(%q) = %q, want %q", tc.in, got, tc.want)
		}
	}
	c := conj{"(h > w)": true}
	if !c.has("^!", "h <= w") || c.has("^!", "h < w") || !c.has("w < h") || c.has("h", " < ", "w") || !c.has("h", " > ", "w") || !c.has("w", " < ", "h") {
		t.Errorf("conj.has does not match equivalent spellings as expected")
	}
}
