package main

import (
	"fmt"
	"go/ast"
	"go/constant"
	"go/token"
	"go/types"
	"strings"

	"golang.org/x/tools/go/ssa"
)

const winN = 8192

func init() {
	register("C09", func(c *Ctx) {
		windowInvProg = c.P
		c.Explain = "Structural necessary conditions of a false-negative-free event index, decided on SSA (terms, dominance, must-hold DNF, φ shapes): " +
			"(bloom-key-agreement) the writer of per-block blooms and every reader encode addresses and (key, position) identically; (fresh-key-buffer) lookup keys handed to the aggregated filter never share a backing array; " +
			"(window-keys) every persisted/cached window key is (aligned start, start+8191); (running-precedence) the window of the running filter is never served from the cache or the persisted copy and fetched windows are bounds-checked before caching; " +
			"(rollover) a completed window is persisted before the running filter moves on; (reorg) a revert drops the shutdown snapshot, and a backward boundary cross drops the persisted copy of the re-entered window, through the revert's writer; (cache-invalidate) every head revert purges the window cache; " +
			"(init-decision) a stored snapshot is used as-is only if next == head+1 and resumed in place only if next ≤ head ≤ window end, followed by a fill of [next, head], identically for pruning and non-pruning nodes; " +
			"(store-pairing) block content and index change in the same batch; (page-counter) the continuation counter advances by exactly one per event on every loop path and is not advanced for the event that did not fit; (tags) block/tx/event positions come from the loop indices; (who-writes, locking) the running filter's state changes only in its own methods under its mutex; (negative-evidence, empty-position) the per-block bloom pre-check rules a block out only on the evidence of a failed bloom test, an empty key list selects all blocks of a window, and the exact matcher rejects only against a non-empty alternative list. " +
			"Not decided: bloom false-positive arithmetic, bitset library behaviour, values of events, concurrency of queries with block import."
		c09KeyAgreement(c)
		c09WindowKeys(c)
		c09Iterator(c)
		c09Rollover(c)
		c09Reorg(c)
		c09CacheInvalidate(c)
		c09InitDecision(c)
		c09StorePairing(c)
		c09PageCounter(c)
		c09Locking(c)
		c09EmptyPosition(c)
		c09ScanLimitToken(c)
		fieldWriters(c, "who-writes", "core", "RunningEventFilter", []string{"inner", "next"},
			map[string]string{"insert": "forward step", "onReorg": "inverse step", "ensureInit$1": "lazy initialisation", "ensureInit": "lazy initialisation", "UnmarshalBinary": "decoding a snapshot",
				"NewRunningEventFilterHot": "constructor", "NewRunningEventFilterLazy": "constructor"})
		for _, r := range []string{"fresh-key-buffer", "window-keys", "cache-invalidate", "page-counter", "reorg"} {
			c.needFixture(r)
		}
	})
}

// inSameLoop: blocks a and b lie on a common cycle
func inSameLoop(a, b *ssa.BasicBlock) bool {
	reach := func(from, to *ssa.BasicBlock) bool {
		seen := map[*ssa.BasicBlock]bool{}
		q := append([]*ssa.BasicBlock{}, from.Succs...)
		for len(q) > 0 {
			x := q[0]
			q = q[1:]
			if seen[x] {
				continue
			}
			seen[x] = true
			if x == to {
				return true
			}
			q = append(q, x.Succs...)
		}
		return false
	}
	if a == b {
		return reach(a, a)
	}
	return reach(a, b) && reach(b, a)
}

func isFeltBytesCall(v ssa.Value) bool {
	call, ok := v.(*ssa.Call)
	if !ok {
		return false
	}
	f := call.Common().StaticCallee()
	if f == nil || f.Name() != "Bytes" || f.Pkg == nil && f.Origin() == nil {
		return false
	}
	g := f
	if g.Origin() != nil {
		g = g.Origin()
	}
	return g.Pkg != nil && strings.HasSuffix(g.Pkg.Pkg.Path(), "core/felt")
}

// isRangeIndex: v is the index variable of a `for i := range slice` loop (go/ssa: φ(-1, self)+1)
func isRangeIndex(v ssa.Value) bool {
	for {
		if cv, ok := v.(*ssa.Convert); ok { // int → int64 / uint: value-preserving for a non-negative index
			v = cv.X
			continue
		}
		break
	}
	b, ok := v.(*ssa.BinOp)
	if !ok || b.Op != token.ADD {
		if ex, isEx := v.(*ssa.Extract); isEx { // map / string range: key component of next
			_, isNext := ex.Tuple.(*ssa.Next)
			return isNext && ex.Index == 1
		}
		return false
	}
	k, isK := b.Y.(*ssa.Const)
	ph, isPhi := b.X.(*ssa.Phi)
	if !isK || !isPhi || k.Value == nil || k.Int64() != 1 {
		return false
	}
	seenInit, seenSelf := false, false
	for _, e := range ph.Edges {
		if e == ssa.Value(b) {
			seenSelf = true
		} else if kc, ok := e.(*ssa.Const); ok && kc.Value != nil && kc.Int64() == -1 {
			seenInit = true
		} else {
			return false
		}
	}
	return seenInit && seenSelf
}

// successPathsPass: every return of fn that may report success is dominated by `must`
func successPathsPass(p *Prog, fn *ssa.Function, must ssa.Instruction) (bool, string) {
	for _, ret := range returnsOf(fn) {
		if dominatesInstr(must, ret.Ret) {
			continue
		}
		if len(ret.Results) > 0 {
			last := ret.Results[len(ret.Results)-1]
			if call, ok := last.(*ssa.Call); ok && ssa.Instruction(call) == must {
				continue
			}
			if !isNilConst(last) {
				d := p.mustHoldAt(ret.Ret)
				if ok, _ := everyDisjunctHas(d, []string{"$ != nil)"}); ok && len(d) > 0 {
					continue // error path
				}
			}
		}
		return false, p.Pos(posOf(ret.Ret, fn))
	}
	return true, ""
}

// c09KeyAgreement: every bloom key built for events is  felt.Bytes()[:]  (address) or  AppendVarint(felt.Bytes()[:], int64(position)).
func c09KeyAgreement(c *Ctx) {
	p := c.P
	type anchor struct{ pkg, recv, name string }
	anchors := []anchor{{"core", "", "EventsBloom"}, {"blockchain", "EventMatcher", "TestBloom"}, {"blockchain", "EventMatcher", "getCandidateBlocksForFilterInto"}}
	nv := 0
	for _, fn := range p.sortedFuncs() {
		pr := pkgRelOf(fn)
		if fn.Origin() != nil || (pr != "core" && pr != "blockchain" && !strings.HasPrefix(pr, "rpc/") && pr != "sync" && pr != "sync/preconfirmed") {
			continue
		}
		if strings.HasSuffix(p.Pos(fnPos(fn)), "_test.go") {
			continue
		}
		for _, s := range sitesOf(fn) {
			if s.CalleeName() != "encoding/binary.AppendVarint" && !strings.HasSuffix(s.CalleeName(), "binary.AppendVarint") {
				continue
			}
			nv++
			construct := qname(fn) + " → AppendVarint"
			base := s.Args()[0]
			sl, isSlice := base.(*ssa.Slice)
			var al *ssa.Alloc
			if isSlice && sl.Low == nil && sl.High == nil && sl.Max == nil {
				al, _ = sl.X.(*ssa.Alloc)
			}
			if al == nil {
				c.viol("fresh-key-buffer", construct, p.Pos(s.Pos()), "the (key, position) bloom key is appended to "+term(base)+", not to the full slice of a per-iteration 32-byte array: with spare capacity the varint is written in place and keys built in the same loop share one backing array")
				continue
			}
			st := singleStore(al)
			okVal := st != nil && isFeltBytesCall(st.Val)
			at, _ := al.Type().Underlying().(*types.Pointer)
			arr, _ := at.Elem().Underlying().(*types.Array)
			okArr := arr != nil && arr.Len() == 32
			c.check(okVal && okArr, "bloom-key-agreement", construct+" base", p.Pos(s.Pos()), "key bytes are the 32-byte big-endian felt encoding", "the bloom key is no longer built from felt.Bytes(): writer and readers of the bloom disagree")
			// per-iteration freshness: the array is allocated inside the loop that builds the keys
			c.check(inSameLoop(al.Block(), s.Block()) || !inSameLoop(s.Block(), s.Block()), "fresh-key-buffer", construct, p.Pos(s.Pos()), "appended to the full slice (len == cap) of an array allocated in the same iteration: every key gets its own backing array",
				"the key buffer is allocated outside the loop that builds the keys; the keys alias one buffer")
			// position argument: int64 of the range index over the per-position key list
			it := termF(s.Args()[1])
			posOK := isRangeIndex(s.Args()[1])
			if !posOK {
				// the keys of one position may be built by a helper that receives the position as a parameter
				// (`positionalBloomKeys(index, alternatives)`): then the argument is the range index at every call
				v := s.Args()[1]
				if cv, isCv := v.(*ssa.Convert); isCv {
					v = cv.X // int64(index)
				}
				if pa, isPa := v.(*ssa.Parameter); isPa && !ast.IsExported(fn.Name()) {
					idx := -1
					for i, q := range fn.Params {
						if q == pa {
							idx = i
						}
					}
					callers := p.callersOf(fn)
					posOK = idx >= 0 && len(callers) > 0
					for _, cs := range callers {
						args := cs.Instr.Common().Args
						if idx >= len(args) || !isRangeIndex(args[idx]) {
							posOK = false
						}
					}
				}
			}
			c.check(posOK, "bloom-key-agreement", construct+" position", p.Pos(s.Pos()), "position is the plain range index of the key list", "the position mixed into the bloom key is "+it+", not the plain key index: writer and readers disagree")
		}
	}
	if nv < 3 {
		c.und("bloom-key-agreement", "AppendVarint sites", "", fmt.Sprintf("only %d (key, position) encoders found", nv))
	}
	for _, a := range anchors {
		f := p.Func(a.pkg, a.recv, a.name)
		if f == nil {
			c.und("bloom-key-agreement", a.pkg+"."+a.name, "", "anchor not found")
			continue
		}
		c.saw(qname(f))
		if len(p.deepSites(f, nameMatcher("AppendVarint"), 2)) == 0 {
			c.viol("bloom-key-agreement", qname(f), p.Pos(fnPos(f)), "this bloom reader/writer no longer encodes (key, position) with AppendVarint")
		}
	}
	// address keys: writer uses From.Bytes(); matcher stores addr.Bytes() copies
	if w := p.Func("core", "", "EventsBloom"); w != nil {
		ok := false
		for _, s := range sitesOf(w) {
			if strings.HasSuffix(s.CalleeName(), "TestOrAdd") && strings.Contains(termF(s.Args()[len(s.Args())-1]), "From.Bytes()") {
				ok = true
			}
		}
		c.check(ok, "bloom-key-agreement", "core.EventsBloom address key", p.Pos(fnPos(w)), "address key = event.From.Bytes()", "the per-block bloom no longer contains event.From.Bytes()")
	}
	if m := p.Func("blockchain", "", "NewEventMatcher"); m != nil {
		ok := false
		allInstrs(m, func(in ssa.Instruction) {
			if call, isCall := in.(*ssa.Call); isCall && isFeltBytesCall(call) {
				ok = true
			}
		})
		c.check(ok, "bloom-key-agreement", "blockchain.NewEventMatcher address key", p.Pos(fnPos(m)), "address key = addr.Bytes()", "the matcher no longer derives address lookup keys from addr.Bytes()")
	} else {
		c.und("bloom-key-agreement", "blockchain.NewEventMatcher", "", "anchor not found")
	}
}

// windowPair: (from, to) denote one aligned 8192-block window
func windowPair(from, to ssa.Value, depth int) (bool, string) {
	from, to = stripConv(from), stripConv(to)
	if depth > 4 {
		return false, "too deep"
	}
	// to = from + 8191   |   to = from + 8192 - 1
	if b, ok := to.(*ssa.BinOp); ok {
		if b.Op == token.ADD {
			if k, isK := constUint(stripConv(b.Y)); isK && k == winN-1 && sameVal(b.X, from) {
				return alignedOrTrusted(from)
			}
		}
		if b.Op == token.SUB {
			if k, isK := constUint(stripConv(b.Y)); isK && k == 1 {
				if a, ok2 := stripConv(b.X).(*ssa.BinOp); ok2 && a.Op == token.ADD {
					if k2, isK2 := constUint(stripConv(a.Y)); isK2 && k2 == winN && sameVal(a.X, from) {
						return alignedOrTrusted(from)
					}
				}
			}
		}
	}
	// both come from the same filter / key object
	tf, tt := term(from), term(to)
	for _, pr := range [][2]string{{".FromBlock()", ".ToBlock()"}, {".fromBlock", ".toBlock"}} {
		if strings.HasSuffix(tf, pr[0]) && strings.HasSuffix(tt, pr[1]) && strings.TrimSuffix(tf, pr[0]) == strings.TrimSuffix(tt, pr[1]) {
			return true, "bounds of one filter/key object"
		}
	}
	// both are fields of one value of a window struct type whose every construction keeps the pair a window
	if bf, fi, okf := fieldRead(from); okf {
		if bt, ti, okt := fieldRead(to); okt && bf == bt && fi != ti {
			if n := namedOf(bf.Type()); n != nil {
				if ok, why := windowTypeInv(n, fi, ti, depth+1); ok {
					return true, "fields of a " + n.Obj().Name() + ", a type whose every construction is an aligned window"
				} else if why != "" {
					return false, "window type " + n.Obj().Name() + ": " + why
				}
			}
		}
	}
	// loop-carried pair decremented/incremented together
	pf, ok1 := from.(*ssa.Phi)
	pt, ok2 := to.(*ssa.Phi)
	if ok1 && ok2 && pf.Block() == pt.Block() && len(pf.Edges) == len(pt.Edges) {
		for i := range pf.Edges {
			ef, et := stripConv(pf.Edges[i]), stripConv(pt.Edges[i])
			bf, okf := ef.(*ssa.BinOp)
			bt, okt := et.(*ssa.BinOp)
			if okf && okt && bf.Op == bt.Op && (bf.Op == token.SUB || bf.Op == token.ADD) && stripConv(bf.X) == ssa.Value(pf) && stripConv(bt.X) == ssa.Value(pt) {
				kf, _ := constUint(stripConv(bf.Y))
				kt, _ := constUint(stripConv(bt.Y))
				if kf == winN && kt == winN {
					continue
				}
			}
			if ok, why := windowPair(ef, et, depth+1); !ok {
				return false, "loop edge: " + why
			}
		}
		return true, "loop-carried window moved by 8192 on both bounds"
	}
	// both are parameters of an unexported helper: the pair is a window if it is one at every call of the helper
	if pf, ok1 := from.(*ssa.Parameter); ok1 {
		if pt, ok2 := to.(*ssa.Parameter); ok2 && pf.Parent() == pt.Parent() && curProg != nil && !ast.IsExported(pf.Parent().Name()) {
			fn := pf.Parent()
			idx := func(q *ssa.Parameter) int {
				for i, x := range fn.Params {
					if x == q {
						return i
					}
				}
				return -1
			}
			fi, ti := idx(pf), idx(pt)
			callers := curProg.callersOf(fn)
			if fi >= 0 && ti >= 0 && len(callers) > 0 {
				for _, cs := range callers {
					args := cs.Instr.Common().Args
					if fi >= len(args) || ti >= len(args) {
						return false, "call of " + fn.Name() + " not understood"
					}
					if ok, why := windowPair(args[fi], args[ti], depth+1); !ok {
						return false, "call of " + fn.Name() + ": " + why
					}
				}
				return true, "parameters of " + fn.Name() + ", a window at every call"
			}
		}
	}
	return false, fmt.Sprintf("(%s, %s) is not (aligned start, start+8191)", tf, tt)
}

func alignedOrTrusted(from ssa.Value) (bool, string) {
	if alignedTo(from, winN, 0) {
		return true, "start aligned by construction"
	}
	return false, "start " + term(from) + " is not aligned to 8192 by construction"
}

func c09WindowKeys(c *Ctx) {
	p := c.P
	n := 0
	for _, fn := range p.sortedFuncs() {
		if fn.Origin() != nil || strings.HasSuffix(p.Pos(fnPos(fn)), "_test.go") {
			continue
		}
		pr := pkgRelOf(fn)
		if strings.HasPrefix(pr, "migration/deprecated") {
			continue
		}
		for _, s := range sitesOf(fn) {
			cn := s.CalleeName()
			if cn != "core.GetAggregatedBloomFilter" && cn != "core.DeleteAggregatedBloomFilter" {
				continue
			}
			n++
			ok, why := windowPair(s.Args()[1], s.Args()[2], 0)
			c.check(ok, "window-keys", qname(fn)+" → "+strings.TrimPrefix(cn, "core."), p.Pos(s.Pos()), why, "persisted aggregated filters are addressed with a key that is not one aligned 8192-block window: "+why)
		}
		// cache keys
		allInstrs(fn, func(in ssa.Instruction) {
			st, ok := in.(*ssa.Store)
			if !ok {
				return
			}
			fa, ok := st.Addr.(*ssa.FieldAddr)
			if !ok || !isNamed(fa.X.Type(), "blockchain", "EventFiltersCacheKey") || fieldName(fa.X.Type(), fa.Field) != "toBlock" {
				return
			}
			// find the sibling store to fromBlock on the same object
			var from ssa.Value
			for _, r := range *fa.X.Referrers() {
				if fa2, ok := r.(*ssa.FieldAddr); ok && fieldName(fa2.X.Type(), fa2.Field) == "fromBlock" {
					for _, r2 := range *fa2.Referrers() {
						if s2, ok := r2.(*ssa.Store); ok && s2.Addr == ssa.Value(fa2) {
							from = s2.Val
						}
					}
				}
			}
			if from == nil {
				c.und("window-keys", qname(fn)+" cache key", p.Pos(posOf(in, fn)), "fromBlock store not found")
				return
			}
			n++
			okp, why := windowPair(from, st.Val, 0)
			c.check(okp, "window-keys", qname(fn)+" cache key", p.Pos(posOf(in, fn)), why, "cache key is not one aligned window: "+why)
		})
	}
	if n < 7 {
		c.und("window-keys", "aggregated filter keys", "", fmt.Sprintf("only %d key constructions found", n))
	}
	// the window constants
	if f := p.Func("core", "", "NewAggregatedFilter"); f != nil {
		ok := false
		allInstrs(f, func(in ssa.Instruction) {
			if st, isSt := in.(*ssa.Store); isSt {
				if fa, isFa := st.Addr.(*ssa.FieldAddr); isFa && fieldName(fa.X.Type(), fa.Field) == "toBlock" {
					if b, isB := st.Val.(*ssa.BinOp); isB && b.Op == token.ADD && b.X == ssa.Value(f.Params[0]) {
						k, isK := constUint(b.Y)
						ok = isK && k == winN-1
					}
				}
			}
		})
		c.check(ok, "window-keys", "core.NewAggregatedFilter", p.Pos(fnPos(f)), "toBlock = fromBlock + 8191", "a new window no longer spans exactly 8192 blocks")
	} else {
		c.und("window-keys", "core.NewAggregatedFilter", "", "anchor not found")
	}
}

func c09Iterator(c *Ctx) {
	p := c.P
	f := p.Func("blockchain", "MatchedBlockIterator", "loadNextWindow")
	if f == nil {
		c.und("running-precedence", "MatchedBlockIterator.loadNextWindow", "", "anchor not found")
		return
	}
	c.saw(qname(f))
	n := 0
	kind := func(s Site) (isGet, isAdd, isFallback bool) {
		cn := s.CalleeName()
		isGet = strings.HasSuffix(cn, "Cache[K, V]).Get")
		isAdd = strings.HasSuffix(cn, "Cache[K, V]).Add")
		isFallback = cn == "dynamic" && strings.Contains(term(s.Instr.Common().Value), "fallbackFunc")
		return
	}
	for _, ds := range p.deepSites(f, func(s Site) bool { g, a, fb := kind(s); return g || a || fb }, 2) {
		s := ds.Site
		_, isAdd, isFallback := kind(s)
		n++
		d := p.mustHoldDeep(ds)
		ok, miss := everyDisjunctHas(d, []string{"^!", "% 8192)) == it.runningFilter.FromBlock()"})
		what := "cache lookup"
		if isAdd {
			what = "cache insert"
		} else if isFallback {
			what = "persisted-copy fetch"
		}
		c.check(ok, "running-precedence", "loadNextWindow: "+what, p.Pos(s.Pos()), "reached only when the window is not the running filter's window", "the running filter's window can be served from the cache / the persisted copy, which lags behind the head (and is stale after a reorg): "+miss)
		if isAdd {
			ok1, m1 := everyDisjunctHas(d, []string{"^!", "FromBlock() != "})
			ok2, m2 := everyDisjunctHas(d, []string{"^!", "ToBlock() != "})
			c.check(ok1 && ok2, "running-precedence", "loadNextWindow: bounds check before caching", p.Pos(s.Pos()), "fetched filter's bounds equal the requested window", "a fetched filter is cached without checking that it covers the requested window: "+m1+m2)
		}
	}
	if n < 3 {
		c.und("running-precedence", "loadNextWindow", p.Pos(fnPos(f)), fmt.Sprintf("only %d cache/fallback sites found", n))
	}
	// who adds to the cache
	for _, fn := range p.sortedFuncs() {
		if pkgRelOf(fn) != "blockchain" || fn.Origin() != nil || strings.HasSuffix(p.Pos(fnPos(fn)), "_test.go") {
			continue
		}
		for _, s := range sitesOf(fn) {
			if strings.HasSuffix(s.CalleeName(), "Cache[K, V]).Add") && strings.Contains(typeShort(s.Args()[0].Type()), "EventFiltersCacheKey") {
				okw := fn == f || fn.Name() == "SetMany" || p.calledOnlyFromAny(fn, map[string]bool{"loadNextWindow": true, "SetMany": true}, 0)
				c.check(okw, "running-precedence", "cache writer "+qname(fn), p.Pos(s.Pos()), "only the iterator (after the bounds check) and SetMany fill the cache", "aggregated filters are added to the cache from an unexpected place")
			}
		}
	}
}

func c09Rollover(c *Ctx) {
	p := c.P
	f := p.Func("core", "RunningEventFilter", "insert")
	if f == nil {
		c.und("rollover", "RunningEventFilter.insert", "", "anchor not found")
		return
	}
	c.saw(qname(f))
	w := findSite(f, "WriteAggregatedBloomFilter")
	var stInner, stNext *ssa.Store
	allInstrs(f, func(in ssa.Instruction) {
		if st, ok := in.(*ssa.Store); ok {
			if fa, ok := st.Addr.(*ssa.FieldAddr); ok && isNamed(fa.X.Type(), "core", "RunningEventFilter") {
				switch fieldName(fa.X.Type(), fa.Field) {
				case "inner":
					stInner = st
				case "next":
					stNext = st
				}
			}
		}
	})
	if w == nil || stInner == nil || stNext == nil {
		c.viol("rollover", "RunningEventFilter.insert", p.Pos(fnPos(f)), "insert no longer persists the completed window / replaces inner / advances next")
		return
	}
	okDom := dominatesInstr(w.Instr, stInner)
	okArg := strings.HasSuffix(term(w.Args()[1]), "f.inner") && sameVal(w.Args()[0], f.Params[1])
	okCond, miss := everyDisjunctHas(p.mustHoldAt(stInner), []string{"blockNumber == f.inner.ToBlock()"}, []string{"f.inner.ToBlock() == blockNumber"})
	okErr, miss2 := everyDisjunctHas(p.mustHoldAt(stInner), []string{"^!", "WriteAggregatedBloomFilter(", "!= nil"})
	c.check(okDom && okArg && okCond && okErr, "rollover", "insert: persist then replace", p.Pos(posOf(stInner, f)), "inner is replaced only at the window's last block, after it was written through the caller's writer without error",
		fmt.Sprintf("the completed window can be dropped without being persisted (write dominates replace: %v, writes f.inner via the writer param: %v, at last block: %v %s, error-checked: %v %s)", okDom, okArg, okCond, miss, okErr, miss2))
	nt := termF(stInner.Val)
	c.check(strings.Contains(nt, "NewAggregatedFilter((blockNumber + 1))"), "rollover", "insert: next window start", p.Pos(posOf(stInner, f)), "next window starts at blockNumber+1", "the next window starts at "+nt)
	c.check(strings.Trim(term(stNext.Val), "()") == "blockNumber + 1", "rollover", "insert: next", p.Pos(posOf(stNext, f)), "next = blockNumber + 1", "next is set to "+term(stNext.Val))
	// the per-block bloom is inserted before anything else changes
	ins := findSite(f, "Insert")
	c.check(ins != nil && dominatesInstr(ins.Instr, stNext) && dominatesInstr(ins.Instr, w.Instr), "rollover", "insert: block bloom first", p.Pos(fnPos(f)), "AggregatedBloomFilter.Insert(bloom, blockNumber) precedes rollover and next", "the block's bloom is not inserted before the window is persisted")
}

func c09Reorg(c *Ctx) {
	p := c.P
	for _, fn := range p.FuncsNamed("core", "RunningEventFilter", "onReorg") {
		c09ReorgFn(c, fn, false)
	}
	for _, fn := range p.sortedFuncs() {
		if pkgRelOf(fn) == "core" && strings.HasPrefix(fn.Name(), "zzVerifFixtureC09Reorg") {
			c09ReorgFn(c, fn, true)
		}
	}
}

func c09ReorgFn(c *Ctx, f *ssa.Function, fixture bool) {
	p := c.P
	name := qname(f)
	c.saw(name)
	var writer ssa.Value
	for _, par := range f.Params {
		if strings.HasSuffix(typeShort(par.Type()), "KeyValueWriter") {
			writer = par
		}
	}
	var stInner, stNext *ssa.Store
	allInstrs(f, func(in ssa.Instruction) {
		if st, ok := in.(*ssa.Store); ok {
			if fa, ok := st.Addr.(*ssa.FieldAddr); ok && isNamed(fa.X.Type(), "core", "RunningEventFilter") {
				switch fieldName(fa.X.Type(), fa.Field) {
				case "inner":
					stInner = st
				case "next":
					stNext = st
				}
			}
		}
	})
	if writer == nil || stInner == nil || stNext == nil {
		c.und("reorg", name, p.Pos(fnPos(f)), "writer parameter / stores to inner and next not found")
		return
	}
	// snapshot dropped on every revert
	snap := findSites(f, "DeleteRunningEventFilter")
	okSnap := false
	for _, s := range snap {
		if sameVal(s.Args()[0], writer) && dominatesInstr(s.Instr, stNext) {
			okSnap = true
		}
	}
	c.check(okSnap, "reorg", name+": snapshot dropped", p.Pos(posOf(stNext, f)), "DeleteRunningEventFilter(writer) dominates the step back", "a revert leaves the shutdown snapshot in place: after an ungraceful restart a pre-reorg snapshot is resumed and replacement blocks below its next block are never indexed (F15)")
	// re-entered window
	var get *Site
	for _, s := range findSites(f, "GetAggregatedBloomFilter") {
		s := s
		if strings.Contains(termF(stInner.Val), "GetAggregatedBloomFilter(") {
			get = &s
		}
	}
	if get == nil {
		c.viol("reorg", name+": re-entered window", p.Pos(posOf(stInner, f)), "inner is no longer reloaded from the persisted previous window on a backward boundary cross")
		return
	}
	okDel := false
	for _, s := range findSites(f, "DeleteAggregatedBloomFilter") {
		if sameVal(s.Args()[0], writer) && sameVal(s.Args()[1], get.Args()[1]) && sameVal(s.Args()[2], get.Args()[2]) && dominatesInstr(s.Instr, stInner) {
			okDel = true
		}
	}
	c.check(okDel, "reorg", name+": re-entered window dropped", p.Pos(posOf(stInner, f)), "the persisted copy of the window loaded into the running filter is deleted through the revert's writer", "the persisted copy of the re-entered window stays on disk: a rebuild after an ungraceful restart treats the window as complete and roots the running filter at the next window (F14)")
	if fixture {
		return
	}
	okCross, miss := everyDisjunctHas(p.mustHoldAt(stInner), []string{"((f.next - 1) == (f.inner.FromBlock() - 1))"}, []string{"(f.next == f.inner.FromBlock())"})
	c.check(okCross, "reorg", name+": cross condition", p.Pos(posOf(stInner, f)), "the previous window is loaded exactly when the reverted block is the one before the window start", "the boundary-cross condition changed: "+miss)
	ok, why := windowPair(get.Args()[1], get.Args()[2], 0)
	gt := termF(get.Args()[1])
	// the start may be a field of a window value built by a same-package constructor: take the constructor's term
	if b, fi, isF := fieldRead(get.Args()[1]); isF {
		base := b
		if ld, isLd := b.(*ssa.UnOp); isLd {
			if a, isA := ld.X.(*ssa.Alloc); isA {
				if st := singleStore(a); st != nil {
					base = st.Val
				}
			}
		}
		if a, isA := b.(*ssa.Alloc); isA {
			if st := singleStore(a); st != nil {
				base = st.Val
			}
		}
		if lf := structLiteralFields(base, 0); lf != nil {
			if t, has := lf[fieldName(b.Type(), fi)]; has {
				gt = t
			}
		}
	}
	c.check(ok && strings.Contains(gt, "(f.next - 1) - ((f.next - 1) % 8192)"), "reorg", name+": previous window", p.Pos(get.Pos()), "window containing the reverted block", "the window reloaded on a cross is not the one containing the reverted block ("+gt+"): "+why)
	c.check(strings.Trim(term(stNext.Val), "()") == "f.next - 1", "reorg", name+": next", p.Pos(posOf(stNext, f)), "next = next - 1", "next is set to "+term(stNext.Val))
	clr := findSite(f, "clear")
	c.check(clr != nil && strings.Trim(term(clr.Args()[len(clr.Args())-1]), "()") == "f.next - 1" && !dominatesInstr(clr.Instr, stInner), "reorg", name+": clear", p.Pos(fnPos(f)), "the reverted block's column is cleared in the (possibly reloaded) window", "the reverted block's bits are not cleared from the window that now contains it")
}

func c09CacheInvalidate(c *Ctx) {
	p := c.P
	n := 0
	for _, fn := range p.sortedFuncs() {
		if pkgRelOf(fn) != "blockchain" || fn.Origin() != nil || strings.HasSuffix(p.Pos(fnPos(fn)), "_test.go") {
			continue
		}
		for _, s := range sitesOf(fn) {
			if s.Method == nil || s.Method.Name() != "RevertHead" {
				continue
			}
			n++
			ok := false
			for _, r := range findSites(fn, "Reset") {
				if strings.Contains(r.CalleeName(), "AggregatedBloomFilterCache") && everyPathPasses(fn, s.Instr, r.Instr) {
					ok = true
				}
			}
			// … or through a same-package helper that purges the cache on each of its own paths
			for _, hs := range sitesOf(fn) {
				if ok || hs.Callee == nil || pkgRelOf(hs.Callee) != pkgRelOf(fn) || len(hs.Callee.Blocks) == 0 || hs.Callee == fn {
					continue
				}
				for _, r := range findSites(hs.Callee, "Reset") {
					if !strings.Contains(r.CalleeName(), "AggregatedBloomFilterCache") {
						continue
					}
					all := true
					for _, hr := range returnsOf(hs.Callee) {
						if !dominatesInstr(r.Instr, hr.Ret) {
							all = false
						}
					}
					if all && everyPathPasses(fn, s.Instr, hs.Instr) {
						ok = true
					}
				}
			}
			c.check(ok, "cache-invalidate", qname(fn)+" → RevertHead", p.Pos(s.Pos()), "every path from the revert to a return purges the aggregated-filter cache", "the head is reverted without purging the cache of persisted windows: a window cached before a reorg across its boundary hides the events of the replacement blocks once it is rewritten (F2)")
		}
	}
	if n < 1 {
		c.und("cache-invalidate", "blockchain RevertHead", "", "no RevertHead delegation found in package blockchain")
	}
}

func c09InitDecision(c *Ctx) {
	p := c.P
	for _, pk := range []string{"core", "pruner"} {
		f := p.Func(pk, "", "InitializeRunningEventFilter")
		if f == nil {
			c.und("init-decision", pk+".InitializeRunningEventFilter", "", "anchor not found")
			continue
		}
		c.saw(qname(f))
		n := 0
		for _, s := range sitesOf(f) {
			if s.CalleeName() != "core.NewRunningEventFilterHot" {
				continue
			}
			it := termF(s.Args()[1])
			if !strings.Contains(it, "InnerFilter()") {
				continue // empty-chain constructor
			}
			n++
			d := p.mustHoldAt(s.Instr)
			asIs, _ := everyDisjunctHas(d, []string{"NextBlock()#0 == (core.GetChainHeight(", "#0 + 1))"})
			if neg, _ := everyDisjunctHas(d, []string{"^!", "NextBlock()#0 == (core.GetChainHeight("}); neg {
				asIs = false
			}
			if asIs {
				c.ok("init-decision", pk+": snapshot as-is", p.Pos(s.Pos()), "only under next == head+1")
				nt := termF(s.Args()[2])
				c.check(strings.HasSuffix(nt, "NextBlock()#0"), "init-decision", pk+": snapshot as-is next", p.Pos(s.Pos()), "next taken from the snapshot", "next is "+nt)
				continue
			}
			ok1, m1 := everyDisjunctHas(d, []string{"NextBlock()#0 <= core.GetChainHeight("}, []string{"^!", "NextBlock()#0 > core.GetChainHeight("})
			ok2, m2 := everyDisjunctHas(d, []string{"#0 <= ", "InnerFilter()#0.ToBlock()"}, []string{"^!", "#0 > ", "InnerFilter()#0.ToBlock()"})
			// followed by a fill up to latest
			okFill := false
			for _, fs := range findSites(f, "fillRunningEventFilter") {
				if everyPathPasses(f, s.Instr, fs.Instr) {
					la := termF(fs.Args()[len(fs.Args())-1])
					fr := termF(fs.Args()[len(fs.Args())-2])
					if strings.Contains(la, "GetChainHeight(") && strings.Contains(fr, "NextBlock()#0") {
						okFill = true
					}
				}
			}
			c.check(ok1 && ok2 && okFill, "init-decision", pk+": snapshot resumed in place", p.Pos(s.Pos()), "only under next ≤ head ≤ window end, then filled over [next, head]",
				fmt.Sprintf("a stored snapshot is adopted although it is neither caught up (next == head+1) nor a same-window gap that is then filled (next ≤ head: %v %s; head ≤ window end: %v %s; fill [next, head]: %v): blocks between the snapshot and the head, or a future-dated snapshot, leave canonical blocks unindexed", ok1, m1, ok2, m2, okFill))
		}
		if n < 2 {
			c.und("init-decision", pk+".InitializeRunningEventFilter", p.Pos(fnPos(f)), fmt.Sprintf("only %d snapshot adoptions found", n))
		}
		// rebuild fallback exists on the remaining paths
		rb := findSite(f, "rebuildRunningEventFilter")
		c.check(rb != nil, "init-decision", pk+": rebuild fallback", p.Pos(fnPos(f)), "every other case rebuilds from the persisted windows", "the rebuild fallback is gone")
	}
	// rebuild: fill starts right after the newest persisted window, up to latest
	for _, pk := range []string{"core", "pruner"} {
		f := p.Func(pk, "", "rebuildRunningEventFilter")
		if f == nil {
			c.und("init-decision", pk+".rebuildRunningEventFilter", "", "anchor not found")
			continue
		}
		fs := findSite(f, "fillRunningEventFilter")
		nh := findSite(f, "NewRunningEventFilterHot")
		if fs == nil || nh == nil {
			c.viol("init-decision", pk+".rebuildRunningEventFilter", p.Pos(fnPos(f)), "rebuild no longer fills a fresh filter")
			continue
		}
		from := termF(fs.Args()[len(fs.Args())-2])
		nx := termF(nh.Args()[2])
		ok := from == nx && strings.Contains(from, "+ 1")
		c.check(ok, "init-decision", pk+": rebuild continues after the newest persisted window", p.Pos(fs.Pos()), "fill starts at (persisted window end + 1) = next of the fresh filter", "rebuild fills from "+from+" while the fresh filter's next is "+nx)
	}
}

func c09StorePairing(c *Ctx) {
	p := c.P
	n := 0
	for _, fn := range p.sortedFuncs() {
		if pkgRelOf(fn) != "blockchain/statebackend" || fn.Origin() != nil || strings.HasSuffix(p.Pos(fnPos(fn)), "_test.go") {
			continue
		}
		for _, s := range sitesOf(fn) {
			var want, what string
			switch s.CalleeName() {
			case "blockchain/statebackend.writeBlockContent":
				want, what = "InsertWithBatch", "stored"
			case "blockchain/statebackend.deleteBlockContent":
				want, what = "OnReorgWithBatch", "reverted"
			default:
				continue
			}
			n++
			ok := false
			for _, t := range findSites(fn, want) {
				if okp, _ := successPathsPass(p, fn, t.Instr); !okp || !dominatesInstr(s.Instr, t.Instr) {
					continue
				}
				// same batch as the block content
				var batchArg ssa.Value
				for _, a := range s.Args() {
					if strings.HasSuffix(typeShort(a.Type()), "db.Batch") || strings.HasSuffix(typeShort(a.Type()), "IndexedBatch") {
						batchArg = a
					}
				}
				if batchArg != nil && sameVal(t.Args()[1], batchArg) {
					ok = true
				}
			}
			c.check(ok, "store-pairing", qname(fn)+" → "+want, p.Pos(s.Pos()), "block content and event index change in one batch on every success path", "a block is "+what+" without the running event filter following in the same batch: the index and the chain diverge")
		}
	}
	if n < 3 {
		c.und("store-pairing", "statebackend", "", fmt.Sprintf("only %d content writers found", n))
	}
}

func c09PageCounter(c *Ctx) {
	p := c.P
	var fns []*ssa.Function
	for _, nm := range []string{"AppendBlockEventsFromTransactionEvents", "AppendBlockEventsFromReceipts"} {
		if f := p.Func("blockchain", "EventMatcher", nm); f != nil {
			fns = append(fns, f)
		} else {
			c.und("page-counter", "EventMatcher."+nm, "", "anchor not found")
		}
	}
	for _, fn := range p.sortedFuncs() {
		if pkgRelOf(fn) == "blockchain" && strings.HasPrefix(fn.Name(), "zzVerifFixtureC09Page") {
			fns = append(fns, fn)
		}
	}
	for _, f := range fns {
		c.saw(qname(f))
		// the loop-carried continuation counter: φ closure (through φ edges and +k updates) of the value returned as the
		// second result — identified by role, not by the variable's name
		var phis []*ssa.Phi
		inSet := map[*ssa.Phi]bool{}
		var grow func(v ssa.Value, depth int)
		grow = func(v ssa.Value, depth int) {
			if depth > 8 {
				return
			}
			switch x := v.(type) {
			case *ssa.Phi:
				if inSet[x] {
					return
				}
				inSet[x] = true
				phis = append(phis, x)
				for _, e := range x.Edges {
					grow(e, depth+1)
				}
			case *ssa.BinOp:
				if x.Op == token.ADD || x.Op == token.SUB {
					grow(x.X, depth+1)
				}
			}
		}
		for _, ret := range returnsOf(f) {
			idx := 1
			if len(ret.Results) == 1 {
				idx = 0
			}
			if len(ret.Results) > idx {
				grow(ret.Results[idx], 0)
			}
		}
		if len(phis) < 2 {
			c.und("page-counter", qname(f), p.Pos(fnPos(f)), "loop-carried processedEvents not found")
			continue
		}
		isPhi := func(v ssa.Value) bool {
			for _, ph := range phis {
				if v == ssa.Value(ph) {
					return true
				}
			}
			return false
		}
		// inner loop header = the φ one of whose edges is φ+1
		for _, ph := range phis {
			inner := false
			for _, e := range ph.Edges {
				if b, ok := e.(*ssa.BinOp); ok && b.Op == token.ADD && isPhi(b.X) {
					inner = true
				}
			}
			for i, e := range ph.Edges {
				pred := ph.Block().Preds[i]
				back := ph.Block().Dominates(pred)
				construct := fmt.Sprintf("%s: processedEvents edge %d", qname(f), i)
				switch x := e.(type) {
				case *ssa.Const:
					c.check(x.Value != nil && x.Uint64() == 0 && !back, "page-counter", construct, p.Pos(fnPos(f)), "starts at 0", "the counter is reset inside the block")
				case *ssa.Phi:
					c.check(isPhi(x) && (!back || !inner), "page-counter", construct, p.Pos(fnPos(f)), "carried unchanged between the transaction loop and the event loop", "an iteration of the event loop returns to the loop head without counting the event: the continuation token skips or repeats events")
				case *ssa.BinOp:
					k, isK := constUint(x.Y)
					c.check(x.Op == token.ADD && isPhi(x.X) && isK && k == 1, "page-counter", construct, p.Pos(fnPos(f)), "advances by exactly one per event", "the counter does not advance by exactly one per event")
				default:
					c.viol("page-counter", construct, p.Pos(fnPos(f)), "unrecognised update of the continuation counter: "+term(e))
				}
			}
		}
		// the event that did not fit is not counted
		for _, ret := range returnsOf(f) {
			if len(ret.Results) < 3 || !strings.Contains(term(ret.Results[2]), "errChunkSizeReached") {
				continue
			}
			c.check(isPhi(ret.Results[1]), "page-counter", qname(f)+": chunk-full return", p.Pos(posOf(ret.Ret, f)), "returns the count before the event that did not fit", "the chunk-full return counts the event that was not returned: the next page skips it")
		}
		// tags
		allInstrs(f, func(in ssa.Instruction) {
			st, ok := in.(*ssa.Store)
			if !ok {
				return
			}
			fa, ok := st.Addr.(*ssa.FieldAddr)
			if !ok || !isNamed(fa.X.Type(), "blockchain", "FilteredEvent") {
				return
			}
			fnm := fieldName(fa.X.Type(), fa.Field)
			v := stripConv(st.Val)
			switch fnm {
			case "TransactionIndex", "EventIndex":
				okv := isRangeIndex(v)
				c.check(okv, "tags", qname(f)+": "+fnm, p.Pos(posOf(in, f)), "taken from the loop index", fnm+" is computed as "+term(st.Val)+", not the plain loop index")
			case "BlockNumber":
				_, isPar := v.(*ssa.Parameter)
				c.check(isPar, "tags", qname(f)+": BlockNumber", p.Pos(posOf(in, f)), "the scanned block's number", "BlockNumber is "+term(st.Val))
			}
		})
	}
}

// c09Locking: exported methods of RunningEventFilter take the mutex before touching inner/next; ensureInit is only called under it.
func c09Locking(c *Ctx) {
	p := c.P
	exempt := map[string]string{"MarshalBinary": "called on a filter the caller owns (Write holds the lock)", "UnmarshalBinary": "decodes into a fresh, unshared object", "ensureInit": "checked at its call sites", "ensureInit$1": "runs inside ensureInit"}
	n := 0
	for _, fn := range p.sortedFuncs() {
		if pkgRelOf(fn) != "core" || fn.Origin() != nil || fn.Signature.Recv() == nil || recvName(fn.Signature.Recv().Type()) != "RunningEventFilter" {
			continue
		}
		if _, ex := exempt[fn.Name()]; ex {
			continue
		}
		var lock ssa.Instruction
		for _, s := range sitesOf(fn) {
			if cn := s.CalleeName(); cn == "(*sync.RWMutex).Lock" || cn == "(*sync.RWMutex).RLock" {
				if lock == nil {
					lock = s.Instr
				}
			}
		}
		var touches []ssa.Instruction
		allInstrs(fn, func(in ssa.Instruction) {
			if fa, ok := in.(*ssa.FieldAddr); ok && isNamed(fa.X.Type(), "core", "RunningEventFilter") {
				if nm := fieldName(fa.X.Type(), fa.Field); nm == "inner" || nm == "next" {
					touches = append(touches, in)
				}
			}
			if call, ok := in.(ssa.CallInstruction); ok {
				if cal := call.Common().StaticCallee(); cal != nil && cal.Name() == "ensureInit" {
					touches = append(touches, in)
				}
			}
		})
		if len(touches) == 0 {
			continue
		}
		n++
		ok := lock != nil
		for _, t := range touches {
			if lock == nil || !dominatesInstr(lock, t) {
				ok = false
			}
		}
		c.check(ok, "locking", qname(fn), p.Pos(fnPos(fn)), "mu is taken before inner/next are read or written", "inner/next are accessed without holding the filter's mutex")
	}
	if n < 8 {
		c.und("locking", "RunningEventFilter methods", "", fmt.Sprintf("only %d methods touching inner/next found", n))
	}
}

// c09EmptyPosition: an empty key position (and an empty address list) means "match all" at every level of the index:
// the per-block bloom pre-check can only answer "no" on the evidence of a failed bloom test, the aggregated filter answers
// "all blocks" for an empty key list, and the exact matcher rejects a key only against a non-empty alternative set.
func c09EmptyPosition(c *Ctx) {
	p := c.P
	// (1) TestBloom: negative verdicts are backed by a failed bloom test
	fns := []*ssa.Function{}
	if f := p.Func("blockchain", "EventMatcher", "TestBloom"); f != nil {
		fns = append(fns, f)
	} else {
		c.und("negative-evidence", "EventMatcher.TestBloom", "", "anchor not found")
	}
	for _, fn := range p.sortedFuncs() {
		if pkgRelOf(fn) == "blockchain" && strings.HasPrefix(fn.Name(), "zzVerifFixtureC09Bloom") {
			fns = append(fns, fn)
		}
	}
	isBloomTest := func(v ssa.Value) bool {
		call, ok := v.(*ssa.Call)
		if !ok {
			return false
		}
		cn := (Site{Instr: call, Callee: call.Call.StaticCallee()}).CalleeName()
		if call.Call.StaticCallee() != nil {
			cn = qname(call.Call.StaticCallee())
		}
		return strings.HasSuffix(cn, "BloomFilter).Test") || strings.HasSuffix(cn, "slices.ContainsFunc") || strings.Contains(cn, "ContainsFunc[")
	}
	// sources of a boolean: constants (with value) and calls, through φ / ! / conversions
	type srcs struct {
		constFalse, constTrue, other bool
		tests                        int
	}
	var walk func(v ssa.Value, neg bool, s *srcs, seen map[ssa.Value]bool)
	walk = func(v ssa.Value, neg bool, s *srcs, seen map[ssa.Value]bool) {
		if seen[v] {
			return
		}
		seen[v] = true
		switch x := v.(type) {
		case *ssa.Phi:
			for i, e := range x.Edges {
				// a constant assigned under the outcome of a bloom test (`if Test(k) { flag = true }`) is test evidence
				if _, isConst := e.(*ssa.Const); isConst && i < len(x.Block().Preds) {
					if fs := factsAtBlock(x.Block().Preds[i]); len(fs) > 0 && isBloomTest(fs[0].Cond) {
						s.tests++
						continue
					}
				}
				walk(e, neg, s, seen)
			}
		case *ssa.UnOp:
			if x.Op == token.NOT {
				walk(x.X, !neg, s, seen)
				return
			}
			s.other = true
		case *ssa.Const:
			b := x.Value != nil && constant.BoolVal(x.Value)
			if b != neg {
				s.constTrue = true
			} else {
				s.constFalse = true
			}
		case *ssa.Call:
			if isBloomTest(x) {
				s.tests++
			} else {
				s.other = true
			}
		default:
			s.other = true
		}
	}
	for _, f := range fns {
		c.saw(qname(f))
		n, nret := 0, 0
		for _, ret := range returnsOf(f) {
			if len(ret.Results) != 1 {
				continue
			}
			r := ret.Results[0]
			nret++
			construct := fmt.Sprintf("%s: verdict return #%d", qname(f), nret)
			if k, ok := r.(*ssa.Const); ok {
				if k.Value != nil && constant.BoolVal(k.Value) {
					continue // "maybe" needs no evidence
				}
				// constant false: the nearest controlling condition must be a failed bloom test (directly or through a flag)
				fs := factsAt(ret.Ret)
				okEv := false
				why := "no controlling condition"
				if len(fs) > 0 {
					fct := fs[0] // nearest dominating branch: the condition that selects this return: cond == fct.Pos on this path
					s := &srcs{}
					walk(fct.Cond, false, s, map[ssa.Value]bool{})
					constSame := (fct.Pos && s.constTrue) || (!fct.Pos && s.constFalse)
					switch {
					case s.other:
						why = "the condition that selects this return is not (only) the outcome of bloom tests"
					case s.tests == 0:
						why = "the condition that selects this return involves no bloom test"
					case constSame:
						// the constant initial value is harmless if the loop that performs the tests is known to run at least
						// once here: the key set of this position is non-empty on every path to this return
						d := p.mustHoldAt(ret.Ret)
						if ne, _ := everyDisjunctHas(d, []string{"^!", "(len(", " == 0)"}, []string{"(len(", " > 0)"}, []string{"(len(", " != 0)"}); ne && len(d) > 0 {
							okEv = true
						} else {
							why = "the flag that selects this return can take this value without any bloom test (constant initial value, and the key set is not known to be non-empty)"
						}
					default:
						okEv = true
					}
				}
				n++
				c.check(okEv, "negative-evidence", construct, p.Pos(posOf(ret.Ret, f)), "a block is ruled out only on the evidence of a failed bloom test", "the bloom pre-check answers \"no match\" on a path without a failed bloom test — an empty key position (match-all) or an empty address list rules blocks out: "+why)
				continue
			}
			s := &srcs{}
			walk(r, false, s, map[ssa.Value]bool{})
			n++
			c.check(s.tests > 0 && !s.constFalse && !s.other, "negative-evidence", construct, p.Pos(posOf(ret.Ret, f)), "the verdict is true or the result of a bloom test", "the verdict can be false without a failed bloom test (constant false reaches the result)")
		}
		if n == 0 {
			c.und("negative-evidence", qname(f), p.Pos(fnPos(f)), "no verdict return found")
		}
	}
	c.needFixture("negative-evidence")
	// (2) aggregated filter: empty key list ⇒ all blocks
	for _, nm := range []string{"BlocksForKeysInto", "BlocksForKeys"} {
		f := p.Func("core", "AggregatedBloomFilter", nm)
		if f == nil {
			c.und("empty-position", "AggregatedBloomFilter."+nm, "", "anchor not found")
			continue
		}
		okAll, okNone := false, true
		for _, s := range sitesOf(f) {
			cn := s.CalleeName()
			d := p.mustHoldAt(s.Instr)
			empty, _ := everyDisjunctHas(d, []string{"(len(keys) == 0)"})
			if neg, _ := everyDisjunctHas(d, []string{"^!", "(len(keys) == 0)"}); neg {
				empty = false
			}
			if strings.HasSuffix(cn, "BitSet).SetAll") && empty && len(d) > 0 {
				okAll = true
			}
			if strings.HasSuffix(cn, "BitSet).ClearAll") && empty {
				okNone = false
			}
		}
		c.check(okAll && okNone, "empty-position", "AggregatedBloomFilter."+nm, p.Pos(fnPos(f)), "an empty key list selects every block of the window", "an empty key list (match-all position / no address filter) no longer selects all blocks of the window")
	}
	// (3) exact matcher: a key is rejected only against a non-empty alternative set
	if f := p.Func("blockchain", "EventMatcher", "MatchesEventKeys"); f != nil {
		n := 0
		for _, ret := range returnsOf(f) {
			if k, ok := ret.Results[0].(*ssa.Const); !ok || k.Value == nil || constant.BoolVal(k.Value) {
				continue
			}
			d := p.mustHoldAt(ret.Ret)
			if short, _ := everyDisjunctHas(d, []string{"(len(eventKeys) < len(e.keysMap))"}); short && len(d) > 0 {
				continue
			}
			n++
			ok, miss := everyDisjunctHas(d, []string{"^!", "(len(e.keysMap[", "== 0)"})
			c.check(ok, "empty-position", "MatchesEventKeys: reject", p.Pos(posOf(ret.Ret, f)), "a key mismatch rejects the event only if the position lists alternatives", "an event is rejected at a position whose alternative list is empty (match-all): "+miss)
		}
		if n == 0 {
			c.und("empty-position", "MatchesEventKeys", p.Pos(fnPos(f)), "mismatch return not found")
		}
	} else {
		c.und("empty-position", "EventMatcher.MatchesEventKeys", "", "anchor not found")
	}
}

// c09ScanLimitToken: when the scan limit stops a page, the continuation token names the next candidate block whenever that
// candidate still lies inside the range — including the range's last block (≤, not <): otherwise the events of the last
// block are silently dropped when it happens to be the (limit+1)-th candidate.
func c09ScanLimitToken(c *Ctx) {
	p := c.P
	f := p.Func("blockchain", "EventFilter", "canonicalEvents")
	if f == nil {
		c.und("scan-limit-token", "EventFilter.canonicalEvents", "", "anchor not found")
		return
	}
	n := 0
	for _, ret := range returnsOf(f) {
		if len(ret.Results) != 3 || !isNilConst(ret.Results[2]) {
			continue
		}
		// the token literal with processedEvents = 0 and fromBlock = next candidate
		ld, ok := ret.Results[1].(*ssa.UnOp)
		if !ok {
			continue
		}
		al, ok := ld.X.(*ssa.Alloc)
		if !ok {
			continue
		}
		zeroProcessed := false
		for _, r := range *al.Referrers() {
			if fa, isFa := r.(*ssa.FieldAddr); isFa && fieldName(fa.X.Type(), fa.Field) == "processedEvents" {
				for _, r2 := range *fa.Referrers() {
					if st, isSt := r2.(*ssa.Store); isSt {
						if k, isK := constUint(st.Val); isK && k == 0 {
							zeroProcessed = true
						}
					}
				}
			}
		}
		if !zeroProcessed {
			continue
		}
		n++
		d := p.mustHoldAt(ret.Ret)
		okLimit, m1 := everyDisjunctHas(d, []string{"scannedCount", " > ", "maxScanned"}, []string{"^!", "scannedCount", " <= ", "maxScanned"})
		okRange, m2 := everyDisjunctHas(d, []string{" <= ", "toBlock)"}, []string{"^!", " > ", "toBlock)"}, []string{"toBlock", " >= "})
		c.check(okLimit && okRange, "scan-limit-token", "canonicalEvents: scan-limit continuation", p.Pos(posOf(ret.Ret, f)), "issued when the limit was exceeded and the next candidate ≤ the range end", "the scan-limit continuation token is not issued for every next candidate inside the range (limit: "+fmt.Sprint(okLimit)+" "+m1+"; candidate ≤ end: "+fmt.Sprint(okRange)+" "+m2+"): when the next candidate is the last block of the range its events are dropped")
	}
	if n == 0 {
		c.und("scan-limit-token", "canonicalEvents", p.Pos(fnPos(f)), "scan-limit token return not found")
	}
}

// fieldRead: v reads field idx of a struct value / pointee base.
func fieldRead(v ssa.Value) (ssa.Value, int, bool) {
	switch x := stripConv(v).(type) {
	case *ssa.Field:
		return x.X, x.Field, true
	case *ssa.UnOp:
		if fa, ok := x.X.(*ssa.FieldAddr); ok && x.Op == token.MUL {
			return fa.X, fa.Field, true
		}
	}
	return nil, 0, false
}

var windowInvProg *Prog

// windowTypeInv: every place of T's package that builds a T sets fields (fi, ti) to a window pair — computed from scratch
// (windowPair), or both fields of another T moved by the window size — and no code updates one of the two fields of an
// existing T on its own.
func windowTypeInv(n *types.Named, fi, ti int, depth int) (bool, string) {
	p := windowInvProg
	if p == nil || depth > 4 {
		return false, ""
	}
	isT := func(t types.Type) bool {
		if pt, ok := types.Unalias(t).(*types.Pointer); ok {
			t = pt.Elem()
		}
		m := namedOf(t)
		return m != nil && m.Obj() == n.Obj()
	}
	built := 0
	for _, fn := range p.sortedFuncs() {
		if fn.Pkg == nil || n.Obj().Pkg() == nil || fn.Pkg.Pkg != n.Obj().Pkg() {
			continue
		}
		type pair struct{ f, t ssa.Value }
		lits := map[ssa.Value]*pair{}
		bad := ""
		allInstrs(fn, func(in ssa.Instruction) {
			st, ok := in.(*ssa.Store)
			if !ok {
				return
			}
			fa, ok := st.Addr.(*ssa.FieldAddr)
			if !ok || !isT(fa.X.Type()) || (fa.Field != fi && fa.Field != ti) {
				return
			}
			if _, fresh := fa.X.(*ssa.Alloc); !fresh {
				bad = "a bound of an existing " + n.Obj().Name() + " is overwritten in " + qname(fn)
				return
			}
			pr := lits[fa.X]
			if pr == nil {
				pr = &pair{}
				lits[fa.X] = pr
			}
			if fa.Field == fi {
				pr.f = st.Val
			} else {
				pr.t = st.Val
			}
		})
		if bad != "" {
			return false, bad
		}
		for _, pr := range lits {
			built++
			if pr.f == nil || pr.t == nil {
				return false, "a " + n.Obj().Name() + " is built with only one bound in " + qname(fn)
			}
			// both bounds of another window, moved by the window size
			if bfv, okf := stripConv(pr.f).(*ssa.BinOp); okf {
				if btv, okt := stripConv(pr.t).(*ssa.BinOp); okt && bfv.Op == btv.Op && (bfv.Op == token.SUB || bfv.Op == token.ADD) {
					kf, okk1 := constUint(stripConv(bfv.Y))
					kt, okk2 := constUint(stripConv(btv.Y))
					b1, i1, o1 := fieldRead(bfv.X)
					b2, i2, o2 := fieldRead(btv.X)
					if okk1 && okk2 && kf == winN && kt == winN && o1 && o2 && b1 == b2 && i1 == fi && i2 == ti && isT(b1.Type()) {
						continue
					}
				}
			}
			if ok, why := windowPair(pr.f, pr.t, depth+1); !ok {
				return false, "built in " + qname(fn) + ": " + why
			}
		}
	}
	if built == 0 {
		return false, "no construction of the type found"
	}
	return true, ""
}
