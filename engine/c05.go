package main

import (
	"fmt"
	"go/types"
	"sort"
	"strings"

	"golang.org/x/tools/go/ssa"
)

// nilConfigTrieDB checks the assumption that every production call of triedb.New passes a nil config,
// so database.TrieDB resolves to rawdb.Database (path/hash schemes own their own write path).
func nilConfigTrieDB(c *Ctx, rule string) bool {
	p := c.P
	fn := p.Func("core/trie2/triedb", "", "New")
	if fn == nil {
		c.und(rule, "assumption:triedb.New", "", "anchor core/trie2/triedb.New not found")
		return false
	}
	okAll := true
	n := 0
	for _, s := range p.callersOf(fn) {
		if p.InFixture(s.Pos()) {
			continue
		}
		n++
		args := s.Args()
		if len(args) != 2 {
			okAll = false
			continue
		}
		k, isC := args[1].(*ssa.Const)
		if !isC || k.Value != nil {
			okAll = false
			c.und(rule, "assumption:triedb.New@"+qname(s.Fn), p.Pos(s.Pos()),
				"triedb.New called with a non-nil config: pathdb/hashdb write paths are then live and are not modelled by the batch-only rule")
		}
	}
	if n == 0 {
		c.und(rule, "assumption:triedb.New", "", "no call site of triedb.New found")
		return false
	}
	if okAll {
		c.assume(fmt.Sprintf("checked on this run: all %d production call sites of triedb.New pass a nil config ⇒ TrieDB = rawdb.Database; pathdb/hashdb are cut from reachability", n))
	}
	return okAll
}

func atomicCut(c *Ctx, nilCfg bool) func(caller, callee *ssa.Function) bool {
	return func(caller, callee *ssa.Function) bool {
		pr := pkgRelOf(callee)
		if nilCfg && (strings.HasPrefix(pr, "core/trie2/triedb/pathdb") || strings.HasPrefix(pr, "core/trie2/triedb/hashdb")) {
			return true
		}
		// cut: (*core.RunningEventFilter).ensureInit → initializer (rebuilds a derived index of already-committed blocks)
		if caller != nil && rootOf(caller).Name() == "ensureInit" && pkgRelOf(caller) == "core" {
			return true
		}
		// the db backends are the trusted primitives (a batch's own iterator may replay itself into a scratch copy)
		if pr == "db/memory" || pr == "db/pebble" || pr == "db/pebblev2" || pr == "db/remote" {
			return true
		}
		if !c.P.AllFuncs[callee] {
			// synthetic wrappers of module methods (bound method values `x.m` handed on as callbacks, thunks) are followed:
			// their body is the one static call of the wrapped module method
			if callee.Synthetic != "" && (strings.HasSuffix(callee.Name(), "$bound") || strings.HasSuffix(callee.Name(), "$thunk")) && pr != "" && c.P.ByPath[modPath+"/"+pr] != nil {
				return false
			}
			return true
		}
		return false
	}
}

func init() {
	register("C05", func(c *Ctx) {
		p := c.P
		c.Explain = "Structural necessary conditions of atomic block storage, decided on the SSA form and the VTA call graph of /repo: " +
			"(batch-only) every function reachable from a closure handed to db.Helper.Write/Update in blockchain/statebackend performs no write through the whole store (no Put/Delete/DeleteRange/Write/Update on a KeyValueStore, no store→writer interface narrowing, no reader→writer type assertion, no independent Batch.Write commit); " +
			"(helper-contract) each db.Helper implementation commits the batch only on the fn(batch)==nil branch and commits the very batch it passed; " +
			"(direct-writers) the set of functions in blockchain/core/state/trie packages that write through the store directly equals a frozen, hand-confirmed table; " +
			"(commit-failure-memory) long-lived in-memory objects mutated inside an atomic closure are re-synchronised when the enclosing commit fails; " +
			"(memory-mutation-last) the step that mutates in-memory state is the last fallible step of its closure; (height-in-batch) the chain-height key is written/deleted only by writeBlockContent/deleteBlockContent; (prune-resume) the multi-commit phase of pruning never deletes a bucket that it, or the resume probe, reads. " +
			"Not decided: Pebble's own atomicity/durability, the DB image after a crash between the several batches of a prune, recomputed state commitments."
		ci := p.caps()
		if ci == nil {
			c.und("batch-only", "db interfaces", "", "db.KeyValueStore/KeyValueWriter/Batch not found")
			return
		}
		nilCfg := nilConfigTrieDB(c, "batch-only")
		c.cut("(*core.RunningEventFilter).ensureInit → initializer: rebuilds a derived index of already-committed blocks and may persist a completed window directly")
		c.cut("core/trie2/triedb/{pathdb,hashdb}: unreachable in production because triedb.New is only called with a nil config (assumption re-checked on every run)")

		// ---- batch-only ----
		roots := p.helperClosures(ci, "blockchain")
		nroots := 0
		for _, r := range roots {
			if p.InFixture(r.Site.Pos()) && r.Closure == nil {
				continue
			}
			construct := qname(r.Outer) + "→" + r.Method
			if r.Closure == nil {
				c.und("batch-only", construct, p.Pos(r.Site.Pos()), "callback passed to db.Helper."+r.Method+" is not a resolvable function value")
				continue
			}
			if !p.InFixture(r.Site.Pos()) {
				nroots++
			}
			reach := p.Reachable([]*ssa.Function{r.Closure}, atomicCut(c, nilCfg))
			nleaks := 0
			for _, f := range reach.Funcs() {
				c.saw(qname(f))
				for _, l := range p.storeLeaks(ci, f) {
					nleaks++
					pos := p.Pos(l.Pos)
					if p.InFixture(r.Site.Pos()) {
						pos = p.Pos(r.Site.Pos())
					}
					c.viol("batch-only", construct+" ⊢ "+qname(f)+" ["+l.Kind+" "+l.What+"]", pos,
						fmt.Sprintf("%s bypasses the atomic batch: %s; call path: %s", l.Kind, l.What, reach.Path(f)))
				}
			}
			if nleaks == 0 {
				c.ok("batch-only", construct, p.Pos(r.Site.Pos()), fmt.Sprintf("%d reachable functions, no store→writer use", len(reach.Pred)))
			}
		}
		c.floor("batch-only", 6)
		c.needFixture("batch-only")
		_ = nroots

		// ---- helper-contract ----
		nh := 0
		for n := range ci.storeImpl {
			for _, mname := range []string{"Write", "Update"} {
				fn := p.SSA.LookupMethod(types.NewPointer(n), n.Obj().Pkg(), mname)
				if fn == nil || fn.Blocks == nil {
					continue
				}
				nh++
				checkHelperContract(c, fn)
			}
		}
		c.floor("helper-contract", 8)

		// ---- direct-writers inventory ----
		allowed := map[string]string{
			"(*blockchain.Blockchain).SetL1Head":               "single-key L1 head pointer, not part of a block's atomic unit (C17)",
			"(*blockchain.Blockchain).WriteRunningEventFilter": "shutdown snapshot of the running filter",
			"(*core.RunningEventFilter).Insert":                "non-batch variant used only by the (re)initialiser on a private filter",
			"(*core.RunningEventFilter).OnReorg":               "non-batch variant kept for API compatibility; not reachable from an atomic closure",
			"(*core.RunningEventFilter).Write":                 "shutdown snapshot of the running filter",
		}
		seenAllowed := map[string]bool{}
		ndw := 0
		for _, fn := range p.sortedFuncs() {
			pr := pkgRelOf(fn)
			if !(pr == "blockchain" || strings.HasPrefix(pr, "blockchain/statebackend") || pr == "core" || pr == "core/state" ||
				pr == "core/deprecatedstate" || pr == "core/trie" || pr == "core/trie2" || strings.HasPrefix(pr, "core/trie2/triedb/rawdb") ||
				strings.HasPrefix(pr, "core/trie2/trieutils")) {
				continue
			}
			if fn.Synthetic != "" {
				continue
			}
			ls := p.storeLeaks(ci, fn)
			var real []Leak
			for _, l := range ls {
				if l.Kind == "batch-commit" {
					// committing a batch the function created itself is a separate atomic unit: listed too
				}
				real = append(real, l)
			}
			if len(real) == 0 {
				continue
			}
			ndw++
			name := qname(rootOf(fn))
			if fn.Parent() != nil {
				name = qname(rootOf(fn)) + "$closure"
				name = qname(rootOf(fn))
			}
			if why, ok := allowed[name]; ok {
				seenAllowed[name] = true
				c.ok("direct-writers", name, p.Pos(real[0].Pos), "allowed direct-store writer: "+why)
				continue
			}
			// outer functions that merely host an atomic closure call Helper.Write/Update: that is the sanctioned entry
			onlyHelper := true
			for _, l := range real {
				if l.Kind != "nested-txn" {
					onlyHelper = false
				}
			}
			if onlyHelper {
				c.ok("direct-writers", name, p.Pos(real[0].Pos), "opens an atomic unit via db.Helper (sanctioned entry)")
				continue
			}
			c.viol("direct-writers", name, p.Pos(real[0].Pos),
				fmt.Sprintf("new direct-store writer outside the frozen table: %s %s", real[0].Kind, real[0].What))
		}
		c.floor("direct-writers", 6)

		// ---- commit-failure-memory ----
		checkCommitFailureMemory(c, ci, roots, nilCfg)
		// ---- memory-mutation-last ----
		var real []AtomicRoot
		for _, r := range roots {
			if r.Closure != nil && !p.InFixture(r.Site.Pos()) {
				real = append(real, r)
			}
		}
		checkMemoryMutationLast(c, real, nilCfg)
		// ---- height-in-batch, prune-resume ----
		rs := p.newResolver()
		ai := p.attrIndex(rs, ci)
		checkHeightInBatch(c, ai)
		c16ResumeSafe(c, "prune-resume", ci, rs)
		c05ErrorNotDropped(c)
		c15PebbleBatch(c) // shared with C15: the Pebble batch is one atomic unit (committed only by Write) with its own read view
	})
}

// checkHelperContract: fn is (*Store).Write or Update. The callback parameter is called with a batch B;
// every commit of B happens only on the branch where the callback returned nil; and some commit of B exists.
func checkHelperContract(c *Ctx, fn *ssa.Function) {
	if len(fn.Params) < 2 {
		c.saw(qname(fn))
		c.und("helper-contract", qname(fn), c.P.Pos(fnPos(fn)), "unexpected signature")
		return
	}
	checkHelperContractAt(c, fn, 1, qname(fn), 0)
}

// checkHelperContractAt: the callback is parameter cbIdx of fn. If fn only forwards the callback to a same-package
// function whose result it returns, that function is checked in its place (the obligation keeps the name of the API method).
func checkHelperContractAt(c *Ctx, fn *ssa.Function, cbIdx int, name string, depth int) {
	p := c.P
	c.saw(qname(fn))
	cb := fn.Params[cbIdx]
	var cbCalls []*ssa.Call
	allInstrs(fn, func(in ssa.Instruction) {
		if call, ok := in.(*ssa.Call); ok && call.Call.Value == cb {
			cbCalls = append(cbCalls, call)
		}
	})
	if len(cbCalls) == 0 && depth < 2 {
		for _, s := range sitesOf(fn) {
			if s.Callee == nil {
				continue
			}
			g := s.Callee
			if g.Origin() != nil {
				g = g.Origin()
			}
			if len(g.Blocks) == 0 || pkgRelOf(g) != pkgRelOf(fn) {
				continue
			}
			for k, a := range s.Args() {
				if a != ssa.Value(cb) || k >= len(g.Params) {
					continue
				}
				// the helper's result must be what fn returns
				forwarded := false
				for _, r := range returnsOf(fn) {
					if len(r.Results) > 0 && r.Results[len(r.Results)-1] == s.Instr.(ssa.Value) {
						forwarded = true
					}
				}
				if forwarded {
					checkHelperContractAt(c, g, k, name, depth+1)
					return
				}
			}
		}
	}
	if len(cbCalls) != 1 {
		c.und("helper-contract", name, p.Pos(fnPos(fn)), fmt.Sprintf("callback is called %d times (expected exactly once)", len(cbCalls)))
		return
	}
	call := cbCalls[0]
	B := stripIface(call.Call.Args[0])
	commits := 0
	bad := 0
	for _, s := range sitesOf(fn) {
		nm := ""
		if s.Method != nil {
			nm = s.Method.Name()
		} else if s.Callee != nil {
			nm = s.Callee.Name()
		}
		if nm != "Write" && nm != "Commit" {
			continue
		}
		if s.Recv == nil || stripIface(s.Recv) != B {
			continue
		}
		if _, isDefer := s.Instr.(*ssa.Defer); isDefer {
			bad++
			c.viol("helper-contract", name, p.Pos(s.Pos()), "batch commit is deferred: it would run even when the callback failed")
			continue
		}
		commits++
		okBranch := false
		for _, f := range factsAt(s.Instr) {
			// need: !(call != nil) or (call == nil)
			if b, ok := f.Cond.(*ssa.BinOp); ok {
				isNilCmp := (stripIface(b.X) == ssa.Value(call) && isNilConst(b.Y)) || (stripIface(b.Y) == ssa.Value(call) && isNilConst(b.X))
				if isNilCmp && ((b.Op.String() == "!=" && !f.Pos) || (b.Op.String() == "==" && f.Pos)) {
					okBranch = true
				}
			}
		}
		if !okBranch || !dominatesInstr(call, s.Instr) {
			bad++
			c.viol("helper-contract", name, p.Pos(s.Pos()), "batch is committed on a path where the callback's error was not checked to be nil")
		}
	}
	// every return that follows a *successful* callback passes through a commit: a helper that skips the commit for
	// batches it takes to be empty (seeded change C15-K tests Size() == 0, which on the Pebble batches does not count
	// range deletes) silently drops a callback's writes although it returned nil
	var commitInstrs []ssa.Instruction
	for _, s := range sitesOf(fn) {
		nm := ""
		if s.Method != nil {
			nm = s.Method.Name()
		} else if s.Callee != nil {
			nm = s.Callee.Name()
		}
		if (nm == "Write" || nm == "Commit") && s.Recv != nil && stripIface(s.Recv) == B {
			commitInstrs = append(commitInstrs, s.Instr)
		}
	}
	// helper calls that embody "commit iff the callback's error is nil" (`return pending.writeUnless(fn(pending))`)
	isCommit := map[ssa.Instruction]bool{}
	for _, ci := range commitInstrs {
		isCommit[ci] = true
	}
	for _, s := range sitesOf(fn) {
		if s.Callee == nil || pkgRelOf(s.Callee) != pkgRelOf(fn) {
			continue
		}
		for k, a := range s.Args() {
			if stripIface(a) == ssa.Value(call) && k < len(s.Callee.Params) && commitsWhenNil(s.Callee, k) {
				isCommit[s.Instr] = true
				commits++
			}
		}
	}
	// path search from the callback call: following only the edges on which the callback's error may be nil, no return is
	// reached before a commit
	{
		type pos struct {
			b *ssa.BasicBlock
			i int
		}
		seen := map[*ssa.BasicBlock]bool{}
		var q []pos
		q = append(q, pos{call.Block(), instrIndex(call) + 1})
		badRet := ""
		for len(q) > 0 {
			cur := q[0]
			q = q[1:]
			stopped := false
			for k := cur.i; k < len(cur.b.Instrs) && !stopped; k++ {
				in := cur.b.Instrs[k]
				if isCommit[in] {
					stopped = true
					break
				}
				switch x := in.(type) {
				case *ssa.Return:
					badRet = p.Pos(posOf(x, fn))
					stopped = true
				case *ssa.If:
					nilSide := -1 // successor index on which the callback's error is nil
					if b, ok := x.Cond.(*ssa.BinOp); ok {
						isNilCmp := (stripIface(b.X) == ssa.Value(call) && isNilConst(b.Y)) || (stripIface(b.Y) == ssa.Value(call) && isNilConst(b.X))
						if isNilCmp && b.Op.String() == "==" {
							nilSide = 0
						} else if isNilCmp && b.Op.String() == "!=" {
							nilSide = 1
						}
					}
					for si, sb := range cur.b.Succs {
						if nilSide >= 0 && si != nilSide {
							continue
						}
						if !seen[sb] {
							seen[sb] = true
							q = append(q, pos{sb, 0})
						}
					}
					stopped = true
				case *ssa.Jump:
					for _, sb := range cur.b.Succs {
						if !seen[sb] {
							seen[sb] = true
							q = append(q, pos{sb, 0})
						}
					}
					stopped = true
				case *ssa.Panic:
					stopped = true
				}
			}
		}
		if badRet != "" {
			bad++
			c.viol("helper-contract", name, badRet, "a return after a successful callback does not pass through the commit of the batch: what the callback wrote is dropped although the helper reports success")
		}
	}
	if commits == 0 && bad == 0 {
		c.und("helper-contract", name, p.Pos(fnPos(fn)), "no commit of the batch handed to the callback found (the value committed must be the value passed)")
		return
	}
	if bad == 0 {
		c.ok("helper-contract", name, p.Pos(fnPos(fn)), fmt.Sprintf("%d commit site(s), all on the callback==nil branch and on the batch passed to the callback", commits))
	}
}

func isNilConst(v ssa.Value) bool {
	k, ok := v.(*ssa.Const)
	return ok && k.Value == nil
}

func stripIface(v ssa.Value) ssa.Value {
	for {
		switch x := v.(type) {
		case *ssa.ChangeInterface:
			v = x.X
		case *ssa.MakeInterface:
			v = x.X
		case *ssa.ChangeType:
			v = x.X
		default:
			return v
		}
	}
}

// long-lived in-memory types whose fields may be mutated inside atomic closures
var longLived = []struct{ pkg, typ string }{
	{"core", "RunningEventFilter"},
	{"core", "AggregatedBloomFilter"},
	{"blockchain", "AggregatedBloomFilterCache"},
	{"pruner", "RetentionFloor"},
}

func checkCommitFailureMemory(c *Ctx, ci *capInfo, roots []AtomicRoot, nilCfg bool) {
	p := c.P
	n := 0
	for _, r := range roots {
		if r.Closure == nil || p.InFixture(r.Site.Pos()) {
			continue
		}
		reach := p.Reachable([]*ssa.Function{r.Closure}, atomicCut(c, nilCfg))
		mutated := map[string]string{}
		for _, f := range reach.Funcs() {
			allInstrs(f, func(in ssa.Instruction) {
				st, ok := in.(*ssa.Store)
				if !ok {
					return
				}
				fa, ok := st.Addr.(*ssa.FieldAddr)
				if !ok {
					return
				}
				for _, ll := range longLived {
					if isNamed(fa.X.Type(), ll.pkg, ll.typ) {
						// fresh-object exception: base is an Alloc in this function (constructor)
						if _, fresh := fa.X.(*ssa.Alloc); fresh {
							return
						}
						// object must outlive the closure: receiver reached through the outer method's receiver
						// (value receivers / locals copied by value are not long-lived)
						if _, isPtr := fa.X.Type().Underlying().(*types.Pointer); !isPtr {
							return
						}
						if isLocalValue(fa.X) {
							return
						}
						key := ll.typ + "." + fieldName(fa.X.Type(), fa.Field)
						if _, dup := mutated[key]; !dup {
							mutated[key] = qname(f) + " @" + p.Pos(posOf(in, f))
						}
					}
				}
			})
		}
		if len(mutated) == 0 {
			continue
		}
		n++
		// the outer function must compensate on the error path of the Helper call
		compensated := outerCompensates(p, r)
		var ks []string
		for k := range mutated {
			ks = append(ks, k)
		}
		sort.Strings(ks)
		construct := qname(r.Outer) + "→" + r.Method
		if compensated {
			c.ok("commit-failure-memory", construct, p.Pos(r.Site.Pos()), "in-memory fields "+strings.Join(ks, ",")+" mutated in the closure; error path of the commit resynchronises them")
		} else {
			c.viol("commit-failure-memory", construct, p.Pos(r.Site.Pos()),
				fmt.Sprintf("in-memory state %s is mutated inside the atomic closure (first: %s) but the error return of db.Helper.%s is passed on without resynchronising it: memory ≠ disk after a failed commit",
					strings.Join(ks, ","), mutated[ks[0]], r.Method))
		}
	}
	c.floor("commit-failure-memory", 4)
}

// isLocalValue: pointer to a struct that was allocated (non-escaping copy) in the same function,
// e.g. `innerCopy := f.inner.Clone(); &innerCopy`.
func isLocalValue(v ssa.Value) bool {
	switch x := v.(type) {
	case *ssa.Alloc:
		return true
	case *ssa.Phi:
		for _, e := range x.Edges {
			if !isLocalValue(e) {
				return false
			}
		}
		return true
	}
	return false
}

// outerCompensates: the result of the Helper call is tested and, on the non-nil branch, some method of a
// long-lived type is called (reset/reload), before returning.
func outerCompensates(p *Prog, r AtomicRoot) bool {
	v, ok := r.Site.Instr.(ssa.Value)
	if !ok {
		return false
	}
	refs := v.Referrers()
	if refs == nil {
		return false
	}
	for _, ref := range *refs {
		b, ok := ref.(*ssa.BinOp)
		if !ok || !(isNilConst(b.X) || isNilConst(b.Y)) {
			continue
		}
		// find blocks where err != nil holds and look for a call on a long-lived object
		for _, blk := range r.Outer.Blocks {
			holds := false
			for _, f := range factsAtBlock(blk) {
				if f.Cond == ssa.Value(b) && ((b.Op.String() == "!=" && f.Pos) || (b.Op.String() == "==" && !f.Pos)) {
					holds = true
				}
			}
			if !holds {
				continue
			}
			for _, in := range blk.Instrs {
				if ci, ok := in.(ssa.CallInstruction); ok {
					cc := ci.Common()
					var rt types.Type
					if cc.IsInvoke() {
						rt = cc.Value.Type()
					} else if f := cc.StaticCallee(); f != nil && f.Signature.Recv() != nil {
						rt = f.Signature.Recv().Type()
					}
					for _, ll := range longLived {
						if rt != nil && isNamed(rt, ll.pkg, ll.typ) {
							return true
						}
					}
				}
			}
		}
	}
	return false
}

// commitsWhenNil: every return of h that is not on the `errParam != nil` branch passes through a Write/Commit call.
func commitsWhenNil(h *ssa.Function, errParam int) bool {
	if len(h.Blocks) == 0 {
		return false
	}
	ep := ssa.Value(h.Params[errParam])
	var commits []ssa.Instruction
	for _, s := range sitesOf(h) {
		nm := ""
		if s.Method != nil {
			nm = s.Method.Name()
		} else if s.Callee != nil {
			nm = s.Callee.Name()
		}
		if nm == "Write" || nm == "Commit" {
			commits = append(commits, s.Instr)
		}
	}
	if len(commits) == 0 {
		return false
	}
	for _, r := range returnsOf(h) {
		onErr := false
		for _, f := range factsAt(r.Ret) {
			if b, ok := f.Cond.(*ssa.BinOp); ok {
				isNilCmp := (stripIface(b.X) == ep && isNilConst(b.Y)) || (stripIface(b.Y) == ep && isNilConst(b.X))
				if isNilCmp && ((b.Op.String() == "!=" && f.Pos) || (b.Op.String() == "==" && !f.Pos)) {
					onErr = true
				}
			}
		}
		if onErr {
			continue
		}
		ok := false
		for _, ci := range commits {
			if dominatesInstr(ci, r.Ret) {
				ok = true
			}
		}
		if !ok {
			return false
		}
	}
	return true
}
