package main

import (
	"encoding/json"
	"fmt"
	"os"
	"path/filepath"
	"sort"
	"sync"

	"golang.org/x/tools/go/ssa"
)

// Baseline names. Rule patterns are written against terms in which parameters, receivers, captured variables and
// address-taken locals appear under the names they had when the rule instances were confirmed by reading. Source names
// are not semantics: renaming a receiver or a local must not change a verdict. engine/names.json freezes, per function,
// the names by *position* (parameters, free variables; with their types) and by *type and ordinal* (named allocs).
// The term renderer shows the frozen name for the value at the same position/type — so a renamed tree renders exactly
// as the baseline did — and falls back to the current source name when the function is unknown or the slot's type changed.
// Regenerate with `junocheck -prop MKNAMES` (after re-confirming the rules) when signatures of anchored functions change.

type nameT [2]string // name, type

type fnNames struct {
	P []nameT           `json:"p,omitempty"`
	F []nameT           `json:"f,omitempty"`
	A map[string]string `json:"a,omitempty"`
}

var (
	nameTable     map[string]*fnNames
	nameTableOnce sync.Once
	nameTablePath string
	allocKeyCache sync.Map // *ssa.Function → map[*ssa.Alloc]string
)

func loadNameTable() {
	nameTableOnce.Do(func() {
		nameTable = map[string]*fnNames{}
		if nameTablePath == "" || os.Getenv("VERIF_NO_BASENAMES") != "" {
			return
		}
		b, err := os.ReadFile(nameTablePath)
		if err != nil {
			return
		}
		json.Unmarshal(b, &nameTable)
	})
}

func nameKeyOf(fn *ssa.Function) string {
	if fn == nil {
		return ""
	}
	return qname(fn)
}

func allocKeys(fn *ssa.Function) map[*ssa.Alloc]string {
	if m, ok := allocKeyCache.Load(fn); ok {
		return m.(map[*ssa.Alloc]string)
	}
	m := map[*ssa.Alloc]string{}
	cnt := map[string]int{}
	for _, b := range fn.Blocks {
		for _, in := range b.Instrs {
			if a, ok := in.(*ssa.Alloc); ok && a.Comment != "" {
				t := a.Type().String()
				m[a] = fmt.Sprintf("%s#%d", t, cnt[t])
				cnt[t]++
			}
		}
	}
	allocKeyCache.Store(fn, m)
	return m
}

func baseParamName(x *ssa.Parameter) string {
	loadNameTable()
	fn := x.Parent()
	e := nameTable[nameKeyOf(fn)]
	if e == nil || len(e.P) != len(fn.Params) {
		return x.Name()
	}
	for i, p := range fn.Params {
		if p == x && e.P[i][1] == p.Type().String() {
			return e.P[i][0]
		}
	}
	return x.Name()
}

func baseFreeVarName(x *ssa.FreeVar) string {
	loadNameTable()
	fn := x.Parent()
	e := nameTable[nameKeyOf(fn)]
	if e == nil || len(e.F) != len(fn.FreeVars) {
		return x.Name()
	}
	for i, p := range fn.FreeVars {
		if p == x && e.F[i][1] == p.Type().String() {
			return e.F[i][0]
		}
	}
	return x.Name()
}

func baseAllocName(x *ssa.Alloc) string {
	loadNameTable()
	fn := x.Parent()
	e := nameTable[nameKeyOf(fn)]
	if e == nil || e.A == nil {
		return x.Comment
	}
	if n, ok := e.A[allocKeys(fn)[x]]; ok {
		return n
	}
	return x.Comment
}

func init() {
	register("MKNAMES", func(c *Ctx) {
		out := map[string]*fnNames{}
		var fns []*ssa.Function
		for fn := range c.P.AllFuncs {
			fns = append(fns, fn)
		}
		sort.Slice(fns, func(i, j int) bool { return qname(fns[i]) < qname(fns[j]) })
		for _, fn := range fns {
			if fn.Origin() != nil { // instantiations share the origin's names but have other types: keyed separately by qname anyway
			}
			e := &fnNames{}
			for _, p := range fn.Params {
				e.P = append(e.P, nameT{p.Name(), p.Type().String()})
			}
			for _, p := range fn.FreeVars {
				e.F = append(e.F, nameT{p.Name(), p.Type().String()})
			}
			for a, k := range allocKeys(fn) {
				if e.A == nil {
					e.A = map[string]string{}
				}
				e.A[k] = a.Comment
			}
			if len(e.P)+len(e.F)+len(e.A) == 0 {
				continue
			}
			if _, dup := out[qname(fn)]; dup {
				continue
			}
			out[qname(fn)] = e
		}
		b, _ := json.Marshal(out)
		dst := filepath.Join(filepath.Dir(nameTablePath), "names.json")
		if err := os.WriteFile(dst, b, 0o644); err != nil {
			c.und("mknames", "write", "", err.Error())
			return
		}
		fmt.Printf("wrote %d function entries (%d bytes) to %s\n", len(out), len(b), dst)
		c.ok("mknames", "x", "", "")
		c.ok("mknames", "y", "", "")
	})
}
