package main

import (
	"go/token"
	"go/types"
	"strings"

	"golang.org/x/tools/go/ssa"
)

// E3: capability flow — who holds the whole store and uses it to write.

type capInfo struct {
	store     *types.Interface // db.KeyValueStore
	writer    *types.Interface // db.KeyValueWriter
	rangeDel  *types.Interface
	batch     *types.Interface // db.Batch
	reader    *types.Interface
	helper    *types.Interface
	storeImpl map[*types.Named]bool
}

func (p *Prog) caps() *capInfo {
	ci := &capInfo{storeImpl: map[*types.Named]bool{}}
	get := func(n string) *types.Interface {
		t := p.lookupType("db", n)
		if t == nil {
			return nil
		}
		i, _ := t.Underlying().(*types.Interface)
		return i
	}
	ci.store, ci.writer, ci.rangeDel, ci.batch, ci.reader, ci.helper =
		get("KeyValueStore"), get("KeyValueWriter"), get("KeyValueRangeDeleter"), get("Batch"), get("KeyValueReader"), get("Helper")
	if ci.store == nil || ci.writer == nil || ci.batch == nil {
		return nil
	}
	for _, pk := range p.Pkgs {
		sc := pk.Types.Scope()
		for _, nm := range sc.Names() {
			tn, ok := sc.Lookup(nm).(*types.TypeName)
			if !ok || tn.IsAlias() {
				continue
			}
			n, ok := tn.Type().(*types.Named)
			if !ok || n.TypeParams().Len() > 0 {
				continue
			}
			if _, isI := n.Underlying().(*types.Interface); isI {
				continue
			}
			if types.Implements(types.NewPointer(n), ci.store) || types.Implements(n, ci.store) {
				ci.storeImpl[n] = true
			}
		}
	}
	return ci
}

func (ci *capInfo) isStoreType(t types.Type) bool {
	if t == nil {
		return false
	}
	if n := namedOf(t); n != nil && ci.storeImpl[n.Origin()] {
		return true
	}
	if it, ok := t.Underlying().(*types.Interface); ok {
		// an interface that gives the full store: implements KeyValueStore
		return types.Implements(t, ci.store) || types.Identical(it, ci.store)
	}
	return false
}

func (ci *capInfo) isBatchType(t types.Type) bool {
	if t == nil || ci.isStoreType(t) {
		return false
	}
	return types.Implements(t, ci.batch)
}

func (ci *capInfo) hasWriteMethods(t types.Type) bool {
	return types.Implements(t, ci.writer) || (ci.rangeDel != nil && types.Implements(t, ci.rangeDel))
}

type Leak struct {
	Fn   *ssa.Function
	Pos  token.Pos
	Kind string // direct-write | nested-txn | batch-commit | store-as-writer | assert-to-writer
	What string
}

var storeWriteMethods = map[string]string{
	"Put": "direct-write", "Delete": "direct-write", "DeleteRange": "direct-write",
	"Write": "nested-txn", "Update": "nested-txn",
}

// storeLeaks lists store→writer capability uses in fn.
func (p *Prog) storeLeaks(ci *capInfo, fn *ssa.Function) []Leak {
	var out []Leak
	for _, s := range sitesOf(fn) {
		var recvT types.Type
		name := ""
		if s.Method != nil {
			recvT = s.Recv.Type()
			name = s.Method.Name()
		} else if s.Callee != nil && s.Callee.Signature.Recv() != nil {
			recvT = s.Callee.Signature.Recv().Type()
			name = s.Callee.Name()
			if s.Callee.Synthetic != "" && strings.Contains(s.Callee.Synthetic, "wrapper") {
				// bound method wrappers etc.
			}
		}
		if recvT == nil {
			continue
		}
		if ci.isStoreType(recvT) {
			if k, ok := storeWriteMethods[name]; ok {
				out = append(out, Leak{fn, s.Pos(), k, typeShort(recvT) + "." + name})
			}
		} else if name == "Write" && ci.isBatchType(recvT) {
			// committing a batch: only the db.Helper may commit the batch it created
			sig := s.Instr.Common().Signature()
			if sig.Params().Len() == 0 {
				out = append(out, Leak{fn, s.Pos(), "batch-commit", typeShort(recvT) + ".Write()"})
			}
		}
	}
	allInstrs(fn, func(in ssa.Instruction) {
		switch x := in.(type) {
		case *ssa.ChangeInterface:
			if ci.isStoreType(x.X.Type()) && !ci.isStoreType(x.Type()) && ci.hasWriteMethods(x.Type()) {
				out = append(out, Leak{fn, posOf(in, fn), "store-as-writer", typeShort(x.X.Type()) + " → " + typeShort(x.Type())})
			}
		case *ssa.MakeInterface:
			if ci.isStoreType(x.X.Type()) && !ci.isStoreType(x.Type()) && ci.hasWriteMethods(x.Type()) {
				out = append(out, Leak{fn, posOf(in, fn), "store-as-writer", typeShort(x.X.Type()) + " → " + typeShort(x.Type())})
			}
		case *ssa.TypeAssert:
			// widening a reader (or anything that is not a writer) to a writer
			if _, isI := x.X.Type().Underlying().(*types.Interface); isI && !ci.hasWriteMethods(x.X.Type()) && ci.hasWriteMethods(x.AssertedType) {
				if types.Implements(x.X.Type(), ci.reader) {
					out = append(out, Leak{fn, posOf(in, fn), "assert-to-writer", typeShort(x.X.Type()) + ".(" + typeShort(x.AssertedType) + ")"})
				}
			}
		}
	})
	return out
}

func posOf(in ssa.Instruction, fn *ssa.Function) token.Pos {
	if in.Pos().IsValid() {
		return in.Pos()
	}
	// nearest following/preceding instruction with a position in the same block
	b := in.Block()
	idx := instrIndex(in)
	for d := 1; d < len(b.Instrs); d++ {
		for _, j := range []int{idx + d, idx - d} {
			if j >= 0 && j < len(b.Instrs) && b.Instrs[j].Pos().IsValid() {
				return b.Instrs[j].Pos()
			}
		}
	}
	return fnPos(fn)
}

// helperClosures: function literals passed to db.Helper.Write/Update (interface invoke or concrete) inside pkgRel.
type AtomicRoot struct {
	Outer   *ssa.Function
	Closure *ssa.Function
	Site    Site
	Method  string
}

func (p *Prog) helperClosures(ci *capInfo, pkgPrefix string) []AtomicRoot {
	var out []AtomicRoot
	for _, fn := range p.sortedFuncs() {
		if !strings.HasPrefix(pkgRelOf(fn), pkgPrefix) {
			continue
		}
		for _, s := range sitesOf(fn) {
			name := ""
			var recvT types.Type
			if s.Method != nil {
				name, recvT = s.Method.Name(), s.Recv.Type()
			} else if s.Callee != nil && s.Callee.Signature.Recv() != nil {
				name, recvT = s.Callee.Name(), s.Callee.Signature.Recv().Type()
			}
			if (name != "Write" && name != "Update") || recvT == nil {
				continue
			}
			if !(ci.isStoreType(recvT) || (ci.helper != nil && types.Implements(recvT, ci.helper))) {
				continue
			}
			args := s.Args()
			if s.Callee != nil && len(args) > 0 {
				args = args[1:]
			}
			if len(args) != 1 {
				continue
			}
			fs := funcValues(args[0], 0)
			if len(fs) == 0 {
				out = append(out, AtomicRoot{Outer: fn, Closure: nil, Site: s, Method: name})
				continue
			}
			for _, f := range fs {
				out = append(out, AtomicRoot{Outer: fn, Closure: f, Site: s, Method: name})
			}
		}
	}
	return out
}
