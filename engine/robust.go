package main

import (
	"fmt"
	"go/ast"
	"go/types"
	"os"
	"path/filepath"
	"sort"
	"strings"
)

// Robustness self-check of the rules (not a deciding step): writes behaviour-preserving variants of /repo's sources into
// dir — every local variable, parameter, receiver and named result renamed (suffix), one extra line at the top of every
// file — so that the checks can be re-run on them through the overlay (VERIF_MUTANT_DIR). Any alarm on the variant is a
// false alarm of a rule that depends on spelling or position instead of structure.
func writeRenamedVariant(p *Prog, dir, suffix string) (int, error) {
	insertNoop := os.Getenv("VERIF_VARIANT_NOOP") != ""
	nfiles := 0
	for _, pk := range p.Pkgs {
		if !strings.HasPrefix(pk.PkgPath, modPath) || pk.TypesInfo == nil {
			continue
		}
		for i, f := range pk.Syntax {
			if i >= len(pk.CompiledGoFiles) {
				continue
			}
			fname := p.Fset.Position(f.Pos()).Filename
			if !strings.HasSuffix(fname, ".go") || strings.Contains(fname, "zz_verif_fixture") || !strings.HasPrefix(fname, p.RepoDir) {
				continue
			}
			usesCgo := false
			for _, im := range f.Imports {
				if im.Path.Value == `"C"` {
					usesCgo = true
				}
			}
			if usesCgo {
				continue
			}
			src, err := os.ReadFile(fname)
			if err != nil {
				return nfiles, err
			}
			type edit struct{ off, n int }
			var edits []edit
			seen := map[int]bool{}
			mark := func(id *ast.Ident) {
				if id == nil || id.Name == "_" {
					return
				}
				off := p.Fset.Position(id.Pos()).Offset
				if seen[off] || off+len(id.Name) > len(src) || string(src[off:off+len(id.Name)]) != id.Name {
					return
				}
				seen[off] = true
				edits = append(edits, edit{off, len(id.Name)})
			}
			isLocal := func(o types.Object) bool {
				v, ok := o.(*types.Var)
				if !ok || v.IsField() || v.Pkg() == nil {
					return false
				}
				if v.Parent() == nil { // parameters of interface methods / func types: only defs, harmless — skip
					return false
				}
				return v.Parent() != v.Pkg().Scope() && v.Parent() != types.Universe
			}
			ast.Inspect(f, func(n ast.Node) bool {
				switch x := n.(type) {
				case *ast.Ident:
					if o := pk.TypesInfo.Defs[x]; o != nil && isLocal(o) {
						mark(x)
					}
					if o := pk.TypesInfo.Uses[x]; o != nil && isLocal(o) {
						mark(x)
					}
				case *ast.TypeSwitchStmt:
					if as, ok := x.Assign.(*ast.AssignStmt); ok && len(as.Lhs) == 1 {
						if id, ok := as.Lhs[0].(*ast.Ident); ok {
							mark(id)
						}
					}
				}
				return true
			})
			if insertNoop { // a no-op closure call as first statement of every declared function: shifts closure numbering, adds call sites
				for _, d := range f.Decls {
					if fd, ok := d.(*ast.FuncDecl); ok && fd.Body != nil {
						off := p.Fset.Position(fd.Body.Lbrace).Offset
						if off < len(src) && src[off] == '{' && !seen[off+1] {
							edits = append(edits, edit{off + 1, -1})
						}
					}
				}
			}
			// composite-literal keys and selector fields are never local vars; struct tags untouched.
			sort.Slice(edits, func(a, b int) bool { return edits[a].off > edits[b].off })
			out := append([]byte{}, src...)
			for _, e := range edits {
				if e.n < 0 {
					out = append(out[:e.off], append([]byte("\n\tfunc() {}()\n"), out[e.off:]...)...)
					continue
				}
				out = append(out[:e.off+e.n], append([]byte(suffix), out[e.off+e.n:]...)...)
			}
			// shift all positions by one line (after a possible build-constraint header the blank line is harmless)
			out = append([]byte("// robustness variant\n"), out...)
			rel, _ := filepath.Rel(p.RepoDir, fname)
			dst := filepath.Join(dir, rel)
			os.MkdirAll(filepath.Dir(dst), 0o755)
			if err := os.WriteFile(dst, out, 0o644); err != nil {
				return nfiles, err
			}
			nfiles++
		}
	}
	return nfiles, nil
}

func init() {
	register("MKRENAMED", func(c *Ctx) {
		dir := os.Getenv("VERIF_RENAMED_OUT")
		if dir == "" {
			c.und("mkrenamed", "env", "", "VERIF_RENAMED_OUT not set")
			return
		}
		n, err := writeRenamedVariant(c.P, dir, "Zq")
		fmt.Printf("wrote %d renamed files to %s (err=%v)\n", n, dir, err)
		c.ok("mkrenamed", "x", "", "")
		c.ok("mkrenamed", "y", "", "")
	})
}
