package main

import (
	"go/constant"
	"go/token"
	"regexp"
	"sort"
	"strings"

	"golang.org/x/tools/go/ssa"
)

// E5 (full form): DNF of atomic conditions under which a boolean SSA value is true / false, with && / || recovered from
// control flow and φ-nodes, negations pushed inwards and small boolean helper functions inlined.

type conj map[string]bool

func (c conj) clone() conj {
	n := conj{}
	for k := range c {
		n[k] = true
	}
	return n
}
func (c conj) list() []string {
	var o []string
	for k := range c {
		o = append(o, k)
	}
	sort.Strings(o)
	return o
}

// has: some atom matches all patterns. Pattern language: "^!" as first pattern → the atom must be negated (otherwise it
// must be positive); "$suffix" → the atom ends with suffix; anything else → substrings that must occur in the given order.
func (c conj) has(sub ...string) bool {
	wantNeg := false
	if len(sub) > 0 && sub[0] == "^!" {
		wantNeg = true
		sub = sub[1:]
	}
	for a0 := range c {
		for _, a := range equivForms(a0) {
			if strings.HasPrefix(a, "!") != wantNeg {
				continue
			}
			ok := matchOrdered(a, sub)
			if ok {
				return true
			}
		}
	}
	return false
}

// matchOrdered: every pattern occurs in a, each after the end of the previous one ("$suffix": a ends with suffix).
func matchOrdered(a string, sub []string) bool {
	at := 0
	for _, s := range sub {
		if strings.HasPrefix(s, "$") {
			if !strings.HasSuffix(a, s[1:]) {
				return false
			}
			continue
		}
		i := strings.Index(a[at:], s)
		if i < 0 {
			return false
		}
		at += i + len(s)
	}
	return true
}

var equivCache = map[string][]string{}

var cmpMirror = map[string]string{"<": ">", "<=": ">=", ">": "<", ">=": "<=", "==": "==", "!=": "!="}
var cmpNeg = map[string]string{"<": ">=", "<=": ">", ">": "<=", ">=": "<", "==": "!=", "!=": "=="}

// equivForms: the atom itself plus, when it is a (possibly negated) comparison "(L op R)", the equivalent spellings
// obtained by pushing the negation into the operator and by swapping the operands: !(a <= b) ≡ (a > b) ≡ (b < a) ≡ !(b >= a).
// Because the swapped spelling is also tried, patterns are matched IN ORDER (matchOrdered): a pattern that names an operand
// before or after the operator pins the side it stands on, and cannot be satisfied by the comparison of the opposite sense.
// A pattern written against one spelling of a guard therefore matches every spelling of the same guard.
func equivForms(a string) []string {
	if f, ok := equivCache[a]; ok {
		return f
	}
	out := []string{a}
	defer func() { equivCache[a] = out }()
	neg := strings.HasPrefix(a, "!")
	body := strings.TrimPrefix(a, "!")
	if len(body) < 2 || body[0] != '(' || body[len(body)-1] != ')' {
		return out
	}
	depth, opAt, opLen := 0, -1, 0
	for i := 0; i < len(body); i++ {
		switch body[i] {
		case '(', '[', '{':
			depth++
		case ')', ']', '}':
			depth--
			if depth == 0 && i != len(body)-1 {
				return out // not a single parenthesised expression
			}
		case ' ':
			if depth == 1 && opAt < 0 {
				for _, op := range []string{"<=", ">=", "==", "!=", "<", ">"} {
					if strings.HasPrefix(body[i+1:], op+" ") {
						opAt, opLen = i, len(op)
						break
					}
				}
			}
		}
	}
	if opAt < 0 {
		return out
	}
	l, op, r := body[1:opAt], body[opAt+1:opAt+1+opLen], body[opAt+2+opLen:len(body)-1]
	pre, npre := "", "!"
	if neg {
		pre, npre = "!", ""
	}
	out = append(out,
		npre+"("+l+" "+cmpNeg[op]+" "+r+")",
		pre+"("+r+" "+cmpMirror[op]+" "+l+")",
		npre+"("+r+" "+cmpMirror[cmpNeg[op]]+" "+l+")")
	return out
}

type dnf []conj

const dnfCap = 48

func dnfAnd(a, b dnf) dnf {
	var out dnf
	for _, x := range a {
		for _, y := range b {
			n := x.clone()
			contradiction := false
			for k := range y {
				if n[negAtom(k)] {
					contradiction = true
				}
				n[k] = true
			}
			if !contradiction {
				out = append(out, n)
			}
			if len(out) > dnfCap {
				return out
			}
		}
	}
	return out
}

func negAtom(a string) string {
	if strings.HasPrefix(a, "!") {
		return a[1:]
	}
	return "!" + a
}

func dnfOr(a, b dnf) dnf {
	out := append(dnf{}, a...)
	out = append(out, b...)
	if len(out) > dnfCap {
		out = out[:dnfCap]
	}
	return out
}

type bform struct {
	p        *Prog
	inline   int
	visited  map[ssa.Value]bool
	memo     map[*ssa.BasicBlock]dnf
	inprog   map[*ssa.BasicBlock]bool
	inHelper map[*ssa.Function]bool
}

func (p *Prog) boolDNF(v ssa.Value, want bool) dnf {
	b := &bform{p: p, visited: map[ssa.Value]bool{}}
	return b.dnf(v, want, 0)
}

func atom(v ssa.Value, want bool) dnf {
	t := term(v)
	if !want {
		t = negAtom(t)
	}
	return dnf{conj{t: true}}
}

func (b *bform) dnf(v ssa.Value, want bool, depth int) dnf {
	if depth > 10 {
		return atom(v, want)
	}
	switch x := v.(type) {
	case *ssa.Const:
		if x.Value != nil && x.Value.Kind() == constant.Bool {
			if constant.BoolVal(x.Value) == want {
				return dnf{conj{}}
			}
			return dnf{}
		}
	case *ssa.UnOp:
		if x.Op == token.NOT {
			return b.dnf(x.X, !want, depth+1)
		}
	case *ssa.Phi:
		if b.visited[x] {
			return atom(v, want)
		}
		b.visited[x] = true
		defer delete(b.visited, x)
		var out dnf
		for i, e := range x.Edges {
			pred := x.Block().Preds[i]
			ed := b.dnf(e, want, depth+1)
			if len(ed) == 0 {
				continue
			}
			pc := b.pathCond(pred, x.Block(), x.Block().Parent(), depth+1)
			out = dnfOr(out, dnfAnd(pc, ed))
		}
		return out
	case *ssa.BinOp:
		// `helper(..) == nil` known true (or `!= nil` known false), helper a small module function whose last result is
		// an error: the helper succeeded, so one of its non-failing returns was taken — conjoin the disjunction of their
		// path conditions (parameters replaced by the arguments), as for boolean helpers below
		if (x.Op == token.NEQ && !want) || (x.Op == token.EQL && want) {
			var cv ssa.Value
			if isNilConst(x.Y) {
				cv = x.X
			} else if isNilConst(x.X) {
				cv = x.Y
			}
			if d, ok := b.helperSuccess(cv, depth); ok {
				return dnfAnd(atom(v, want), d)
			}
		}
	case *ssa.Call:
		f := x.Call.StaticCallee()
		if f != nil && f.Blocks == nil && f.Origin() != nil {
			f = f.Origin()
		}
		if f != nil && f.Blocks != nil && (b.p.AllFuncs[f] || (f.Origin() != nil && b.p.AllFuncs[f.Origin()])) && depth < 6 && isBoolResult(f) && len(f.Blocks) <= 14 {
			var out dnf
			sub := &bform{p: b.p, visited: map[ssa.Value]bool{}}
			for _, ret := range returnsOf(f) {
				rd := sub.dnf(ret.Results[0], want, depth+2)
				if len(rd) == 0 {
					continue
				}
				pc := sub.pathCond(ret.Block, nil, f, depth+2)
				out = dnfOr(out, dnfAnd(pc, rd))
			}
			out = substParams(out, f, x.Call.Args)
			// keep the call itself as an atom too
			a := atom(v, want)
			return dnfAnd(a, out)
		}
	}
	return atom(v, want)
}

// helperSuccess: cv is the error result of a call to a small module function; returns the condition under which that
// function returns a nil error, in the caller's terms.
func (b *bform) helperSuccess(cv ssa.Value, depth int) (dnf, bool) {
	if cv == nil || depth >= 6 {
		return nil, false
	}
	var call *ssa.Call
	switch y := cv.(type) {
	case *ssa.Call:
		call = y
	case *ssa.Extract:
		c, ok := y.Tuple.(*ssa.Call)
		if !ok || y.Index != c.Call.Signature().Results().Len()-1 {
			return nil, false
		}
		call = c
	default:
		return nil, false
	}
	f := call.Call.StaticCallee()
	if f != nil && f.Blocks == nil && f.Origin() != nil {
		f = f.Origin()
	}
	if f == nil || f.Blocks == nil || !(b.p.AllFuncs[f] || (f.Origin() != nil && b.p.AllFuncs[f.Origin()])) {
		return nil, false
	}
	res := f.Signature.Results()
	if res.Len() == 0 || res.At(res.Len()-1).Type().String() != "error" {
		return nil, false
	}
	// only straight-line validation helpers: the atoms of a helper with loops are about its own iteration variables and
	// would be meaningless (and could clash textually) in the caller
	if len(f.Blocks) > 12 {
		return nil, false
	}
	for _, blk := range f.Blocks {
		for _, sc := range blk.Succs {
			if sc.Dominates(blk) {
				return nil, false
			}
		}
	}
	if b.inHelper == nil {
		b.inHelper = map[*ssa.Function]bool{}
	}
	if b.inHelper[f] {
		return nil, false
	}
	b.inHelper[f] = true
	defer delete(b.inHelper, f)
	var out dnf
	sub := &bform{p: b.p, visited: map[ssa.Value]bool{}, inHelper: b.inHelper}
	for _, ret := range returnsOf(f) {
		last := ret.Results[len(ret.Results)-1]
		if definitelyNonNilErr(last) {
			continue
		}
		failing := false
		for _, fc := range factsAtBlock(ret.Block) {
			if bo, ok := fc.Cond.(*ssa.BinOp); ok && fc.Pos && bo.Op == token.NEQ && isNilConst(bo.Y) && flowsFrom(last, bo.X, 0) {
				failing = true
			}
		}
		if failing {
			continue
		}
		pc := sub.pathCond(ret.Block, nil, f, depth+2)
		// a forwarded inner error (`return g(..)`): the inner helper succeeded too
		if !isNilConst(last) {
			if d, ok := sub.helperSuccess(last, depth+2); ok {
				pc = dnfAnd(pc, d)
			}
		}
		out = dnfOr(out, pc)
	}
	if len(out) == 0 {
		return nil, false
	}
	return substParams(out, f, call.Call.Args), true
}

func isBoolResult(f *ssa.Function) bool {
	r := f.Signature.Results()
	return r.Len() == 1 && r.At(0).Type().String() == "bool"
}

// pathCond: conjunction of branch conditions that hold when control reaches `from` (and takes the edge from→to if given),
// relative to the entry of fn. Conditions that are themselves compound are expanded.
func (b *bform) pathCond(from, to *ssa.BasicBlock, fn *ssa.Function, depth int) dnf {
	out := b.blockCond(from, depth)
	add := func(cond ssa.Value, pos bool) {
		out = dnfAnd(out, b.dnf(cond, pos, depth+1))
	}
	if to != nil && len(from.Instrs) > 0 {
		if iff, ok := from.Instrs[len(from.Instrs)-1].(*ssa.If); ok && from.Succs[0] != from.Succs[1] {
			if from.Succs[0] == to {
				add(iff.Cond, true)
			} else if from.Succs[1] == to {
				add(iff.Cond, false)
			}
		}
	}
	return out
}

// rawFactsAtBlock: like factsAtBlock but without expansion.
func rawFactsAtBlock(b *ssa.BasicBlock) []Fact {
	var out []Fact
	for cur := b; cur != nil; {
		d := cur.Idom()
		if d == nil {
			break
		}
		if len(d.Instrs) > 0 {
			if iff, ok := d.Instrs[len(d.Instrs)-1].(*ssa.If); ok && d.Succs[0] != d.Succs[1] {
				for k, s := range d.Succs {
					if (s == cur || s.Dominates(cur)) && len(s.Preds) == 1 {
						out = append(out, Fact{iff.Cond, k == 0})
					}
				}
			}
		}
		cur = d
	}
	return out
}

// mustHoldAt: DNF of conditions that hold when instruction in is reached (within its function).
func (p *Prog) mustHoldAt(in ssa.Instruction) dnf {
	b := &bform{p: p, visited: map[ssa.Value]bool{}}
	return b.pathCond(in.Block(), nil, in.Parent(), 0)
}

// everyDisjunctHas: each disjunct contains an atom containing all substrings of some alternative.
func everyDisjunctHas(d dnf, alts ...[]string) (bool, string) {
	if len(d) == 0 {
		return true, "" // unreachable
	}
	for _, c := range d {
		ok := false
		for _, alt := range alts {
			if c.has(alt...) {
				ok = true
			}
		}
		if !ok {
			return false, strings.Join(c.list(), " ∧ ")
		}
	}
	return true, ""
}

// blockCond: DNF of the conditions under which control reaches block blk, merging over predecessors (back edges are
// ignored); falls back to the dominator-based conjunction when the DNF grows beyond the cap.
func (b *bform) blockCond(blk *ssa.BasicBlock, depth int) dnf {
	if b.memo == nil {
		b.memo = map[*ssa.BasicBlock]dnf{}
		b.inprog = map[*ssa.BasicBlock]bool{}
	}
	if d, ok := b.memo[blk]; ok {
		return d
	}
	domBased := func() dnf {
		out := dnf{conj{}}
		for _, f := range rawFactsAtBlock(blk) {
			out = dnfAnd(out, b.dnf(f.Cond, f.Pos, depth+1))
		}
		return out
	}
	if depth > 6 || b.inprog[blk] || len(blk.Preds) == 0 {
		if len(blk.Preds) == 0 {
			return dnf{conj{}}
		}
		return domBased()
	}
	b.inprog[blk] = true
	defer delete(b.inprog, blk)
	var out dnf
	for _, p := range blk.Preds {
		if blk.Dominates(p) { // back edge
			continue
		}
		pc := b.blockCond(p, depth)
		if len(p.Instrs) > 0 {
			if iff, ok := p.Instrs[len(p.Instrs)-1].(*ssa.If); ok && p.Succs[0] != p.Succs[1] {
				if p.Succs[0] == blk {
					pc = dnfAnd(pc, b.dnf(iff.Cond, true, depth+1))
				} else if p.Succs[1] == blk {
					pc = dnfAnd(pc, b.dnf(iff.Cond, false, depth+1))
				}
			}
		}
		out = dnfOr(out, pc)
	}
	out = simplifyDNF(out)
	if len(out) >= dnfCap || len(out) == 0 {
		out = domBased()
	}
	b.memo[blk] = out
	return out
}

// simplifyDNF merges (X ∧ a) ∨ (X ∧ ¬a) → X and removes subsumed / duplicate disjuncts.
func simplifyDNF(d dnf) dnf {
	changed := true
	for changed && len(d) > 1 {
		changed = false
	outer:
		for i := 0; i < len(d); i++ {
			for j := i + 1; j < len(d); j++ {
				if len(d[i]) != len(d[j]) {
					continue
				}
				diff := ""
				nd := 0
				for k := range d[i] {
					if !d[j][k] {
						nd++
						diff = k
					}
				}
				if nd == 0 {
					d = append(d[:j], d[j+1:]...)
					changed = true
					break outer
				}
				if nd == 1 && d[j][negAtom(diff)] {
					m := d[i].clone()
					delete(m, diff)
					d[i] = m
					d = append(d[:j], d[j+1:]...)
					changed = true
					break outer
				}
			}
		}
	}
	// subsumption: drop Y if some X ⊂ Y
	var out dnf
	for i, y := range d {
		sub := false
		for j, x := range d {
			if i == j || len(x) >= len(y) {
				continue
			}
			all := true
			for k := range x {
				if !y[k] {
					all = false
					break
				}
			}
			if all {
				sub = true
				break
			}
		}
		if !sub {
			out = append(out, y)
		}
	}
	return out
}

var identRe = regexp.MustCompile(`[A-Za-z_][A-Za-z0-9_]*`)

// substParams rewrites the atoms of an inlined helper from the callee's parameter names to the caller's argument terms,
// so that facts established by a boolean helper (e.g. contains(n)) can be matched against the caller's values. Both the
// original and the substituted atom are kept.
func substParams(d dnf, f *ssa.Function, args []ssa.Value) dnf {
	if len(f.Params) != len(args) {
		return d
	}
	repl := map[string]string{}
	for i, par := range f.Params {
		pn := baseParamName(par)
		if pn == "" || pn == "_" {
			continue
		}
		t := term(args[i])
		if strings.HasPrefix(t, "&") && par.Type().String() == args[i].Type().String() {
			// pointer receiver passed as pointer: terms of field access drop the &
		}
		repl[pn] = strings.TrimPrefix(t, "&")
	}
	var out dnf
	for _, cj := range d {
		n := conj{}
		for a := range cj {
			n[a] = true
			sa := identRe.ReplaceAllStringFunc(a, func(id string) string {
				if r, ok := repl[id]; ok {
					return r
				}
				return id
			})
			n[sa] = true
		}
		out = append(out, n)
	}
	return out
}
