package main

import (
	"flag"
	"fmt"
	"os"
	"path/filepath"
	"sort"
	"strconv"
	"strings"
	"time"
)

type propFn func(c *Ctx)

var props = map[string]propFn{}

func register(id string, f propFn) { props[id] = f }

func main() {
	prop := flag.String("prop", "", "property id (C01..C20) or 'all'")
	tier := flag.String("tier", "quick", "quick|thorough")
	repo := flag.String("repo", "/repo", "repository root")
	verif := flag.String("verif", "", "verif dir (default: parent of the binary's dir)")
	nofix := flag.Bool("nofixtures", false, "do not inject positive-control fixtures")
	dump := flag.Bool("v", false, "print all obligations")
	flag.Parse()
	if *verif == "" {
		exe, _ := os.Executable()
		*verif = filepath.Dir(filepath.Dir(exe))
	}
	nameTablePath = filepath.Join(*verif, "engine", "names.json")
	if _, err := os.Stat(nameTablePath); err != nil {
		exe, _ := os.Executable()
		nameTablePath = filepath.Join(filepath.Dir(exe), "names.json")
	}
	seed := 0
	if s := os.Getenv("VERIF_SEED"); s != "" {
		seed, _ = strconv.Atoi(s)
	}
	if t := os.Getenv("VERIF_TIER"); t == "quick" || t == "thorough" {
		*tier = t
	}
	var ids []string
	if *prop == "all" {
		for k := range props {
			if len(k) == 3 && k[0] == 'C' && k[1] >= '0' && k[1] <= '9' && k[2] >= '0' && k[2] <= '9' {
				ids = append(ids, k)
			}
		}
		sort.Strings(ids)
	} else {
		for _, k := range strings.Split(*prop, ",") {
			if props[k] == nil {
				fmt.Fprintf(os.Stderr, "unknown property %q\n", k)
				os.Exit(2)
			}
			ids = append(ids, k)
		}
	}
	t0 := time.Now()
	fix := filepath.Join(*verif, "engine", "fixtures")
	if *nofix {
		fix = ""
	}
	abs, _ := filepath.Abs(*repo)
	p, err := Load(abs, fix)
	if err != nil {
		for _, id := range ids {
			fmt.Printf("BROKEN-LOAD property=%s: %v\n", id, err)
			rp := filepath.Join(*verif, "evidence", "replay", id+".txt")
			os.MkdirAll(filepath.Dir(rp), 0o755)
			os.WriteFile(rp, []byte(fmt.Sprintf("BROKEN-LOAD: %v\n", err)), 0o644)
			fmt.Printf("VIOLATION property=%s replay=%s\n", id, rp)
		}
		os.Exit(1)
	}
	if fix != "" && !p.Fixtures {
		for _, n := range p.LoadNotes {
			if len(n) > 300 {
				n = n[:300]
			}
			fmt.Println("FIXTURES-DISABLED (positive controls do not type-check against the current tree; rules run without them):", n)
		}
	}
	fmt.Printf("loaded %d packages, %d function bodies in %.1fs (fixtures=%v)\n", len(p.Pkgs), len(p.AllFuncs), p.LoadSecs, p.Fixtures)
	code := 0
	sibCache := map[string]*Ctx{}
	for _, id := range ids {
		tp := time.Now()
		if len(ids) == 1 {
			tp = t0
		}
		c := &Ctx{P: p, Prop: id, Tier: *tier}
		func() {
			defer func() {
				if r := recover(); r != nil {
					c.und("analyzer-panic", id, "", fmt.Sprintf("analyzer panicked: %v", r))
					if os.Getenv("VERIF_DEBUG") != "" {
						panic(r)
					}
				}
			}()
			props[id](c)
		}()
		importShared(c, p, *tier, sibCache)
		if *tier == "thorough" && os.Getenv("VERIF_MUTANT_DIR") == "" && len(id) == 3 {
			c.SelfTest = runSelfTest(id, abs, *verif)
			c.Robust = runRenameRobustness(p, id, abs, *verif)
			c.Benign = runBenignRefactorings(id, abs, *verif)
		}
		if *dump {
			for _, o := range c.Obs {
				fmt.Printf("  [%s] %s %s @%s %s\n", o.Status, o.Rule, o.Construct, o.Pos, o.Msg)
			}
		}
		if c.finish(*verif, tp, seed) != 0 {
			code = 1
		}
	}
	os.Exit(code)
}

// sharedRules: rules that are a necessary condition of more than one property are decided once, by the property whose code
// they are anchored in, and imported (re-labelled) into the other properties they bind — a change that breaks property X
// must be reported by X's own check, not only by a neighbour's. The pairs were read off the seeded changes that used to be
// reported by a neighbouring property only (DESIGN §10).
var sharedRules = map[string]map[string][]string{
	"C01": {"C08": {"cache-coherence"}},
	"C02": {"C05": {"memory-mutation-last"}},
	"C03": {"C01": {"commit-nodes"}, "C08": {"cache-coherence"}},
	"C04": {"C03": {"history-pairing", "every-entry"}, "C09": {"cache-invalidate", "reorg"}, "C06": {"pipeline-only"}},
	"C05": {"C16": {"floor-first", "marker-with-history"}, "C09": {"reorg", "cache-invalidate"}, "C08": {"cache-coherence"}},
	"C06": {"C02": {"verify-success"}},
	"C07": {"C08": {"index-every-tx", "cache-coherence"}},
	"C08": {"C03": {"every-entry", "gates", "history-pairing"}, "C11": {"no-pooled-escape", "numbers-exact"}},
	"C13": {"C14": {"min-over-all-refs", "prune-filter-agreement", "replay-order"}},
	"C17": {"C08": {"atomic-check-then-store"}},
}

func importShared(c *Ctx, p *Prog, tier string, cache map[string]*Ctx) {
	sibs := sharedRules[c.Prop]
	var names []string
	for sib := range sibs {
		names = append(names, sib)
	}
	sort.Strings(names)
	for _, sib := range names {
		sc := cache[sib]
		if sc == nil {
			sc = &Ctx{P: p, Prop: sib, Tier: tier}
			func() {
				defer func() {
					if r := recover(); r != nil {
						sc.und("analyzer-panic", sib, "", fmt.Sprintf("analyzer panicked: %v", r))
					}
				}()
				props[sib](sc)
			}()
			cache[sib] = sc
		}
		want := map[string]bool{}
		for _, r := range sibs[sib] {
			want[sib+"/"+r] = true
		}
		n := 0
		for _, o := range sc.Obs {
			if !want[o.Rule] && o.Rule != sib+"/analyzer-panic" {
				continue
			}
			o.Rule = c.Prop + "/" + strings.TrimPrefix(o.Rule, sib+"/")
			o.Msg += " [rule shared with " + sib + "]"
			c.Obs = append(c.Obs, o)
			n++
		}
		c.note("imported %d obligations of %s rules %v (necessary conditions shared with this property)", n, sib, sibs[sib])
	}
}
