package main

import (
	"fmt"
	"go/token"
	"go/types"
	"sort"
	"strings"

	"golang.org/x/tools/go/ssa"
)

type preimageRow struct {
	pkg, recv, fn string
	param         int    // parameter index whose fields are the preimage
	arm           string // "" = whole function; otherwise a fact substring identifying the version arm
	closure       bool   // analyse the function literal(s) passed to calculateCommitment inside fn instead of fn itself
	fields        []string
	toResult      bool // labels must reach the result instead of a hash sink (pure helpers)
	why           string
}

var preimageTable = []preimageRow{
	// transaction hashes (Starknet transaction hash specification, per version)
	{"core", "", "invokeTransactionHash", 0, "Version.Is(0)", false, []string{"Version", "ContractAddress", "EntryPointSelector", "CallData", "MaxFee"}, false, "invoke v0"},
	{"core", "", "invokeTransactionHash", 0, "Version.Is(1)", false, []string{"Version", "SenderAddress", "CallData", "MaxFee", "Nonce"}, false, "invoke v1"},
	{"core", "", "invokeTransactionHash", 0, "Version.Is(3)", false, []string{"Version", "SenderAddress", "Tip", "ResourceBounds", "PaymasterData", "Nonce", "FeeDAMode", "NonceDAMode", "AccountDeploymentData", "CallData", "ProofFacts"}, false, "invoke v3"},
	{"core", "", "declareTransactionHash", 0, "Version.Is(0)", false, []string{"Version", "SenderAddress", "MaxFee", "ClassHash"}, false, "declare v0 (p2p path)"},
	{"core", "", "declareTransactionHash", 0, "Version.Is(1)", false, []string{"Version", "SenderAddress", "ClassHash", "MaxFee", "Nonce"}, false, "declare v1"},
	{"core", "", "declareTransactionHash", 0, "Version.Is(2)", false, []string{"Version", "SenderAddress", "ClassHash", "MaxFee", "Nonce", "CompiledClassHash"}, false, "declare v2"},
	{"core", "", "declareTransactionHash", 0, "Version.Is(3)", false, []string{"Version", "SenderAddress", "Tip", "ResourceBounds", "PaymasterData", "Nonce", "FeeDAMode", "NonceDAMode", "AccountDeploymentData", "ClassHash", "CompiledClassHash"}, false, "declare v3"},
	{"core", "", "deployAccountTransactionHash", 0, "Version.Is(1)", false, []string{"Version", "ContractAddress", "ClassHash", "ContractAddressSalt", "ConstructorCallData", "MaxFee", "Nonce"}, false, "deploy_account v1"},
	{"core", "", "deployAccountTransactionHash", 0, "Version.Is(3)", false, []string{"Version", "ContractAddress", "Tip", "ResourceBounds", "PaymasterData", "Nonce", "FeeDAMode", "NonceDAMode", "ConstructorCallData", "ClassHash", "ContractAddressSalt"}, false, "deploy_account v3"},
	{"core", "", "l1HandlerTransactionHash", 0, "Version.Is(0)", false, []string{"Version", "ContractAddress", "EntryPointSelector", "CallData", "Nonce"}, false, "l1_handler v0"},
	{"core", "", "tipAndResourcesHash", 0, "", false, []string{"$tip"}, false, "tip"},
	{"core", "", "tipAndResourcesHash", 1, "", false, []string{"$resourceBounds"}, false, "resource bounds"},
	{"core", "", "dataAvailabilityMode", 0, "", false, []string{"$feeDAMode"}, true, "fee DA mode"},
	{"core", "", "dataAvailabilityMode", 1, "", false, []string{"$nonceDAMode"}, true, "nonce DA mode"},
	// block hashes
	{"core", "", "post0134Hash", 0, "", false, []string{"Number", "GlobalStateRoot", "SequencerAddress", "Timestamp", "TransactionCount", "EventCount", "L1DAMode", "L1GasPriceETH", "L1GasPriceSTRK", "L1DataGasPrice", "L2GasPrice", "ProtocolVersion", "ParentHash", "Transactions", "Receipts"}, false, "block hash ≥ 0.13.4"},
	{"core", "", "post0134Hash", 1, "", false, []string{"$stateDiff"}, false, "state diff commitment in the block hash"},
	{"core", "", "Post0132Hash", 0, "", false, []string{"Number", "GlobalStateRoot", "SequencerAddress", "Timestamp", "TransactionCount", "EventCount", "L1DAMode", "L1GasPriceETH", "L1GasPriceSTRK", "L1DataGasPrice.PriceInWei", "L1DataGasPrice.PriceInFri", "ProtocolVersion", "ParentHash", "Transactions", "Receipts"}, false, "block hash 0.13.2–0.13.3"},
	{"core", "", "Post0132Hash", 1, "", false, []string{"$stateDiff"}, false, "state diff commitment in the block hash"},
	{"core", "", "post07Hash", 0, "", false, []string{"Number", "GlobalStateRoot", "SequencerAddress", "Timestamp", "TransactionCount", "EventCount", "ProtocolVersion", "ParentHash", "Transactions", "Receipts"}, false, "block hash 0.7–0.13.1"},
	{"core", "", "pre07Hash", 0, "", false, []string{"Number", "GlobalStateRoot", "TransactionCount", "ParentHash", "Transactions"}, false, "block hash < 0.7"},
	{"core", "", "pre07Hash", 2, "", false, []string{"$chain"}, false, "chain id"},
	{"core", "", "gasPricesHash", 0, "", false, []string{"$gasPrices"}, false, "L1 gas prices"},
	{"core", "", "gasPricesHash", 1, "", false, []string{"$dataGasPrices"}, false, "L1 data gas prices"},
	{"core", "", "gasPricesHash", 2, "", false, []string{"$l2GasPrices"}, false, "L2 gas prices"},
	{"core", "", "ConcatCounts", 0, "", false, []string{"$txCount"}, true, "tx count"},
	{"core", "", "ConcatCounts", 1, "", false, []string{"$eventCount"}, true, "event count"},
	{"core", "", "ConcatCounts", 2, "", false, []string{"$stateDiffLen"}, true, "state diff length"},
	// receipts / messages / events / transaction leaves
	{"core", "TransactionReceipt", "hash", 0, "", false, []string{"TransactionHash", "Fee", "L2ToL1Message", "Reverted", "RevertReason", "TotalGasConsumed"}, false, "receipt hash"},
	{"core", "", "messagesSentHash", 0, "", false, []string{"$messages"}, false, "L2→L1 messages"},
	{"core", "", "eventCommitmentPoseidon", 0, "", true, []string{"Event.From", "TxHash", "Event.Keys", "Event.Data"}, false, "event leaf (≥0.13.2)"},
	{"core", "", "eventCommitmentPedersen", 0, "", true, []string{"From", "Keys", "Data"}, false, "event leaf (<0.13.2)"},
	{"core", "", "transactionCommitmentPedersen", 0, "", true, []string{"Hash()", "Signature()"}, false, "transaction leaf (pedersen)"},
	{"core", "", "transactionCommitmentPoseidon0134", 0, "", true, []string{"Hash()", "Signature()"}, false, "transaction leaf (≥0.13.4)"},
	{"core", "", "transactionCommitmentPoseidon0132", 0, "", true, []string{"Hash()", "Signature()"}, false, "transaction leaf (0.13.2)"},
	// state diff
	{"core", "StateDiff", "Hash", 0, "", false, []string{"StorageDiffs", "Nonces", "DeployedContracts", "DeclaredV0Classes", "DeclaredV1Classes", "ReplacedClasses", "MigratedClasses"}, false, "state diff hash"},
	{"core", "StateDiff", "Commitment", 0, "", false, []string{"StorageDiffs", "Nonces", "DeployedContracts", "DeclaredV0Classes", "DeclaredV1Classes", "ReplacedClasses", "MigratedClasses"}, false, "state diff commitment"},
	{"core", "StateDiff", "Length", 0, "", false, []string{"StorageDiffs", "Nonces", "DeployedContracts", "DeclaredV0Classes", "DeclaredV1Classes", "ReplacedClasses", "MigratedClasses"}, true, "state diff length"},
	{"core", "", "updatedContractsDigest", 0, "", false, []string{"$deployedContracts"}, false, "deployed contracts"},
	{"core", "", "updatedContractsDigest", 1, "", false, []string{"$replacedClasses"}, false, "replaced classes"},
	{"core", "", "declaredClassesDigest", 0, "", false, []string{"$declaredClasses"}, false, "declared classes"},
	{"core", "", "declaredClassesDigest", 1, "", false, []string{"$migratedClasses"}, false, "migrated classes"},
	{"core", "", "deprecatedDeclaredClassesDigest", 0, "", false, []string{"$declaredV0Classes"}, false, "deprecated declared classes"},
	{"core", "", "storageDiffDigest", 0, "", false, []string{"$storageDiffs"}, false, "storage diffs"},
	{"core", "", "noncesDigest", 0, "", false, []string{"$nonces"}, false, "nonces"},
	// classes
	{"core", "", "deprecatedCairoClassHash", 0, "", false, []string{"Abi", "Constructors", "Externals", "L1Handlers", "Program"}, false, "cairo0 class hash"},
	// positive control (fixture file only)
	{"core", "TransactionReceipt", "zzVerifFixtureC02", 0, "", false, []string{"TransactionHash", "Fee"}, false, "fixture"},
}

func labelHas(set map[string]string, want string) bool {
	for l := range set {
		if l == want || strings.HasSuffix(l, "."+want) || strings.Contains(l, "."+want+".") || strings.HasPrefix(l, want+".") {
			return true
		}
	}
	return false
}

func armPred(arm string) func(ssa.Instruction) bool {
	if arm == "" {
		return nil
	}
	return func(in ssa.Instruction) bool {
		for _, f := range factStrings(factsAt(in)) {
			if strings.Contains(f, arm) && !strings.HasPrefix(f, "!") {
				return true
			}
		}
		return false
	}
}

func checkPreimage(c *Ctx, rule string, table []preimageRow) {
	p := c.P
	for _, row := range table {
		fn := p.Func(row.pkg, row.recv, row.fn)
		name := row.fn
		if row.recv != "" {
			name = row.recv + "." + row.fn
		}
		if row.arm != "" {
			name += "[" + row.arm + "]"
		}
		if fn == nil {
			if !strings.Contains(row.fn, "zzVerifFixture") {
				c.und(rule, name, "", "hash function not found (renamed?)")
			}
			continue
		}
		c.saw(qname(fn))
		var units []*flowUnit
		if row.closure {
			// function literals passed to calculateCommitment
			for _, s := range sitesOf(fn) {
				if !strings.HasSuffix(s.CalleeName(), "calculateCommitment") {
					continue
				}
				for _, a := range s.Args() {
					for _, lit := range funcValues(a, 0) {
						// a literal of this function, or a named function of the same package passed as the leaf hasher
						if len(lit.Params) == 0 || (lit.Parent() != nil && lit.Parent() != fn) || (lit.Parent() == nil && pkgRelOf(lit) != pkgRelOf(fn)) {
							continue
						}
						u := newFlowUnit(p, lit)
						u.seedFieldLoads(lit.Params[0])
						u.run()
						units = append(units, u)
					}
				}
			}
			// literals assigned to a variable first (hashFunc := func…)
			if len(units) == 0 {
				for _, lit := range fn.AnonFuncs {
					if len(lit.Params) == 1 && len(lit.FreeVars) == 0 {
						u := newFlowUnit(p, lit)
						u.seedFieldLoads(lit.Params[0])
						u.run()
						units = append(units, u)
					}
				}
			}
			if len(units) == 0 {
				c.und(rule, name, p.Pos(fnPos(fn)), "leaf function literal not found")
				continue
			}
		} else {
			if row.param >= len(fn.Params) {
				c.und(rule, name, p.Pos(fnPos(fn)), "parameter index out of range")
				continue
			}
			u := newFlowUnit(p, fn)
			u.seedFieldLoads(fn.Params[row.param])
			u.seedParam(fn.Params[row.param], "$"+baseParamName(fn.Params[row.param]))
			u.run()
			units = append(units, u)
		}
		for _, u := range units {
			var got map[string]string
			if row.toResult {
				got = map[string]string{}
				for l := range u.resultLabels() {
					got[l] = ""
				}
			} else {
				got = u.sinkLabels(isHashSink, armPred(row.arm))
			}
			uname := name
			if row.closure {
				uname = name + "/" + u.root.Name()
			}
			for _, f := range row.fields {
				construct := uname + " ∋ " + f
				if labelHas(got, f) {
					c.ok(rule, construct, p.Pos(fnPos(u.root)), row.why+": field participates in the hash")
				} else {
					c.viol(rule, construct, p.Pos(fnPos(u.root)), fmt.Sprintf("%s: %s no longer flows into the hash%s: a tampered value would verify", row.why, f, map[bool]string{true: " result", false: " preimage"}[row.toResult]))
				}
			}
		}
	}
}

// ifErrorOnFailure: fn contains a branch on a predicate matching pats; on the side where the predicate has the value
// failWhen control returns a non-nil error (directly from that successor block).
func ifErrorOnFailure(p *Prog, fn *ssa.Function, failWhen bool, pats ...string) bool {
	for _, b := range fn.Blocks {
		iff, ok := b.Instrs[len(b.Instrs)-1].(*ssa.If)
		if !ok {
			continue
		}
		t := term(iff.Cond)
		neg := strings.HasPrefix(t, "!")
		pred := strings.TrimPrefix(t, "!")
		match := true
		for _, pat := range pats {
			if !strings.Contains(pred, pat) {
				match = false
			}
		}
		if !match {
			continue
		}
		// predicate value on Succs[0] is !neg, on Succs[1] is neg
		k := 1
		if (!neg) == failWhen {
			k = 0
		}
		sb := b.Succs[k]
		for hops := 0; hops < 3 && sb != nil; hops++ {
			if ret, ok := sb.Instrs[len(sb.Instrs)-1].(*ssa.Return); ok && len(ret.Results) > 0 {
				last := unspill(ret.Results[len(ret.Results)-1], sb)
				if last.Type().String() == "error" && !isNilConst(last) {
					return true
				}
				break
			}
			if len(sb.Succs) == 1 {
				sb = sb.Succs[0]
			} else {
				break
			}
		}
	}
	return false
}

func init() {
	register("C02", func(c *Ctx) {
		p := c.P
		c02OverrideOnlyWhenAbsent(c)
		c02AdapterKeepsEveryReceipt(c)
		concurrentCaptureRule(c, "concurrent-capture", func(pk string) bool { return pk == "core" })
		memoKeyRule(c, "memo-key", func(pk string) bool {
			return pk == "core" || strings.HasPrefix(pk, "adapters/") || strings.HasPrefix(pk, "starknetdata") || pk == "blockchain" || pk == "sync"
		})
		c.Explain = "Structural conditions of block verification decided from SSA: (preimage-coverage) labelled forward flow — every committed field of Header/transactions/receipts/events/state-diff sections/classes reaches a hash sink (crypto.Pedersen*/Poseidon*/digest.Update*/StarknetKeccak) in the corresponding hash function and version arm; " +
			"(version-dispatch) BlockHash, VerifyTransactions and the transaction-commitment select formulas under the protocol's version thresholds; (verify-success) the success exits of SanityCheckNewHeight, VerifyBlockHash, VerifyTransactions and VerifyClassHashes are reachable only with every comparison passed; (tx-exhaustive) TransactionHash covers every Transaction implementation; (succession-first) the Store closure checks parent hash/number before any write. " +
			"Not decided: that the computed hashes equal the network's, collision resistance, old-format fixture blocks."
		checkPreimage(c, "preimage-coverage", preimageTable)
		c.floor("preimage-coverage", 150)
		c.needFixture("preimage-coverage")
		c02SectionComplete(c)
		c02NilResultOfCallback(c)
		// all three resources in tipAndResourcesHash
		if f := p.Func("core", "", "tipAndResourcesHash"); f != nil {
			seen := map[string]bool{}
			allInstrs(f, func(in ssa.Instruction) {
				if lk, ok := in.(*ssa.Lookup); ok {
					seen[term(lk.Index)] = true
				}
			})
			for _, r := range []string{"core.ResourceL1Gas", "core.ResourceL2Gas", "core.ResourceL1DataGas"} {
				c.check(seen[r], "preimage-coverage", "tipAndResourcesHash ∋ bounds["+r+"]", p.Pos(fnPos(f)), "resource participates", "resource "+r+" is no longer part of the v3 fee preimage")
			}
		}
		// events are paired with the hash of their own transaction
		if f := p.Func("core", "", "eventCommitmentPoseidon"); f != nil {
			ok := false
			allInstrs(f, func(in ssa.Instruction) {
				if st, isSt := in.(*ssa.Store); isSt && strings.HasSuffix(term(st.Addr), ".TxHash") && strings.HasSuffix(term(st.Val), ".TransactionHash") {
					ok = true
				}
			})
			c.check(ok, "preimage-coverage", "eventCommitmentPoseidon: TxHash = receipt.TransactionHash", p.Pos(fnPos(f)), "each event leaf carries its own transaction's hash", "event leaves are no longer paired with receipt.TransactionHash")
		}

		c02VersionDispatch(c)
		c02VerifySuccess(c)
		// tx-exhaustive
		if f := p.Func("core", "", "TransactionHash"); f != nil {
			txI, _ := p.lookupType("core", "Transaction").Underlying().(*types.Interface)
			asserted := map[string]bool{}
			allInstrs(f, func(in ssa.Instruction) {
				if ta, ok := in.(*ssa.TypeAssert); ok {
					if n := namedOf(ta.AssertedType); n != nil {
						asserted[n.Obj().Name()] = true
					}
				}
			})
			n := 0
			sc := p.pkg("core").Types.Scope()
			for _, nm := range sc.Names() {
				tn, ok := sc.Lookup(nm).(*types.TypeName)
				if !ok || tn.IsAlias() {
					continue
				}
				if _, isI := tn.Type().Underlying().(*types.Interface); isI {
					continue
				}
				if txI != nil && types.Implements(types.NewPointer(tn.Type()), txI) {
					n++
					c.check(asserted[nm], "tx-exhaustive", "TransactionHash handles "+nm, p.Pos(fnPos(f)), "has an arm", "transaction type "+nm+" has no arm in core.TransactionHash: its hash would not be verified")
				}
			}
			if n < 5 {
				c.und("tx-exhaustive", "core.Transaction implementers", "", fmt.Sprintf("only %d found", n))
			}
			// default arm returns an error
			okd := false
			for _, ret := range returnsOf(f) {
				if strings.Contains(term(ret.Results[1]), "unknown transaction") {
					okd = true
				}
			}
			c.check(okd, "tx-exhaustive", "TransactionHash default arm", p.Pos(fnPos(f)), "unknown types are rejected", "the default arm no longer returns an error")
		} else {
			c.und("tx-exhaustive", "core.TransactionHash", "", "anchor not found")
		}
		c02SuccessionFirst(c, "succession-first")
	})
}

func c02VersionDispatch(c *Ctx) {
	p := c.P
	f := p.Func("core", "", "BlockHash")
	if f == nil {
		c.und("version-dispatch", "core.BlockHash", "", "anchor not found")
		return
	}
	for _, d := range []struct {
		callee string
		need   [][]string
	}{
		{"post0134Hash", [][]string{{"GreaterThanEqual(", "Ver0_13_4"}}},
		{"Post0132Hash", [][]string{{"GreaterThanEqual(", "Ver0_13_2"}, {"^!", "GreaterThanEqual(", "Ver0_13_4"}}},
		{"pre07Hash", [][]string{{"^!", "GreaterThanEqual(", "Ver0_13_2"}, {"Number < ", "First07Block"}}},
		{"post07Hash", [][]string{{"^!", "GreaterThanEqual(", "Ver0_13_2"}, {"^!", "Number < ", "First07Block"}}},
	} {
		// the dispatch may be spread over same-package helpers (`pre0132Hash` choosing between the two Pedersen formulas)
		dss := p.deepSites(f, nameMatcher(d.callee), 2)
		if len(dss) == 0 {
			c.viol("version-dispatch", "BlockHash → "+d.callee, p.Pos(fnPos(f)), "formula is no longer dispatched from BlockHash")
			continue
		}
		s := &dss[0].Site
		dn := p.mustHoldDeep(dss[0])
		for _, need := range d.need {
			// a threshold may be spelt with either predicate: v.GreaterThanEqual(T) ≡ !v.LessThan(T); `Number < X` ≡ !(Number >= X)
			alts := [][]string{need}
			if len(need) >= 2 {
				neg := need[0] == "^!"
				rest := need
				if neg {
					rest = need[1:]
				}
				if rest[0] == "GreaterThanEqual(" {
					if neg {
						alts = append(alts, append([]string{"LessThan("}, rest[1:]...))
					} else {
						alts = append(alts, append([]string{"^!", "LessThan("}, rest[1:]...))
					}
				}
				if rest[0] == "Number < " {
					if neg {
						alts = append(alts, append([]string{"Number >= "}, rest[1:]...), []string{"Number >= ", "irst07"}, []string{"^!", "Number < ", "irst07"})
					} else {
						alts = append(alts, append([]string{"^!", "Number >= "}, rest[1:]...), []string{"^!", "Number >= ", "irst07"}, []string{"Number < ", "irst07"})
					}
				}
			}
			ok, miss := everyDisjunctHas(dn, alts...)
			c.check(ok, "version-dispatch", "BlockHash → "+d.callee+" requires "+strings.Join(need, "…"), p.Pos(s.Pos()), "selected under the protocol's version threshold", "block-hash formula "+d.callee+" is selected without "+strings.Join(need, "…")+": "+miss)
		}
	}
	// constants
	for _, k := range []struct{ name, val string }{{"Ver0_13_4", "0.13.4"}, {"Ver0_13_2", "0.13.2"}} {
		g := p.global("core", k.name)
		okk := false
		if g != nil {
			for _, fn := range []*ssa.Function{p.SSA.Package(p.pkg("core").Types).Func("init")} {
				if fn == nil {
					continue
				}
				allInstrs(fn, func(in ssa.Instruction) {
					if st, ok := in.(*ssa.Store); ok && st.Addr == ssa.Value(g) && strings.Contains(term(st.Val), "\""+k.val+"\"") {
						okk = true
					}
				})
			}
		}
		c.check(okk, "version-dispatch", "core."+k.name+" = "+k.val, "", "threshold constant", "version threshold core."+k.name+" is no longer "+k.val)
	}
	if vt := p.Func("core", "", "VerifyTransactions"); vt != nil {
		// the early `return nil` is under LessThan("0.11.0")
		n := 0
		for _, ret := range returnsOf(vt) {
			if !isNilConst(ret.Results[0]) {
				continue
			}
			d := p.mustHoldAt(ret.Ret)
			if ok, _ := everyDisjunctHas(d, []string{"LessThan("}); ok && len(d) > 0 {
				n++
				ok2, miss := everyDisjunctHas(d, []string{"LessThan(", "\"0.11.0\""})
				c.check(ok2, "version-dispatch", "VerifyTransactions skips only < 0.11.0", p.Pos(posOf(ret.Ret, vt)), "hash verification is skipped only before 0.11.0", "transaction-hash verification is skipped under a different threshold: "+miss)
			}
		}
		if n == 0 {
			c.und("version-dispatch", "VerifyTransactions", p.Pos(fnPos(vt)), "version-skip return not recognised")
		}
	}
	if tc := p.Func("core", "", "transactionCommitmentPedersen"); tc != nil {
		okt := false
		allInstrs(tc, func(in ssa.Instruction) {
			if call, ok := in.(*ssa.Call); ok && strings.Contains(term(call), "MustParse(\"0.11.1\")") {
				okt = true
			}
		})
		c.check(okt, "version-dispatch", "transactionCommitmentPedersen threshold 0.11.1", p.Pos(fnPos(tc)), "signature hashing switches at 0.11.1", "the 0.11.1 threshold of the pedersen transaction commitment changed")
	}
	c.floor("version-dispatch", 10)
}

func c02VerifySuccess(c *Ctx) {
	p := c.P
	// SanityCheckNewHeight: the only success path goes through VerifyBlockHash, after the three equalities
	if f := p.Func("blockchain", "Blockchain", "SanityCheckNewHeight"); f != nil {
		s := findSite(f, "VerifyBlockHash")
		if s == nil {
			c.viol("verify-success", "SanityCheckNewHeight → VerifyBlockHash", p.Pos(fnPos(f)), "SanityCheckNewHeight no longer verifies the block hash")
		} else {
			d := p.mustHoldAt(s.Instr)
			for _, need := range [][]string{
				{"block.Header.Hash.Equal(stateUpdate.BlockHash)"},
				{"block.Header.GlobalStateRoot.Equal(stateUpdate.NewRoot)"},
				{"^!", "VerifyClassHashes(newClasses) != nil"},
			} {
				ok, miss := everyDisjunctHas(d, need)
				c.check(ok, "verify-success", "SanityCheckNewHeight requires "+strings.Join(need, " "), p.Pos(s.Pos()), "checked before the block hash is verified", "SanityCheckNewHeight can succeed without "+strings.Join(need, " ")+": "+miss)
			}
			// every success (nil error) return is the VerifyBlockHash result
			for _, ret := range returnsOf(f) {
				last := ret.Results[len(ret.Results)-1]
				if isNilConst(last) {
					c.viol("verify-success", "SanityCheckNewHeight: unconditional success", p.Pos(posOf(ret.Ret, f)), "SanityCheckNewHeight has a success return that does not come from VerifyBlockHash")
				}
			}
			at := termsOf(s.Args())
			c.check(len(at) >= 2 && at[len(at)-2] == "block" && strings.HasSuffix(at[len(at)-1], "stateUpdate.StateDiff"), "verify-success", "SanityCheckNewHeight → VerifyBlockHash(block, stateUpdate.StateDiff)", p.Pos(s.Pos()), "the checked block and its diff", "VerifyBlockHash is given other values: "+strings.Join(at, ", "))
		}
	} else {
		c.und("verify-success", "SanityCheckNewHeight", "", "anchor not found")
	}
	if f := p.Func("core", "", "VerifyBlockHash"); f != nil {
		n := 0
		for _, ret := range returnsOf(f) {
			if !isNilConst(ret.Results[1]) {
				continue
			}
			n++
			d := p.mustHoldAt(ret.Ret)
			ok1, m1 := everyDisjunctHas(d, []string{".Equal(b.Header.Hash)"}, []string{"UnverifiableRange"})
			ok2, m2 := everyDisjunctHas(d, []string{"^!", "VerifyTransactions(", "!= nil"}, []string{"UnverifiableRange"})
			ok3, m3 := everyDisjunctHas(d, []string{"^!", "len(b.Transactions) != len(b.Receipts)"})
			if !ok3 {
				// the count/hash agreement may be checked by a same-package validation helper that is handed both lists and whose
				// error rejects the block: then the helper's own success returns carry the length test
				for _, h := range c02ReceiptCheckers(p, f, d) {
					okh := true
					for _, hr := range returnsOf(h) {
						if len(hr.Results) != 1 || !isNilConst(hr.Results[0]) {
							continue
						}
						if o, _ := everyDisjunctHas(p.mustHoldAt(hr.Ret), []string{"^!", "len(", "!= len("}, []string{"len(", "== len("}); !o {
							okh = false
						}
					}
					if okh {
						ok3, m3 = true, ""
					}
				}
			}
			c.check(ok1, "verify-success", "VerifyBlockHash success ⇒ hash equal (or unverifiable range)", p.Pos(posOf(ret.Ret, f)), "commitments are returned only if the recomputed hash equals the header's", "VerifyBlockHash can succeed without the hash comparison: "+m1)
			c.check(ok2, "verify-success", "VerifyBlockHash success ⇒ transactions verified (or unverifiable range)", p.Pos(posOf(ret.Ret, f)), "transaction hashes verified first", "VerifyBlockHash can succeed without VerifyTransactions: "+m2)
			c.check(ok3, "verify-success", "VerifyBlockHash success ⇒ len(txs) == len(receipts)", p.Pos(posOf(ret.Ret, f)), "length check", "VerifyBlockHash can succeed with mismatching transaction/receipt counts: "+m3)
		}
		if n == 0 {
			c.und("verify-success", "VerifyBlockHash", p.Pos(fnPos(f)), "success return not found")
		}
		perIndex := ifErrorOnFailure(p, f, false, "Hash().Equal(", "Receipts[", ".TransactionHash")
		if !perIndex {
			for _, h := range c02ReceiptCheckers(p, f, nil) {
				if ifErrorOnFailure(p, h, false, "Hash().Equal(", "eceipts[", ".TransactionHash") {
					perIndex = true
				}
			}
		}
		c.check(perIndex, "verify-success", "VerifyBlockHash: tx hash = receipt's tx hash per index", p.Pos(fnPos(f)), "mismatch returns an error", "the per-index transaction/receipt hash comparison no longer rejects the block")
	} else {
		c.und("verify-success", "VerifyBlockHash", "", "anchor not found")
	}
	if f := p.Func("core", "", "VerifyTransactions"); f != nil {
		c.check(ifErrorOnFailure(p, f, false, ".Equal(", ".Hash()"), "verify-success", "VerifyTransactions: calculated hash = declared hash", p.Pos(fnPos(f)), "mismatch returns an error", "a transaction whose recomputed hash differs from its declared hash is no longer rejected")
		c.check(ifErrorOnFailure(p, f, true, "TransactionHash(", "#1 != nil"), "verify-success", "VerifyTransactions: hash error propagates", p.Pos(fnPos(f)), "error returned", "an error computing a transaction hash is ignored")
	} else {
		c.und("verify-success", "VerifyTransactions", "", "anchor not found")
	}
	if f := p.Func("core", "", "VerifyClassHashes"); f != nil {
		c.check(ifErrorOnFailure(p, f, false, ".Equal(&"), "verify-success", "VerifyClassHashes: computed = declared", p.Pos(fnPos(f)), "mismatch returns an error", "a class whose recomputed hash differs from its key is no longer rejected")
	} else {
		c.und("verify-success", "VerifyClassHashes", "", "anchor not found")
	}
	c.floor("verify-success", 10)
	_ = sort.Strings
}

// c02SectionComplete: the per-section digest helpers of the state-diff hash (functions of package core that take a
// *crypto.PoseidonDigest and the section's maps/slices) commit to the section AS GIVEN: (count) the entry count fed to the
// digest first is the sum of len() of exactly the section parameters; (unfiltered) every value an Update receives derives
// from the parameters through key sorting, lookups and felt construction only — no call that can drop or rewrite entries;
// (every-iteration) each iteration of a loop that updates the digest does so on every path (no skipping `continue`).
// A digest that ignores some entries (seeded change C02-G: addresses with an empty slot list) lets two different state
// diffs — both of which the network can produce — verify under one block hash.
func c02SectionComplete(c *Ctx) {
	p := c.P
	isSection := func(t types.Type) bool {
		switch t.Underlying().(type) {
		case *types.Map, *types.Slice:
			return true
		}
		return false
	}
	sortedKeysHelper := func(g *ssa.Function) bool {
		// body: return slices.SortedFunc(maps.Keys(param), cmp)
		if g == nil || len(g.Blocks) != 1 || len(g.Params) != 1 {
			return false
		}
		keys, sorted := false, false
		for _, s := range sitesOf(g) {
			nm := s.CalleeName()
			switch {
			case strings.HasSuffix(nm, "maps.Keys") || strings.Contains(nm, "maps.Keys["):
				keys = len(s.Args()) == 1 && s.Args()[0] == ssa.Value(g.Params[0])
			case strings.Contains(nm, "slices.Sorted"):
				sorted = true
			case strings.HasSuffix(nm, ".Cmp"):
			default:
				if s.Callee != nil && s.Callee.Parent() == g {
					continue
				}
				return false
			}
		}
		return keys && sorted
	}
	n := 0
	for _, fn := range p.sortedFuncs() {
		if pkgRelOf(fn) != "core" || fn.Parent() != nil || fn.Signature.Recv() != nil || len(fn.Blocks) == 0 || strings.HasSuffix(p.Pos(fnPos(fn)), "_test.go") || p.InFixture(fnPos(fn)) {
			continue
		}
		var digest *ssa.Parameter
		var secs []*ssa.Parameter
		for _, pa := range fn.Params {
			if strings.HasSuffix(pa.Type().String(), "crypto.PoseidonDigest") {
				digest = pa
			} else if isSection(pa.Type()) {
				secs = append(secs, pa)
			}
		}
		if digest == nil || len(secs) == 0 {
			continue
		}
		var ups []Site
		for _, s := range sitesOf(fn) {
			if s.Callee != nil && s.Callee.Name() == "Update" && len(s.Args()) > 0 && s.Args()[0] == ssa.Value(digest) {
				ups = append(ups, s)
			}
		}
		if len(ups) == 0 {
			continue
		}
		n++
		name := qname(fn)
		// (count)
		first := ups[0]
		for _, u := range ups {
			if dominatesInstr(u.Instr, first.Instr) {
				first = u
			}
		}
		var lens []ssa.Value
		bad := ""
		seenV := map[ssa.Value]bool{}
		var walk func(v ssa.Value, d int)
		walk = func(v ssa.Value, d int) {
			if v == nil || seenV[v] || d > 12 {
				return
			}
			seenV[v] = true
			switch x := v.(type) {
			case *ssa.Call:
				if b, ok := x.Call.Value.(*ssa.Builtin); ok && b.Name() == "len" {
					lens = append(lens, x.Call.Args[0])
					return
				}
				for _, a := range x.Call.Args {
					walk(a, d+1)
				}
			case *ssa.Convert:
				walk(x.X, d+1)
			case *ssa.ChangeType:
				walk(x.X, d+1)
			case *ssa.BinOp:
				walk(x.X, d+1)
				walk(x.Y, d+1)
			case *ssa.Slice:
				walk(x.X, d+1)
			case *ssa.UnOp:
				walk(x.X, d+1)
			case *ssa.Alloc:
				if arr := arrayLiteral(x); len(arr) > 0 {
					for _, e := range arr {
						walk(e, d+1)
					}
					return
				}
				if refs := x.Referrers(); refs != nil {
					for _, r := range *refs {
						if st, ok := r.(*ssa.Store); ok && st.Addr == ssa.Value(x) {
							walk(st.Val, d+1)
						}
					}
				}
			case *ssa.Phi:
				for _, e := range x.Edges {
					walk(e, d+1)
				}
			}
		}
		for _, a := range first.Args()[1:] {
			walk(a, 0)
		}
		counted := map[*ssa.Parameter]bool{}
		for _, l := range lens {
			pa, ok := l.(*ssa.Parameter)
			if !ok {
				if call, isCall := l.(*ssa.Call); isCall && sortedKeysHelper(call.Call.StaticCallee()) && len(call.Call.Args) == 1 {
					pa, ok = call.Call.Args[0].(*ssa.Parameter)
				}
			}
			if !ok {
				bad = "len(" + term(l) + ")"
				continue
			}
			counted[pa] = true
		}
		for _, sp := range secs {
			if !counted[sp] && bad == "" {
				bad = "a count that leaves out len(" + sp.Name() + ")"
			}
		}
		c.check(bad == "" && len(lens) > 0, "section-complete", name+": entry count", p.Pos(first.Pos()), "the count committed first is the number of entries of the section as given", "the entry count fed to the digest is "+bad+", not the number of entries of the section parameters: entries can be left out of the commitment")
		// (unfiltered): calls in the backward slice of the Update operands
		badCall := ""
		seenV = map[ssa.Value]bool{}
		var back func(v ssa.Value, d int)
		back = func(v ssa.Value, d int) {
			if v == nil || seenV[v] || d > 16 {
				return
			}
			seenV[v] = true
			switch x := v.(type) {
			case *ssa.Call:
				cal := x.Call.StaticCallee()
				if _, isB := x.Call.Value.(*ssa.Builtin); isB {
					for _, a := range x.Call.Args {
						back(a, d+1)
					}
					return
				}
				okCallee := false
				if cal != nil {
					nm := qname(cal)
					switch {
					case sortedKeysHelper(cal), strings.Contains(nm, "felt.") && (strings.HasSuffix(nm, "SetUint64") || strings.Contains(nm, "FromUint64")):
						okCallee = true
					case strings.Contains(nm, "slices.Sorted") || strings.Contains(nm, "maps.Keys"):
						okCallee = true
					}
				}
				if !okCallee {
					badCall = term(v)
					return
				}
				for _, a := range x.Call.Args {
					back(a, d+1)
				}
			case *ssa.Convert:
				back(x.X, d+1)
			case *ssa.ChangeType:
				back(x.X, d+1)
			case *ssa.UnOp:
				back(x.X, d+1)
			case *ssa.IndexAddr:
				back(x.X, d+1)
			case *ssa.Index:
				back(x.X, d+1)
			case *ssa.Lookup:
				back(x.X, d+1)
			case *ssa.Extract:
				back(x.Tuple, d+1)
			case *ssa.Next:
				back(x.Iter, d+1)
			case *ssa.Range:
				back(x.X, d+1)
			case *ssa.Slice:
				back(x.X, d+1)
			case *ssa.FieldAddr:
				back(x.X, d+1)
			case *ssa.Phi:
				for _, e := range x.Edges {
					back(e, d+1)
				}
			case *ssa.Alloc:
				if refs := x.Referrers(); refs != nil {
					for _, r := range *refs {
						if st, ok := r.(*ssa.Store); ok && st.Addr == ssa.Value(x) {
							back(st.Val, d+1)
						}
					}
				}
			case *ssa.MakeSlice, *ssa.MakeMap:
				// filled from the parameters (maps.Copy / index stores): judged through the stores' values below
				if refs := x.(ssa.Value).Referrers(); refs != nil {
					for _, r := range *refs {
						if ia, ok := r.(*ssa.IndexAddr); ok {
							if rr := ia.Referrers(); rr != nil {
								for _, u := range *rr {
									if st, ok := u.(*ssa.Store); ok && st.Addr == ssa.Value(ia) {
										back(st.Val, d+1)
									}
								}
							}
						}
					}
				}
			}
		}
		for _, u := range ups {
			for _, a := range u.Args()[1:] {
				back(a, 0)
			}
		}
		c.check(badCall == "", "section-complete", name+": unfiltered", p.Pos(fnPos(fn)), "values committed derive from the section parameters through key sorting, lookups and felt construction only", "a value fed to the digest passes through "+badCall+": the commitment no longer covers the section as given")
		// (every-iteration)
		skip := ""
		for _, u := range ups {
			if !inSameLoop(u.Block(), u.Block()) {
				continue
			}
			loop := map[*ssa.BasicBlock]bool{}
			for _, b := range fn.Blocks {
				if b == u.Block() || inSameLoop(b, u.Block()) {
					loop[b] = true
				}
			}
			var header *ssa.BasicBlock
			for b := range loop {
				all := true
				for o := range loop {
					if !b.Dominates(o) {
						all = false
					}
				}
				if all {
					header = b
				}
			}
			if header == nil {
				continue
			}
			upd := map[*ssa.BasicBlock]bool{}
			for _, v := range ups {
				if loop[v.Block()] {
					upd[v.Block()] = true
				}
			}
			if upd[header] {
				continue
			}
			seenB := map[*ssa.BasicBlock]bool{}
			var q []*ssa.BasicBlock
			for _, sb := range header.Succs {
				if loop[sb] {
					q = append(q, sb)
				}
			}
			for len(q) > 0 {
				b := q[0]
				q = q[1:]
				if seenB[b] || upd[b] || !loop[b] {
					continue
				}
				seenB[b] = true
				for _, sb := range b.Succs {
					if sb == header {
						skip = p.Pos(posOf(b.Instrs[len(b.Instrs)-1], fn))
					}
					q = append(q, sb)
				}
			}
		}
		c.check(skip == "", "section-complete", name+": every iteration updates", p.Pos(fnPos(fn)), "each iteration of the section loop feeds the digest", "an iteration of the section loop can reach the next one without feeding the digest (back edge at "+skip+"): some entries are not committed")
	}
	if n < 4 {
		c.und("section-complete", "core digest helpers", "", fmt.Sprintf("only %d per-section digest helpers found", n))
	}
}

// c02NilResultOfCallback: a result that a callback is expected to fill in through a captured pointer variable is not
// dereferenced unconditionally at the return: `var r *T; return *r, run(func() error { …; r = &v; return nil })` panics with
// a nil dereference exactly when run (or the callback) fails — the error path of hash verification then kills the process
// instead of rejecting the block (defect F27). Decided for the hashing/verification packages: no Return operand is a load
// through a captured pointer variable that the function itself never assigns, unless a nil test of it dominates the return.
func c02NilResultOfCallback(c *Ctx) {
	p := c.P
	n := 0
	for _, fn := range p.sortedFuncs() {
		pr := pkgRelOf(fn)
		if !(pr == "core" || pr == "blockchain" || pr == "core/crypto") || fn.Parent() != nil || fn.Origin() != nil || len(fn.Blocks) == 0 || strings.HasSuffix(p.Pos(fnPos(fn)), "_test.go") {
			continue
		}
		for _, ret := range returnsOf(fn) {
			for _, r := range ret.Results {
				d1, ok := r.(*ssa.UnOp)
				if !ok || d1.Op != token.MUL {
					continue
				}
				d0, ok := d1.X.(*ssa.UnOp)
				if !ok || d0.Op != token.MUL {
					continue
				}
				a, ok := d0.X.(*ssa.Alloc)
				if !ok || !a.Heap {
					continue
				}
				if _, isPtr := a.Type().Underlying().(*types.Pointer).Elem().Underlying().(*types.Pointer); !isPtr {
					continue
				}
				captured, assignedHere := false, false
				if refs := a.Referrers(); refs != nil {
					for _, rr := range *refs {
						switch x := rr.(type) {
						case *ssa.MakeClosure:
							captured = true
						case *ssa.Store:
							if x.Addr == ssa.Value(a) && !isNilConst(x.Val) {
								assignedHere = true
							}
						}
					}
				}
				if !captured || assignedHere {
					continue
				}
				n++
				guarded := false
				for _, fct := range factsAt(ret.Ret) {
					if b, isB := fct.Cond.(*ssa.BinOp); isB && (isNilConst(b.X) || isNilConst(b.Y)) {
						guarded = true
					}
				}
				c.check(guarded, "nil-result-of-callback", qname(fn), p.Pos(posOf(ret.Ret, fn)), "the captured result is tested before it is dereferenced", "the returned value is loaded through a pointer variable that only a callback assigns, without a nil/error test: when the callback (or the function running it) fails the dereference panics instead of the error being returned")
			}
		}
	}
	_ = n
	c.needFixture("nil-result-of-callback")
}

// c02OverrideOnlyWhenAbsent: (override-only-when-absent) VerifyBlockHash may hash a header with a substitute sequencer address
// (zero / the network's fallback) only for headers that carry none. Decided: at every call of core.BlockHash reachable from
// VerifyBlockHash, the override argument is nil unless the header's own SequencerAddress was found to be nil — either on
// the path to the call or as the condition selecting the non-nil arm of the φ that produces the argument. Seeded change
// C02-L tries the substitutes for every legacy header: a block whose SequencerAddress was tampered with still verifies
// (the sequencer address is in the post-0.7 preimage).
func c02OverrideOnlyWhenAbsent(c *Ctx) {
	p := c.P
	f := p.Func("core", "", "VerifyBlockHash")
	bh := p.Func("core", "", "BlockHash")
	if f == nil || bh == nil {
		c.und("override-only-when-absent", "core.VerifyBlockHash", "", "anchor not found")
		return
	}
	idx := -1
	for i, pa := range bh.Params {
		if strings.HasSuffix(pa.Type().String(), "felt.Felt") && idx < 0 {
			idx = i
		}
	}
	n := 0
	for _, ds := range p.deepSites(f, func(s Site) bool { return s.Callee == bh }, 2) {
		args := ds.Site.Args()
		if idx < 0 || idx >= len(args) {
			continue
		}
		n++
		a := args[idx]
		ok, why := false, ""
		if isNilConst(a) {
			ok = true
		} else {
			d := p.mustHoldDeep(ds)
			if o, _ := everyDisjunctHas(d, []string{"SequencerAddress == nil"}, []string{"^!", "SequencerAddress != nil"}); o {
				ok = true
			} else if ph, isPhi := a.(*ssa.Phi); isPhi {
				// every non-nil arm comes from a predecessor that is reached only under SequencerAddress == nil
				ok = true
				for i, e := range ph.Edges {
					if isNilConst(e) {
						continue
					}
					pred := ph.Block().Preds[i]
					dd := p.mustHoldAt(pred.Instrs[len(pred.Instrs)-1])
					if o, m := everyDisjunctHas(dd, []string{"SequencerAddress == nil"}, []string{"^!", "SequencerAddress != nil"}); !o {
						ok, why = false, m
					}
				}
			} else if call, isCall := a.(*ssa.Call); isCall && call.Call.StaticCallee() != nil && len(call.Call.StaticCallee().Blocks) > 0 && pkgRelOf(call.Call.StaticCallee()) == "core" {
				// the override is chosen by a same-package helper: each of its returns is nil or lies under SequencerAddress == nil
				h := call.Call.StaticCallee()
				ok = true
				for _, r := range returnsOf(h) {
					if len(r.Results) != 1 || isNilConst(r.Results[0]) {
						continue
					}
					if o, m := everyDisjunctHas(p.mustHoldAt(r.Ret), []string{"SequencerAddress == nil"}, []string{"^!", "SequencerAddress != nil"}); !o {
						ok, why = false, "helper "+h.Name()+": "+m
					}
				}
			} else {
				why = "override = " + term(a)
			}
		}
		c.check(ok, "override-only-when-absent", "VerifyBlockHash → BlockHash override", p.Pos(ds.Site.Pos()), "a substitute sequencer address is used only for headers that carry none", "the block hash is recomputed with a substitute sequencer address although the header carries its own ("+clip(why, 200)+"): a header whose SequencerAddress was altered still verifies under the genuine hash")
	}
	if n == 0 {
		c.und("override-only-when-absent", "VerifyBlockHash", p.Pos(fnPos(f)), "no call of core.BlockHash found")
	}
}

// c02ReceiptCheckers: same-package helpers that VerifyBlockHash hands both b.Transactions and b.Receipts, whose error result
// is returned as the verdict (the call dominates every success return and its error leads to an error return).
func c02ReceiptCheckers(p *Prog, f *ssa.Function, _ dnf) []*ssa.Function {
	var out []*ssa.Function
	for _, s := range sitesOf(f) {
		if s.Callee == nil || pkgRelOf(s.Callee) != pkgRelOf(f) || len(s.Callee.Blocks) == 0 {
			continue
		}
		hasTx, hasRc := false, false
		for _, a := range s.Args() {
			t := term(a)
			if strings.HasSuffix(t, ".Transactions") {
				hasTx = true
			}
			if strings.HasSuffix(t, ".Receipts") {
				hasRc = true
			}
		}
		if !hasTx || !hasRc {
			continue
		}
		// every success return of f lies under `helper(...) == nil`
		okAll := true
		ct := "core." + s.Callee.Name() + "("
		for _, r := range returnsOf(f) {
			if len(r.Results) < 2 || !isNilConst(r.Results[len(r.Results)-1]) {
				continue
			}
			if o, _ := everyDisjunctHas(p.mustHoldAt(r.Ret), []string{"^!", ct, "!= nil"}, []string{ct, "== nil"}); !o {
				okAll = false
			}
		}
		if okAll {
			out = append(out, s.Callee)
		}
	}
	return out
}

// c02AdapterKeepsEveryReceipt: (adapter-complete) what verification sees is what the source sent: in sn2core.AdaptBlock the
// receipts list handed to the block is as long as the response's receipts list (`make(…, len(response.Receipts))`, or built by
// ranging over response.Receipts) — never sized by the number of transactions. VerifyBlockHash rejects a block whose receipts
// and transactions differ in number; an adapter that truncates the surplus (seeded change C02-N) turns a block that differs
// from the valid one into the valid one before the check can see it.
func c02AdapterKeepsEveryReceipt(c *Ctx) {
	p := c.P
	f := p.Func("adapters/sn2core", "", "AdaptBlock")
	if f == nil {
		c.und("adapter-complete", "sn2core.AdaptBlock", "", "anchor not found")
		return
	}
	n := 0
	for _, g := range samePkgScope(f, 1) {
		allInstrsOne(g, func(in ssa.Instruction) {
			mk, ok := in.(*ssa.MakeSlice)
			if !ok || !strings.Contains(mk.Type().String(), "TransactionReceipt") {
				return
			}
			n++
			lt := ""
			fromReceipts := false
			var scan func(v ssa.Value, d int)
			scan = func(v ssa.Value, d int) {
				for x := range backSlice(v) {
					if fa, ok := x.(*ssa.FieldAddr); ok && fieldName(fa.X.Type(), fa.Field) == "Receipts" {
						fromReceipts = true
					}
					if fld, ok := x.(*ssa.Field); ok && fieldName(fld.X.Type(), fld.Field) == "Receipts" {
						fromReceipts = true
					}
					// the list handed in as a parameter of a helper: what the callers pass
					if pa, ok := x.(*ssa.Parameter); ok && d < 2 && pa.Parent() != nil {
						for i, q := range pa.Parent().Params {
							if q != pa {
								continue
							}
							for _, cs := range p.callersOf(pa.Parent()) {
								if a := cs.Args(); i < len(a) {
									scan(a[i], d+1)
								}
							}
						}
					}
				}
			}
			scan(mk.Len, 0)
			lt = term(mk.Len)
			c.check(fromReceipts, "adapter-complete", "AdaptBlock: receipts list length", p.Pos(posOf(in, g)), "as many receipts as the response carries", "the adapted block's receipts list is sized by "+clip(lt, 120)+", not by the number of receipts in the response: surplus (or missing) receipts are dropped before block verification can reject the block")
		})
	}
	if n == 0 {
		// built by append while ranging over the response's receipts: accept only that shape
		ranged := false
		allInstrsOne(f, func(in ssa.Instruction) {
			if r, ok := in.(*ssa.Range); ok && strings.HasSuffix(term(r.X), ".Receipts") {
				ranged = true
			}
		})
		c.check(ranged, "adapter-complete", "AdaptBlock: receipts list", p.Pos(fnPos(f)), "built by ranging over the response's receipts", "the construction of the adapted receipts list was not recognised (neither make(…, len(response.Receipts)) nor a range over response.Receipts)")
	}
}
