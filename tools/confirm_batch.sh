#!/bin/sh
# usage: tools/confirm_batch.sh C11 C19 ...   — confirms variants K and L of each id, one scratch worktree per id, in parallel
export PATH=/opt/veriftools/go1.26.8/bin:$PATH GOTOOLCHAIN=local GOFLAGS=-mod=mod GOPROXY=off GOSUMDB=off; unset GOWORK
V=$(cd "$(dirname "$0")/.." && pwd)
VARS=${VARIANTS:-"K L"}
for id in "$@"; do
  (
    for v in $VARS; do
      [ -f /tmp/seeded_out/$id/$v/patch.diff ] || { echo "$id-$v: no patch"; continue; }
      if CONFIRM_WT=/tmp/wt/confirm_$id python3 $V/tools/confirm_seeded.py $id $v $CONFIRM_ARGS > /tmp/seeded_out/$id/$v/confirm.log 2>&1; then echo "$id-$v CONFIRMED"; else echo "$id-$v NOT-CONFIRMED (see /tmp/seeded_out/$id/$v/confirm.log)"; fi
    done
    git -C /repo worktree remove --force /tmp/wt/confirm_$id 2>/dev/null
  ) &
done
wait
