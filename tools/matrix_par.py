#!/usr/bin/env python3
"""Parallel version of seeded_matrix.py / refactor_matrix.py: K scratch worktrees of /repo's HEAD under /tmp/wt/mx<i>
(removed at the end), each worker applies one stored patch at a time to ITS worktree, runs all claimed checks on it
(junocheck -repo <worktree>), restores the worktree. /repo itself is never touched.
usage: matrix_par.py seeded|refactors [-k N] [names...]
seeded:    records the reporting rules in seeded/<name>/meta.json (detected_by) and prints caught/MISSED
refactors: records alarms in refactors/<name>/meta.json and prints silent/ALARM"""
import json, os, re, subprocess, sys, glob, threading, queue
V = os.path.dirname(os.path.dirname(os.path.abspath(__file__)))
env = dict(os.environ, PATH='/opt/veriftools/go1.26.8/bin:' + os.environ['PATH'], GOTOOLCHAIN='local', GOFLAGS='-mod=mod', GOPROXY='off', GOSUMDB='off')
env.pop('GOWORK', None)
args = sys.argv[1:]
kind = args.pop(0)
K = 5
if args and args[0] == '-k':
    K = int(args[1]); args = args[2:]
only = set(args)
man = json.load(open(f'{V}/MANIFEST.json'))
props = ','.join(c['property_id'] for c in man['checks'])
subprocess.check_call('go build -o junocheck .', shell=True, cwd=f'{V}/engine', env=env)
head = subprocess.check_output('git -C /repo rev-parse HEAD', shell=True, text=True).strip()
# neighbourhood from engine/main.go's sharedRules table (X imports rules of Y) plus anchors in the same packages
NEAR = {}
_m = re.search(r'var sharedRules = map\[string\]map\[string\]\[\]string\{(.*?)\n\}', open(f'{V}/engine/main.go').read(), re.S)
if _m:
    for line in _m.group(1).splitlines():
        mm = re.match(r'\s*"(C\d+)":\s*\{(.*)\},?\s*$', line)
        if mm:
            for y in re.findall(r'"(C\d+)":', mm.group(2)):
                NEAR.setdefault(mm.group(1), set()).add(y); NEAR.setdefault(y, set()).add(mm.group(1))
for a, b in [('C01','C10'),('C03','C04'),('C05','C15'),('C05','C16'),('C08','C11'),('C12','C13'),('C13','C14'),('C02','C06'),('C09','C05'),('C09','C04'),('C16','C18'),('C20','C06'),('C07','C02')]:
    NEAR.setdefault(a, set()).add(b); NEAR.setdefault(b, set()).add(a)
items = [d for d in sorted(glob.glob(f'{V}/{kind}/*/')) if not only or os.path.basename(d.rstrip('/')) in only]
q = queue.Queue()
for d in items: q.put(d)
rows = {}
lock = threading.Lock()

def sh(cmd, cwd=None):
    return subprocess.run(cmd, shell=True, cwd=cwd, env=env, stdout=subprocess.PIPE, stderr=subprocess.STDOUT, text=True)

def worker(i):
    wt = f'/tmp/wt/mx{os.getpid()}_{i}'
    scratch = f'/tmp/mx_scratch_{os.getpid()}_{i}'
    os.makedirs(scratch, exist_ok=True)
    sh(f'cp {V}/known_findings.json {scratch}/; ln -sfn {V}/engine {scratch}/engine')
    if not os.path.isdir(wt):
        sh(f'git -C /repo worktree add --detach {wt} {head}')
    sh(f'git reset -q --hard HEAD; git clean -fdq; git checkout -q --detach {head}', cwd=wt)
    while True:
        try:
            d = q.get_nowait()
        except queue.Empty:
            break
        name = os.path.basename(d.rstrip('/'))
        r = sh(f'git apply --3way {d}/patch.diff && git reset -q', cwd=wt)
        if r.returncode != 0:
            sh('git reset -q --hard HEAD && git clean -fdq', cwd=wt)
            with lock: rows[name] = ('APPLY-FAILED', [])
            continue
        run_props = props
        if os.environ.get('MATRIX_NEAR'):
            # only the property the item belongs to and the properties that import rules from it / export rules to it
            own = name.split('-')[0]
            near = {own} | NEAR.get(own, set())
            run_props = ','.join(p for p in props.split(',') if p in near) or props
        out = sh(f'{V}/engine/junocheck -prop {run_props} -repo {wt} -verif {scratch}').stdout
        sh('git reset -q --hard HEAD && git clean -fdq', cwd=wt)
        broken = re.findall(r'^(BROKEN\S*|VACUOUS) .*', out, re.M)
        mp = f'{d}/meta.json'
        if kind == 'seeded':
            rules = sorted(set(re.findall(r'^(?:VIOLATION|UNDECIDED) (C\d+/[\w-]+)', out, re.M)))
            meta = json.load(open(mp))
            meta['detected_by'] = rules
            json.dump(meta, open(mp, 'w'), indent=1)
            with lock: rows[name] = ('caught' if rules else 'MISSED', rules + broken)
        else:
            alarms = sorted(set(re.findall(r'^(?:VIOLATION|UNDECIDED) (C\d+/[\w-]+ construct=.{0,120})', out, re.M)))
            meta = json.load(open(mp)) if os.path.exists(mp) else {}
            meta.update({'alarms': alarms, 'broken': broken})
            json.dump(meta, open(mp, 'w'), indent=1)
            with lock: rows[name] = ('silent' if not alarms and not broken else 'ALARM', alarms + broken)
        print(f'{name:12} {rows[name][0]:12} ' + ' | '.join(rows[name][1])[:300], flush=True)
    sh(f'git -C /repo worktree remove --force {wt}')
    sh(f'rm -rf {scratch}')

ts = [threading.Thread(target=worker, args=(i,)) for i in range(K)]
for t in ts: t.start()
for t in ts: t.join()
bad = [n for n, r in sorted(rows.items()) if r[0] in ('MISSED', 'ALARM', 'APPLY-FAILED')]
print(f'SUMMARY kind={kind} items={len(rows)} attention={len(bad)}: ' + ', '.join(f'{n}({rows[n][0]})' for n in bad))
