#!/usr/bin/env python3
"""Runs every confirmed seeded fault under /verif/seeded against the claimed checks (one analyzer process per fault),
records which rules report it in meta.json (detected_by) and prints the matrix. /repo is restored after each fault."""
import json, os, re, subprocess, sys, glob
V = os.path.dirname(os.path.dirname(os.path.abspath(__file__)))
man = json.load(open(f'{V}/MANIFEST.json'))
props = [c['property_id'] for c in man['checks']]
only = sys.argv[1:]  # optional list of seeded dir names
env = dict(os.environ, PATH='/opt/veriftools/go1.26.8/bin:' + os.environ['PATH'], GOTOOLCHAIN='local', GOFLAGS='-mod=mod', GOPROXY='off', GOSUMDB='off')
subprocess.check_call('go build -o junocheck .', shell=True, cwd=f'{V}/engine', env=env)
scratch = '/tmp/seeded_scratch_verif'
os.makedirs(scratch, exist_ok=True)
subprocess.call(f'cp {V}/known_findings.json {scratch}/; ln -sfn {V}/engine {scratch}/engine', shell=True)
if subprocess.call('git -C /repo diff --quiet', shell=True) != 0:
    sys.exit('/repo dirty')
rows = []
for d in sorted(glob.glob(f'{V}/seeded/*/')):
    name = os.path.basename(d.rstrip('/'))
    if only and name not in only: continue
    if subprocess.call(f'git -C /repo apply --3way {d}/patch.diff >/dev/null 2>&1 && git -C /repo reset -q', shell=True) != 0:
        rows.append((name, 'APPLY-FAILED', [])); subprocess.call('git -C /repo checkout -- .', shell=True); continue
    try:
        out = subprocess.run(f'{V}/engine/junocheck -prop {",".join(props)} -verif {scratch}', shell=True, env=env, stdout=subprocess.PIPE, stderr=subprocess.STDOUT, text=True).stdout
    finally:
        subprocess.call('git -C /repo checkout -- . && git -C /repo clean -fdq', shell=True)
    rules = sorted(set(re.findall(r'^(?:VIOLATION|UNDECIDED) (C\d+/[\w-]+)', out, re.M)))
    broken = re.findall(r'^(BROKEN\S*|VACUOUS) .*', out, re.M)
    meta = json.load(open(f'{d}/meta.json'))
    meta['detected_by'] = rules
    json.dump(meta, open(f'{d}/meta.json', 'w'), indent=1)
    rows.append((name, 'caught' if rules else 'MISSED', rules + broken))
for r in rows:
    print(f'{r[0]:8} {r[1]:12} {", ".join(r[2])}')
