#!/bin/sh
# usage: tools/try_seeded.sh <dir-with-patch.diff> <prop> [<prop>...]
# applies the seeded patch to /repo, runs the given checks, restores /repo. Prints caught/missed per property.
D=$(cd "$1" && pwd); shift
V=$(cd "$(dirname "$0")/.." && pwd)
[ -f "$D/patch.diff" ] || { echo "no patch in $D"; exit 2; }
git -C /repo diff --quiet || { echo "/repo dirty, refusing"; exit 2; }
git -C /repo apply "$D/patch.diff" || { echo "APPLY-FAILED $D"; exit 2; }
IDS=$(echo "$@" | tr ' ' ',')
( cd "$V/engine" && PATH=/opt/veriftools/go1.26.8/bin:$PATH GOTOOLCHAIN=local GOFLAGS=-mod=mod GOPROXY=off GOSUMDB=off go build -o junocheck . )
cp "$V/known_findings.json" /tmp/seeded_scratch_verif/ 2>/dev/null; "$V/engine/junocheck" -prop "$IDS" -verif /tmp/seeded_scratch_verif 2>&1 | grep -v "^KNOWN-FINDING" | grep "VIOLATION\|UNDECIDED\|BROKEN\|SUMMARY" | cut -c1-400
git -C /repo checkout -- . && git -C /repo clean -fdq
