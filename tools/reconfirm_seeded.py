#!/usr/bin/env python3
"""Re-confirms stored seeded changes on /repo's current HEAD in the scratch worktree /tmp/wt/confirm:
the demonstration must FAIL with the patch and PASS without. usage: reconfirm_seeded.py <name>..."""
import json, os, subprocess, sys, shutil
V = os.path.dirname(os.path.dirname(os.path.abspath(__file__)))
WT = '/tmp/wt/confirm'
env = dict(os.environ, GOFLAGS='-mod=mod', GOPROXY='off')
def sh(c):
    return subprocess.run(c, shell=True, cwd=WT, env=env, stdout=subprocess.PIPE, stderr=subprocess.STDOUT, text=True)
head = subprocess.check_output('git -C /repo rev-parse HEAD', shell=True, text=True).strip()
if not os.path.isdir(WT):
    subprocess.check_call(f'git -C /repo worktree add --detach {WT} {head}', shell=True)
for name in sys.argv[1:]:
    d = f'{V}/seeded/{name}'
    m = json.load(open(d + '/meta.json'))
    sh(f'git reset -q --hard HEAD; git clean -fdq; git checkout -q --detach {head}')
    for k, v in [kv.split('=', 1) for kv in m.get('env', [])]:
        env[k] = v
    r = sh(f'git apply {d}/patch.diff')
    if r.returncode != 0:
        print(name, 'PATCH DOES NOT APPLY', r.stdout[-300:]); continue
    for dm in m['demo']:
        os.makedirs(os.path.dirname(f"{WT}/{dm['place_at']}"), exist_ok=True)
        shutil.copy(f"{d}/{dm['file']}", f"{WT}/{dm['place_at']}")
    r1 = sh(m['demo_cmd'] + ' 2>&1 | tail -15')
    sh(f'git apply -R {d}/patch.diff')
    r2 = sh(m['demo_cmd'] + ' 2>&1 | tail -15')
    w = ('FAIL' in r1.stdout) and 'build failed' not in r1.stdout
    wo = ('ok ' in r2.stdout or 'PASS' in r2.stdout) and 'FAIL' not in r2.stdout
    print(name, 'with-patch:', 'FAIL(as required)' if w else 'UNEXPECTED ' + r1.stdout[-400:], '| without:', 'PASS(as required)' if wo else 'UNEXPECTED ' + r2.stdout[-400:])
    if w and wo:
        m['reconfirmed_at_repo_head'] = head
        json.dump(m, open(d + '/meta.json', 'w'), indent=1)
sh('git reset -q --hard HEAD; git clean -fdq')
