#!/usr/bin/env python3
"""Confirm a seeded fault in a scratch worktree and store it under /verif/seeded/<id>-<variant>/.
usage: confirm_seeded.py <ID> <A|B> [--place file:dest ...] [--cmd 'go test ...'] [--env K=V ...] [--breaks Cxx] [--needs text]
Steps: (1) existing tests of the touched packages pass with the patch; (2) demo fails with the patch; (3) demo passes without.
"""
import sys, os, re, json, subprocess, shutil, argparse, glob
ap = argparse.ArgumentParser()
ap.add_argument('id'); ap.add_argument('variant')
ap.add_argument('--place', action='append', default=[])
ap.add_argument('--cmd'); ap.add_argument('--env', action='append', default=[])
ap.add_argument('--needs', default='')
ap.add_argument('--skip-existing', action='store_true')
a = ap.parse_args()
SRC = f'/tmp/seeded_out/{a.id}/{a.variant}'
WT = os.environ.get('CONFIRM_WT', '/tmp/wt/confirm')
OUT = f'/verif/seeded/{a.id}-{a.variant}'
env = dict(os.environ, GOFLAGS='-mod=mod', GOPROXY='off')
for kv in a.env:
    k, v = kv.split('=', 1); env[k] = v
def sh(cmd, cwd=WT, check=False):
    r = subprocess.run(cmd, shell=True, cwd=cwd, env=env, stdout=subprocess.PIPE, stderr=subprocess.STDOUT, text=True)
    if check and r.returncode != 0:
        print(r.stdout[-3000:]); sys.exit(f'FAILED: {cmd}')
    return r
head = subprocess.check_output('git -C /repo rev-parse HEAD', shell=True, text=True).strip()
if not os.path.isdir(WT):
    subprocess.check_call(f'git -C /repo worktree add --detach {WT} {head}', shell=True, stdout=subprocess.DEVNULL)
sh(f'git checkout -q --detach {head} && git checkout -- . && git clean -fdq', check=True)
txt = open(f'{SRC}/demo_path.txt').read()
# places
places = []
for p in a.place:
    f, d = p.split(':', 1); places.append((f, d))
if not places:
    for m in re.finditer(r'([\w./-]+_test\.go)\s*(?:->|→)\s*(?:<[^>]*>/)?([\w./-]+_test\.go)', txt):
        places.append((os.path.basename(m.group(1)), m.group(2)))
    if not places:
        files = re.findall(r'(?:File|Demo file)\s*:\s*([\w./-]+_test\.go)', txt)
        dests = re.findall(r'Place at\s*:\s*([\w./-]+_test\.go)', txt)
        places = list(zip(files, dests))
    if not places:
        # fallback: any *_test.go in SRC, destination = first path in txt ending with that basename
        for f in glob.glob(f'{SRC}/*_test.go'):
            b = os.path.basename(f)
            m = re.search(r'([\w./-]*/' + re.escape(b) + ')', txt)
            if m: places.append((b, m.group(1).lstrip('/')))
if not places: sys.exit('cannot determine demo placement; use --place file:dest')
cmd = a.cmd
if not cmd:
    m = re.search(r'(?:CGO_LDFLAGS=\S+\s*\\?\s*)?go test[^\n]*(?:\\\n[^\n]*)*', txt)
    if not m: sys.exit('cannot find go test command; use --cmd')
    cmd = re.sub(r'\\\n\s*', ' ', m.group(0)).strip()
print('places:', places); print('cmd:', cmd)
# touched packages
patch = open(f'{SRC}/patch.diff').read()
touched = sorted({os.path.dirname(m) for m in re.findall(r'^\+\+\+ b/(\S+\.go)', patch, re.M)})
r = sh(f'git apply --3way {SRC}/patch.diff')
if r.returncode != 0:
    r = sh(f'git apply {SRC}/patch.diff')
    if r.returncode != 0: print(r.stdout); sys.exit('patch does not apply to current /repo HEAD')
sh('git reset -q')  # unstage 3way
res = {}
r = sh("go build ./... 2>&1 | grep -E '\.go:[0-9]+:' | head -5")
res['build_with_patch'] = 'ok' if not r.stdout.strip() else r.stdout.strip()
if not a.skip_existing:
    pk = ' '.join('./' + t + '/' for t in touched)
    r = sh(f'go test -vet=off -count=1 {pk} 2>&1 | tail -20')
    bad = [l for l in r.stdout.splitlines() if l.startswith('FAIL') or l.startswith('--- FAIL')]
    bad = [l for l in bad if 'build failed' not in l and 'setup failed' not in l and l.strip() != 'FAIL']
    if 'cannot find -ljuno' in r.stdout: res['note_unlinkable'] = 'touched package links the Rust VM and is not part of the offline suite'
    res['existing_tests_with_patch'] = {'packages': touched, 'result': 'pass' if not bad else bad, 'tail': r.stdout.splitlines()[-6:]}
for f, d in places:
    os.makedirs(os.path.dirname(f'{WT}/{d}'), exist_ok=True)
    shutil.copy(f'{SRC}/{f}', f'{WT}/{d}')
r1 = sh(cmd + ' 2>&1 | tail -25')
failed_with = ('FAIL' in r1.stdout) and ('build failed' not in r1.stdout)
res['demo_with_patch'] = 'FAIL (as required)' if failed_with else 'UNEXPECTED: ' + r1.stdout[-600:]
sh(f'git apply -R {SRC}/patch.diff', check=True)
r2 = sh(cmd + ' 2>&1 | tail -25')
passed_without = ('ok ' in r2.stdout or 'PASS' in r2.stdout) and 'FAIL' not in r2.stdout
res['demo_without_patch'] = 'PASS (as required)' if passed_without else 'UNEXPECTED: ' + r2.stdout[-600:]
sh('git checkout -- . && git clean -fdq')
okall = failed_with and passed_without and res['build_with_patch'] == 'ok' and (a.skip_existing or res['existing_tests_with_patch']['result'] == 'pass')
print(json.dumps(res, indent=1))
if not okall:
    sys.exit('NOT CONFIRMED')
os.makedirs(OUT, exist_ok=True)
shutil.copy(f'{SRC}/patch.diff', OUT)
for f, d in places: shutil.copy(f'{SRC}/{f}', f'{OUT}/{f}.txt')
if os.path.exists(f'{SRC}/notes.md'): shutil.copy(f'{SRC}/notes.md', OUT)
meta = {'breaks': a.id, 'variant': a.variant, 'needs_to_manifest': a.needs or 'see notes.md', 'touched': touched,
        'demo': [{'file': f + '.txt', 'place_at': d} for f, d in places], 'demo_cmd': cmd, 'env': a.env,
        'confirmed_at_repo_head': head, 'confirmation': res, 'detected_by': []}
json.dump(meta, open(f'{OUT}/meta.json', 'w'), indent=1)
print('CONFIRMED ->', OUT)
