#!/usr/bin/env python3
"""Regenerates /verif/MANIFEST.json from the table below (kept valid at all times)."""
import json, os
V = os.path.dirname(os.path.dirname(os.path.abspath(__file__)))
ENV = "PATH=/opt/veriftools/go1.26.8/bin:$PATH GOTOOLCHAIN=local GOFLAGS=-mod=mod GOPROXY=off GOSUMDB=off"

# id -> (technique, level text, level note, design ref)
claimed = {
 "C05": ("capability-flow (store→writer narrowing) over the VTA call graph from every db.Helper closure; dominance check of commit-on-nil in each Helper implementation; field-store ownership for in-memory state",
         "Decides the structural mechanism of atomicity on every path and call site: all persistent effects reachable from the six store/revert/finalise closures go through the one batch; every db.Helper implementation commits only when the callback returned nil; direct-store writers form a frozen table; in-memory state mutated inside a closure must be compensated on commit failure (today it is not: known finding F3). It does not decide the database image after a crash (Pebble, fsync) nor multi-batch pruning.",
         "trusted: go/types, go/ssa, VTA call graph (x/tools v0.50.0); reflection/unsafe/cgo not followed; db backends (db/memory, db/pebble*, db/remote) are the trusted primitives; assumption triedb.New(nil) re-checked each run",
         "DESIGN.md §5 C05"),
 "C03": ("sentinel-error discipline (contradiction rule) over resolved call sites; bucket×diff-section pairing from resolved bucket effects; term comparison of key builders; dominance of retention/deployment gates",
         "Decides the plumbing of the history encodings on every call site: each caller of a function that may return the 'no log entry' sentinel classifies it; every history bucket × diff section logged by Update is un-logged by Revert; history writer keys extend the reader prefixes by an 8-byte big-endian block number; historical views pass the retention gate and the deployment-height probe. It does not decide the off-by-one semantics of valueAt (that the value returned is the value as of block n).",
         "trusted: go/types, go/ssa, VTA call graph; hand-confirmed tables of sentinel-returning functions and key helpers (a rename makes the rule UNDECIDED, never silently green)",
         "DESIGN.md §5 C03"),
 "C04": ("resolved bucket-effect sets (context-sensitive backward slicing of db keys) over the call graph, Store closure vs RevertHead closure; dominance for root authentication; field-store ownership",
         "Decides that revert is the structural inverse of store at bucket granularity for both state backends (every bucket Put by the Store closure is Deleted/range-deleted by the RevertHead closure inside the same batch), that the reverse diff can be built for every entry (sentinel rule), that Revert authenticates the root before mutating and before persisting, and that the in-memory running filter is only written by its forward/inverse steps. It does not decide value-level observational equality or fork convergence.",
         "trusted: go/types, go/ssa, VTA; key→bucket resolution follows db.Bucket.Key, typed buckets, nodeKeyByPath, legacy trie prefixes; unresolved Put keys fail the rule",
         "DESIGN.md §5 C04"),
 "C16": ("guarded-unsigned-subtraction analysis (dominating facts, max/min/modulo/alignment idioms, monotone counters, caller preconditions) on SSA; CFG must-pass-through for floor publication; resolved bucket effects for who-deletes and the read/delete disjointness of the multi-commit prune phase",
         "Decides that no floor computation in pruner/ or the history-prune migrator can wrap, that the retention floor is published (monotonically, by CAS) before anything is deleted and with the same bound, that prune bounds are head−retained under the L1 guards with the time floor only lowering them, that the header/hash→number carve-outs are kept, that only revert/pruner/migrations delete block and history buckets, and that the resumable prune phase never deletes what it or the resume probe reads. It does not decide data integrity under arbitrary interleavings or min-age timing.",
         "trusted: go/types, go/ssa, VTA; term equality is used for repeated loads of the same field (assumes no intervening mutation); reviewed per-site exceptions are listed with reasons in engine/c16.go",
         "DESIGN.md §5 C16"),
 "C12": ("must-hold condition sets in DNF (dominating branches, &&/|| recovered from φ-nodes, boolean helpers inlined) at every rule action site of the generic tendermint SSA bodies, matched against the paper's enabling conditions; field-store ownership; term comparison of threshold formulas",
         "Decides that the implemented rules are the Tendermint paper's rules: every conjunct of lines 22/28/34/36/44/47/49/55 and of the timeout handlers holds on every path to its action; the value is prevoted only under Valid ∧ lock condition; votes are only built by setStepAndSend* under the right step, which they advance; lock/valid/height/round/flags are written only by their owning actions; q=⌈2N/3⌉, f=⌊(N−1)/3⌋, ≥q and >f comparisons, one ballot per validator and kind; proposals are accepted only from the proposer of their own height/round. Agreement itself follows from the paper's proof and is not re-proved; adversarial schedules and liveness are not decided.",
         "trusted: go/types, go/ssa (generic bodies), the condition canonicaliser; the paper's rule table in engine/c12.go; a rule rewritten beyond the recognised term forms fails as a violation/undecided and must be re-confirmed by hand",
         "DESIGN.md §5 C12"),
 "C13": ("CFG must-pass-through (paths avoiding the flush block may only use the isReplaying / !RequiresWALFlush edges) in Driver.execute; constant-return check of RequiresWALFlush per type-switch arm; who-may-call over resolved call sites; shape of action-list literals; call-graph reachability from replay to non-logged non-deterministic sources",
         "Decides the write-ahead ordering: no broadcast or commit is reachable without the per-action WAL flush that covers its cause; every peer-visible action type requires a flush; only the driver broadcasts and drives the WAL; every action list with a visible effect starts with the WriteWAL of its cause and messages are recorded in the vote counter unconditionally; commit is OnCommit(success) → DeleteWALEntries → Flush; replay covers every WAL entry type; replay must not re-derive values from non-logged non-deterministic sources (today it does: known finding F4). Equality of the recovered state and what survives a crash are not decided.",
         "trusted: go/types, go/ssa, VTA extended with generic origins; driver functions are analysed on their generic bodies",
         "DESIGN.md §5 C13"),
 "C14": ("dominance and must-hold DNF conditions on the SSA/CFG of consensus/walstore (sync-then-acknowledge, abort-on-failure, commit-then-index, watermark write order, prune filters), field/map-store ownership, value identity of the truncation offset",
         "Decides the durability orderings the recovery argument rests on: the synced offset and the committed acknowledgement are produced only after the fsync wait completed without error; failed appends truncate back to the last synced offset; the live index changes only on the committed branch and in replay; the prune watermark is written write→sync→close→rename→syncDir and is durable before obsolete files are removed; live path, replay path and the store API apply the same watermark filter, which only grows; only the newest log tolerates a torn tail and the tail is cut at the offset reported with the read error; no new writer while a repair is pending. Crash images themselves (torn bytes, Pebble's record format, fsync semantics) are not decided.",
         "trusted: go/types, go/ssa, the condition canonicaliser; pebble's wal/record packages are outside the analysed code",
         "DESIGN.md §5 C14"),
 "C06": ("who-may-call over the resolved call graph; must-hold DNF at the creation of the store closure; SSA value identity between the verified block/commitments and what is stored; CFG post-dominance of the new-head notification; field-store guards for the reorg range",
         "Decides the safety half of sync: only the sync store task extends the chain and only after SanityCheckNewHeight succeeded for that very block with the commitments that check returned; only sync (and the offline tool) reverts; every stored block is announced exactly there, in storage order, from the single producer; a local block at or below the last possibly valid height is reverted only after comparison with the source; a pending reorg range is extended, never overwritten; succession is checked before any write. Convergence, liveness and schedule-dependent reorg ranges are not decided.",
         "trusted: go/types, go/ssa, VTA; sync's goroutine structure (stream callbacks run in order) is taken from the code's comments, not analysed",
         "DESIGN.md §5 C06"),
 "C02": ("labelled forward dataflow (struct-field labels → hash sinks) over SSA def-use incl. closures, per version arm; must-hold DNF at dispatch and success exits; exhaustiveness of the transaction type switch; dominance of the succession check",
         "Decides that every committed field participates in its hash (a frozen, protocol-derived table of ~150 field×formula obligations over transaction, block, receipt, event, state-diff and cairo0 class hashes), that formulas are dispatched under the protocol's version thresholds, that the success exits of SanityCheckNewHeight/VerifyBlockHash/VerifyTransactions/VerifyClassHashes are reachable only with every comparison passed, that TransactionHash covers every transaction type, and that Store checks succession before any write. It does not decide that the computed hashes equal the network's, nor collision resistance.",
         "trusted: go/types, go/ssa; flow is over-approximate (a call propagates taint from any argument to its result and pointer arguments), which can only hide a missing field, never invent a violation; the field table is hand-confirmed against the code and the Starknet hash specifications",
         "DESIGN.md §5 C02"),
 "C01": ("canonical term extraction and comparison of commitment formulas in both state backends; must-hold DNF at the formula's case exits; referenced hash-family symbols per trie role; dominance of root comparisons; allocation/copy sites of trie2 nodes must set fresh flags; field-store ownership of the legacy trie's dirty set; path check that the node set returned by Commit() is consumed",
         "Decides that the formulas that combine roots are the protocol's and identical in both backends (contract commitment, class leaf, state commitment incl. the 0.14.0 rule and domain constants), that every trie role is built with its hash family in both backends and in both temp-trie backends, that Update/Revert/Finalise authenticate the root before and after mutating, that trie2 never returns a structurally modified node with a stale cached hash, that the legacy trie's dirty set is only cleared after recomputation, and that committed (incl. deleted) nodes always reach the caller. It does not decide that either trie computes the Merkle-Patricia root of its key/value set, nor order/restart independence.",
         "trusted: go/types, go/ssa; formula recognition is by canonical term: a formula rewritten beyond the recognised form fails and must be re-confirmed by hand",
         "DESIGN.md §5 C01"),
 "C15": ("sibling cross-check of the backend implementations: sentinel translation (must-hold DNF at returns), dominance of commit-on-nil, guarded upper bounds, go/types method-set checks, own-writes-first rule for the in-memory batch, single critical section per reader",
         "Decides the conventions that are visible in code shape and on which callers rely: absent keys are reported identically by every Has/Get of DB/batch/snapshot in both Pebble backends; every Helper commits only on success; every NewIterator applies UpperBound(prefix) iff asked; all backend types implement the interfaces they are used as; BufferBatch replays deletes as deletes; the in-memory batch consults its own pending writes before the committed data; in-memory readers use one critical section. Behavioural equivalence of iterators, range deletes, snapshot isolation and batch ordering across backends is differential and not decided.",
         "trusted: go/types, go/ssa; Pebble itself is outside the analysed code",
         "DESIGN.md §5 C15"),
 "C19": ("null-consistency (Engler) over sparse []*Unit slices with must-hold DNF; sibling term comparison of the Merkle leaf between producer, reconstructor and validator; field-set comparison of Unit literals vs validator reads; dominance of validation steps; writer/reader agreement of the length prefix; guarded unsigned subtraction",
         "Decides crash-freedom for absent shards (no element of a sparse unit slice is dereferenced without a nil test), agreement between producer and verifier on what a Merkle leaf is (today they disagree: known finding F7), completeness of Unit literals w.r.t. what the validator reads, the validation order (record only after duplicate/origin/Merkle/signature checks; no slice indexed by the unvalidated shard index), root check before unpadding, and that the writer places the message at the offset the varint encoder reported. Bit-exact Reed–Solomon reconstruction for all subsets is not decided.",
         "trusted: go/types, go/ssa; reedsolomon and merkle packages are treated as black boxes",
         "DESIGN.md §5 C19"),
 "C20": ("field-store ownership and map-origin analysis (destination of maps.Copy / index assignment traced back through φ, parameters and call results to nil/make/maps.Clone); who-may-call; loop-exit analysis of parent-pointer walks; must-hold DNF of overlay lookups; labelled flow for StateDiff.Merge; guarded unsigned subtraction",
         "Decides immutability of published entries (no in-place store to a chain node or pre-confirmed entry, no mutation of a map reachable from one), CAS-only publication by a single writer, that every walk along parent pointers is bounded by the view's length, that every pending.State reader consults its overlay sections before the head state, that views merge oldest-first over a base at oldest−1 with all seven diff sections, and that the contiguity arithmetic cannot wrap (three reviewed exceptions). It does not decide that concurrent observations equal the model overlay nor the poller protocol.",
         "trusted: go/types, go/ssa, VTA; unsafe/reflection not followed; three subtraction sites rest on reviewed structural invariants listed in engine/c20.go",
         "DESIGN.md §5 C20"),
 "C17": ("bucket attribution and who-may-call over the resolved call graph; must-hold DNF at every buffer operation of the L1 client; field-access ownership and goroutine-entry reachability for confinement; field-set check of StateUpdate literals; value identity of the update channel; guarded unsigned subtraction",
         "Decides that the L1 head record has a single writer chain ending in the L1 client, that the head is chosen only among buffered commits at or below the provider's finalised height keeping the highest, that finalised entries leave the buffer and removals drop every entry at or above the removed height, that the buffer is confined to the client's own loop (no goroutine or function value reaches it), that geth logs keep their Removed flag and reference height, and that resubscription reuses the channel being read. It does not decide monotonicity across restarts nor behaviour under subscription-failure orderings.",
         "trusted: go/types, go/ssa, VTA; go-ethereum's subscription semantics are outside the analysed code",
         "DESIGN.md §5 C17"),
 "C18": ("must-hold DNF at the applied-bit write and at the runner's success exits; SSA value identity of the commit batch; term check of Migrate implementations' (nil, ctx-error) returns; dominance of the target-version write over the migration loop (range-over-func aware); constant evaluation (go/types) of persisted identifiers against a recorded history",
         "Decides the runner's bookkeeping contract (applied bit only after Migrate returned a nil state and a nil-or-context error, in one batch with the resume-state deletion; resume state persisted when non-nil), each migration's side of it (no nil state with a context error), validation before a runner exists, the full target version persisted once before the first migration, that an already-migrated block is never rewritten by the block-transactions re-run, and that bucket byte values, CBOR registration order and migration indices extend the recorded history. It does not decide that converted data equals the original nor resumability of each pipeline at each interruption point.",
         "trusted: go/types (constant evaluation), go/ssa; package node has no SSA in this sandbox (jemalloc) and is read from its syntax tree; the recorded history tables live in engine/c18hist.go and engine/c18.go",
         "DESIGN.md §5 C18"),
 "C10": ("dominance of the hash comparison over every use of a proof node and every success return (the compared value must be the content hash Node.Hash(hashFn)); mirror-branch term check in the range verifier; value-identity of the state view in the storage-proof RPC handlers",
         "Decides the soundness structure of proof verification: both VerifyProof implementations recompute each node's hash from its content and compare it with the expected hash before interpreting the node or returning a result, a missing node is an error, the range verifier cuts the side opposite to the boundary proof that points into a fork edge, and the storage-proof RPC (v8/v9/v10) proves and reports roots from one state view after the supported-block check. Completeness (honest proofs verify), absence-proof divergence cases and hash correctness are value-level and not decided.",
         "trusted: go/types, go/ssa; Node.Hash implementations are assumed to hash the node's content",
         "DESIGN.md §5 C10"),
 "C07": ("go/types struct-shape comparison (effective CBOR keys with promotion, type identity up to one pointer level) between projections and stored structs; SSA value identity of mapped results; interface-implementer vs registry cross-check; per-bucket codec-family agreement from resolved bucket attribution",
         "Decides that every partial-decoding projection agrees with the struct it projects (keys, types, complete key set), that projections are mapped one-to-one and from the fields they claim, that the raw block blob is copied before it leaves the database callback, that every Transaction/ClassDefinition/TrieNode implementation is registered exactly once, that index slices are paired with their own blob section, and that per bucket the Put encoder and Get decoder families agree. Round-trip identity of values, offsets inside the blob and nil-vs-empty are not decided.",
         "trusted: go/types, go/ssa; fxamacker/cbor's key derivation is modelled (tag name, else field name; shallower embedded fields win)",
         "DESIGN.md §5 C07"),
}
pending = {}  # id -> reason (properties not claimed)
props = [json.loads(l) for l in open(os.path.join(V, "properties.jsonl"))]
checks, na = [], []
for p in props:
    i = p["id"]
    if i in claimed:
        tech, text, note, ref = claimed[i]
        checks.append({
            "property_id": i,
            "quick_cmd": "./check %s quick" % i,
            "thorough_cmd": "./check %s thorough" % i,
            "evidence_file": "evidence/%s.json" % i,
            "replay_cmd_template": "cat {path}",
            "engine": "junocheck",
            "level_claimed": {"category": "other", "text": text, "design_ref": ref},
            "level_note": note,
            "technique": "static analysis: " + tech,
        })
    else:
        na.append({"property_id": i, "reason": pending.get(i, "static check for this property is designed (DESIGN.md §5) but not yet built in this revision; not claimed until its rules run clean on the unchanged tree")})
m = {
 "version": 1,
 "setup_cmd": "cd /verif/engine && env %s go build -o junocheck . && ./junocheck -prop WARM -verif /verif >/dev/null 2>&1; true" % ENV,
 "hooks": {"guard": "verif", "enable": "none needed: the analyzer reads /repo's source; no instrumentation is compiled into juno", "baseline_off_cmd": "cd /repo && GOFLAGS=-mod=mod GOPROXY=off go test -vet=off -count=1 -timeout 25m ./...", "source_commits": [], "add_only": True},
 "engines": [{"name": "junocheck", "path": "engine", "serves_properties": sorted(claimed), "kind_free_text": "custom whole-module static analyzer (go/packages + go/types + go/ssa + VTA call graph + dominators); one rule table per property; positive-control fixtures injected via go/packages Overlay"}],
 "checks": checks,
 "not_applicable": na,
 "notes": "All checks are static analysis of /repo's current working tree; nothing from juno is executed. known_findings.json lists genuine defects by rule+construct; seeded/ holds independently written breaking changes used to validate the rules.",
}
json.dump(m, open(os.path.join(V, "MANIFEST.json"), "w"), indent=1)
print("claimed", len(checks), "not claimed", len(na))
