#!/bin/sh
# usage: tools/import_refactors.sh C11 C13 ...  — copies /tmp/refactor_out/<ID>/R*/ into /verif/refactors/<ID>-R*/ (patch must apply to /repo HEAD)
V=$(cd "$(dirname "$0")/.." && pwd)
for id in "$@"; do
  for d in /tmp/refactor_out/$id/R*/; do
    r=$(basename $d)
    [ -s $d/patch.diff ] || { echo "$id-$r: no patch"; continue; }
    if git -C /repo apply --check $d/patch.diff 2>/dev/null; then
      mkdir -p $V/refactors/$id-$r; cp $d/patch.diff $V/refactors/$id-$r/; [ -f $d/notes.md ] && cp $d/notes.md $V/refactors/$id-$r/
      [ -f $V/refactors/$id-$r/meta.json ] || echo '{}' > $V/refactors/$id-$r/meta.json
      echo "$id-$r imported"
    else echo "$id-$r DOES NOT APPLY"; fi
  done
done
