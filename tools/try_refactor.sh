#!/bin/sh
# usage: tools/try_refactor.sh <refactor-name> <prop>[,<prop>...]  — applies the stored refactoring to /repo, runs the checks, restores /repo
V=$(cd "$(dirname "$0")/.." && pwd)
git -C /repo diff --quiet || { echo "/repo dirty"; exit 2; }
git -C /repo apply $V/refactors/$1/patch.diff || { echo APPLY-FAILED; exit 2; }
( cd $V/engine && PATH=/opt/veriftools/go1.26.8/bin:$PATH GOTOOLCHAIN=local GOFLAGS=-mod=mod GOPROXY=off GOSUMDB=off go build -o junocheck . ) 
mkdir -p /tmp/try_scratch; cp $V/known_findings.json /tmp/try_scratch/; ln -sfn $V/engine /tmp/try_scratch/engine
PATH=/opt/veriftools/go1.26.8/bin:$PATH GOTOOLCHAIN=local GOFLAGS=-mod=mod GOPROXY=off GOSUMDB=off $V/engine/junocheck -prop $2 -verif /tmp/try_scratch 2>&1 | grep -E "^(VIOLATION|UNDECIDED) C|SUMMARY|BROKEN" | cut -c1-${WIDTH:-330}
git -C /repo checkout -- . ; git -C /repo clean -fdq
