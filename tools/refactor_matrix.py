#!/usr/bin/env python3
"""Runs every behaviour-preserving refactoring under /verif/refactors (or, with --import, first copies those found in
/tmp/refactor_out/<ID>/R*/ ) against all claimed checks. A refactoring must raise NO alarm; every VIOLATION/UNDECIDED line
on it is a false alarm of the rule. /repo is restored after each one. Results go to refactors/<name>/meta.json."""
import json, os, re, subprocess, sys, glob, shutil
V = os.path.dirname(os.path.dirname(os.path.abspath(__file__)))
env = dict(os.environ, PATH='/opt/veriftools/go1.26.8/bin:' + os.environ['PATH'], GOTOOLCHAIN='local', GOFLAGS='-mod=mod', GOPROXY='off', GOSUMDB='off')
args = sys.argv[1:]
if args and args[0] == '--import':
    for d in sorted(glob.glob('/tmp/refactor_out/C*/R*/')):
        if not os.path.exists(d + 'patch.diff'): continue
        pid, r = d.rstrip('/').split('/')[-2:]
        dst = f'{V}/refactors/{pid}-{r}'
        os.makedirs(dst, exist_ok=True)
        shutil.copy(d + 'patch.diff', dst + '/patch.diff')
        if os.path.exists(d + 'notes.md'): shutil.copy(d + 'notes.md', dst + '/notes.md')
    args = args[1:]
subprocess.check_call('go build -o junocheck .', shell=True, cwd=f'{V}/engine', env=env)
scratch = '/tmp/seeded_scratch_verif'
os.makedirs(scratch, exist_ok=True)
subprocess.call(f'cp {V}/known_findings.json {scratch}/', shell=True)
if subprocess.call('git -C /repo diff --quiet', shell=True) != 0:
    sys.exit('/repo dirty')
rows = []
for d in sorted(glob.glob(f'{V}/refactors/*/')):
    name = os.path.basename(d.rstrip('/'))
    if args and name not in args: continue
    if subprocess.call(f'git -C /repo apply --3way {d}/patch.diff >/dev/null 2>&1 && git -C /repo reset -q', shell=True) != 0:
        rows.append((name, 'APPLY-FAILED', [])); subprocess.call('git -C /repo checkout -- . && git -C /repo clean -fdq', shell=True); continue
    try:
        b = subprocess.run('go build ./... 2>&1 | grep -v jemalloc | grep -v "^#" | head -5', shell=True, cwd='/repo', env=dict(os.environ, GOFLAGS='-mod=mod', GOPROXY='off'), stdout=subprocess.PIPE, text=True).stdout
        out = subprocess.run(f'{V}/engine/junocheck -prop all -verif {scratch}', shell=True, env=env, stdout=subprocess.PIPE, stderr=subprocess.STDOUT, text=True).stdout
    finally:
        subprocess.call('git -C /repo checkout -- . && git -C /repo clean -fdq', shell=True)
    alarms = sorted(set(re.findall(r'^(?:VIOLATION|UNDECIDED) (C\d+/[\w-]+ construct=.{0,120})', out, re.M)))
    broken = re.findall(r'^(BROKEN\S*|VACUOUS) .*', out, re.M)
    meta = {'alarms': alarms, 'broken': broken, 'build': b.strip()}
    json.dump(meta, open(f'{d}/meta.json', 'w'), indent=1)
    rows.append((name, 'silent' if not alarms and not broken else 'ALARM', alarms + broken))
for r in rows:
    print(f'{r[0]:10} {r[1]:8} ' + ' | '.join(r[2])[:400])
