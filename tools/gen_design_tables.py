#!/usr/bin/env python3
"""Regenerates the generated blocks of DESIGN.md (between <!-- BEGIN GENERATED:x --> / <!-- END GENERATED:x -->)
from evidence/*.json (rules and obligation counts as measured by the last run) and seeded/*/meta.json (catch matrix)."""
import json, glob, os, re
V = os.path.dirname(os.path.dirname(os.path.abspath(__file__)))
props = {json.loads(l)['id']: json.loads(l) for l in open(f'{V}/properties.jsonl')}

def rules_block():
    out = []
    for f in sorted(glob.glob(f'{V}/evidence/C[0-9][0-9].json')):
        d = json.load(open(f)); c = d['coverage']; pid = d['property_id']
        out.append(f"#### {pid} — {props[pid]['title']}\n")
        out.append(c['explanation'].strip() + "\n")
        out.append("| rule | obligations on the current tree | OK | known | fixture controls |")
        out.append("|---|---|---|---|---|")
        for r in sorted(c['per_rule']):
            pr = c['per_rule'][r]
            n = sum(v for k, v in pr.items() if k != 'FIXTURE')
            out.append(f"| `{r}` | {n} | {pr.get('OK',0)} | {pr.get('KNOWN',0)} | {pr.get('FIXTURE',0)} |")
        st = c.get('rule_self_test', {})
        out.append(f"\nTotal {c['obligations']} obligations, {c['discharged']} discharged, {c.get('known_findings',0)} known findings; "
                   f"vacuity floors: {json.dumps(c.get('vacuity_floors') or {})}; rules with a mandatory positive control: {', '.join(c['fixture_controls']['required_rules'] or []) or '—'}.\n")
    return "\n".join(out)

def first_line(path):
    try:
        for l in open(path):
            l = l.strip().lstrip('#').strip()
            if l: return l
    except OSError:
        pass
    return ''

def matrix_block():
    out = ["| seeded change | breaks | what it does | reported by |", "|---|---|---|---|"]
    for d in sorted(glob.glob(f'{V}/seeded/*/')):
        name = os.path.basename(d.rstrip('/'))
        m = json.load(open(d + 'meta.json'))
        what = m.get('kind') or first_line(d + 'notes.md')
        what = re.sub(r'^C\d\d\s*/\s*[A-Z]\s*[—-]\s*', '', what).replace('|', '/')
        det = ', '.join(f'`{r}`' for r in m.get('detected_by', [])) or '**missed**'
        out.append(f"| {name} | {m.get('breaks','')} | {what[:230]} | {det} |")
    return "\n".join(out)

blocks = {'rules': rules_block(), 'matrix': matrix_block()}
p = f'{V}/DESIGN.md'
s = open(p).read()
for k, v in blocks.items():
    pat = re.compile(r'(<!-- BEGIN GENERATED:%s -->\n).*?(<!-- END GENERATED:%s -->)' % (k, k), re.S)
    if not pat.search(s):
        raise SystemExit(f'marker {k} missing in DESIGN.md')
    s = pat.sub(lambda m: m.group(1) + v + "\n" + m.group(2), s)
open(p, 'w').write(s)
print('DESIGN.md tables regenerated')
